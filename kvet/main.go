// kvet: repository-specific static checker for the go-kardia properties C01..C20.
package main

import (
	"encoding/json"
	"flag"
	"fmt"
	"os"
	"runtime/debug"
	"sort"
	"strings"
	"time"

	"golang.org/x/tools/go/ssa"
)

type ruleSet struct {
	Run     func(c *Ctx)
	Anchors []string // repo-relative files that must be compiled into the loaded program
}

var rules = map[string]ruleSet{}

func register(prop string, anchors []string, run func(c *Ctx)) { rules[prop] = ruleSet{run, anchors} }

func main() {
	if len(os.Args) < 2 {
		usage()
	}
	switch os.Args[1] {
	case "check":
		os.Exit(cmdCheck(os.Args[2:]))
	case "dump":
		os.Exit(cmdDump(os.Args[2:]))
	case "explain":
		os.Exit(cmdExplain(os.Args[2:]))
	case "controls":
		os.Exit(cmdControls(os.Args[2:]))
	case "freeze-names":
		// the names and the function list of the pinned tree, under every build configuration the checks load
		all := map[string]frozenFn{}
		for _, tags := range []string{"deadlock", "gofuzz", ""} {
			p, err := Load(LoadOpts{Root: envOr("KVET_REPO", "/repo"), NoInline: true, Tags: tags})
			if err != nil {
				fmt.Fprintln(os.Stderr, "kvet: load failed:", err)
				os.Exit(2)
			}
			for k, v := range freezeNames(p) {
				all[k] = v
			}
		}
		b, _ := json.Marshal(all)
		out := "names.json"
		if len(os.Args) > 2 {
			out = os.Args[2]
		}
		if err := os.WriteFile(out, b, 0o644); err != nil {
			fmt.Fprintln(os.Stderr, err)
			os.Exit(2)
		}
	case "list":
		var ps []string
		for p := range rules {
			ps = append(ps, p)
		}
		sort.Strings(ps)
		fmt.Println(strings.Join(ps, "\n"))
	default:
		usage()
	}
}

func usage() {
	fmt.Fprintln(os.Stderr, "usage: kvet check -prop Cxx [-tier quick|thorough] | dump -fn <name> | explain <violation.json> | controls -prop Cxx | list")
	os.Exit(2)
}

type commonFlags struct {
	root, verif, overlay, tags string
	noEvidence                 bool
}

func (cf *commonFlags) bind(fs *flag.FlagSet) {
	fs.StringVar(&cf.root, "root", envOr("KVET_REPO", "/repo"), "repository root")
	fs.StringVar(&cf.verif, "verif", envOr("KVET_VERIF", "/verif"), "verification directory (evidence, known findings)")
	fs.StringVar(&cf.overlay, "overlay", "", "go-build style overlay JSON (controls)")
	fs.StringVar(&cf.tags, "tags", "", "build tags")
	fs.BoolVar(&cf.noEvidence, "no-evidence", false, "do not write evidence files")
}

func envOr(k, d string) string {
	if v := os.Getenv(k); v != "" {
		return v
	}
	return d
}

func cmdCheck(args []string) (code int) {
	fs := flag.NewFlagSet("check", flag.ExitOnError)
	var cf commonFlags
	cf.bind(fs)
	prop := fs.String("prop", "", "property id")
	tier := fs.String("tier", envOr("VERIF_TIER", "quick"), "quick|thorough")
	fs.Parse(args)
	rs, ok := rules[*prop]
	if !ok {
		fmt.Fprintln(os.Stderr, "kvet: unknown property", *prop)
		return 2
	}
	if *tier != "quick" && *tier != "thorough" {
		*tier = "quick"
	}
	t0 := time.Now()
	var ov map[string][]byte
	if cf.overlay != "" {
		var err error
		if ov, err = loadOverlayFile(cf.overlay); err != nil {
			fmt.Fprintln(os.Stderr, "kvet: overlay:", err)
			return 2
		}
	}
	p, err := Load(LoadOpts{Root: cf.root, Tags: cf.tags, Overlay: ov})
	if err != nil {
		// a tree that does not load cannot be decided: broken check, not a verdict
		fmt.Fprintln(os.Stderr, "kvet: load failed:", err)
		return 2
	}
	c := newCtx(p, *prop, *tier)
	defer func() {
		if r := recover(); r != nil {
			fmt.Fprintf(os.Stderr, "kvet: analyser panic: %v\n%s\n", r, debug.Stack())
			c.Unres("engine", "panic", fmt.Sprint(r))
			code = c.finish(cf.verif, t0, !cf.noEvidence, nil)
			if code == 0 {
				code = 2
			}
		}
	}()
	for _, a := range rs.Anchors {
		if !p.HasFile(a) {
			c.Unres("anchor", "file "+a, "anchor file is not compiled into any loaded package (deleted, renamed or excluded by build constraints)")
		}
	}
	p.NoReturn(nil)
	rs.Run(c)
	var extra []string
	if *tier == "thorough" {
		extra = thoroughExtras(c, cf)
	}
	return c.finish(cf.verif, t0, !cf.noEvidence, extra)
}

func cmdExplain(args []string) int {
	if len(args) < 1 {
		usage()
	}
	b, err := os.ReadFile(args[0])
	if err != nil {
		fmt.Fprintln(os.Stderr, err)
		return 2
	}
	var v struct {
		Property   string     `json:"property"`
		Obligation Obligation `json:"obligation"`
	}
	if err := json.Unmarshal(b, &v); err != nil {
		fmt.Fprintln(os.Stderr, err)
		return 2
	}
	rs, ok := rules[v.Property]
	if !ok {
		return 2
	}
	p, err := Load(LoadOpts{Root: envOr("KVET_REPO", "/repo")})
	if err != nil {
		fmt.Fprintln(os.Stderr, "kvet: load failed:", err)
		return 2
	}
	c := newCtx(p, v.Property, "quick")
	p.NoReturn(nil)
	rs.Run(c)
	for _, o := range c.Obs {
		if o.Key == v.Obligation.Key {
			fmt.Printf("%s: %s [%s] at %s\n  %s\n", o.Key, o.Verdict, o.Rule, o.Site, o.Detail)
			if o.Verdict != Discharged {
				fmt.Printf("VIOLATION property=%s replay=%s\n", v.Property, args[0])
				return 1
			}
			return 0
		}
	}
	fmt.Printf("obligation %s no longer produced on the current tree\n", v.Obligation.Key)
	return 1
}

// cmdDump prints the SSA of a function with access paths (debugging aid for writing rules).
func cmdDump(args []string) int {
	fs := flag.NewFlagSet("dump", flag.ExitOnError)
	var cf commonFlags
	cf.bind(fs)
	name := fs.String("fn", "", "short function name, e.g. (*consensus.ConsensusState).enterPrecommit")
	fs.Parse(args)
	var ov map[string][]byte
	if cf.overlay != "" {
		ov, _ = loadOverlayFile(cf.overlay)
	}
	p, err := Load(LoadOpts{Root: cf.root, Tags: cf.tags, Overlay: ov})
	if err != nil {
		fmt.Fprintln(os.Stderr, err)
		return 2
	}
	p.NoReturn(nil)
	n := 0
	for _, f := range p.ModFuncs {
		if short(f.String()) == *name || (strings.HasPrefix(short(f.String()), *name+"$")) {
			dumpFn(p, f)
			n++
		}
	}
	if n == 0 {
		fmt.Println("no such function; candidates:")
		for _, f := range p.ModFuncs {
			if strings.Contains(short(f.String()), strings.Trim(*name, "()*")) {
				fmt.Println("  ", short(f.String()))
			}
		}
	}
	return 0
}

func dumpFn(p *Program, f *ssa.Function) {
	fmt.Printf("=== %s (%s) noreturn=%v\n", short(f.String()), p.Pos(f.Pos()), p.NoReturn(f))
	for _, b := range f.Blocks {
		var succ []string
		for _, s := range b.Succs {
			succ = append(succ, fmt.Sprint(s.Index))
		}
		fmt.Printf(" b%d -> %s  (%s)\n", b.Index, strings.Join(succ, ","), b.Comment)
		for _, in := range b.Instrs {
			switch x := in.(type) {
			case *ssa.If:
				fmt.Printf("    if %s   @%s\n", clip(pathOf(x.Cond), 220), p.Pos(instrPos(x)))
			case *ssa.Store, *ssa.MapUpdate, *ssa.Return, *ssa.Defer, *ssa.Go:
				fmt.Printf("    %s   @%s\n", describeInstr(in), p.Pos(instrPos(in)))
			case *ssa.Call:
				nr := ""
				if p.callNoReturn(&x.Call) {
					nr = " [noreturn]"
				}
				fmt.Printf("    %s%s   @%s\n", clip(pathOf(x), 220), nr, p.Pos(instrPos(in)))
			case *ssa.Panic:
				fmt.Printf("    panic   @%s\n", p.Pos(instrPos(in)))
			}
		}
	}
}
