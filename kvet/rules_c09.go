package main

// C09 — transaction execution conserves value and accounts for gas and nonces exactly.

import (
	"fmt"
	"go/types"
	"strings"

	"golang.org/x/tools/go/ssa"
)

func init() {
	register("C09", []string{"mainchain/blockchain/state_processor.go", "mainchain/blockchain/block_operations.go", "kvm/kvm.go", "kvm/instructions.go",
		"mainchain/kvm/kvm.go", "types/gas_pool.go", "mainchain/tx_pool/tx_pool_utils.go"}, runC09)
}

const (
	stT    = `\(\*mainchain/blockchain\.StateTransition\)`
	msgFn  = `call:iface:\(mainchain/blockchain\.Message\)\.`
	bigNew = `&alloc:new:math/big\.Int`
)

// c09Extra: rules added for round-3 seeded changes.
func c09Extra(c *Ctx) {
	createKeepsBalance(c)
	// the gas handed to a created frame is the gas charged to the creating frame: charging less creates gas (gas used then
	// exceeds what was bought, the pool grows)
	for _, name := range []string{"opCreate", "opCreate2"} {
		fn := c.Fn("kvm", "", name)
		if fn == nil {
			continue
		}
		var charged, forwarded ssa.Value
		for _, in := range findInstrs(fn, CallTo(`^\(\*kvm\.Contract\)\.UseGas$`, "")) {
			charged = callCommon(in).Args[1]
		}
		for _, in := range findInstrs(fn, CallTo(`^\(\*kvm\.KVM\)\.(Create|Create2)$`, "")) {
			args := callCommon(in).Args
			for _, a := range args {
				if bt, ok := a.Type().Underlying().(*types.Basic); ok && bt.Kind() == types.Uint64 {
					forwarded = a
				}
			}
		}
		c.Check("F", fnName(fn)+"/the gas forwarded to the new frame is the gas charged to this one", charged != nil && forwarded != nil && (charged == forwarded || pathOf(charged) == pathOf(forwarded)), fn.Pos(), 2,
			fmt.Sprintf("charged %s, forwarded %s", pathOfNil(charged), pathOfNil(forwarded)))
		c.Precedes(fn, "charge the gas", CallTo(`^\(\*kvm\.Contract\)\.UseGas$`, ""), "create", CallTo(`^\(\*kvm\.KVM\)\.(Create|Create2)$`, ""))
	}
	// the proposer drops a failed transaction without a trace: whatever the error, the state goes back to the snapshot taken
	// before it (buyGas has debited the sender before the intrinsic-gas and transfer checks can fail)
	if fn := c.Fn("mainchain/blockchain", "proposalBlock", "commitTransaction"); fn != nil {
		c.OnFailure(fn, G("ApplyTransaction error == nil", IsNil(`^call:mainchain/blockchain\.ApplyTransaction\(.*#2$`)), "RevertToSnapshot(snap)", CallTo(`\)\.RevertToSnapshot$`, ""))
		c.Precedes(fn, "take the snapshot", CallTo(`\)\.Snapshot$`, ""), "apply the transaction", CallTo(`^mainchain/blockchain\.ApplyTransaction$`, ""))
	}
}

func pathOfNil(v ssa.Value) string {
	if v == nil {
		return "<none>"
	}
	return pathOf(v)
}

func runC09(c *Ctx) {
	c.Decided = []string{
		"pre-checks dominate execution: nonce equality before buying gas; balance >= gas*price and block gas available before the sender is debited; the amount debited is gas*price",
		"gas-pool pairing: after gas was taken from the block pool every exit of the transition returns the remainder (open finding: three early error returns do not)",
		"exactly one nonce increment on every executed path (directly for calls, inside create for creations)",
		"refund is min(gasUsed/2, refund counter); the remainder is credited to the sender at the gas price and returned to the pool; the coinbase gets gasUsed*price after the refund",
		"every call frame snapshots before mutating and reverts to that snapshot on every error exit; value moves only behind CanTransfer and Transfer debits and credits the same amount",
		"a failing transaction in block commit is reverted to its own snapshot and produces no receipt; Finalise runs only on the success path",
		"the gas pool never goes negative (subtraction behind a comparison)",
	}
	c.NotDec = []string{"the balance-sum equation over arbitrary bytecode (value-level)", "gas used <= gas limit numerically", "self-destruct corner cases beyond the ordering of credit and suicide"}
	c.Floors["G"] = 14
	c.Floors["O"] = 12
	// what Finalise and Commit write is the journal's dirty set: a revert takes an address out of it only when every one
	// of its entries is undone (group owned by C08)
	c08Mechanics(c)
	c09Extra(c)
	// balances change through fresh values only (an in-place add also changes every holder of the same big.Int: the
	// journal's previous value, a copied state) — group owned by C08
	c08Copy(c)

	from := msgFn + `From\(st\.msg\)`
	gasM := msgFn + `Gas\(st\.msg\)`
	mgval := `call:\(\*math/big\.Int\)\.Mul\(` + bigNew + `, call:\(\*math/big\.Int\)\.SetUint64\(` + bigNew + `, ` + gasM + `\), st\.gasPrice\)`

	// ---- preCheck / buyGas ------------------------------------------------------------------------
	if fn := c.Fn("mainchain/blockchain", "StateTransition", "preCheck"); fn != nil {
		nonceS := `^call:iface:\(kvm\.StateDB\)\.GetNonce\(st\.state, ` + from + `\)$`
		nonceM := `^` + msgFn + `Nonce\(st\.msg\)$`
		c.Guarded(fn, "buyGas", CallTo(stT+`\.buyGas$`, ""),
			G("state nonce >= message nonce (or nonce check disabled)", Cmp(nonceS, ">=", nonceM), False(`^`+msgFn+`CheckNonce\(st\.msg\)$`)),
			G("state nonce <= message nonce (or nonce check disabled)", Cmp(nonceS, "<=", nonceM), False(`^`+msgFn+`CheckNonce\(st\.msg\)$`)))
		ok := false
		for _, in := range findInstrs(fn, AnyReturn()) {
			if pathOf(in.(*ssa.Return).Results[0]) == "call:(*mainchain/blockchain.StateTransition).buyGas(st)" {
				ok = true
			}
		}
		c.Check("F", fnName(fn)+"/returns buyGas's verdict", ok, fn.Pos(), 1, "")
	}
	if fn := c.Fn("mainchain/blockchain", "StateTransition", "buyGas"); fn != nil {
		sub := CallTo(`^iface:\(kvm\.StateDB\)\.SubBalance$`, "")
		c.Guarded(fn, "SubBalance(from, gas*price) / gas bookkeeping", Or(sub, StoreTo(`^&st\.(gas|initialGas)$`)),
			G("balance >= gas*price", Cmp(`^call:\(\*math/big\.Int\)\.Cmp\(call:iface:\(kvm\.StateDB\)\.GetBalance\(st\.state, `+from+`\), `+mgval+`\)$`, ">=", `^const:0$`)),
			G("gp.SubGas(gas) == nil", IsNil(`^call:\(\*types\.GasPool\)\.SubGas\(st\.gp, `+gasM+`\)$`)))
		for _, in := range findInstrs(fn, sub) {
			a := argPaths(callCommon(in))
			c.Check("F", fnName(fn)+"/debits the sender by gas*price", len(a) == 3 && re(`^`+from+`$`).MatchString(a[1]) && re(`^`+mgval+`$`).MatchString(a[2]), instrPos(in), 1, describeInstr(in))
		}
		c.AtMostOncePerPath(fn, "SubBalance", sub)
		for _, in := range findInstrs(fn, StoreTo(`^&st\.initialGas$`)) {
			c.Check("F", fnName(fn)+"/initialGas = msg.Gas()", re(`^`+gasM+`$`).MatchString(pathOf(in.(*ssa.Store).Val)), instrPos(in), 1, describeInstr(in))
		}
		for _, in := range findInstrs(fn, StoreTo(`^&st\.gas$`)) {
			c.Check("F", fnName(fn)+"/gas += msg.Gas()", re(`^\(st\.gas \+ `+gasM+`\)$`).MatchString(pathOf(in.(*ssa.Store).Val)), instrPos(in), 1, describeInstr(in))
		}
	}
	if fn := c.Fn("types", "GasPool", "SubGas"); fn != nil {
		c.Guarded(fn, "*gp -= amount", StoreTo(`^&?\*?gp$|^gp$`), G("*gp >= amount", Cmp(`^\*gp$`, ">=", `^amount$`)))
		for _, in := range findInstrs(fn, StoreTo(`^&?\*?gp$|^gp$`)) {
			c.Check("F", fnName(fn)+"/subtracts the amount", pathOf(in.(*ssa.Store).Val) == "(*gp - amount)", instrPos(in), 1, describeInstr(in))
		}
	}

	// ---- TransitionDb --------------------------------------------------------------------------------
	if fn := c.Fn("mainchain/blockchain", "StateTransition", "TransitionDb"); fn != nil {
		pre := G("preCheck() == nil", IsNil(`^call:`+stT+`\.preCheck\(st\)$`))
		exec := Or(CallTo(`^\(\*kvm\.KVM\)\.(Call|Create)$`, ""), CallTo(`^iface:\(kvm\.StateDB\)\.(SetNonce|AddBalance)$`, ""))
		intr := `call:mainchain/tx_pool\.IntrinsicGas\(st\.data, .*\)`
		c.Guarded(fn, "execution (Call/Create/SetNonce/fee)", exec, pre,
			G("IntrinsicGas error == nil", IsNil(`^`+intr+`#1$`)),
			G("st.gas >= intrinsic gas", Cmp(`^st\.gas$`, ">=", `^`+intr+`#0$`)),
			G("value == 0 or CanTransfer(state, from, value)", Cmp(`^call:\(\*math/big\.Int\)\.Sign\(`+msgFn+`Value\(st\.msg\)\)$`, "<=", `^const:0$`),
				True(`^call:dyn:st\.vm\.BlockContext\.CanTransfer\(st\.state, `+from+`, `+msgFn+`Value\(st\.msg\)\)$`)))
		for _, in := range findInstrs(fn, StoreTo(`^&st\.gas$`)) {
			v := pathOf(in.(*ssa.Store).Val)
			if strings.HasPrefix(v, "(st.gas - ") {
				c.Check("F", fnName(fn)+"/intrinsic gas is subtracted", re(`^\(st\.gas - `+intr+`#0\)$`).MatchString(v), instrPos(in), 1, describeInstr(in))
			}
		}
		// gas-pool pairing: after buyGas took gas from the pool every exit returns the remainder
		rel := CallTo(stT+`\.refundGas$`, "")
		sites := c.P.guardEdges(fn, pre)
		if len(sites) != 1 {
			c.Bad("O", fnName(fn)+"/gas-pool pairing", fn.Pos(), len(sites), "preCheck test not found")
		} else {
			start := sites[0].Pass.to
			nExits := 0
			for _, b := range fn.Blocks {
				ret, ok := b.Instrs[len(b.Instrs)-1].(*ssa.Return)
				if !ok {
					continue
				}
				w := &Walker{P: c.P, Stop: func(in ssa.Instruction) bool { return rel(in) }}
				hit, found := w.Reach(fn, start, 0, func(in ssa.Instruction) bool { return in == ret })
				// is this return reachable from the acquire at all?
				w2 := &Walker{P: c.P}
				_, reachable := w2.Reach(fn, start, 0, func(in ssa.Instruction) bool { return in == ret })
				if !reachable {
					continue
				}
				nExits++
				// one obligation per error value that leaves here (an exit shared by several errors returns a merged value)
				errvs := []string{"nil"}
				if len(ret.Results) == 2 {
					errvs = nil
					for _, pcase := range phiCases(ret.Results[1]) {
						errv := clip(pathOf(pcase.Val), 70)
						if errv == "nil" && len(phiCases(ret.Results[1])) > 1 {
							continue
						}
						if i := strings.Index(errv, "("); i > 0 && strings.HasPrefix(errv, "call:") {
							errv = errv[:i] + "(…)#1"
						}
						errvs = append(errvs, errv)
					}
				}
				for _, errv := range errvs {
					key := fnName(fn) + "/gas taken from the block pool is returned before the exit returning " + errv
					if found {
						c.Bad("O", key, instrPos(hit.Instr), 2, fmt.Sprintf("after buyGas's gp.SubGas the return at %s is reached without refundGas (gp.AddGas): the rejected transaction's full gas limit stays deducted from the block gas pool although its state changes are reverted; path %s", c.P.Pos(instrPos(ret)), c.P.pathStr(hit.Path)))
					} else {
						c.OK("O", key, instrPos(ret), 2, "")
					}
				}
			}
			if nExits < 2 {
				c.Unres("O", fnName(fn)+"/gas-pool pairing exits", "fewer than 2 exits after preCheck")
			}
		}
		// nonce exactly once
		setNonce := CallTo(`^iface:\(kvm\.StateDB\)\.SetNonce$`, "")
		create := CallTo(`^\(\*kvm\.KVM\)\.Create$`, "")
		call := CallTo(`^\(\*kvm\.KVM\)\.Call$`, "")
		c.AtMostOncePerPath(fn, "SetNonce or Create (nonce increment)", Or(setNonce, create))
		c.Precedes(fn, "SetNonce(from, nonce+1)", setNonce, "vm.Call", call)
		c.FollowedBy(fn, "intrinsic gas subtracted", func(in ssa.Instruction) bool {
			st, ok := in.(*ssa.Store)
			return ok && pathOf(st.Addr) == "&st.gas" && strings.HasPrefix(pathOf(st.Val), "(st.gas - ")
		}, "SetNonce or Create", Or(setNonce, create), "success return", SuccessReturn(1, ""))
		for _, in := range findInstrs(fn, setNonce) {
			a := argPaths(callCommon(in))
			ok := len(a) == 3 && re(`^`+from+`$`).MatchString(a[1]) && re(`^\(call:iface:\(kvm\.StateDB\)\.GetNonce\(st\.state, .*From\(st\.msg\)\)?\) \+ const:1\)$`).MatchString(a[2])
			c.Check("F", fnName(fn)+"/SetNonce(from, GetNonce(from)+1)", ok, instrPos(in), 1, describeInstr(in))
		}
		// fee after refund, on gasUsed*price
		fee := CallTo(`^iface:\(kvm\.StateDB\)\.AddBalance$`, "")
		c.Precedes(fn, "refundGas", rel, "coinbase fee", fee)
		c.AtMostOncePerPath(fn, "refundGas", rel)
		for _, in := range findInstrs(fn, fee) {
			a := argPaths(callCommon(in))
			ok := len(a) == 3 && a[1] == "st.vm.BlockContext.Coinbase" && re(`^call:\(\*math/big\.Int\)\.Mul\(`+bigNew+`, call:\(\*math/big\.Int\)\.SetUint64\(`+bigNew+`, call:`+stT+`\.gasUsed\(st\)\), st\.gasPrice\)$`).MatchString(a[2])
			c.Check("F", fnName(fn)+"/coinbase gets gasUsed*gasPrice", ok, instrPos(in), 1, describeInstr(in))
		}
		// the gas-used figure behind the fee and the reported result is read AFTER the refund was applied
		refs := findInstrs(fn, rel)
		if len(refs) == 1 {
			bad := ""
			check := func(root ssa.Value, what string) {
				for _, g := range callsInSlice(root, stT+`\.gasUsed$`) {
					if !instrBefore(refs[0], g) {
						bad = what + " uses gasUsed() evaluated at " + c.P.Pos(g.Pos()) + ", before refundGas at " + c.P.Pos(instrPos(refs[0]))
					}
				}
			}
			for _, in := range findInstrs(fn, fee) {
				check(callCommon(in).Args[len(callCommon(in).Args)-1], "the coinbase fee")
			}
			for _, in := range findInstrs(fn, StoreTo(`^&alloc:complit:kvm\.ExecutionResult\.UsedGas$`)) {
				check(in.(*ssa.Store).Val, "the reported UsedGas")
			}
			c.Check("O", fnName(fn)+"/fee and reported gas are computed from gasUsed() after the refund", bad == "", fn.Pos(), 3,
				bad+": the proposer is paid for gas the sender gets refunded, so value is created")
		}
		for _, in := range findInstrs(fn, StoreTo(`^&alloc:complit:kvm\.ExecutionResult\.UsedGas$`)) {
			c.Check("F", fnName(fn)+"/reported UsedGas is gasUsed()", pathOf(in.(*ssa.Store).Val) == "call:(*mainchain/blockchain.StateTransition).gasUsed(st)", instrPos(in), 1, describeInstr(in))
		}
	}
	if fn := c.Fn("mainchain/blockchain", "StateTransition", "gasUsed"); fn != nil {
		ok := false
		for _, in := range findInstrs(fn, AnyReturn()) {
			ok = pathOf(in.(*ssa.Return).Results[0]) == "(st.initialGas - st.gas)"
		}
		c.Check("F", fnName(fn)+"/is initialGas - gas", ok, fn.Pos(), 1, "")
	}
	if fn := c.Fn("mainchain/blockchain", "StateTransition", "refundGas"); fn != nil {
		used := `\(call:` + stT + `\.gasUsed\(st\) / const:2\)`
		ref := `call:iface:\(kvm\.StateDB\)\.GetRefund\(st\.state\)`
		var v string
		for _, in := range findInstrs(fn, StoreTo(`^&st\.gas$`)) {
			v = pathOf(in.(*ssa.Store).Val)
		}
		okShape := re(`^\(st\.gas \+ phi\((` + used + `\|` + ref + `|` + ref + `\|` + used + `)\)\)$`).MatchString(v)
		c.Check("F", fnName(fn)+"/refund added is a choice between gasUsed/2 and the refund counter", okShape, fn.Pos(), 1, "st.gas = "+clip(v, 200))
		// the counter is chosen exactly when gasUsed/2 exceeds it (min form)
		okMin, nCase := true, 0
		for _, in := range findInstrs(fn, StoreTo(`^&st\.gas$`)) {
			bo, isAdd := in.(*ssa.Store).Val.(*ssa.BinOp)
			if !isAdd {
				okMin = false
				continue
			}
			for _, pcase := range phiCases(bo.Y) {
				nCase++
				v := pathOf(pcase.Val)
				switch {
				case re(`^` + ref + `$`).MatchString(v):
					okMin = okMin && hasCond(pcase.Conds, `^\(`+used+` > `+ref+`\)=T$`)
				case re(`^` + used + `$`).MatchString(v):
					okMin = okMin && hasCond(pcase.Conds, `^\(`+used+` > `+ref+`\)=F$`)
				default:
					okMin = false
				}
			}
		}
		c.Check("G", fnName(fn)+"/take the refund counter <= gasUsed/2 > refund counter", okMin && nCase == 2, fn.Pos(), nCase, "the refund added must be the smaller of gasUsed/2 and the refund counter")
		add := CallTo(`^iface:\(kvm\.StateDB\)\.AddBalance$`, "")
		pool := CallTo(`^\(\*types\.GasPool\)\.AddGas$`, "")
		for _, in := range findInstrs(fn, add) {
			a := argPaths(callCommon(in))
			ok := len(a) == 3 && re(`^`+from+`$`).MatchString(a[1]) && re(`^call:\(\*math/big\.Int\)\.Mul\(`+bigNew+`, call:\(\*math/big\.Int\)\.SetUint64\(`+bigNew+`, st\.gas\), st\.gasPrice\)$`).MatchString(a[2])
			c.Check("F", fnName(fn)+"/sender gets remaining gas * price", ok, instrPos(in), 1, describeInstr(in))
		}
		for _, in := range findInstrs(fn, pool) {
			a := argPaths(callCommon(in))
			c.Check("F", fnName(fn)+"/pool gets the remaining gas back", len(a) == 2 && a[0] == "st.gp" && a[1] == "st.gas", instrPos(in), 1, describeInstr(in))
		}
		c.OnEveryPath(fn, "gp.AddGas", pool, "return", AnyReturn())
		c.OnEveryPath(fn, "AddBalance(sender)", add, "return", AnyReturn())
		c.Precedes(fn, "refund added to st.gas", StoreTo(`^&st\.gas$`), "sender credit / pool return", Or(add, pool))
	}

	c.frameRules()
	if fn := c.Fn("kai/state", "StateDB", "Suicide"); fn != nil {
		zero := func(in ssa.Instruction) bool {
			st, ok := in.(*ssa.Store)
			return ok && strings.HasSuffix(pathOf(st.Addr), ".data.Balance") && pathOf(st.Val) == "&alloc:new:math/big.Int"
		}
		c.OnEveryPath(fn, "zero the account's balance", zero, "return true", ReturnWith(0, `^const:true$`))
		c.OnEveryPath(fn, "journal the previous balance", CallTo(`^\(\*kai/state\.journal\)\.append$`, ""), "return true", ReturnWith(0, `^const:true$`))
		c.Precedes(fn, "journal.append(suicideChange)", CallTo(`^\(\*kai/state\.journal\)\.append$`, ""), "zero the balance", zero)
	}
	for _, name := range []string{"Call", "create"} {
		if fn := c.Fn("kvm", "KVM", name); fn != nil {
			tr := CallTo(`^\(\*kvm\.KVM\)\.Transfer$`, "")
			if len(findInstrs(fn, tr)) == 0 {
				tr = func(in ssa.Instruction) bool {
					cc := callCommon(in)
					return cc != nil && strings.Contains(calleeName(cc), "Transfer") && !strings.Contains(calleeName(cc), "CanTransfer")
				}
			}
			can := `CanTransfer\(kvm\.StateDB, call:iface:\(kvm\.ContractRef\)\.Address\(caller\), value\)$`
			g := G("CanTransfer(state, caller, value)", True(can))
			if name == "Call" {
				g = G("value == 0 or CanTransfer(state, caller, value)", True(can), Cmp(`^call:\(\*math/big\.Int\)\.Sign\(value\)$`, "==", `^const:0$`))
			}
			c.Guarded(fn, "Transfer", tr, g)
		}
	}
	if fn := c.Fn("mainchain/kvm", "", "Transfer"); fn != nil {
		s := findInstrs(fn, CallTo(`\)\.SubBalance$`, ""))
		a := findInstrs(fn, CallTo(`\)\.AddBalance$`, ""))
		ok := len(s) == 1 && len(a) == 1
		if ok {
			sa, aa := argPaths(callCommon(s[0])), argPaths(callCommon(a[0]))
			ok = len(sa) == 3 && len(aa) == 3 && sa[1] == "sender" && aa[1] == "recipient" && sa[2] == "amount" && aa[2] == "amount"
		}
		c.Check("F", fnName(fn)+"/debits sender and credits recipient by the same amount", ok, fn.Pos(), 2, "")
	}
	if fn := c.Fn("mainchain/kvm", "", "CanTransfer"); fn != nil {
		ok := false
		for _, in := range findInstrs(fn, AnyReturn()) {
			ok = re(`^\(call:\(\*math/big\.Int\)\.Cmp\(call:iface:\(kvm\.StateDB\)\.GetBalance\(db, addr\), amount\) >= const:0\)$`).MatchString(pathOf(in.(*ssa.Return).Results[0]))
		}
		c.Check("F", fnName(fn)+"/is balance >= amount", ok, fn.Pos(), 1, "")
	}
	if fn := c.Fn("kvm", "", "opSuicide"); fn != nil {
		c.Precedes(fn, "AddBalance(beneficiary, balance)", CallTo(`\)\.AddBalance$`, ""), "Suicide(self)", CallTo(`\)\.Suicide$`, ""))
		for _, in := range findInstrs(fn, CallTo(`\)\.AddBalance$`, "")) {
			a := argPaths(callCommon(in))
			c.Check("F", fnName(fn)+"/beneficiary gets the contract's whole balance", len(a) == 3 && strings.Contains(a[2], "GetBalance(") && strings.Contains(a[2], "Address("), instrPos(in), 1, describeInstr(in))
		}
	}

	// ---- block commit: skipped transactions ------------------------------------------------------------
	if fn := c.Fn("mainchain/blockchain", "BlockOperations", "commitBlock"); fn != nil {
		apply := CallTo(`^mainchain/blockchain\.ApplyTransaction$`, "")
		stSnap := CallTo(`^\(\*kai/state\.StateDB\)\.Snapshot$`, "")
		stRev := CallTo(`^\(\*kai/state\.StateDB\)\.RevertToSnapshot$`, "")
		c.Precedes(fn, "state.Snapshot()", stSnap, "ApplyTransaction", apply)
		errNil := G("ApplyTransaction error == nil", IsNil(`^call:mainchain/blockchain\.ApplyTransaction\(.*\)#2$`))
		c.OnFailureTo(fn, errNil, "RevertToSnapshot(snap)", stRev, func(in ssa.Instruction) bool {
			// next loop iteration or function exit
			_, isRet := in.(*ssa.Return)
			return isRet || apply(in)
		})
		for _, in := range findInstrs(fn, stRev) {
			a := argPaths(callCommon(in))
			c.Check("F", fnName(fn)+"/reverts to the snapshot taken before this transaction", len(a) == 2 && a[1] == "call:(*kai/state.StateDB).Snapshot(state)", instrPos(in), 1, describeInstr(in))
		}
		isAppend := func(in ssa.Instruction) bool {
			cc := callCommon(in)
			return cc != nil && calleeNameNoPath(cc) == "append" && strings.Contains(callPath(cc), "ApplyTransaction(")
		}
		c.Guarded(fn, "append receipt", isAppend, errNil)
		for _, in := range findInstrs(fn, apply) {
			a := argPaths(callCommon(in))
			c.Check("F", fnName(fn)+"/all transactions share the block's gas pool and state", len(a) == 9 && strings.Contains(a[3], "AddGas(") && a[4] == "state", instrPos(in), 1, describeInstr(in))
		}
	}
	if fn := c.Fn("mainchain/blockchain", "", "ApplyTransaction"); fn != nil {
		fin := CallTo(`^\(\*kai/state\.StateDB\)\.Finalise$`, "")
		c.Guarded(fn, "statedb.Finalise / usedGas += / receipt", Or(fin, StoreTo(`^&?\*?usedGas$|^usedGas$`), CallTo(`^types\.NewReceipt$`, "")),
			G("AsMessage error == nil", IsNil(`^call:\(\*types\.Transaction\)\.AsMessage\(.*\)#1$`)),
			G("ApplyMessage error == nil", IsNil(`^call:mainchain/blockchain\.ApplyMessage\(.*\)#1$`)))
		for _, in := range findInstrs(fn, StoreTo(`^&?\*?usedGas$|^usedGas$`)) {
			c.Check("F", fnName(fn)+"/cumulative gas grows by the result's UsedGas", re(`^\(\*usedGas \+ call:mainchain/blockchain\.ApplyMessage\(.*\)#0\.UsedGas\)$`).MatchString(pathOf(in.(*ssa.Store).Val)), instrPos(in), 1, describeInstr(in))
		}
	}
}

// errorExitsRevert: in a call-frame function, when the frame's error is non-nil at the end, RevertToSnapshot runs.
func (c *Ctx) errorExitsRevert(fn *ssa.Function, revert SinkSel) {
	key := fnName(fn) + "/RevertToSnapshot is behind the frame's error test and reachable on it"
	revs := findInstrs(fn, revert)
	if len(revs) == 0 {
		c.Bad("O", key, fn.Pos(), 0, "no RevertToSnapshot in "+fnName(fn)+": a failed frame leaves its state changes behind")
		return
	}
	// every revert sits on the err != nil (or code-size) side of a test
	g := G("err != nil (or max code size exceeded)", NotNil(`err|phi|call:kvm\.run|RunPrecompiledContract`), True(`^\(call:len\(.*\) > const:\d+\)$`), True(`phi`))
	sites := c.P.guardEdges(fn, g)
	c.Check("O", key, len(sites) > 0, instrPos(revs[0]), len(revs)+len(sites), "")
	// after run(...) every path to a return with a possibly non-nil error passes the error test
	run := CallTo(`^kvm\.run$|^kvm\.RunPrecompiledContract$`, "")
	runs := findInstrs(fn, run)
	if len(runs) == 0 {
		c.Unres("O", fnName(fn)+"/run call", "no run() in frame function")
		return
	}
	key2 := fnName(fn) + "/after run() the error test with RevertToSnapshot is on every path to the return"
	for _, r := range runs {
		// find the `err != nil` If that guards the revert: the block containing the revert's predecessor If
		rm := map[edge]bool{}
		w := &Walker{P: c.P, Removed: rm, Stop: func(in ssa.Instruction) bool {
			if iff, ok := in.(*ssa.If); ok {
				// stop at an If one of whose successors (transitively within 2 blocks) reverts
				for _, s := range iff.Block().Succs {
					for _, x := range s.Instrs {
						if revert(x) {
							return true
						}
					}
				}
			}
			return false
		}}
		hit, found := w.Reach(fn, r.Block(), instrIndex(r)+1, func(in ssa.Instruction) bool { _, ok := in.(*ssa.Return); return ok })
		if found {
			c.Bad("O", key2, instrPos(hit.Instr), len(runs), "after "+describeInstr(r)+" the return at "+c.P.Pos(instrPos(hit.Instr))+" is reachable without passing the error test that reverts the snapshot; path "+c.P.pathStr(hit.Path))
			return
		}
	}
	c.OK("O", key2, instrPos(runs[0]), len(runs), "")
}

// OnFailureTo: like OnFailure, with a custom set of path ends (e.g. the next loop iteration).
func (c *Ctx) OnFailureTo(fn *ssa.Function, g Guard, relDesc string, rel SinkSel, end SinkSel) {
	key := fnName(fn) + "/when '" + g.Desc + "' fails: " + relDesc + " before continuing"
	sites := c.P.guardEdges(fn, g)
	if len(sites) == 0 {
		c.Bad("O", key, fn.Pos(), 0, "guard not found")
		return
	}
	if len(g.Alts) > 1 {
		// the guard fails only when every alternative fails: remove all passing edges and require rel before any end
		rm := map[edge]bool{}
		for _, s := range sites {
			rm[s.Pass] = true
		}
		w := &Walker{P: c.P, Removed: rm, Stop: func(in ssa.Instruction) bool { return rel(in) }}
		hit, found := w.Reach(fn, fn.Blocks[0], 0, func(in ssa.Instruction) bool { return !rel(in) && end(in) })
		if found {
			c.Bad("O", key, instrPos(hit.Instr), len(sites), fmt.Sprintf("%s at %s reachable although the guard failed, without %s; path %s", describeInstr(hit.Instr), c.P.Pos(instrPos(hit.Instr)), relDesc, c.P.pathStr(hit.Path)))
			return
		}
		c.OK("O", key, instrPos(sites[0].If), len(sites), "")
		return
	}
	for _, s := range sites {
		b := s.Pass.from
		var fail *ssa.BasicBlock
		for _, succ := range b.Succs {
			if succ != s.Pass.to {
				fail = succ
			}
		}
		if fail == nil {
			continue
		}
		w := &Walker{P: c.P, Stop: func(in ssa.Instruction) bool { return rel(in) }}
		hit, found := w.Reach(fn, fail, 0, end)
		if found {
			c.Bad("O", key, instrPos(hit.Instr), len(sites), fmt.Sprintf("%s at %s reachable on the failing side without %s; path %s", describeInstr(hit.Instr), c.P.Pos(instrPos(hit.Instr)), relDesc, c.P.pathStr(hit.Path)))
			return
		}
	}
	c.OK("O", key, instrPos(sites[0].If), len(sites), "")
}

// callsInSlice: call instructions to callees matching calleeRe in the backward def-use slice of v.
func callsInSlice(v ssa.Value, calleeRe string) []*ssa.Call {
	var out []*ssa.Call
	seen := map[ssa.Value]bool{}
	var walk func(v ssa.Value, d int)
	walk = func(v ssa.Value, d int) {
		if v == nil || seen[v] || d > 30 {
			return
		}
		seen[v] = true
		if cl, ok := v.(*ssa.Call); ok && re(calleeRe).MatchString(calleeNameNoPath(&cl.Call)) {
			out = append(out, cl)
		}
		if a, ok := v.(*ssa.Alloc); ok {
			for _, r := range *a.Referrers() {
				if st, ok := r.(*ssa.Store); ok && st.Addr == a {
					walk(st.Val, d+1)
				}
			}
			return
		}
		if in, ok := v.(ssa.Instruction); ok {
			var ops []*ssa.Value
			for _, op := range in.Operands(ops) {
				if op != nil && *op != nil {
					walk(*op, d+1)
				}
			}
		}
	}
	walk(v, 0)
	return out
}

// frameRules: every call-frame function snapshots before it mutates, reverts to its own snapshot, and every error the
// frame can end with lies behind that revert.
func (c *Ctx) frameRules() {
	// ---- call frames -----------------------------------------------------------------------------------
	snap := CallTo(`^iface:\(kvm\.StateDB\)\.Snapshot$`, "")
	revert := CallTo(`^iface:\(kvm\.StateDB\)\.RevertToSnapshot$`, "")
	mutate := Or(CallTo(`^iface:\(kvm\.StateDB\)\.(CreateAccount|SetCode|AddBalance|SubBalance|SetState|Suicide)$`, ""), CallTo(`^\(\*kvm\.KVM\)\.Transfer$|^kvm\.run$`, ""), CallTo(`dyn:kvm\.BlockContext\.Transfer`, ""))
	for _, name := range []string{"Call", "CallCode", "DelegateCall", "StaticCall", "create"} {
		fn := c.Fn("kvm", "KVM", name)
		if fn == nil {
			continue
		}
		c.Precedes(fn, "StateDB.Snapshot()", snap, "state mutation / run", func(in ssa.Instruction) bool {
			if !mutate(in) {
				return false
			}
			// create bumps the creator's nonce before the snapshot on purpose (it survives a failed creation)
			return true
		})
		c.AtMostOncePerPath(fn, "Snapshot", snap)
		snaps := findInstrs(fn, snap)
		if len(snaps) == 1 {
			sv := pathOf(snaps[0].(*ssa.Call))
			for _, in := range findInstrs(fn, revert) {
				a := argPaths(callCommon(in))
				c.Check("F", fnName(fn)+"/reverts to its own snapshot", len(a) == 2 && a[1] == sv, instrPos(in), 1, describeInstr(in))
			}
		}
		c.errorExitsRevert(fn, revert)
		c.frameErrorsRevert(fn, snap, revert)
	}
	if fn := c.Fn("kvm", "KVM", "create"); fn != nil {
		bump := CallTo(`^iface:\(kvm\.StateDB\)\.SetNonce$`, `SetNonce\(kvm\.StateDB, call:iface:\(kvm\.ContractRef\)\.Address\(caller\), \(call:iface:\(kvm\.StateDB\)\.GetNonce\(kvm\.StateDB, call:iface:\(kvm\.ContractRef\)\.Address\(caller\)\) \+ const:1\)\)$`)
		n := len(findInstrs(fn, bump))
		c.Check("O", fnName(fn)+"/exactly one creator nonce bump", n == 1, fn.Pos(), n, "")
		c.Precedes(fn, "creator nonce bump", bump, "StateDB.Snapshot() (the bump must survive a failed creation)", snap)
		c.Guarded(fn, "creator nonce bump", bump, G("depth within the limit", Cmp(`^kvm\.depth$`, "<=", `^const:\d+$`)), G("CanTransfer", True(`CanTransfer\(`)))
	}
}

// frameErrorsRevert: an error value introduced after the snapshot (a literal package error assigned or returned) is
// never carried to the return on a path that skipped RevertToSnapshot.
func (c *Ctx) frameErrorsRevert(fn *ssa.Function, snap, revert SinkSel) {
	snaps := findInstrs(fn, snap)
	if len(snaps) != 1 {
		return
	}
	sn := snaps[0]
	key := fnName(fn) + "/every error introduced after the snapshot is returned only after RevertToSnapshot"
	n := 0
	isLit := func(v ssa.Value) bool {
		isNil, known := nilClass(v)
		return known && !isNil
	}
	for _, in := range findInstrs(fn, AnyReturn()) {
		r := in.(*ssa.Return)
		if len(r.Results) == 0 {
			continue
		}
		ev := r.Results[len(r.Results)-1]
		// direct literal return
		if isLit(ev) {
			w := &Walker{P: c.P, Stop: revert}
			if hit, found := w.Reach(fn, sn.Block(), instrIndex(sn)+1, func(x ssa.Instruction) bool { return x == in }); found {
				c.Bad("O", key, instrPos(in), 1, describeInstr(in)+" is reachable from the snapshot without RevertToSnapshot; path "+c.P.pathStr(hit.Path))
				return
			}
			n++
			continue
		}
		// literal errors merged into the returned value
		seen := map[*ssa.Phi]bool{}
		var visit func(v ssa.Value) bool
		visit = func(v ssa.Value) bool {
			phi, ok := v.(*ssa.Phi)
			if !ok || seen[phi] {
				return true
			}
			seen[phi] = true
			for i, e := range phi.Edges {
				if i >= len(phi.Block().Preds) {
					continue
				}
				if !isLit(e) {
					if !visit(e) {
						return false
					}
					continue
				}
				pred := phi.Block().Preds[i]
				last := pred.Instrs[len(pred.Instrs)-1]
				n++
				wb := &Walker{P: c.P, Stop: revert}
				_, before := wb.Reach(fn, sn.Block(), instrIndex(sn)+1, func(x ssa.Instruction) bool { return x == last })
				if !before {
					continue
				}
				// continue from the merge block with the fact that this phi is non-nil
				wa := &Walker{P: c.P, Stop: revert, StartFacts: factAdd("", fmt.Sprintf("nil:%p", phi), false)}
				hit, after := wa.Reach(fn, phi.Block(), 0, func(x ssa.Instruction) bool { return x == in })
				if after {
					c.Bad("O", key, instrPos(last), 1, fmt.Sprintf("the error %s assigned at %s reaches the return at %s on a path without RevertToSnapshot (%s): the failed frame keeps its state changes", pathOf(e), c.P.Pos(instrPos(last)), c.P.Pos(instrPos(in)), c.P.pathStr(hit.Path)))
					return false
				}
			}
			return true
		}
		if !visit(ev) {
			return
		}
	}
	c.Check("O", key, true, fn.Pos(), n, "")
}
