package main

// Rule I — sparse conditional constant propagation over int64/bool with wrap-around arithmetic and the
// type-extreme facts (x > MaxInt64, x < MinInt64 are false). Reports branches decided constant and functions
// whose every reachable return yields the same constant. Parameters, loads, calls without summary are ⊤.

import (
	"go/constant"
	"go/token"
	"go/types"
	"math"

	"golang.org/x/tools/go/ssa"
)

type lat struct {
	kind int // 0 bottom, 1 const int, 2 const bool, 3 top
	i    int64
	b    bool
}

var (
	latBot = lat{kind: 0}
	latTop = lat{kind: 3}
)

func latInt(i int64) lat    { return lat{kind: 1, i: i} }
func latBool(b bool) lat    { return lat{kind: 2, b: b} }
func (a lat) eq(b lat) bool { return a == b }

func join(a, b lat) lat {
	if a.kind == 0 {
		return b
	}
	if b.kind == 0 {
		return a
	}
	if a == b {
		return a
	}
	return latTop
}

type sccpResult struct {
	DeadEdges []sccpDead // branches with exactly one executable successor
	ConstRet  *lat       // set if every executable return returns the same constant (single-result functions)
}

type sccpDead struct {
	If     *ssa.If
	Always bool // the value the condition always has
}

func isInt64(t types.Type) bool {
	b, ok := t.Underlying().(*types.Basic)
	return ok && b.Kind() == types.Int64
}

func sccp(fn *ssa.Function, summaries map[*ssa.Function]lat) sccpResult {
	val := map[ssa.Value]lat{}
	execEdge := map[edge]bool{}
	execBlock := map[*ssa.BasicBlock]bool{}
	get := func(v ssa.Value) lat {
		if c, ok := v.(*ssa.Const); ok {
			if c.Value == nil {
				return latTop
			}
			switch c.Value.Kind() {
			case constant.Bool:
				return latBool(constant.BoolVal(c.Value))
			case constant.Int:
				if isInt64(c.Type()) {
					if i, ok := constant.Int64Val(c.Value); ok {
						return latInt(i)
					}
				}
			}
			return latTop
		}
		if l, ok := val[v]; ok {
			return l
		}
		switch v.(type) {
		case *ssa.Parameter, *ssa.FreeVar, *ssa.Global:
			return latTop
		}
		return latBot
	}
	eval := func(in ssa.Instruction) (ssa.Value, lat, bool) {
		switch x := in.(type) {
		case *ssa.Phi:
			r := latBot
			for i, e := range x.Edges {
				if execEdge[edge{x.Block().Preds[i], x.Block()}] {
					r = join(r, get(e))
				}
			}
			return x, r, true
		case *ssa.BinOp:
			a, b := get(x.X), get(x.Y)
			if a.kind == 0 || b.kind == 0 {
				return x, latBot, true
			}
			if isCmp(x.Op) {
				// type-extreme facts for int64 operands
				if isInt64(x.X.Type()) {
					if b.kind == 1 {
						switch {
						case x.Op == token.GTR && b.i == math.MaxInt64, x.Op == token.LSS && b.i == math.MinInt64:
							return x, latBool(false), true
						case x.Op == token.LEQ && b.i == math.MaxInt64, x.Op == token.GEQ && b.i == math.MinInt64:
							return x, latBool(true), true
						}
					}
					if a.kind == 1 {
						switch {
						case x.Op == token.LSS && a.i == math.MaxInt64, x.Op == token.GTR && a.i == math.MinInt64:
							return x, latBool(false), true
						case x.Op == token.GEQ && a.i == math.MaxInt64, x.Op == token.LEQ && a.i == math.MinInt64:
							return x, latBool(true), true
						}
					}
				}
				if a.kind == 1 && b.kind == 1 {
					var r bool
					switch x.Op {
					case token.EQL:
						r = a.i == b.i
					case token.NEQ:
						r = a.i != b.i
					case token.LSS:
						r = a.i < b.i
					case token.LEQ:
						r = a.i <= b.i
					case token.GTR:
						r = a.i > b.i
					case token.GEQ:
						r = a.i >= b.i
					}
					return x, latBool(r), true
				}
				if a.kind == 2 && b.kind == 2 && (x.Op == token.EQL || x.Op == token.NEQ) {
					return x, latBool((a.b == b.b) == (x.Op == token.EQL)), true
				}
				return x, latTop, true
			}
			if a.kind == 1 && b.kind == 1 && isInt64(x.Type()) {
				switch x.Op {
				case token.ADD:
					return x, latInt(a.i + b.i), true
				case token.SUB:
					return x, latInt(a.i - b.i), true
				case token.MUL:
					return x, latInt(a.i * b.i), true
				case token.QUO:
					if b.i != 0 {
						return x, latInt(a.i / b.i), true
					}
				}
			}
			return x, latTop, true
		case *ssa.UnOp:
			a := get(x.X)
			if a.kind == 0 {
				return x, latBot, true
			}
			if x.Op == token.NOT && a.kind == 2 {
				return x, latBool(!a.b), true
			}
			if x.Op == token.SUB && a.kind == 1 && isInt64(x.Type()) {
				return x, latInt(-a.i), true
			}
			return x, latTop, true
		case *ssa.Convert:
			a := get(x.X)
			if a.kind == 1 && isInt64(x.Type()) && isInt64(x.X.Type()) {
				return x, a, true
			}
			if a.kind == 0 {
				return x, latBot, true
			}
			return x, latTop, true
		case *ssa.ChangeType:
			return x, get(x.X), true
		case *ssa.Call:
			if f := x.Call.StaticCallee(); f != nil {
				if s, ok := summaries[f]; ok {
					return x, s, true
				}
			}
			return x, latTop, true
		}
		if v, ok := in.(ssa.Value); ok {
			return v, latTop, true
		}
		return nil, lat{}, false
	}
	if len(fn.Blocks) == 0 {
		return sccpResult{}
	}
	execBlock[fn.Blocks[0]] = true
	for changed, rounds := true, 0; changed && rounds < 200; rounds++ {
		changed = false
		for _, b := range fn.Blocks {
			if !execBlock[b] {
				continue
			}
			for _, in := range b.Instrs {
				if v, l, ok := eval(in); ok && v != nil {
					old, had := val[v]
					nl := l
					if had {
						nl = join(old, l)
						// monotone: once top stays top; bottom never overwrites
					}
					if !had || old != nl {
						val[v] = nl
						changed = true
					}
				}
			}
			var succs []*ssa.BasicBlock
			if iff, ok := b.Instrs[len(b.Instrs)-1].(*ssa.If); ok {
				c := get(iff.Cond)
				switch {
				case c.kind == 2 && c.b:
					succs = b.Succs[:1]
				case c.kind == 2 && !c.b:
					succs = b.Succs[1:2]
				case c.kind == 0:
					succs = nil
				default:
					succs = b.Succs
				}
			} else {
				succs = b.Succs
			}
			for _, s := range succs {
				if !execEdge[edge{b, s}] {
					execEdge[edge{b, s}] = true
					changed = true
				}
				if !execBlock[s] {
					execBlock[s] = true
					changed = true
				}
			}
		}
	}
	var res sccpResult
	ret := latBot
	nres := -1
	for _, b := range fn.Blocks {
		if !execBlock[b] || len(b.Instrs) == 0 {
			continue
		}
		switch t := b.Instrs[len(b.Instrs)-1].(type) {
		case *ssa.If:
			t0, t1 := execEdge[edge{b, b.Succs[0]}], execEdge[edge{b, b.Succs[1]}]
			if t0 != t1 {
				res.DeadEdges = append(res.DeadEdges, sccpDead{t, t0})
			}
		case *ssa.Return:
			if len(t.Results) == 1 {
				nres = 1
				ret = join(ret, get(t.Results[0]))
			}
		}
	}
	if nres == 1 && (ret.kind == 1 || ret.kind == 2) {
		res.ConstRet = &ret
	}
	return res
}
