package main

// Rule L1 — lock pairing: every Lock/RLock is released on every non-panicking path of the function
// (a deferred release counts from where it is registered).

import (
	"fmt"
	"sort"
	"strings"

	"golang.org/x/tools/go/ssa"
)

// sync.Mutex/RWMutex, or their go-deadlock stand-ins selected by the `deadlock` build tag (lib/sync)
var lockRe = `^\(\*(sync|github\.com/sasha-s/go-deadlock)\.(RW)?Mutex\)\.(Lock|RLock)$`

func unlockFor(lock string) string {
	if strings.HasSuffix(lock, ".RLock") {
		return strings.TrimSuffix(lock, ".RLock") + ".RUnlock"
	}
	return strings.TrimSuffix(lock, ".Lock") + ".Unlock"
}

// LockPairing checks all functions of the given module packages (repo-relative import paths).
// exceptions: obligation key suffix -> reason (an exception is reported in the evidence, not silently skipped).
func (c *Ctx) LockPairing(pkgs []string, exceptions map[string]string) {
	inScope := func(f *ssa.Function) bool {
		r := rootFn(f)
		if r.Pkg == nil {
			return false
		}
		p := strings.TrimPrefix(r.Pkg.Pkg.Path(), modPath+"/")
		for _, want := range pkgs {
			if p == want {
				return true
			}
		}
		return false
	}
	n := 0
	var exUsed []string
	for _, f := range c.P.ModFuncs {
		if !inScope(f) {
			continue
		}
		for _, b := range f.Blocks {
			for _, in := range b.Instrs {
				call, ok := in.(*ssa.Call)
				if !ok {
					continue
				}
				name := calleeNameNoPath(&call.Call)
				if !re(lockRe).MatchString(name) || len(call.Call.Args) == 0 {
					continue
				}
				n++
				recv := pathOf(call.Call.Args[0])
				kind := name[strings.LastIndex(name, ".")+1:]
				un := unlockFor(name)
				isRel := func(x ssa.Instruction) bool {
					cc := callCommon(x)
					if cc == nil || len(cc.Args) == 0 {
						return false
					}
					if _, isGo := x.(*ssa.Go); isGo {
						return false
					}
					return calleeNameNoPath(cc) == un && pathOf(cc.Args[0]) == recv
				}
				key := fnName(f) + "/" + strings.TrimPrefix(recv, "&") + "." + kind + " released on every path"
				w := &Walker{P: c.P, Stop: isRel}
				hit, found := w.Reach(f, b, instrIndex(in)+1, func(x ssa.Instruction) bool { _, isRet := x.(*ssa.Return); return isRet })
				if !found {
					c.OK("L1", key, call.Pos(), 1, "")
					continue
				}
				exKey := ""
				for k := range exceptions {
					if strings.HasPrefix(key, k) {
						exKey = k
					}
				}
				if exKey != "" {
					exUsed = append(exUsed, exKey+": "+exceptions[exKey])
					c.OK("L1", key, call.Pos(), 1, "tabled exception: "+exceptions[exKey])
					continue
				}
				c.Bad("L1", key, instrPos(hit.Instr), 1, fmt.Sprintf("%s taken at %s is still held at the return at %s; path %s", kind, c.P.Pos(call.Pos()), c.P.Pos(instrPos(hit.Instr)), c.P.pathStr(hit.Path)))
			}
		}
	}
	sort.Strings(exUsed)
	c.Extra["lock_sites_checked"] = n
	if len(exUsed) > 0 {
		c.Extra["lock_exceptions"] = exUsed
	}
}

// CriticalSection (rule L3): fn takes the mutex whose receiver path matches mtxRe exactly once, before every
// instruction selected by body, and does not release it (other than by defer) before the last of them: the test
// and the update it guards are in ONE critical section (no check-then-act window).
func (c *Ctx) CriticalSection(fn *ssa.Function, mtxRe, desc string, body SinkSel) {
	if fn == nil {
		return
	}
	key := fnName(fn) + "/" + desc + " in one critical section"
	isLock := func(in ssa.Instruction) bool {
		cl, ok := in.(*ssa.Call)
		return ok && re(lockRe).MatchString(calleeNameNoPath(&cl.Call)) && len(cl.Call.Args) > 0 && re(mtxRe).MatchString(pathOf(cl.Call.Args[0]))
	}
	isUnlock := func(in ssa.Instruction) bool {
		cl, ok := in.(*ssa.Call) // a deferred unlock runs at exit and is fine
		return ok && re(`^\(\*(sync|github\.com/sasha-s/go-deadlock)\.(RW)?Mutex\)\.(Unlock|RUnlock)$`).MatchString(calleeNameNoPath(&cl.Call)) && len(cl.Call.Args) > 0 && re(mtxRe).MatchString(pathOf(cl.Call.Args[0]))
	}
	locks := findInstrs(fn, isLock)
	bodies := findInstrs(fn, body)
	if len(bodies) == 0 {
		c.Unres("L3", key, "no instruction matching the protected test/update found")
		return
	}
	if len(locks) != 1 {
		c.Bad("L3", key, fn.Pos(), len(locks), fmt.Sprintf("expected exactly one acquisition of the mutex, found %d: with several acquisitions the emptiness test and the update it guards run in different critical sections, so two concurrent callers can both pass the test", len(locks)))
		return
	}
	// every protected instruction is preceded by the lock
	w := &Walker{P: c.P, Stop: isLock}
	if hit, found := w.Reach(fn, fn.Blocks[0], 0, body); found {
		c.Bad("L3", key, instrPos(hit.Instr), len(bodies), "protected instruction at "+c.P.Pos(instrPos(hit.Instr))+" is reachable without holding the mutex; path "+c.P.pathStr(hit.Path))
		return
	}
	// no explicit unlock is followed by a protected instruction
	for _, u := range findInstrs(fn, isUnlock) {
		w := &Walker{P: c.P}
		if hit, found := w.Reach(fn, u.Block(), instrIndex(u)+1, body); found {
			c.Bad("L3", key, instrPos(hit.Instr), len(bodies), "the mutex is released at "+c.P.Pos(instrPos(u))+" before the protected instruction at "+c.P.Pos(instrPos(hit.Instr))+": test and update are not atomic")
			return
		}
	}
	c.OK("L3", key, instrPos(locks[0]), len(bodies)+1, fmt.Sprintf("%d protected instruction(s) under one acquisition", len(bodies)))
}

// GuardedBy (rule L2): the listed fields of a struct are accessed only with the struct's mutex held. A function that
// touches a guarded field (or calls one that needs the mutex) without taking the mutex first "needs" it from its
// callers; a function that needs it and is an entry point (exported method, goroutine body, no callers in the module)
// violates the rule. rwFields are guarded for reads and writes, wFields for writes only.
func (c *Ctx) GuardedBy(pkg, typ, mtxField string, rwFields, wFields []string, exceptions map[string]string) {
	nt, st := c.P.NamedStruct(pkg, typ)
	if nt == nil {
		c.Unres("L2", pkg+"."+typ, "type not found")
		return
	}
	idx := map[int]string{}
	wOnly := map[int]bool{}
	for i := 0; i < st.NumFields(); i++ {
		for _, f := range rwFields {
			if st.Field(i).Name() == f {
				idx[i] = f
			}
		}
		for _, f := range wFields {
			if st.Field(i).Name() == f {
				idx[i] = f
				wOnly[i] = true
			}
		}
	}
	tname := pkg + "." + typ
	isAccess := func(in ssa.Instruction) (string, bool) {
		fa, ok := in.(*ssa.FieldAddr)
		if !ok || namedOf(fa.X.Type()) != tname {
			return "", false
		}
		f, ok := idx[fa.Field]
		if !ok {
			return "", false
		}
		if _, fresh := fa.X.(*ssa.Alloc); fresh {
			return "", false // initialising a composite literal: the object is not shared yet
		}
		if wOnly[fa.Field] {
			for _, r := range *fa.Referrers() {
				if s, ok := r.(*ssa.Store); ok && s.Addr == fa {
					return f, true
				}
			}
			return "", false
		}
		return f, true
	}
	isLock := func(in ssa.Instruction) bool {
		cl, ok := in.(*ssa.Call)
		if !ok || !re(lockRe).MatchString(calleeNameNoPath(&cl.Call)) || len(cl.Call.Args) == 0 {
			return false
		}
		return re(`\.` + mtxField + `(\.|$)`).MatchString(pathOf(cl.Call.Args[0]))
	}
	// functions of the package (closures attributed to their root)
	var fns []*ssa.Function
	for _, f := range c.P.ModFuncs {
		r := rootFn(f)
		if r.Pkg != nil && strings.TrimPrefix(r.Pkg.Pkg.Path(), modPath+"/") == pkg {
			fns = append(fns, f)
		}
	}
	needs := map[*ssa.Function]string{} // function -> why it needs the mutex from its caller
	// unguarded: an instruction satisfying sel is reachable from entry without passing a Lock of the mutex
	unguarded := func(f *ssa.Function, sel func(ssa.Instruction) bool) (ssa.Instruction, bool) {
		w := &Walker{P: c.P, Stop: isLock}
		hit, found := w.Reach(f, f.Blocks[0], 0, sel)
		return hit.Instr, found
	}
	for changed := true; changed; {
		changed = false
		for _, f := range fns {
			if _, ok := needs[f]; ok || len(f.Blocks) == 0 {
				continue
			}
			if in, found := unguarded(f, func(in ssa.Instruction) bool { _, ok := isAccess(in); return ok }); found {
				fld, _ := isAccess(in)
				needs[f] = "accesses " + typ + "." + fld + " at " + c.P.Pos(instrPos(in))
				changed = true
				continue
			}
			if in, found := unguarded(f, func(in ssa.Instruction) bool {
				cc := callCommon(in)
				if cc == nil {
					return false
				}
				if _, isGo := in.(*ssa.Go); isGo {
					return false
				}
				if cal := cc.StaticCallee(); cal != nil {
					_, n := needs[cal]
					return n
				}
				if mc, ok := cc.Value.(*ssa.MakeClosure); ok {
					if af, ok := mc.Fn.(*ssa.Function); ok {
						_, n := needs[af]
						return n
					}
				}
				return false
			}); found {
				needs[f] = "calls " + calleeNameNoPath(callCommon(in)) + " at " + c.P.Pos(instrPos(in)) + ", which needs the mutex"
				changed = true
			}
			// closures defined in f and passed along: if the closure needs the mutex and f does not hold it where the closure is made
			if _, ok := needs[f]; !ok {
				if in, found := unguarded(f, func(in ssa.Instruction) bool {
					mc, ok := in.(*ssa.MakeClosure)
					if !ok {
						return false
					}
					af, ok := mc.Fn.(*ssa.Function)
					if !ok {
						return false
					}
					_, n := needs[af]
					return n
				}); found {
					needs[f] = "creates a closure at " + c.P.Pos(instrPos(in)) + " that needs the mutex"
					changed = true
				}
			}
		}
	}
	// entry points must not need the mutex
	cg := c.P.CallGraph()
	nEntry := 0
	var names []string
	for f := range needs {
		names = append(names, fnName(f))
	}
	sort.Strings(names)
	byName := map[string]*ssa.Function{}
	for f := range needs {
		byName[fnName(f)] = f
	}
	for _, n := range names {
		f := byName[n]
		if f.Parent() != nil {
			// closures: goroutine bodies are entries; others are covered through their creator
			isGoBody := false
			for _, g := range fns {
				allInstrs(g, false, func(_ *ssa.Function, in ssa.Instruction) {
					if gi, ok := in.(*ssa.Go); ok {
						if mc, ok := gi.Call.Value.(*ssa.MakeClosure); ok && mc.Fn == f {
							isGoBody = true
						}
					}
				})
			}
			if !isGoBody {
				continue
			}
		}
		entry := f.Parent() != nil
		if f.Object() != nil && f.Object().Exported() {
			entry = true
		}
		callers := 0
		if node := cg.Nodes[f]; node != nil {
			for _, e := range node.In {
				if e.Caller.Func.Pkg != nil && strings.HasPrefix(e.Caller.Func.Pkg.Pkg.Path(), modPath) {
					callers++
					if _, isGo := e.Site.(*ssa.Go); isGo {
						entry = true
					}
				}
			}
		}
		if callers == 0 {
			entry = true
		}
		if !entry {
			continue
		}
		nEntry++
		key := n + "/holds " + typ + "." + mtxField + " when touching guarded state"
		if why, ok := exceptions[n]; ok {
			c.OK("L2", key, f.Pos(), 1, "tabled exception: "+why)
			continue
		}
		c.Bad("L2", key, f.Pos(), 1, n+" is an entry point (exported, goroutine body or uncalled) and "+needs[f]+" without holding "+typ+"."+mtxField)
	}
	// report the functions that do lock correctly as discharged obligations (exported methods that access guarded state under the lock)
	nLocked := 0
	for _, f := range fns {
		if _, n := needs[f]; n || f.Parent() != nil || len(f.Blocks) == 0 {
			continue
		}
		touches := false
		allInstrs(f, true, func(_ *ssa.Function, in ssa.Instruction) {
			if _, ok := isAccess(in); ok {
				touches = true
			}
			if cc := callCommon(in); cc != nil {
				if cal := cc.StaticCallee(); cal != nil {
					if _, n := needs[cal]; n {
						touches = true
					}
				}
			}
		})
		if touches {
			nLocked++
			c.OK("L2", fnName(f)+"/holds "+typ+"."+mtxField+" when touching guarded state", f.Pos(), 1, "")
		}
	}
	c.Extra["guarded_by_"+typ] = map[string]int{"functions_needing_mutex_from_caller": len(needs), "entry_points_flagged_or_excepted": nEntry, "functions_locking_correctly": nLocked}
}
