package main

// Rule L1 — lock pairing: every Lock/RLock is released on every non-panicking path of the function
// (a deferred release counts from where it is registered).

import (
	"fmt"
	"sort"
	"strings"

	"golang.org/x/tools/go/ssa"
)

var lockRe = `^\(\*sync\.(RW)?Mutex\)\.(Lock|RLock)$`

func unlockFor(lock string) string {
	if strings.HasSuffix(lock, ".RLock") {
		return strings.TrimSuffix(lock, ".RLock") + ".RUnlock"
	}
	return strings.TrimSuffix(lock, ".Lock") + ".Unlock"
}

// LockPairing checks all functions of the given module packages (repo-relative import paths).
// exceptions: obligation key suffix -> reason (an exception is reported in the evidence, not silently skipped).
func (c *Ctx) LockPairing(pkgs []string, exceptions map[string]string) {
	inScope := func(f *ssa.Function) bool {
		r := rootFn(f)
		if r.Pkg == nil {
			return false
		}
		p := strings.TrimPrefix(r.Pkg.Pkg.Path(), modPath+"/")
		for _, want := range pkgs {
			if p == want {
				return true
			}
		}
		return false
	}
	n := 0
	var exUsed []string
	for _, f := range c.P.ModFuncs {
		if !inScope(f) {
			continue
		}
		for _, b := range f.Blocks {
			for _, in := range b.Instrs {
				call, ok := in.(*ssa.Call)
				if !ok {
					continue
				}
				name := calleeNameNoPath(&call.Call)
				if !re(lockRe).MatchString(name) || len(call.Call.Args) == 0 {
					continue
				}
				n++
				recv := pathOf(call.Call.Args[0])
				kind := name[strings.LastIndex(name, ".")+1:]
				un := unlockFor(name)
				isRel := func(x ssa.Instruction) bool {
					cc := callCommon(x)
					if cc == nil || len(cc.Args) == 0 {
						return false
					}
					if _, isGo := x.(*ssa.Go); isGo {
						return false
					}
					return calleeNameNoPath(cc) == un && pathOf(cc.Args[0]) == recv
				}
				key := fnName(f) + "/" + strings.TrimPrefix(recv, "&") + "." + kind + " released on every path"
				w := &Walker{P: c.P, Stop: isRel}
				hit, found := w.Reach(f, b, instrIndex(in)+1, func(x ssa.Instruction) bool { _, isRet := x.(*ssa.Return); return isRet })
				if !found {
					c.OK("L1", key, call.Pos(), 1, "")
					continue
				}
				exKey := ""
				for k := range exceptions {
					if strings.HasPrefix(key, k) {
						exKey = k
					}
				}
				if exKey != "" {
					exUsed = append(exUsed, exKey+": "+exceptions[exKey])
					c.OK("L1", key, call.Pos(), 1, "tabled exception: "+exceptions[exKey])
					continue
				}
				c.Bad("L1", key, instrPos(hit.Instr), 1, fmt.Sprintf("%s taken at %s is still held at the return at %s; path %s", kind, c.P.Pos(call.Pos()), c.P.Pos(instrPos(hit.Instr)), c.P.pathStr(hit.Path)))
			}
		}
	}
	sort.Strings(exUsed)
	c.Extra["lock_sites_checked"] = n
	if len(exUsed) > 0 {
		c.Extra["lock_exceptions"] = exUsed
	}
}
