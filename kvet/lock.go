package main

// Rule L1 — lock pairing: every Lock/RLock is released on every non-panicking path of the function
// (a deferred release counts from where it is registered).

import (
	"fmt"
	"sort"
	"strings"

	"golang.org/x/tools/go/ssa"
)

var lockRe = `^\(\*sync\.(RW)?Mutex\)\.(Lock|RLock)$`

func unlockFor(lock string) string {
	if strings.HasSuffix(lock, ".RLock") {
		return strings.TrimSuffix(lock, ".RLock") + ".RUnlock"
	}
	return strings.TrimSuffix(lock, ".Lock") + ".Unlock"
}

// LockPairing checks all functions of the given module packages (repo-relative import paths).
// exceptions: obligation key suffix -> reason (an exception is reported in the evidence, not silently skipped).
func (c *Ctx) LockPairing(pkgs []string, exceptions map[string]string) {
	inScope := func(f *ssa.Function) bool {
		r := rootFn(f)
		if r.Pkg == nil {
			return false
		}
		p := strings.TrimPrefix(r.Pkg.Pkg.Path(), modPath+"/")
		for _, want := range pkgs {
			if p == want {
				return true
			}
		}
		return false
	}
	n := 0
	var exUsed []string
	for _, f := range c.P.ModFuncs {
		if !inScope(f) {
			continue
		}
		for _, b := range f.Blocks {
			for _, in := range b.Instrs {
				call, ok := in.(*ssa.Call)
				if !ok {
					continue
				}
				name := calleeNameNoPath(&call.Call)
				if !re(lockRe).MatchString(name) || len(call.Call.Args) == 0 {
					continue
				}
				n++
				recv := pathOf(call.Call.Args[0])
				kind := name[strings.LastIndex(name, ".")+1:]
				un := unlockFor(name)
				isRel := func(x ssa.Instruction) bool {
					cc := callCommon(x)
					if cc == nil || len(cc.Args) == 0 {
						return false
					}
					if _, isGo := x.(*ssa.Go); isGo {
						return false
					}
					return calleeNameNoPath(cc) == un && pathOf(cc.Args[0]) == recv
				}
				key := fnName(f) + "/" + strings.TrimPrefix(recv, "&") + "." + kind + " released on every path"
				w := &Walker{P: c.P, Stop: isRel}
				hit, found := w.Reach(f, b, instrIndex(in)+1, func(x ssa.Instruction) bool { _, isRet := x.(*ssa.Return); return isRet })
				if !found {
					c.OK("L1", key, call.Pos(), 1, "")
					continue
				}
				exKey := ""
				for k := range exceptions {
					if strings.HasPrefix(key, k) {
						exKey = k
					}
				}
				if exKey != "" {
					exUsed = append(exUsed, exKey+": "+exceptions[exKey])
					c.OK("L1", key, call.Pos(), 1, "tabled exception: "+exceptions[exKey])
					continue
				}
				c.Bad("L1", key, instrPos(hit.Instr), 1, fmt.Sprintf("%s taken at %s is still held at the return at %s; path %s", kind, c.P.Pos(call.Pos()), c.P.Pos(instrPos(hit.Instr)), c.P.pathStr(hit.Path)))
			}
		}
	}
	sort.Strings(exUsed)
	c.Extra["lock_sites_checked"] = n
	if len(exUsed) > 0 {
		c.Extra["lock_exceptions"] = exUsed
	}
}

// CriticalSection (rule L3): fn takes the mutex whose receiver path matches mtxRe exactly once, before every
// instruction selected by body, and does not release it (other than by defer) before the last of them: the test
// and the update it guards are in ONE critical section (no check-then-act window).
func (c *Ctx) CriticalSection(fn *ssa.Function, mtxRe, desc string, body SinkSel) {
	if fn == nil {
		return
	}
	key := fnName(fn) + "/" + desc + " in one critical section"
	isLock := func(in ssa.Instruction) bool {
		cl, ok := in.(*ssa.Call)
		return ok && re(lockRe).MatchString(calleeNameNoPath(&cl.Call)) && len(cl.Call.Args) > 0 && re(mtxRe).MatchString(pathOf(cl.Call.Args[0]))
	}
	isUnlock := func(in ssa.Instruction) bool {
		cl, ok := in.(*ssa.Call) // a deferred unlock runs at exit and is fine
		return ok && re(`^\(\*sync\.(RW)?Mutex\)\.(Unlock|RUnlock)$`).MatchString(calleeNameNoPath(&cl.Call)) && len(cl.Call.Args) > 0 && re(mtxRe).MatchString(pathOf(cl.Call.Args[0]))
	}
	locks := findInstrs(fn, isLock)
	bodies := findInstrs(fn, body)
	if len(bodies) == 0 {
		c.Unres("L3", key, "no instruction matching the protected test/update found")
		return
	}
	if len(locks) != 1 {
		c.Bad("L3", key, fn.Pos(), len(locks), fmt.Sprintf("expected exactly one acquisition of the mutex, found %d: with several acquisitions the emptiness test and the update it guards run in different critical sections, so two concurrent callers can both pass the test", len(locks)))
		return
	}
	// every protected instruction is preceded by the lock
	w := &Walker{P: c.P, Stop: isLock}
	if hit, found := w.Reach(fn, fn.Blocks[0], 0, body); found {
		c.Bad("L3", key, instrPos(hit.Instr), len(bodies), "protected instruction at "+c.P.Pos(instrPos(hit.Instr))+" is reachable without holding the mutex; path "+c.P.pathStr(hit.Path))
		return
	}
	// no explicit unlock is followed by a protected instruction
	for _, u := range findInstrs(fn, isUnlock) {
		w := &Walker{P: c.P}
		if hit, found := w.Reach(fn, u.Block(), instrIndex(u)+1, body); found {
			c.Bad("L3", key, instrPos(hit.Instr), len(bodies), "the mutex is released at "+c.P.Pos(instrPos(u))+" before the protected instruction at "+c.P.Pos(instrPos(hit.Instr))+": test and update are not atomic")
			return
		}
	}
	c.OK("L3", key, instrPos(locks[0]), len(bodies)+1, fmt.Sprintf("%d protected instruction(s) under one acquisition", len(bodies)))
}
