package main

// Guard-flip sweep (thorough tier): every comparison that a guard-dominance obligation relied on is negated in an
// in-memory copy of its file, one at a time, and the property's rules are run on the variant. A flip that no
// obligation reports shows a rule that is not sensitive to that guard's polarity; the sweep reports the rate and the
// undetected sites in the evidence. It is a measurement of the checker, not a verdict on the repository, so it never
// fails the check.

import (
	"encoding/json"
	"fmt"
	"go/token"
	"os"
	"os/exec"
	"path/filepath"
	"sort"
	"strings"
	"sync"

	"golang.org/x/tools/go/ssa"
)

type flipSite struct {
	File   string `json:"file"`
	Offset int    `json:"offset"`
	Line   int    `json:"line"`
	Op     string `json:"op"`
	Key    string `json:"obligation"`
}

var sweepNeg = map[string]string{"<": ">=", ">=": "<", ">": "<=", "<=": ">", "==": "!=", "!=": "=="}

// recordFlipSites is called by Guarded for the guard sites of a discharged obligation.
func (c *Ctx) recordFlipSites(key string, sites []guardSite) {
	for _, s := range sites {
		bo, ok := s.If.Cond.(*ssa.BinOp)
		if !ok || !isCmp(bo.Op) || !bo.Pos().IsValid() {
			continue
		}
		pos := c.P.SSA.Fset.Position(bo.Pos())
		rel, err := filepath.Rel(c.P.Root, pos.Filename)
		if err != nil || strings.HasPrefix(rel, "..") {
			continue
		}
		c.flips = append(c.flips, flipSite{rel, pos.Offset, pos.Line, bo.Op.String(), c.Prop + "/G/" + key})
	}
}

type sweepResult struct {
	Sites      int        `json:"comparisons_flipped"`
	Detected   int        `json:"detected"`
	NoCompile  int        `json:"variant_did_not_compile"`
	Undetected []flipSite `json:"undetected,omitempty"`
}

func runSweep(c *Ctx, cf commonFlags, par int) *sweepResult {
	// one variant per source position
	seen := map[string]bool{}
	var sites []flipSite
	for _, f := range c.flips {
		k := fmt.Sprintf("%s:%d", f.File, f.Offset)
		if seen[k] {
			continue
		}
		seen[k] = true
		sites = append(sites, f)
	}
	sort.Slice(sites, func(i, j int) bool {
		if sites[i].File != sites[j].File {
			return sites[i].File < sites[j].File
		}
		return sites[i].Offset < sites[j].Offset
	})
	res := &sweepResult{}
	if len(sites) == 0 {
		return res
	}
	self, _ := os.Executable()
	tmp, err := os.MkdirTemp("", "kvet-sweep-")
	if err != nil {
		return res
	}
	defer os.RemoveAll(tmp)
	type outcome struct{ code int }
	out := make([]outcome, len(sites))
	sem := make(chan struct{}, par)
	var wg sync.WaitGroup
	for i, s := range sites {
		wg.Add(1)
		go func(i int, s flipSite) {
			defer wg.Done()
			sem <- struct{}{}
			defer func() { <-sem }()
			abs := filepath.Join(cf.root, s.File)
			b, err := os.ReadFile(abs)
			if err != nil || s.Offset+len(s.Op) > len(b) || string(b[s.Offset:s.Offset+len(s.Op)]) != s.Op {
				out[i].code = -1
				return
			}
			// do not flip `<` that is really `<=`/`<<` etc.
			if s.Offset+len(s.Op) < len(b) && strings.ContainsRune("=<>", rune(b[s.Offset+len(s.Op)])) && len(s.Op) == 1 {
				out[i].code = -1
				return
			}
			variant := string(b[:s.Offset]) + sweepNeg[s.Op] + string(b[s.Offset+len(s.Op):])
			vf := filepath.Join(tmp, fmt.Sprintf("v%d.go", i))
			os.WriteFile(vf, []byte(variant), 0o644)
			ob, _ := json.Marshal(map[string]interface{}{"Replace": map[string]string{abs: vf}})
			ov := filepath.Join(tmp, fmt.Sprintf("o%d.json", i))
			os.WriteFile(ov, ob, 0o644)
			cmd := exec.Command(self, "check", "-prop", c.Prop, "-tier", "quick", "-overlay", ov, "-no-evidence", "-root", cf.root, "-verif", cf.verif)
			_, err = cmd.CombinedOutput()
			if ee, ok := err.(*exec.ExitError); ok {
				out[i].code = ee.ExitCode()
			} else if err != nil {
				out[i].code = -1
			}
		}(i, s)
	}
	wg.Wait()
	for i, s := range sites {
		switch out[i].code {
		case -1:
		case 2:
			res.Sites++
			res.NoCompile++
		case 1:
			res.Sites++
			res.Detected++
		default:
			res.Sites++
			res.Undetected = append(res.Undetected, s)
		}
	}
	return res
}

var _ = token.NoPos
