package main

// C08 — state changes are atomic: revert restores exactly; copies are independent.

import (
	"fmt"
	"go/types"
	"sort"
	"strings"

	"golang.org/x/tools/go/ssa"
)

func init() {
	register("C08", []string{"kai/state/statedb.go", "kai/state/journal.go", "kai/state/state_object.go", "kai/state/access_list.go", "kai/state/transient_storage.go", "kai/state/snapshot/difflayer.go", "kai/state/snapshot/disklayer.go", "kai/state/snapshot/snapshot.go"}, runC08)
}

// journalled state: fields whose value a getter can observe between two finalisations
var c08J = map[string]bool{
	"types.StateAccount.Nonce": true, "types.StateAccount.Balance": true, "types.StateAccount.CodeHash": true,
	"kai/state.stateObject.code": true, "kai/state.stateObject.dirtyCode": true, "kai/state.stateObject.dirtyStorage": true, "kai/state.stateObject.suicided": true,
	"kai/state.StateDB.refund": true, "kai/state.StateDB.logs": true, "kai/state.StateDB.logSize": true, "kai/state.StateDB.preimages": true,
	"kai/state.StateDB.stateObjects": true, "kai/state.StateDB.stateObjectsDestruct": true, "kai/state.StateDB.snapAccounts": true, "kai/state.StateDB.snapStorage": true,
	"kai/state.StateDB.transientStorage": true, "kai/state.accessList.addresses": true, "kai/state.accessList.slots": true,
}

// functions that fill a cache from the database: what they store is not a state change
var c08Loaders = map[string]string{
	"(*kai/state.StateDB).getDeletedStateObject": "loads an account from the snapshot/trie and caches the object; no observable changes",
	"(*kai/state.stateObject).Code":              "loads the code for the current code hash and caches it",
	"(*kai/state.stateObject).CodeSize":          "reads the code size for the current code hash",
}

func jOnly(m map[fieldRef]bool) map[string]bool {
	out := map[string]bool{}
	for r := range m {
		if c08J[r.String()] {
			out[r.String()] = true
		}
	}
	return out
}

func keys(m map[string]bool) []string {
	var s []string
	for k := range m {
		s = append(s, strings.TrimPrefix(strings.TrimPrefix(k, "kai/state."), "types."))
	}
	sort.Strings(s)
	return s
}

func isAppend(in ssa.Instruction) bool {
	cc := callCommon(in)
	return cc != nil && calleeNameNoPath(cc) == "(*kai/state.journal).append"
}

func hasAppend(f *ssa.Function) bool {
	found := false
	allInstrs(f, true, func(_ *ssa.Function, in ssa.Instruction) {
		if isAppend(in) {
			found = true
		}
	})
	return found
}

// reaches: control can flow from a to b (a strictly before b) inside one function.
func reaches(a, b ssa.Instruction) bool {
	if a.Block() == b.Block() && instrIndex(a) < instrIndex(b) {
		return true
	}
	seen := map[*ssa.BasicBlock]bool{}
	stack := append([]*ssa.BasicBlock{}, a.Block().Succs...)
	for len(stack) > 0 {
		x := stack[len(stack)-1]
		stack = stack[:len(stack)-1]
		if seen[x] {
			continue
		}
		seen[x] = true
		if x == b.Block() {
			return true
		}
		stack = append(stack, x.Succs...)
	}
	return false
}

// forwardMutations: journalled fields changed by the instructions of f, including through callees that do not journal
// themselves (a callee with its own journal.append is checked on its own).
func forwardMutations(f *ssa.Function) []mutSite {
	var out []mutSite
	for _, m := range directMutations(f) {
		if c08J[m.Ref.String()] {
			out = append(out, m)
		}
	}
	allInstrs(f, false, func(_ *ssa.Function, in ssa.Instruction) {
		cc := callCommon(in)
		if cc == nil {
			return
		}
		callee := cc.StaticCallee()
		if callee == nil || callee.Pkg == nil || !strings.HasPrefix(callee.Pkg.Pkg.Path(), modPath) || len(callee.Blocks) == 0 {
			return
		}
		seen := map[*ssa.Function]bool{}
		var visit func(g *ssa.Function, d int)
		visit = func(g *ssa.Function, d int) {
			if seen[g] || len(g.Blocks) == 0 || hasAppend(g) || d < 0 || c08Loaders[fnName(g)] != "" {
				return
			}
			seen[g] = true
			for _, m := range directMutations(g) {
				if c08J[m.Ref.String()] {
					out = append(out, mutSite{m.Ref, in})
				}
			}
			allInstrs(g, false, func(_ *ssa.Function, x ssa.Instruction) {
				if c2 := callCommon(x); c2 != nil {
					if cl := c2.StaticCallee(); cl != nil && cl.Pkg != nil && strings.HasPrefix(cl.Pkg.Pkg.Path(), modPath) {
						visit(cl, d-1)
					}
				}
			})
		}
		visit(callee, 3)
	})
	return out
}

func runC08(c *Ctx) {
	c.Decided = []string{
		"every journal entry kind undoes something, and everything a journalling operation changes (directly or through non-journalling helpers) is in the write set of the entry it appends",
		"the previous values stored in an entry are read before the operation overwrites them, and each revert hands exactly those values to the matching low-level setter",
		"journalled fields are written only by revert methods, journalling operations, their low-level setters (called only from those), and a frozen table of lifecycle functions",
		"revert mechanics: entries are undone newest-first down to and including the snapshot index, the journal and the revision stack are truncated to the snapshot, dirty counts are decreased exactly as append increased them",
		"Copy/deepCopy never store a map, slice or pointer of the source into the copy (except the shared database, snapshot tree and immutable byte strings), and balances are never modified in place",
		"Commit computes the intermediate root first, which finalises first; Finalise ends by clearing journal, revisions and refund",
		"a journal entry carries every field its revert reads; the canonical-shape rules of the trie's insert and delete (C07 group) since the committed root is to depend on content only; a failed snapshot read falls through to the trie",
	}
	c.NotDec = []string{"that reverted observables equal their old values for all histories (value-quantified)", "root equality with a fresh replay of the non-reverted operations", "read-back through trie and snapshot layers"}
	c.Floors["E"] = 15
	c.Floors["W"] = 15

	// ---- entry kinds --------------------------------------------------------------------------------------------
	var entryTypes []string
	reverts := map[string]*ssa.Function{}
	if pk := c.P.ByPath[modPath+"/kai/state"]; pk != nil && pk.Types != nil {
		je, _ := pk.Types.Scope().Lookup("journalEntry").(*types.TypeName)
		if je != nil {
			iface := je.Type().Underlying().(*types.Interface)
			for _, n := range pk.Types.Scope().Names() {
				tn, ok := pk.Types.Scope().Lookup(n).(*types.TypeName)
				if !ok || tn == je {
					continue
				}
				if _, isIface := tn.Type().Underlying().(*types.Interface); isIface {
					continue
				}
				if types.Implements(tn.Type(), iface) || types.Implements(types.NewPointer(tn.Type()), iface) {
					entryTypes = append(entryTypes, n)
					if fn := c.P.Func("kai/state", n, "revert"); fn != nil {
						reverts[n] = fn
						c.Funcs[fnName(fn)] = true
					}
				}
			}
		}
	}
	c.Check("S", "kai/state.journalEntry/implementations enumerated", len(entryTypes) >= 14 && len(reverts) == len(entryTypes), c.fnPos("(*kai/state.journal).append"), len(entryTypes), strings.Join(entryTypes, ","))
	backward := map[string]map[string]bool{}
	for _, n := range entryTypes {
		fn := reverts[n]
		if fn == nil {
			continue
		}
		backward[n] = jOnly(mutationSet(fn, 3))
		if n == "touchChange" {
			c.Check("E", "kai/state."+n+".revert/undoes nothing (touch only marks the account dirty; the dirty count is undone by journal.revert)", len(backward[n]) == 0, fn.Pos(), 1, strings.Join(keys(backward[n]), ","))
			continue
		}
		c.Check("E", "kai/state."+n+".revert/undoes something", len(backward[n]) > 0, fn.Pos(), len(backward[n]), "the entry is appended but its revert changes no journalled state")
	}
	// ---- forward ⊆ backward, previous values read before being overwritten -----------------------------------------
	type site struct {
		fn    *ssa.Function
		in    ssa.Instruction
		entry string
		lit   *ssa.Alloc
	}
	var sites []site
	appended := map[string]int{}
	for _, f := range c.P.ModFuncs {
		if f.Pkg == nil || strings.TrimPrefix(f.Pkg.Pkg.Path(), modPath+"/") != "kai/state" || len(f.Blocks) == 0 {
			continue
		}
		f := f
		allInstrs(f, false, func(_ *ssa.Function, in ssa.Instruction) {
			if !isAppend(in) {
				return
			}
			cc := callCommon(in)
			var lit *ssa.Alloc
			ent := ""
			if mi, ok := cc.Args[1].(*ssa.MakeInterface); ok {
				ent = strings.TrimPrefix(namedOf(mi.X.Type()), "kai/state.")
				if u, ok := mi.X.(*ssa.UnOp); ok {
					lit, _ = u.X.(*ssa.Alloc)
				}
			}
			sites = append(sites, site{f, in, ent, lit})
			appended[ent]++
		})
	}
	c.Check("S", "kai/state.journal.append/call sites enumerated", len(sites) >= 14, c.fnPos("(*kai/state.journal).append"), len(sites), "")
	for _, n := range entryTypes {
		c.Check("S", "kai/state."+n+"/is appended somewhere", appended[n] > 0, c.fnPos("(*kai/state.journal).append"), appended[n], "an entry kind that is never appended: the operation it belonged to is no longer journalled")
	}
	for _, s := range sites {
		if backward[s.entry] == nil {
			c.Bad("E", fnName(s.fn)+"/appends a known entry kind", instrPos(s.in), 1, "entry "+s.entry)
			continue
		}
		c.Funcs[fnName(s.fn)] = true
		// entries appended on a common path share the work of undoing
		allowed := map[string]bool{}
		for _, t := range sites {
			if t.fn == s.fn && (t.in == s.in || reaches(s.in, t.in) || reaches(t.in, s.in)) {
				for k := range backward[t.entry] {
					allowed[k] = true
				}
			}
		}
		var missing []string
		fwd := map[string]bool{}
		muts := forwardMutations(s.fn)
		for _, m := range muts {
			if m.In != s.in && !reaches(m.In, s.in) && !reaches(s.in, m.In) {
				continue
			}
			fwd[m.Ref.String()] = true
			if !allowed[m.Ref.String()] {
				missing = append(missing, fmt.Sprintf("%s (changed at %s)", m.Ref, c.P.Pos(instrPos(m.In))))
			}
		}
		sort.Strings(missing)
		c.Check("E", fmt.Sprintf("%s/everything changed along with appending %s is undone by its revert", fnName(s.fn), s.entry), len(missing) == 0 && (len(fwd) > 0 || s.entry == "touchChange"), instrPos(s.in), len(fwd),
			"changed: "+strings.Join(keys(fwd), ",")+"; undone by "+s.entry+".revert: "+strings.Join(keys(allowed), ",")+"; not undone: "+strings.Join(missing, "; "))
		// previous values are read before the change
		if s.lit != nil {
			late := ""
			for _, r := range *s.lit.Referrers() {
				fa, ok := r.(*ssa.FieldAddr)
				if !ok {
					continue
				}
				for _, r2 := range *fa.Referrers() {
					st, ok := r2.(*ssa.Store)
					if !ok || st.Addr != fa {
						continue
					}
					var defs []ssa.Instruction
					for _, pc := range phiCases(st.Val) {
						if d, ok := pc.Val.(ssa.Instruction); ok {
							defs = append(defs, d)
						}
					}
					for _, d := range defs {
						if d.Block() == nil {
							continue
						}
						readsField := ""
						if v, ok := d.(ssa.Value); ok {
							if r, ok := fieldOfValue(v); ok {
								readsField = r.String()
							}
						}
						for _, m := range muts {
							if readsField != "" && m.Ref.String() != readsField {
								continue
							}
							if backward[s.entry][m.Ref.String()] && m.In != d && reaches(m.In, d) && (reaches(d, s.in) || d == s.in) {
								late = fmt.Sprintf("%s.%s is computed at %s after %s was already changed at %s", s.entry, fieldName(fa.X.Type(), fa.Field), c.P.Pos(instrPos(d)), m.Ref, c.P.Pos(instrPos(m.In)))
							}
						}
					}
				}
			}
			c.Check("O", fmt.Sprintf("%s/the previous values recorded in %s are read before the state is changed", fnName(s.fn), s.entry), late == "", instrPos(s.in), 1, late)
			// the entry carries every field its revert reads (a field left out of the literal is restored as the zero value)
			set := map[string]bool{}
			for _, r := range *s.lit.Referrers() {
				if fa, ok := r.(*ssa.FieldAddr); ok {
					for _, r2 := range *fa.Referrers() {
						if st, ok := r2.(*ssa.Store); ok && st.Addr == fa {
							set[fieldName(fa.X.Type(), fa.Field)] = true
						}
					}
				}
			}
			var unset []string
			for r := range c.Effects(reverts[s.entry], 0).Reads {
				if r.Type == "kai/state."+s.entry && !set[r.Field] {
					unset = append(unset, r.Field)
				}
			}
			sort.Strings(unset)
			c.Check("E", fmt.Sprintf("%s/the appended %s carries every field its revert reads", fnName(s.fn), s.entry), len(unset) == 0, instrPos(s.in), len(set), "not filled in at this site: "+strings.Join(unset, ", ")+" (revert would restore the zero value)")
		}
	}
	c08Reverts(c)
	c08Writers(c, reverts)
	c08Mechanics(c)
	c08Copy(c)
	c08Snapshot(c)
	c08ReadPath(c)
	cacheKeyRules(c)
	// "the root depends on the content only": the storage and account tries keep the canonical shape under insert and
	// delete whatever the history (group owned by C07)
	c07Shape(c)
}
