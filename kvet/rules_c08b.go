package main

// C08 (continued) — revert argument tables, who-may-write, revert mechanics, copy independence.

import (
	"fmt"
	"go/types"
	"sort"
	"strings"

	"golang.org/x/tools/go/ssa"
)

// c08Reverts: each revert hands the recorded values to the matching low-level setter of the recorded account.
func c08Reverts(c *Ctx) {
	obj := `call:(*kai/state.StateDB).getStateObject(s, *ch.account)`
	for _, t := range []struct{ entry, callee, args string }{
		{"balanceChange", "(*kai/state.stateObject).setBalance", obj + ", ch.prev"},
		{"nonceChange", "(*kai/state.stateObject).setNonce", obj + ", ch.prev"},
		{"codeChange", "(*kai/state.stateObject).setCode", obj + ", call:lib/common.BytesToHash(ch.prevhash), ch.prevcode"},
		{"storageChange", "(*kai/state.stateObject).setState", obj + ", ch.key, ch.prevalue"},
		{"suicideChange", "(*kai/state.stateObject).setBalance", obj + ", ch.prevbalance"},
		{"transientStorageChange", "(*kai/state.StateDB).setTransientState", "s, *ch.account, ch.key, ch.prevalue"},
		{"resetObjectChange", "(*kai/state.StateDB).setStateObject", "s, ch.prev"},
		{"accessListAddAccountChange", "(*kai/state.accessList).DeleteAddress", "s.accessList, *ch.address"},
		{"accessListAddSlotChange", "(*kai/state.accessList).DeleteSlot", "s.accessList, *ch.address, *ch.slot"},
	} {
		fn := c.Fn("kai/state", t.entry, "revert")
		if fn == nil {
			continue
		}
		n := 0
		got := ""
		for _, in := range findInstrs(fn, CallTo("^"+regexpQuote(t.callee)+"$", "")) {
			got = strings.Join(argPaths(callCommon(in)), ", ")
			if got == t.args {
				n++
			}
		}
		c.Check("F", fnName(fn)+"/restores through "+t.callee[strings.LastIndex(t.callee, ".")+1:]+"("+strings.ReplaceAll(t.args, obj, "object of ch.account")+")", n == 1, fn.Pos(), n, "got "+got)
		if t.entry == "suicideChange" {
			c.AfterGuard(fn, G("the account still exists", NotNil("^"+regexpQuote(obj)+"$")), "restore call", CallTo("^"+regexpQuote(t.callee)+"$", ""), "returning", AnyReturn())
		} else {
			c.OnEveryPath(fn, "restore call", CallTo("^"+regexpQuote(t.callee)+"$", ""), "return", AnyReturn())
		}
	}
	for _, t := range []struct{ entry, addr, val string }{
		{"refundChange", "&s.refund", "ch.prev"},
		{"suicideChange", "&" + obj + ".suicided", "ch.prev"},
	} {
		fn := c.Fn("kai/state", t.entry, "revert")
		if fn == nil {
			continue
		}
		n := 0
		for _, in := range findInstrs(fn, StoreTo("^"+regexpQuote(t.addr)+"$")) {
			if pathOf(in.(*ssa.Store).Val) == t.val {
				n++
			}
		}
		c.Check("F", fnName(fn)+"/restores "+strings.ReplaceAll(t.addr[1:], obj, "object")+" from "+t.val, n == 1, fn.Pos(), n, "")
	}
	if fn := c.Fn("kai/state", "createObjectChange", "revert"); fn != nil {
		n := 0
		for _, in := range findInstrs(fn, CallTo(`^delete$`, "")) {
			a := argPaths(callCommon(in))
			if len(a) == 2 && (a[0] == "s.stateObjects" || a[0] == "s.stateObjectsDirty") && a[1] == "*ch.account" {
				n++
			}
		}
		c.Check("F", fnName(fn)+"/removes the created account from stateObjects and stateObjectsDirty", n == 2, fn.Pos(), n, "")
	}
	if fn := c.Fn("kai/state", "resetObjectChange", "revert"); fn != nil {
		c.Guarded(fn, "clear the destruct mark", CallTo(`^delete$`, `s\.stateObjectsDestruct, ch\.prev\.address\)$`), G("the account was not marked before", False(`^ch\.prevdestruct$`)))
		for _, f := range []string{"snapAccounts", "snapStorage"} {
			want := map[string]string{"snapAccounts": "ch.prevAccount", "snapStorage": "ch.prevStorage"}[f]
			n := 0
			allInstrs(fn, false, func(_ *ssa.Function, in ssa.Instruction) {
				if mu, ok := in.(*ssa.MapUpdate); ok && pathOf(mu.Map) == "s."+f && pathOf(mu.Key) == "ch.prev.addrHash" && pathOf(mu.Value) == want {
					n++
				}
			})
			c.Check("F", fnName(fn)+"/puts the cached "+f+" entry back under the previous object's hash", n == 1, fn.Pos(), n, "")
		}
	}
	if fn := c.Fn("kai/state", "addLogChange", "revert"); fn != nil {
		n := 0
		for _, in := range findInstrs(fn, StoreTo(`^&s\.logSize$`)) {
			if pathOf(in.(*ssa.Store).Val) == "(s.logSize - const:1)" {
				n++
			}
		}
		c.Check("F", fnName(fn)+"/log counter decreases by one", n == 1, fn.Pos(), n, "")
		c.OnEveryPath(fn, "decrease the log counter", StoreTo(`^&s\.logSize$`), "return", AnyReturn())
		m := 0
		allInstrs(fn, false, func(_ *ssa.Function, in ssa.Instruction) {
			if mu, ok := in.(*ssa.MapUpdate); ok && pathOf(mu.Map) == "s.logs" && pathOf(mu.Key) == "ch.txhash" && pathOf(mu.Value) == "s.logs[ch.txhash][:(call:len(s.logs[ch.txhash]) - const:1)]" {
				m++
			}
		})
		c.Check("F", fnName(fn)+"/drops exactly the newest log of the recorded transaction", m == 1, fn.Pos(), m, "")
	}
	if fn := c.Fn("kai/state", "addPreimageChange", "revert"); fn != nil {
		n := len(findInstrs(fn, CallTo(`^delete$`, `s\.preimages, ch\.hash\)$`)))
		c.Check("F", fnName(fn)+"/removes the recorded preimage", n == 1, fn.Pos(), n, "")
	}
	// journalling operations that skip when nothing changes must compare with the value they record
	if fn := c.Fn("kai/state", "stateObject", "SetState"); fn != nil {
		c.Guarded(fn, "journal and set", Or(isAppend, CallTo(`^\(\*kai/state\.stateObject\)\.setState$`, "")), G("value differs from the current one", Cmp(`^call:\(\*kai/state\.stateObject\)\.GetState\(s, db, key\)$`, "!=", `^value$`)))
	}
	if fn := c.Fn("kai/state", "StateDB", "AddPreimage"); fn != nil {
		c.Guarded(fn, "journal and store", isAppend, G("preimage not recorded yet", False(`^s\.preimages\[hash\]#1$`)))
	}
}

// c08Writers: who may change journalled fields.
func c08Writers(c *Ctx, reverts map[string]*ssa.Function) {
	lifecycle := map[string]string{
		"(*kai/state.StateDB).Finalise":              "end of transaction: moves dirty state to pending and clears the journal (no revert across it)",
		"(*kai/state.StateDB).clearJournalAndRefund": "end of transaction: resets refund together with the journal",
		"(*kai/state.StateDB).updateStateObject":     "commit phase: refreshes the snapshot cache from the finalised object",
		"(*kai/state.StateDB).Commit":                "commit phase",
		"(*kai/state.StateDB).IntermediateRoot":      "commit phase",
		"(*kai/state.StateDB).Copy":                  "fills the fields of the new copy",
		"(*kai/state.StateDB).SetStorage":            "debug/override API: pretends an earlier self-destruct to wipe storage; documented as not revertible",
		"(*kai/state.stateObject).deepCopy":          "fills the fields of the new copy",
		"(*kai/state.stateObject).finalise":          "end of transaction: dirty storage becomes pending",
		"(*kai/state.stateObject).updateTrie":        "commit phase: refreshes the snapshot cache from pending storage",
		"(*kai/state.accessList).Copy":               "fills the fields of the new copy",
		"(*kai/state.StateDB).CreateAccount":         "carries the balance over into the object created in the same call; reverting the creation entry discards that object",
		"(*kai/state.StateDB).Prepare":               "start of transaction: installs a fresh access list",
	}
	for k, v := range c08Loaders {
		lifecycle[k] = v
	}
	cg := c.P.CallGraph()
	isRevert := func(f *ssa.Function) bool {
		for _, r := range reverts {
			if r == f {
				return true
			}
		}
		return fnName(f) == "(*kai/state.journal).revert"
	}
	var fns []*ssa.Function
	for _, f := range c.P.ModFuncs {
		if f.Pkg == nil || strings.TrimPrefix(f.Pkg.Pkg.Path(), modPath+"/") != "kai/state" || len(f.Blocks) == 0 || f.Parent() != nil {
			continue
		}
		if strings.HasPrefix(fnName(f), "(*kai/state.ManagedState)") {
			continue
		}
		fns = append(fns, f)
	}
	sort.Slice(fns, func(i, j int) bool { return fnName(fns[i]) < fnName(fns[j]) })
	n := 0
	for _, f := range fns {
		dm := map[string]bool{}
		for _, m := range directMutations(f) {
			if c08J[m.Ref.String()] {
				dm[m.Ref.String()] = true
			}
		}
		if len(dm) == 0 {
			continue
		}
		n++
		name := fnName(f)
		key := name + "/may change " + strings.Join(keys(dm), ",")
		switch {
		case isRevert(f):
			c.OK("W", key, f.Pos(), len(dm), "revert method")
		case hasAppend(f):
			c.OK("W", key, f.Pos(), len(dm), "journalling operation (forward/backward agreement checked above)")
		case lifecycle[name] != "":
			c.OK("W", key, f.Pos(), len(dm), "tabled: "+lifecycle[name])
		default:
			// low-level setter: every caller is a revert, a journalling operation, or tabled
			bad := ""
			callers := 0
			if node := cg.Nodes[f]; node != nil {
				for _, e := range node.In {
					cf := rootFn(e.Caller.Func)
					if cf.Pkg == nil || !strings.HasPrefix(cf.Pkg.Pkg.Path(), modPath) {
						continue
					}
					callers++
					if isRevert(cf) || hasAppend(cf) || lifecycle[fnName(cf)] != "" {
						continue
					}
					bad = fnName(cf) + " at " + c.P.Pos(e.Site.Pos())
				}
			}
			c.Check("W", key, bad == "" && callers > 0, f.Pos(), callers, "low-level setter of journalled state called from "+bad+", which neither journals nor reverts: the change cannot be undone by RevertToSnapshot")
		}
	}
	c.Check("W", "kai/state/functions changing journalled fields inventoried", n >= 25, c.fnPos("(*kai/state.journal).append"), n, "")
	// a journalling operation that calls a low-level setter has an append on a common path with the call
	for _, f := range fns {
		if !hasAppend(f) || isRevert(f) {
			continue
		}
		var apps []ssa.Instruction
		allInstrs(f, false, func(_ *ssa.Function, in ssa.Instruction) {
			if isAppend(in) {
				apps = append(apps, in)
			}
		})
		for _, m := range forwardMutations(f) {
			ok := false
			for _, a := range apps {
				if reaches(a, m.In) || reaches(m.In, a) {
					ok = true
				}
			}
			if !ok {
				c.Bad("O", fnName(f)+"/each change of journalled state shares a path with an append", instrPos(m.In), 1, fmt.Sprintf("%s is changed at %s on a path with no journal.append", m.Ref, c.P.Pos(instrPos(m.In))))
			}
		}
	}
	// in the plain setters the append comes first on every path
	for _, t := range []struct{ recv, name, setter string }{
		{"stateObject", "SetBalance", "setBalance"}, {"stateObject", "SetNonce", "setNonce"}, {"stateObject", "SetCode", "setCode"}, {"stateObject", "SetState", "setState"},
		{"StateDB", "SetTransientState", "setTransientState"},
	} {
		if fn := c.Fn("kai/state", t.recv, t.name); fn != nil {
			c.Precedes(fn, "journal.append", isAppend, t.setter, CallTo(`\)\.`+t.setter+`$`, ""))
		}
	}
	for _, name := range []string{"AddRefund", "SubRefund"} {
		if fn := c.Fn("kai/state", "StateDB", name); fn != nil {
			c.Precedes(fn, "journal.append", isAppend, "change the refund counter", StoreTo(`^&s\.refund$`))
		}
	}
	if fn := c.Fn("kai/state", "StateDB", "Suicide"); fn != nil {
		c.Precedes(fn, "journal.append", isAppend, "mark and empty the account", Or(CallTo(`\)\.markSuicided$`, ""), StoreTo(`\.data\.Balance$`)))
	}
	if fn := c.Fn("kai/state", "StateDB", "AddLog"); fn != nil {
		c.Precedes(fn, "journal.append", isAppend, "record the log", func(in ssa.Instruction) bool { _, ok := in.(*ssa.MapUpdate); return ok })
		n := 0
		for _, in := range findInstrs(fn, isAppend) {
			_ = in
			n++
		}
		k := 0
		allInstrs(fn, false, func(_ *ssa.Function, in ssa.Instruction) {
			if mu, ok := in.(*ssa.MapUpdate); ok && pathOf(mu.Map) == "s.logs" && pathOf(mu.Key) == "s.thash" {
				k++
			}
		})
		txh := 0
		for _, in := range findInstrs(fn, StoreTo(`complit:kai/state\.addLogChange\.txhash$`)) {
			if pathOf(in.(*ssa.Store).Val) == "s.thash" {
				txh++
			}
		}
		c.Check("F", fnName(fn)+"/the log is stored under the transaction hash recorded in the entry", n == 1 && k == 1 && txh == 1, fn.Pos(), 3, "")
	}
}

// c08Mechanics: the undo loop, truncation and the revision stack.
func c08Mechanics(c *Ctx) {
	if fn := c.Fn("kai/state", "journal", "revert"); fn != nil {
		idx := `phi\(\(call:len\(j\.entries\) - const:1\)\|\(phi@t\d+ - const:1\)\)`
		undo := CallTo(`^iface:\(kai/state\.journalEntry\)\.revert$`, `revert\(j\.entries\[`+idx+`\], statedb\)$`)
		c.Check("F", fnName(fn)+"/undoes entries newest-first (from len-1 downwards, one step at a time)", len(findInstrs(fn, undo)) == 1, fn.Pos(), 1, "")
		c.Guarded(fn, "undo an entry", undo, G("index not below the snapshot", Cmp(`^`+idx+`$`, ">=", `^snapshot$`)))
		c.Guarded(fn, "stop and truncate", StoreTo(`^&j\.entries$`), G("index below the snapshot (all entries from snapshot on are undone)", Cmp(`^`+idx+`$`, "<", `^snapshot$`)))
		n := 0
		for _, in := range findInstrs(fn, StoreTo(`^&j\.entries$`)) {
			if pathOf(in.(*ssa.Store).Val) == "j.entries[:snapshot]" {
				n++
			}
		}
		c.Check("F", fnName(fn)+"/truncates the journal to the snapshot index", n == 1, fn.Pos(), n, "")
		c.OnEveryPath(fn, "truncate", StoreTo(`^&j\.entries$`), "return", AnyReturn())
		// dirty counts: decreased by one per undone entry that named an address, deleted at zero
		dec := func(in ssa.Instruction) bool {
			mu, ok := in.(*ssa.MapUpdate)
			return ok && pathOf(mu.Map) == "j.dirties" && strings.HasSuffix(pathOf(mu.Value), " - const:1)")
		}
		c.Guarded(fn, "decrease the dirty count", dec, G("the entry names an address", NotNil(`^call:iface:\(kai/state\.journalEntry\)\.dirtied\(j\.entries\[`)))
		c.AfterGuard(fn, G("the entry names an address", NotNil(`^call:iface:\(kai/state\.journalEntry\)\.dirtied\(j\.entries\[`)), "decrease the dirty count", dec, "the next entry or the end", Or(IfOn(`^\(`+idx+` >= snapshot\)$`), AnyReturn()))
		c.Guarded(fn, "forget the address", CallTo(`^delete$`, `^delete\(j\.dirties, `), G("its count reached zero", Cmp(`^j\.dirties\[`, "==", `^const:0$`)))
	}
	if fn := c.Fn("kai/state", "journal", "append"); fn != nil {
		inc := func(in ssa.Instruction) bool {
			mu, ok := in.(*ssa.MapUpdate)
			return ok && pathOf(mu.Map) == "j.dirties" && strings.HasSuffix(pathOf(mu.Value), " + const:1)")
		}
		c.Guarded(fn, "increase the dirty count", inc, G("the entry names an address", NotNil(`^call:iface:\(kai/state\.journalEntry\)\.dirtied\(entry\)$`)))
		c.AfterGuard(fn, G("the entry names an address", NotNil(`^call:iface:\(kai/state\.journalEntry\)\.dirtied\(entry\)$`)), "increase the dirty count", inc, "returning", AnyReturn())
		c.OnEveryPath(fn, "store the entry", StoreTo(`^&j\.entries$`), "return", AnyReturn())
	}
	if fn := c.Fn("kai/state", "StateDB", "Snapshot"); fn != nil {
		n := 0
		for _, in := range findInstrs(fn, StoreTo(`complit:kai/state\.revision\.journalIndex$`)) {
			if pathOf(in.(*ssa.Store).Val) == "call:(*kai/state.journal).length(s.journal)" {
				n++
			}
		}
		c.Check("F", fnName(fn)+"/records the current journal length", n == 1, fn.Pos(), n, "")
		c.OnEveryPath(fn, "push the revision", StoreTo(`^&s\.validRevisions$`), "return", AnyReturn())
	}
	if fn := c.Fn("kai/state", "journal", "length"); fn != nil {
		n := len(findInstrs(fn, ReturnWith(0, `^call:len\(j\.entries\)$`)))
		c.Check("F", fnName(fn)+"/is the number of entries", n == 1, fn.Pos(), n, "")
	}
	if fn := c.Fn("kai/state", "StateDB", "RevertToSnapshot"); fn != nil {
		idx := `call:sort\.Search\(call:len\(s\.validRevisions\), closure:\(\*kai/state\.StateDB\)\.RevertToSnapshot\$1\)`
		rev := CallTo(`^\(\*kai/state\.journal\)\.revert$`, `revert\(s\.journal, s, s\.validRevisions\[`+idx+`\]\.journalIndex\)$`)
		c.Check("F", fnName(fn)+"/reverts the journal to the index recorded for that revision", len(findInstrs(fn, rev)) == 1, fn.Pos(), 1, "")
		c.Guarded(fn, "revert", rev, G("revision found", Cmp(`^`+idx+`$`, "!=", `^call:len\(s\.validRevisions\)$`)), G("revision id matches", Cmp(`^s\.validRevisions\[`+idx+`\]\.id$`, "==", `^revid$`)))
		n := 0
		for _, in := range findInstrs(fn, StoreTo(`^&s\.validRevisions$`)) {
			if re(`^s\.validRevisions\[:` + idx + `\]$`).MatchString(pathOf(in.(*ssa.Store).Val)) {
				n++
			}
		}
		c.Check("F", fnName(fn)+"/drops the reverted revision and every later one", n == 1, fn.Pos(), n, "")
		c.FollowedBy(fn, "journal.revert", rev, "truncate the revision stack", StoreTo(`^&s\.validRevisions$`), "return", AnyReturn())
		for _, a := range fn.AnonFuncs {
			for _, in := range findInstrs(a, AnyReturn()) {
				c.Check("F", fnName(fn)+"/searches the first revision with id >= revid", re(`^\(\*?(free:)?s\.validRevisions\[i\]\.id >= \*?(free:)?revid\)$`).MatchString(pathOf(in.(*ssa.Return).Results[0])), instrPos(in), 1, pathOf(in.(*ssa.Return).Results[0]))
			}
		}
	}
	// ---- flush order -----------------------------------------------------------------------------------------
	if fn := c.Fn("kai/state", "StateDB", "Commit"); fn != nil {
		c.Precedes(fn, "IntermediateRoot (finalises and hashes)", CallTo(`^\(\*kai/state\.StateDB\)\.IntermediateRoot$`, ""), "committing objects", Or(CallTo(`^\(\*kai/state\.stateObject\)\.commitTrie$`, ""), CallTo(`\)\.Commit$`, "")))
	}
	if fn := c.Fn("kai/state", "StateDB", "IntermediateRoot"); fn != nil {
		c.Precedes(fn, "Finalise", CallTo(`^\(\*kai/state\.StateDB\)\.Finalise$`, ""), "updating tries", Or(CallTo(`^\(\*kai/state\.stateObject\)\.updateRoot$`, ""), CallTo(`^\(\*kai/state\.StateDB\)\.(updateStateObject|deleteStateObject)$`, "")))
	}
	if fn := c.Fn("kai/state", "StateDB", "Finalise"); fn != nil {
		c.OnEveryPath(fn, "clear journal and refund", CallTo(`^\(\*kai/state\.StateDB\)\.clearJournalAndRefund$`, ""), "return", AnyReturn())
		c.Guarded(fn, "mark the object deleted", StoreTo(`\.deleted$`), G("self-destructed, or empty and empties are deleted", True(`\.suicided$`), True(`^call:\(\*kai/state\.stateObject\)\.empty\(`)))
	}
	if fn := c.Fn("kai/state", "StateDB", "clearJournalAndRefund"); fn != nil {
		c.AfterGuard(fn, G("journal not empty", Cmp(`^call:len\(s\.journal\.entries\)$`, ">", `^const:0$`)), "reset the refund (it only changes through journalled operations)", StoreTo(`^&s\.refund$`), "returning", AnyReturn())
		c.OnEveryPath(fn, "drop all revisions", StoreTo(`^&s\.validRevisions$`), "return", AnyReturn())
		c.AfterGuard(fn, G("journal not empty", Cmp(`^call:len\(s\.journal\.entries\)$`, ">", `^const:0$`)), "install a fresh journal", StoreTo(`^&s\.journal$`), "returning", AnyReturn())
	}
}

// c08Copy: a copy shares no mutable container with its source.
func c08Copy(c *Ctx) {
	shared := map[string]map[string]string{
		"kai/state.StateDB": {
			"db":    "the backing database is shared by design",
			"snaps": "the snapshot tree is shared by design (layers are immutable once created)",
			"snap":  "the snapshot layer is immutable once created",
		},
		"kai/state.stateObject": {
			"code":    "code bytes are never modified in place (setCode replaces the slice)",
			"db":      "back pointer to the owning StateDB: deepCopy receives the copy's StateDB",
			"address": "value", "addrHash": "value",
		},
	}
	for _, t := range []struct {
		fn, typ, src string
		min          int
	}{{"(*kai/state.StateDB).Copy", "kai/state.StateDB", "s", 8}, {"(*kai/state.stateObject).deepCopy", "kai/state.stateObject", "s", 5}} {
		fn := c.P.FuncByName(t.fn)
		if fn == nil || len(fn.Blocks) == 0 {
			c.Unres("anchor", t.fn, "not found")
			continue
		}
		c.Funcs[t.fn] = true
		n := 0
		allInstrs(fn, false, func(_ *ssa.Function, in ssa.Instruction) {
			st, ok := in.(*ssa.Store)
			if !ok {
				return
			}
			fa, ok := st.Addr.(*ssa.FieldAddr)
			if !ok || namedOf(fa.X.Type()) != t.typ {
				return
			}
			f := fieldName(fa.X.Type(), fa.Field)
			switch st.Val.Type().Underlying().(type) {
			case *types.Map, *types.Slice, *types.Pointer, *types.Interface:
			default:
				return
			}
			n++
			v := pathOf(st.Val)
			alias := v == t.src+"."+f || re(`^`+t.src+`\.\w+$`).MatchString(v)
			if why, ok := shared[t.typ][f]; ok && alias {
				c.OK("F", t.fn+"/"+f+" is shared with the source on purpose", instrPos(in), 1, why)
				return
			}
			c.Check("F", t.fn+"/"+f+" of the copy is a new container, not the source's", !alias, instrPos(in), 1, "the copy's "+f+" is "+v+": a change through one state would be visible through the other")
		})
		c.Check("F", t.fn+"/reference-typed fields inventoried", n >= t.min, fn.Pos(), n, "")
	}
	if fn := c.P.FuncByName("(*kai/state.StateDB).Copy"); fn != nil {
		// maps are filled element by element from the source
		for _, f := range []string{"stateObjectsPending", "stateObjectsDirty", "stateObjectsDestruct", "logs", "preimages", "stateObjects"} {
			k := 0
			allInstrs(fn, false, func(_ *ssa.Function, in ssa.Instruction) {
				if mu, ok := in.(*ssa.MapUpdate); ok && strings.HasSuffix(pathOf(mu.Map), "complit:kai/state.StateDB."+f) {
					k++
				}
			})
			c.Check("F", "(*kai/state.StateDB).Copy/"+f+" is carried over entry by entry", k >= 1, fn.Pos(), k, "the copy starts with an empty "+f)
		}
		// objects go through deepCopy, logs are copied by value
		k := 0
		allInstrs(fn, false, func(_ *ssa.Function, in ssa.Instruction) {
			if mu, ok := in.(*ssa.MapUpdate); ok && strings.HasSuffix(pathOf(mu.Map), "complit:kai/state.StateDB.stateObjects") {
				if !strings.HasPrefix(pathOf(mu.Value), "call:(*kai/state.stateObject).deepCopy(") {
					k++
				}
			}
		})
		c.Check("F", "(*kai/state.StateDB).Copy/every object enters the copy through deepCopy", k == 0, fn.Pos(), 1, "")
		nl := 0
		allInstrs(fn, false, func(_ *ssa.Function, in ssa.Instruction) {
			if st, ok := in.(*ssa.Store); ok {
				if _, isIdx := st.Addr.(*ssa.IndexAddr); isIdx && strings.HasPrefix(pathOf(st.Val), "&alloc:new:types.Log") {
					nl++
				}
			}
		})
		c.Check("F", "(*kai/state.StateDB).Copy/logs are copied into new Log values", nl == 1, fn.Pos(), nl, "")
		for f, m := range map[string]string{"accessList": "(*kai/state.accessList).Copy", "transientStorage": "(kai/state.transientStorage).Copy"} {
			n := 0
			for _, in := range findInstrs(fn, StoreTo(`\.`+f+`$`)) {
				if strings.HasPrefix(pathOf(in.(*ssa.Store).Val), "call:"+m+"(s."+f) {
					n++
				}
			}
			c.Check("F", "(*kai/state.StateDB).Copy/"+f+" is copied with its Copy method", n == 1, fn.Pos(), n, "")
		}
	}
	// balances are replaced, never modified in place (objects and journal entries share the *big.Int)
	nb := 0
	for _, f := range c.P.ModFuncs {
		if f.Pkg == nil || strings.TrimPrefix(f.Pkg.Pkg.Path(), modPath+"/") != "kai/state" || len(f.Blocks) == 0 {
			continue
		}
		f := f
		allInstrs(f, false, func(_ *ssa.Function, in ssa.Instruction) {
			cc := callCommon(in)
			if cc == nil || len(cc.Args) == 0 {
				return
			}
			name := calleeNameNoPath(cc)
			if !strings.HasPrefix(name, "(*math/big.Int).") {
				return
			}
			m := name[len("(*math/big.Int)."):]
			if !map[string]bool{"Add": true, "Sub": true, "Set": true, "SetUint64": true, "SetInt64": true, "Mul": true, "Div": true, "SetBytes": true, "Neg": true, "Lsh": true, "Rsh": true, "Mod": true, "Exp": true, "SetString": true, "SetBit": true, "And": true, "Or": true, "Xor": true, "Not": true, "Abs": true, "Quo": true, "Rem": true}[m] {
				return
			}
			nb++
			recv := pathOf(cc.Args[0])
			bad := re(`\.data\.Balance$|\.Balance\(.*\)$|^ch\.prev(balance)?$`).MatchString(recv) || strings.HasPrefix(recv, "call:(*kai/state.stateObject).Balance(") || strings.HasPrefix(recv, "call:(*kai/state.StateDB).GetBalance(")
			if bad {
				c.Bad("W", fnName(f)+"/balances are never modified in place", instrPos(in), 1, describeInstr(in)+" modifies a balance value in place; the object, its copies and journal entries share that *big.Int")
			}
		})
	}
	c.Check("W", "kai/state/balances are never modified in place", true, c.fnPos("(*kai/state.stateObject).setBalance"), nb, fmt.Sprintf("%d big.Int mutator calls inspected", nb))
	for _, g := range []struct{ recv, name, ret string }{{"stateObject", "Balance", "s.data.Balance"}} {
		if fn := c.Fn("kai/state", g.recv, g.name); fn != nil {
			_ = g.ret
		}
	}
}
