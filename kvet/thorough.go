package main

// Thorough tier: extra build configurations and controls (seeded one-construct mutants applied as overlays).

import (
	"encoding/json"
	"flag"
	"fmt"
	"os"
	"os/exec"
	"path/filepath"
	"regexp"
	"runtime"
	"sort"
	"strings"
	"sync"
)

// thoroughExtras re-runs the rule set under the extra build configurations that change the file set of
// module packages and that the repository can build, then runs the controls.
func thoroughExtras(c *Ctx, cf commonFlags) []string {
	var cfgs []string
	if cf.overlay == "" && cf.tags == "" {
		for _, tags := range []string{"deadlock", "gofuzz"} {
			p2, err := Load(LoadOpts{Root: cf.root, Tags: tags})
			if err != nil {
				c.Unres("config", "tags="+tags, "load failed: "+err.Error())
				continue
			}
			c2 := newCtx(p2, c.Prop, c.Tier)
			p2.NoReturn(nil)
			rules[c.Prop].Run(c2)
			bad := 0
			for _, o := range c2.Obs {
				if o.Verdict != Discharged && !o.Advisory {
					bad++
					o2 := *o
					o2.Key = o.Key + "@tags=" + tags
					// only report if it differs from the default configuration's verdict
					same := false
					for _, o1 := range c.Obs {
						if o1.Key == o.Key && o1.Verdict == o.Verdict {
							same = true
						}
					}
					if !same {
						c.Obs = append(c.Obs, &o2)
					}
				}
			}
			cfgs = append(cfgs, fmt.Sprintf("-tags %s: %d packages, %d obligations, %d not discharged", tags, len(p2.ByPath), len(c2.Obs), bad))
			runtime.GC()
		}
		res := runControls(c.Prop, cf, runtime.NumCPU())
		if res != nil {
			c.Extra["controls"] = res
			fired, appl := 0, 0
			for _, r := range res {
				if r.Status == "fired" {
					fired++
				}
				if r.Status != "inapplicable" {
					appl++
				}
			}
			c.Extra["controls_fired"] = fmt.Sprintf("%d/%d", fired, appl)
			for _, r := range res {
				if r.Status == "missed" || r.Status == "error" {
					fmt.Printf("control %s/%s: %s %s\n", c.Prop, r.Name, r.Status, r.Detail)
				}
			}
		}
		if rf := runRefactorings(c.Prop, cf, runtime.NumCPU()); rf != nil {
			c.Extra["refactorings"] = rf
			sil, appl := 0, 0
			for _, r := range rf {
				if r.Status == "silent-ok" {
					sil++
				}
				if r.Status != "inapplicable" {
					appl++
				}
				if r.Status == "silent-alarm" || r.Status == "error" {
					fmt.Printf("refactoring %s: %s %s\n", r.Name, r.Status, r.Detail)
				}
			}
			cfgs = append(cfgs, fmt.Sprintf("behaviour-preserving refactorings of this property's functions (refactors/%s-r*): %d of %d applicable are silent", c.Prop, sil, appl))
		}
		if sw := runSweep(c, cf, runtime.NumCPU()); sw != nil && sw.Sites > 0 {
			c.Extra["guard_flip_sweep"] = sw
			cfgs = append(cfgs, fmt.Sprintf("guard-flip sweep: %d comparisons negated one at a time, %d reported by an obligation, %d variants did not compile, %d not reported (listed in coverage.guard_flip_sweep)", sw.Sites, sw.Detected, sw.NoCompile, len(sw.Undetected)))
		}
	}
	return cfgs
}

type Control struct {
	Name   string `json:"name"`
	File   string `json:"file"`
	Old    string `json:"old"`
	New    string `json:"new"`
	Expect string `json:"expect"` // regexp that must match the key of a reported violation
	Note   string `json:"note,omitempty"`
	// multi-edit controls
	Edits []struct {
		File string `json:"file"`
		Old  string `json:"old"`
		New  string `json:"new"`
		All  bool   `json:"all,omitempty"` // replace every occurrence (the same edit at sibling sites)
	} `json:"edits,omitempty"`
	// Repaired: a control that must be SILENT (a repaired variant of a finding / a behaviour-preserving refactor)
	Silent bool `json:"silent,omitempty"`
}

type ControlResult struct {
	Name   string   `json:"name"`
	Status string   `json:"status"` // fired | missed | inapplicable | error | silent-ok | silent-alarm
	Keys   []string `json:"violated_keys,omitempty"`
	Detail string   `json:"detail,omitempty"`
}

func loadControls(verif, prop string) ([]Control, error) {
	b, err := os.ReadFile(filepath.Join(verif, "controls", prop+".json"))
	if err != nil {
		if os.IsNotExist(err) {
			return nil, nil
		}
		return nil, err
	}
	var cs []Control
	if err := json.Unmarshal(b, &cs); err != nil {
		return nil, fmt.Errorf("controls/%s.json: %w", prop, err)
	}
	return cs, nil
}

var violLine = regexp.MustCompile(`(?m)^  (violated|unresolved) \[[^\]]+\] (\S.*?) at \S+$`)

func runControls(prop string, cf commonFlags, par int) []ControlResult {
	cs, err := loadControls(cf.verif, prop)
	if err != nil {
		return []ControlResult{{Name: "load", Status: "error", Detail: err.Error()}}
	}
	if len(cs) == 0 {
		return nil
	}
	self, _ := os.Executable()
	res := make([]ControlResult, len(cs))
	sem := make(chan struct{}, par)
	var wg sync.WaitGroup
	for i, ctl := range cs {
		wg.Add(1)
		go func(i int, ctl Control) {
			defer wg.Done()
			sem <- struct{}{}
			defer func() { <-sem }()
			res[i] = runControl(self, prop, cf, ctl)
		}(i, ctl)
	}
	wg.Wait()
	return res
}

func runControl(self, prop string, cf commonFlags, ctl Control) ControlResult {
	r := ControlResult{Name: ctl.Name}
	edits := ctl.Edits
	if ctl.File != "" {
		edits = append(edits, struct {
			File string `json:"file"`
			Old  string `json:"old"`
			New  string `json:"new"`
			All  bool   `json:"all,omitempty"`
		}{ctl.File, ctl.Old, ctl.New, false})
	}
	tmp, err := os.MkdirTemp("", "kvet-ctl-")
	if err != nil {
		r.Status, r.Detail = "error", err.Error()
		return r
	}
	defer os.RemoveAll(tmp)
	repl := map[string]string{}
	content := map[string]string{}
	for _, e := range edits {
		abs := filepath.Join(cf.root, e.File)
		src, ok := content[abs]
		if !ok {
			b, err := os.ReadFile(abs)
			if err != nil {
				r.Status, r.Detail = "inapplicable", "file missing: "+e.File
				return r
			}
			src = string(b)
		}
		if n := strings.Count(src, e.Old); n != 1 && !(e.All && n > 1) {
			r.Status, r.Detail = "inapplicable", fmt.Sprintf("old text occurs %d times in %s (tree edited)", n, e.File)
			return r
		}
		content[abs] = strings.ReplaceAll(src, e.Old, e.New)
	}
	i := 0
	for abs, src := range content {
		f := filepath.Join(tmp, fmt.Sprintf("f%d.go", i))
		i++
		os.WriteFile(f, []byte(src), 0o644)
		repl[abs] = f
	}
	ob, _ := json.Marshal(map[string]interface{}{"Replace": repl})
	ov := filepath.Join(tmp, "overlay.json")
	os.WriteFile(ov, ob, 0o644)
	cmd := exec.Command(self, "check", "-prop", prop, "-tier", "quick", "-overlay", ov, "-no-evidence", "-root", cf.root, "-verif", cf.verif)
	out, err := cmd.CombinedOutput()
	code := 0
	if ee, ok := err.(*exec.ExitError); ok {
		code = ee.ExitCode()
	} else if err != nil {
		r.Status, r.Detail = "error", err.Error()
		return r
	}
	for _, m := range violLine.FindAllStringSubmatch(string(out), -1) {
		r.Keys = append(r.Keys, m[2])
	}
	sort.Strings(r.Keys)
	switch {
	case code == 2:
		r.Status, r.Detail = "error", "mutant does not load/compile: "+clip(string(out), 400)
	case ctl.Silent:
		if code == 0 {
			r.Status = "silent-ok"
		} else {
			r.Status, r.Detail = "silent-alarm", "a behaviour-preserving / repaired variant raised: "+strings.Join(r.Keys, "; ")
		}
	case code == 1:
		ok := ctl.Expect == ""
		for _, k := range r.Keys {
			if ctl.Expect != "" && regexp.MustCompile(ctl.Expect).MatchString(k) {
				ok = true
			}
		}
		if ok {
			r.Status = "fired"
		} else {
			r.Status, r.Detail = "missed", "violations reported but none matches expect="+ctl.Expect
		}
	default:
		r.Status, r.Detail = "missed", "check exited 0 on the mutant"
	}
	return r
}

func cmdControls(args []string) int {
	fs := flag.NewFlagSet("controls", flag.ExitOnError)
	var cf commonFlags
	cf.bind(fs)
	prop := fs.String("prop", "", "property id (empty = all)")
	par := fs.Int("j", runtime.NumCPU(), "parallelism")
	only := fs.String("only", "", "run only controls whose name matches")
	verbose := fs.Bool("v", false, "print violated keys")
	fs.Parse(args)
	var props []string
	if *prop != "" {
		props = []string{*prop}
	} else {
		for p := range rules {
			props = append(props, p)
		}
		sort.Strings(props)
	}
	bad := 0
	for _, p := range props {
		cs, err := loadControls(cf.verif, p)
		if err != nil {
			fmt.Println(err)
			return 2
		}
		if *only != "" {
			var f []Control
			for _, c := range cs {
				if regexp.MustCompile(*only).MatchString(c.Name) {
					f = append(f, c)
				}
			}
			cs = f
		}
		if len(cs) == 0 {
			continue
		}
		self, _ := os.Executable()
		res := make([]ControlResult, len(cs))
		sem := make(chan struct{}, *par)
		var wg sync.WaitGroup
		for i, ctl := range cs {
			wg.Add(1)
			go func(i int, ctl Control) {
				defer wg.Done()
				sem <- struct{}{}
				defer func() { <-sem }()
				res[i] = runControl(self, p, cf, ctl)
			}(i, ctl)
		}
		wg.Wait()
		for _, r := range res {
			fmt.Printf("%s %-60s %s %s\n", p, r.Name, r.Status, clip(r.Detail, 300))
			if *verbose || r.Status == "missed" {
				for _, k := range r.Keys {
					fmt.Println("      ", k)
				}
			}
			if r.Status == "missed" || r.Status == "error" || r.Status == "silent-alarm" {
				bad++
			}
		}
	}
	if bad > 0 {
		return 1
	}
	return 0
}

// runRefactorings re-runs the property's rules on each stored behaviour-preserving refactoring written for this property
// (verif/refactors/<prop>-r*/patch.diff, applied in memory); every one must be silent. Measures the checker, not the tree.
func runRefactorings(prop string, cf commonFlags, par int) []ControlResult {
	dirs, _ := filepath.Glob(filepath.Join(cf.verif, "refactors", prop+"-r*"))
	if len(dirs) == 0 {
		return nil
	}
	sort.Strings(dirs)
	self, _ := os.Executable()
	res := make([]ControlResult, len(dirs))
	sem := make(chan struct{}, par)
	var wg sync.WaitGroup
	for i, d := range dirs {
		wg.Add(1)
		go func(i int, d string) {
			defer wg.Done()
			sem <- struct{}{}
			defer func() { <-sem }()
			r := ControlResult{Name: filepath.Base(d)}
			defer func() { res[i] = r }()
			pb, err := os.ReadFile(filepath.Join(d, "patch.diff"))
			if err != nil {
				r.Status, r.Detail = "error", err.Error()
				return
			}
			files, err := applyUnifiedDiff(cf.root, string(pb))
			if err != nil {
				r.Status, r.Detail = "inapplicable", err.Error()
				return
			}
			tmp, err := os.MkdirTemp("", "kvet-rf-")
			if err != nil {
				r.Status, r.Detail = "error", err.Error()
				return
			}
			defer os.RemoveAll(tmp)
			repl := map[string]string{}
			n := 0
			for abs, content := range files {
				f := filepath.Join(tmp, fmt.Sprintf("f%d.go", n))
				n++
				os.WriteFile(f, content, 0o644)
				repl[abs] = f
			}
			ob, _ := json.Marshal(map[string]interface{}{"Replace": repl})
			ov := filepath.Join(tmp, "overlay.json")
			os.WriteFile(ov, ob, 0o644)
			out, err := exec.Command(self, "check", "-prop", prop, "-tier", "quick", "-overlay", ov, "-no-evidence", "-root", cf.root, "-verif", cf.verif).CombinedOutput()
			code := 0
			if ee, ok := err.(*exec.ExitError); ok {
				code = ee.ExitCode()
			} else if err != nil {
				r.Status, r.Detail = "error", err.Error()
				return
			}
			for _, m := range violLine.FindAllStringSubmatch(string(out), -1) {
				r.Keys = append(r.Keys, m[2])
			}
			switch code {
			case 0:
				r.Status = "silent-ok"
			case 2:
				r.Status, r.Detail = "error", "refactored tree does not load: "+clip(string(out), 300)
			default:
				r.Status, r.Detail = "silent-alarm", "a behaviour-preserving refactoring raised: "+strings.Join(r.Keys, "; ")
			}
		}(i, d)
	}
	wg.Wait()
	return res
}
