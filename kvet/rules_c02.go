package main

// C02 — quorum certificates are sound: +2/3 means strictly more than two thirds.

import (
	"fmt"
	"go/constant"
	"go/token"
	"sort"
	"strings"

	"golang.org/x/tools/go/ssa"
)

func init() {
	register("C02", []string{"types/vote_set.go", "types/validator_set.go", "types/commit.go", "types/vote.go", "consensus/types/height_vote_set.go"}, runC02)
}

const tvpCallee = "(*types.ValidatorSet).TotalVotingPower"

func isConstInt(v ssa.Value, n int64) bool {
	c, ok := v.(*ssa.Const)
	if !ok || c.Value == nil || c.Value.Kind() != constant.Int {
		return false
	}
	i, ok := constant.Int64Val(c.Value)
	return ok && i == n
}

func stripConv(v ssa.Value) ssa.Value {
	for {
		switch x := v.(type) {
		case *ssa.Convert:
			v = x.X
		case *ssa.ChangeType:
			v = x.X
		default:
			return v
		}
	}
}

// tvpRecv: v is a call of TotalVotingPower; returns the receiver path.
func tvpRecv(v ssa.Value) (string, bool) {
	c, ok := stripConv(v).(*ssa.Call)
	if !ok {
		return "", false
	}
	if f := c.Call.StaticCallee(); f != nil && short(f.String()) == tvpCallee && len(c.Call.Args) == 1 {
		return pathOf(c.Call.Args[0]), true
	}
	return "", false
}

// twoThirds: v == T*2/3 (either operand order of the multiplication).
func twoThirds(v ssa.Value) (string, bool) {
	q, ok := stripConv(v).(*ssa.BinOp)
	if !ok || q.Op != token.QUO || !isConstInt(q.Y, 3) {
		return "", false
	}
	m, ok := stripConv(q.X).(*ssa.BinOp)
	if !ok || m.Op != token.MUL {
		return "", false
	}
	if r, ok := tvpRecv(m.X); ok && isConstInt(m.Y, 2) {
		return r, true
	}
	if r, ok := tvpRecv(m.Y); ok && isConstInt(m.X, 2) {
		return r, true
	}
	return "", false
}

// quorumExpr: v == T*2/3 + 1.
func quorumExpr(v ssa.Value) (string, bool) {
	a, ok := stripConv(v).(*ssa.BinOp)
	if !ok || a.Op != token.ADD {
		return "", false
	}
	if r, ok := twoThirds(a.X); ok && isConstInt(a.Y, 1) {
		return r, true
	}
	if r, ok := twoThirds(a.Y); ok && isConstInt(a.X, 1) {
		return r, true
	}
	return "", false
}

func containsTVP(v ssa.Value, depth int) bool {
	if depth > 8 || v == nil {
		return false
	}
	if _, ok := tvpRecv(v); ok {
		return true
	}
	switch x := stripConv(v).(type) {
	case *ssa.BinOp:
		return containsTVP(x.X, depth+1) || containsTVP(x.Y, depth+1)
	case *ssa.UnOp:
		if x.Op == token.SUB {
			return containsTVP(x.X, depth+1)
		}
	}
	return false
}

type qSite struct {
	Fn    *ssa.Function
	Cmp   *ssa.BinOp
	Class string // SUPER, NOTSUPER, ALL, NOTALL, OTHER
	X     ssa.Value
	Recv  string
}

// classifyQ normalises a comparison that involves TotalVotingPower() to what it asserts (when true) about X.
func classifyQ(b *ssa.BinOp) (class string, x ssa.Value, recv string) {
	op := b.Op.String()
	try := func(x, t ssa.Value, op string) (string, ssa.Value, string, bool) {
		if r, ok := twoThirds(t); ok {
			switch op {
			case ">":
				return "SUPER", x, r, true
			case "<=":
				return "NOTSUPER", x, r, true
			}
			return "OTHER", x, r, true
		}
		if r, ok := quorumExpr(t); ok {
			switch op {
			case ">=":
				return "SUPER", x, r, true
			case "<":
				return "NOTSUPER", x, r, true
			}
			return "OTHER", x, r, true
		}
		if r, ok := tvpRecv(t); ok {
			switch op {
			case "==":
				return "ALL", x, r, true
			case "!=":
				return "NOTALL", x, r, true
			}
			return "OTHER", x, r, true
		}
		return "", nil, "", false
	}
	if c, xx, r, ok := try(b.X, b.Y, op); ok {
		return c, xx, r
	}
	if c, xx, r, ok := try(b.Y, b.X, flipOp[op]); ok {
		return c, xx, r
	}
	return "OTHER", nil, ""
}

func runC02(c *Ctx) {
	c.Decided = []string{
		"every comparison against TotalVotingPower() in the module is one of the tabled sites and has the strict-more-than-2/3 normal form expected there (x > T*2/3, T*2/3+1 <= x, their negations, == T)",
		"a validator's power is added to a tally only when its slot was empty (VoteSet.sum, blockVotes.sum) and only after signature, step, index and address checks",
		"maj23 is set only on the NOTSUPER→SUPER crossing of the per-block tally, only once, to the vote's block id; TwoThirdsMajority reports true only with maj23 set",
		"VerifyCommit accepts only behind size/height/block-id/ValidateBasic checks, tallies only verified non-absent signatures for that block id, one validator per signature index",
		"MakeCommit replaces votes for other blocks by absent; the commit carries the vote set's height, round and maj23",
		"catch-up rounds are bounded per peer",
		"the map key of a block id covers every field its equality compares (so distinct ids never share a tally)",
		"the bytes a vote signature is verified over carry the vote's type, height, round and the whole block id (hash, part-set total and hash), so a signature counted for one (height, round, type, block id) was made for exactly that (group shared with C11)",
	}
	c.NotDec = []string{"completeness (a real +2/3 is always reported) over all vote sequences", "equality of the accepted set with an independent tally (value-level)"}
	c.Floors["Q"] = 6
	c.Floors["G"] = 20

	voteSignBytesRules(c)
	commitVoteRules(c)
	validatorSetRoles(c)
	blockSyncRules(c)

	// ---- Q: sweep every comparison involving TotalVotingPower() ---------------------------------
	type want struct{ fn, class, x, recv, why string }
	table := []want{
		{"(*types.VoteSet).addVerifiedVote", "NOTSUPER", `\.sum$`, "voteSet.valSet", "tally before adding the vote is below quorum"},
		{"(*types.VoteSet).addVerifiedVote", "SUPER", `\.sum$`, "voteSet.valSet", "tally after adding the vote reaches quorum"},
		{"(*types.VoteSet).HasTwoThirdsAny", "SUPER", `^voteSet\.sum$`, "voteSet.valSet", "any +2/3"},
		{"(*types.VoteSet).HasAll", "ALL", `^voteSet\.sum$`, "voteSet.valSet", "all voted"},
		{"(*types.ValidatorSet).VerifyCommit", "NOTSUPER", `VotingPower`, "vs", "tallied power of the commit"},
		{"types/evidence.VerifyDuplicateVote", "NOTALL", `^e\.TotalVotingPower$`, "valSet", "evidence states the total power of the set"},
	}
	used := make([]bool, len(table))
	nCmp := 0
	for _, f := range c.P.ModFuncs {
		if strings.HasPrefix(fnName(f), "cmd/") || strings.HasPrefix(fnName(f), "tests/") {
			continue
		}
		for _, b := range f.Blocks {
			for _, in := range b.Instrs {
				bo, ok := in.(*ssa.BinOp)
				if !ok || !isCmp(bo.Op) || !(containsTVP(bo.X, 0) || containsTVP(bo.Y, 0)) {
					continue
				}
				nCmp++
				class, x, recv := classifyQ(bo)
				xs := ""
				if x != nil {
					xs = pathOf(x)
				}
				fname := fnName(rootFn(f))
				key := fmt.Sprintf("%s/%s(%s) vs TotalVotingPower(%s)", fname, class, clip(xs, 60), recv)
				matched := false
				for i, w := range table {
					if w.fn == fname && w.class == class && (w.x == "" || re(w.x).MatchString(xs)) && (w.recv == "" || w.recv == recv) {
						if class != "OTHER" && used[i] {
							continue
						}
						used[i] = true
						matched = true
						c.OK("Q", key, bo.Pos(), 1, w.why+": "+clip(pathOf(bo), 200))
						break
					}
				}
				if !matched {
					c.Bad("Q", key, bo.Pos(), 1, "comparison against TotalVotingPower() is not in the site table or does not have the strict +2/3 normal form expected at this site: "+clip(pathOf(bo), 240))
				}
			}
		}
	}
	for i, w := range table {
		if !used[i] {
			c.Bad("Q", w.fn+"/"+w.class+" expected ("+w.why+")", c.fnPos(w.fn), 0, "expected quorum comparison not found in "+w.fn+": the test was removed or no longer has the form "+w.class)
		}
	}
	c.Extra["tvp_comparisons_seen"] = nCmp

	tallyRules(c)

	// vote admission runs under the vote set's lock (duplicate test and tally update are atomic)
	if fn := c.Fn("types", "VoteSet", "AddVote"); fn != nil {
		c.CriticalSection(fn, `^&voteSet\.mtx`, "vote admission", CallTo(`^\(\*types\.VoteSet\)\.addVote$`, ""))
	}
	if fn := c.Fn("consensus/types", "HeightVoteSet", "AddVote"); fn != nil {
		c.CriticalSection(fn, `^&hvs\.mtx`, "round lookup / creation and vote admission", Or(CallTo(`^\(\*consensus/types\.HeightVoteSet\)\.(getVoteSet|addRound)$`, ""), CallTo(`^\(\*types\.VoteSet\)\.AddVote$`, "")))
	}

	voteAdmissionRules(c)
	if fn := c.Fn("types", "VoteSet", "TwoThirdsMajority"); fn != nil {
		c.Guarded(fn, "report ok=true", func(in ssa.Instruction) bool {
			st, ok := in.(*ssa.Store)
			return ok && pathOf(st.Val) == "const:true"
		}, G("voteSet.maj23 != nil", NotNil(`^voteSet\.maj23$`)))
		n := 0
		for _, in := range findInstrs(fn, func(in ssa.Instruction) bool { st, ok := in.(*ssa.Store); return ok && pathOf(st.Val) == "const:true" }) {
			_ = in
			n++
		}
		if n == 0 {
			// result not spilled: check returns directly
			c.Guarded(fn, "return ok=true", ReturnWith(1, `^const:true$`), G("voteSet.maj23 != nil", NotNil(`^voteSet\.maj23$`)))
		}
	}
	if fn := c.Fn("types", "VoteSet", "HasTwoThirdsMajority"); fn != nil {
		ok := false
		allInstrs(fn, false, func(_ *ssa.Function, in ssa.Instruction) {
			if bo, isB := in.(*ssa.BinOp); isB && bo.Op == token.NEQ && pathOf(bo.X) == "voteSet.maj23" && pathOf(bo.Y) == "nil" {
				ok = true
			}
		})
		c.Check("F", fnName(fn)+"/is maj23 != nil", ok, fn.Pos(), 1, "")
	}

	verifyCommitRules(c)
	// "of the right validator set": block validation verifies the last commit against the previous set (imported)
	validateBlockChecklist(c)

	makeCommitRules(c)

	// ---- HeightVoteSet.AddVote -----------------------------------------------------------------------
	if fn := c.Fn("consensus/types", "HeightVoteSet", "AddVote"); fn != nil {
		c.Guarded(fn, "addRound for an untracked round", CallTo(`^\(\*consensus/types\.HeightVoteSet\)\.addRound$`, ""),
			G("len(peerCatchupRounds[peerID]) < 2", Cmp(`^call:len\(hvs\.peerCatchupRounds\[peerID\]\)$`, "<", `^const:2$`)),
			G("vote type valid", True(`^call:types\.IsVoteTypeValid\(vote\.Type\)$`)))
		n := len(findInstrs(fn, func(in ssa.Instruction) bool {
			mu, ok := in.(*ssa.MapUpdate)
			return ok && pathOf(mu.Map) == "hvs.peerCatchupRounds" && pathOf(mu.Key) == "peerID"
		}))
		c.Check("O", fnName(fn)+"/catch-up round is recorded against the peer", n == 1, fn.Pos(), n, "peerCatchupRounds[peerID] must grow when a round is added for the peer, otherwise the bound is vacuous")
		for _, in := range findInstrs(fn, CallTo(`^\(\*types\.VoteSet\)\.AddVote$`, "")) {
			a := argPaths(callCommon(in))
			c.Check("F", fnName(fn)+"/vote goes to the set of (vote.Round, vote.Type)", len(a) == 2 && a[1] == "vote" && strings.Contains(a[0], "getVoteSet(hvs, vote.Round, vote.Type)"), instrPos(in), 1, describeInstr(in))
		}
	}
	if fn := c.Fn("consensus/types", "HeightVoteSet", "addRound"); fn != nil {
		tPrevote := c.P.Const("proto/kardiachain/types", "PrevoteType")
		tPrecommit := c.P.Const("proto/kardiachain/types", "PrecommitType")
		var seen []string
		for _, in := range findInstrs(fn, CallTo(`^types\.NewVoteSet$`, "")) {
			a := argPaths(callCommon(in))
			if len(a) == 5 && a[0] == "hvs.chainID" && a[1] == "hvs.height" && a[2] == "round" && a[4] == "hvs.valSet" {
				seen = append(seen, a[3])
			}
		}
		sort.Strings(seen)
		c.Check("F", fnName(fn)+"/round sets are built for (chainID, height, round, type, valSet)", strings.Join(seen, ",") == "const:"+tPrevote+",const:"+tPrecommit, fn.Pos(), 2, strings.Join(seen, ","))
	}

	// ---- E: key covers equality ------------------------------------------------------------------------
	keyFn := c.Fn("types", "BlockID", "Key")
	eqFn := c.Fn("types", "BlockID", "Equal")
	if keyFn != nil && eqFn != nil {
		k := c.Effects(keyFn, 3).Reads
		e := c.Effects(eqFn, 3).Reads
		var refs []fieldRef
		for r := range e {
			if r.Type == "types.BlockID" || r.Type == "types.PartSetHeader" {
				refs = append(refs, r)
			}
		}
		sort.Slice(refs, func(i, j int) bool { return refs[i].String() < refs[j].String() })
		if len(refs) < 3 {
			c.Unres("E", "types.BlockID key covers equality", "BlockID.Equal reads fewer than 3 fields: anchor changed")
		}
		for _, r := range refs {
			c.Check("E", "(*types.BlockID).Key/covers "+r.String()+" compared by Equal", k[r], keyFn.Pos(), 1,
				"BlockID.Equal compares "+r.String()+" but BlockID.Key() (the map key of the per-block vote tally, VoteSet.votesByBlock) does not read it: votes for two different block ids that differ only in this field are tallied together, and conflicting votes that differ only there are not detected")
		}
	}
}

func between(s, a, b string) string {
	i := strings.Index(s, a)
	if i < 0 {
		return ""
	}
	s = s[i+len(a):]
	j := strings.LastIndex(s, b)
	if j < 0 {
		return ""
	}
	return s[:j]
}

// instrBefore: a executes before b on every path that reaches b (same block order or block dominance).
func instrBefore(a, b ssa.Instruction) bool {
	if a.Block() == b.Block() {
		return instrIndex(a) < instrIndex(b)
	}
	return a.Block().Dominates(b.Block())
}

func (c *Ctx) fnPos(name string) token.Pos {
	if f := c.P.FuncByName(name); f != nil {
		return f.Pos()
	}
	return token.NoPos
}

// verifyCommitRules: ValidatorSet.VerifyCommit accepts only a verified +2/3 for exactly that block id (shared by C01, C02, C11, C13).
func verifyCommitRules(c *Ctx) {
	// ---- VerifyCommit -------------------------------------------------------------------------------
	if fn := c.Fn("types", "ValidatorSet", "VerifyCommit"); fn != nil {
		twoT := `^\(\(call:\(\*types\.ValidatorSet\)\.TotalVotingPower\(vs\) \* const:2\) / const:3\)$`
		c.Guarded(fn, "return nil", ReturnWith(0, `^nil$`),
			G("vs != nil", NotNil(`^vs$`)),
			G("commit != nil", NotNil(`^commit$`)),
			G("commit.ValidateBasic() == nil", IsNil(`^call:\(\*types\.Commit\)\.ValidateBasic\(commit\)$`)),
			G("vs.Size() == len(commit.Signatures)", Cmp(`^call:\(\*types\.ValidatorSet\)\.Size\(vs\)$`, "==", `^call:len\(commit\.Signatures\)$`)),
			G("height == commit.GetHeight()", Cmp(`^height$`, "==", `^call:\(\*types\.Commit\)\.GetHeight\(commit\)$`)),
			G("blockID.Equal(commit.BlockID)", True(`^call:\(\*types\.BlockID\)\.Equal\(&\(blockID\), commit\.BlockID\)$`)),
			G("tallied > total*2/3", Cmp(`VotingPower`, ">", twoT)))
		// the tally increment
		isInc := func(in ssa.Instruction) bool {
			bo, ok := in.(*ssa.BinOp)
			return ok && bo.Op == token.ADD && re(`^vs\.Validators\[.*\]\.VotingPower$`).MatchString(pathOf(bo.Y))
		}
		incs := findInstrs(fn, isInc)
		c.Guarded(fn, "tally += val.VotingPower", isInc,
			G("!commitSig.Absent()", False(`^call:\(types\.CommitSig\)\.Absent\(commit\.Signatures\[`)),
			G("VerifySignature(val.Address, Keccak256(commit.VoteSignBytes(chainID, idx)), commitSig.Signature)", True(`^call:types\.VerifySignature\(vs\.Validators\[`)),
			G("blockID.Equal(commitSig.BlockID(commit.BlockID))", True(`^call:\(\*types\.BlockID\)\.Equal\(&\(blockID\), call:\(types\.CommitSig\)\.BlockID\(commit\.Signatures\[.*\], commit\.BlockID\)\)$`)))
		// same index selects validator, signature and sign bytes
		if len(incs) == 1 {
			idx := between(pathOf(incs[0].(*ssa.BinOp).Y), "vs.Validators[", "].VotingPower")
			vs := findInstrs(fn, CallTo(`^types\.VerifySignature$`, ""))
			ok := len(vs) == 1
			detail := ""
			if ok {
				a := argPaths(callCommon(vs[0]))
				detail = strings.Join(a, " | ")
				ok = len(a) == 3 && a[0] == "vs.Validators["+idx+"].Address" &&
					strings.Contains(a[1], "call:(*types.Commit).VoteSignBytes(commit, chainID, "+idx+")") && strings.Contains(a[1], "Keccak256") &&
					strings.HasPrefix(a[2], "commit.Signatures["+idx+"]") && strings.HasSuffix(a[2], ".Signature")
			}
			c.Check("F", fnName(fn)+"/one index selects validator, sign bytes and signature", ok, fn.Pos(), 3, clip(detail, 300))
			// idx is the range index over commit.Signatures
			c.Check("F", fnName(fn)+"/index ranges over commit.Signatures", strings.Contains(idx, "phi"), fn.Pos(), 1, idx)
		} else {
			c.Bad("F", fnName(fn)+"/one index selects validator, sign bytes and signature", fn.Pos(), len(incs), fmt.Sprintf("%d tally increments found, expected 1", len(incs)))
		}
	}

}

// voteAdmissionRules: a vote is counted only after it was checked against the vote set and verified with the key of
// the validator at its index. Shared by C02 (quorum certificates) and C01 (a forged +2/3 breaks agreement).
// tallyRules: a validator's power enters a tally once (only into an empty slot), the majority is recorded on the crossing
// of the quorum by the per-block tally, once, for the crossing vote's block id. Shared by C02 (quorum certificates) and
// C01 (two conflicting +2/3 need a double-counted or miscounted tally).
func tallyRules(c *Ctx) {
	quorumRe := `^\(\(\(call:\(\*types\.ValidatorSet\)\.TotalVotingPower\(voteSet\.valSet\) \* const:2\) / const:3\) \+ const:1\)$`
	// ---- VoteSet.addVerifiedVote -------------------------------------------------------------------
	if fn := c.Fn("types", "VoteSet", "addVerifiedVote"); fn != nil {
		c.Guarded(fn, "voteSet.sum += power", StoreTo(`^&voteSet\.sum$`),
			G("voteSet.votes[valIndex] == nil", IsNil(`^voteSet\.votes\[vote\.ValidatorIndex\]$`)))
		for _, in := range findInstrs(fn, StoreTo(`^&voteSet\.sum$`)) {
			c.Check("F", fnName(fn)+"/sum grows by the vote's power", pathOf(in.(*ssa.Store).Val) == "(voteSet.sum + votingPower)", instrPos(in), 1, describeInstr(in))
		}
		c.Guarded(fn, "store voteSet.maj23", StoreTo(`^&voteSet\.maj23$`),
			G("origSum < quorum", Cmp(`\.sum$`, "<", quorumRe)),
			G("quorum <= votesByBlock.sum", Cmp(quorumRe, "<=", `\.sum$`)),
			G("voteSet.maj23 == nil (first quorum wins)", IsNil(`^voteSet\.maj23$`)))
		for _, in := range findInstrs(fn, StoreTo(`^&voteSet\.maj23$`)) {
			c.Check("F", fnName(fn)+"/maj23 is the block id of the crossing vote", pathOf(in.(*ssa.Store).Val) == "&(vote.BlockID)", instrPos(in), 1, describeInstr(in))
		}
		// the two tallies compared are read before / after the per-block add
		add := findInstrs(fn, CallTo(`^\(\*types\.blockVotes\)\.addVerifiedVote$`, ""))
		if len(add) != 1 {
			c.Bad("O", fnName(fn)+"/exactly one blockVotes.addVerifiedVote", fn.Pos(), len(add), fmt.Sprintf("%d calls", len(add)))
		} else {
			var before, after *ssa.BinOp
			for _, b := range fn.Blocks {
				for _, in := range b.Instrs {
					if bo, ok := in.(*ssa.BinOp); ok && isCmp(bo.Op) && (containsTVP(bo.X, 0) || containsTVP(bo.Y, 0)) {
						// which of the two quorum comparisons this is follows from when its tally was read, not from the way
						// the comparison is written (`origSum < quorum` and `origSum >= quorum` test the same thing)
						class, x, _ := classifyQ(bo)
						if class != "NOTSUPER" && class != "SUPER" {
							continue
						}
						if l, isInstr := x.(ssa.Instruction); isInstr && instrBefore(l, add[0]) {
							before = bo
						} else {
							after = bo
						}
					}
				}
			}
			ok := before != nil && after != nil
			detail := ""
			if ok {
				_, x1, _ := classifyQ(before)
				_, x2, _ := classifyQ(after)
				l1, ok1 := x1.(ssa.Instruction)
				l2, ok2 := x2.(ssa.Instruction)
				ok = ok1 && ok2 && instrBefore(l1, add[0]) && instrBefore(add[0], l2)
				detail = fmt.Sprintf("origSum read at %s, add at %s, new sum read at %s", c.P.Pos(instrPos(l1)), c.P.Pos(instrPos(add[0])), c.P.Pos(instrPos(l2)))
			}
			c.Check("O", fnName(fn)+"/origSum read before, new sum read after the per-block add", ok, instrPos(add[0]), 3, detail)
			a := argPaths(callCommon(add[0]))
			c.Check("F", fnName(fn)+"/per-block add gets (vote, votingPower)", len(a) == 3 && a[1] == "vote" && a[2] == "votingPower", instrPos(add[0]), 1, describeInstr(add[0]))
		}
		// the validator's slot is overwritten only when empty or when the new vote is for the established majority
		c.Guarded(fn, "store voteSet.votes[valIndex]", StoreTo(`^&voteSet\.votes\[vote\.ValidatorIndex\]$`),
			G("slot empty, or new vote is for maj23", IsNil(`^voteSet\.votes\[vote\.ValidatorIndex\]$`), Cmp(`^call:\(\*types\.BlockID\)\.Key\(voteSet\.maj23\)$`, "==", `^blockKey$`)))
	}
	if fn := c.Fn("types", "blockVotes", "addVerifiedVote"); fn != nil {
		c.Guarded(fn, "vs.sum += power / slot store", StoreTo(`^&vs\.(sum|votes\[vote\.ValidatorIndex\])$`),
			G("vs.votes[valIndex] == nil", IsNil(`^vs\.votes\[vote\.ValidatorIndex\]$`)))
		for _, in := range findInstrs(fn, StoreTo(`^&vs\.sum$`)) {
			c.Check("F", fnName(fn)+"/sum grows by the vote's power", pathOf(in.(*ssa.Store).Val) == "(vs.sum + votingPower)", instrPos(in), 1, describeInstr(in))
		}
	}
	c.OnlyWrittenIn("types", "VoteSet", "maj23", 1, `^\(\*types\.VoteSet\)\.addVerifiedVote$`, `^types\.NewVoteSet$`)
	c.OnlyWrittenIn("types", "VoteSet", "sum", 1, `^\(\*types\.VoteSet\)\.addVerifiedVote$`, `^types\.NewVoteSet$`)
	c.OnlyWrittenIn("types", "blockVotes", "sum", 1, `^\(\*types\.blockVotes\)\.addVerifiedVote$`, `^types\.newBlockVotes$`)
	c.OnlyCalledFrom("VoteSet.addVerifiedVote only from VoteSet.addVote", `^\(\*types\.VoteSet\)\.addVerifiedVote$`, 1, `^\(\*types\.VoteSet\)\.addVote$`)

}

func voteAdmissionRules(c *Ctx) {
	// ---- VoteSet.addVote: verified before counted ----------------------------------------------------
	if fn := c.Fn("types", "VoteSet", "addVote"); fn != nil {
		val := `call:\(\*types\.ValidatorSet\)\.GetByIndex\(voteSet\.valSet, vote\.ValidatorIndex\)`
		c.Guarded(fn, "addVerifiedVote", CallTo(`^\(\*types\.VoteSet\)\.addVerifiedVote$`, ""),
			G("vote != nil", NotNil(`^vote$`)),
			G("vote.Height == voteSet.height", Cmp(`^vote\.Height$`, "==", `^voteSet\.height$`)),
			G("vote.Round == voteSet.round", Cmp(`^vote\.Round$`, "==", `^voteSet\.round$`)),
			G("vote.Type == voteSet.signedMsgType", Cmp(`^vote\.Type$`, "==", `^voteSet\.signedMsgType$`)),
			G("valSet.GetByIndex(valIndex) != nil", NotNil(`^`+val+`#1$`)),
			G("vote.ValidatorAddress.Equal(lookupAddr)", True(`^call:\(lib/common\.Address\)\.Equal\(vote\.ValidatorAddress, `+val+`#0\)$`)),
			G("not already known (getVote miss)", False(`^call:\(\*types\.VoteSet\)\.getVote\(voteSet, vote\.ValidatorIndex, call:\(\*types\.BlockID\)\.Key\(&vote\.BlockID\)\)#1$`)),
			G("vote.Verify(chainID, val.Address) == nil", IsNil(`^call:\(\*types\.Vote\)\.Verify\(vote, voteSet\.chainID, `+val+`#1\.Address\)$`)))
		for _, in := range findInstrs(fn, CallTo(`^\(\*types\.VoteSet\)\.addVerifiedVote$`, "")) {
			a := argPaths(callCommon(in))
			ok := len(a) == 4 && a[1] == "vote" && a[2] == "call:(*types.BlockID).Key(&vote.BlockID)" && re(`^`+val+`#1\.VotingPower$`).MatchString(a[3])
			c.Check("F", fnName(fn)+"/addVerifiedVote(vote, vote.BlockID.Key(), val.VotingPower)", ok, instrPos(in), 1, describeInstr(in))
		}
	}
}

// makeCommitRules (shared by C02 and C04): the commit built from a +2/3 precommit set carries, for every validator, its
// precommit for the decided block or an absent mark; it becomes the last commit of the next height's proposals.
func makeCommitRules(c *Ctx) {
	// ---- MakeCommit -------------------------------------------------------------------------------
	if fn := c.Fn("types", "VoteSet", "MakeCommit"); fn != nil {
		tPrecommit := c.P.Const("proto/kardiachain/types", "PrecommitType")
		c.Guarded(fn, "NewCommit", CallTo(`^types\.NewCommit$`, ""),
			G("voteSet.maj23 != nil", NotNil(`^voteSet\.maj23$`)),
			G("type is Precommit", Cmp(`^voteSet\.signedMsgType$`, "==", `^const:`+tPrecommit+`$`)))
		for _, in := range findInstrs(fn, CallTo(`^types\.NewCommit$`, "")) {
			a := argPaths(callCommon(in))
			ok := len(a) == 4 && a[0] == "call:(*types.VoteSet).GetHeight(voteSet)" && a[1] == "call:(*types.VoteSet).GetRound(voteSet)" && a[2] == "*voteSet.maj23"
			c.Check("F", fnName(fn)+"/NewCommit(height, round, maj23, sigs)", ok, instrPos(in), 1, describeInstr(in))
		}
		// a signature for another block never reaches commitSigs[i] unreplaced
		keep := G("", False(`^call:\(types\.CommitSig\)\.ForBlock\(`), True(`^call:\(\*types\.BlockID\)\.Equal\(&voteSet\.votes\[.*\]\.BlockID, \*voteSet\.maj23\)$`))
		sites := c.P.guardEdges(fn, keep)
		stores := findInstrs(fn, StoreTo(`^&make:\[\]types\.CommitSig`))
		key := fnName(fn) + "/votes for other blocks are replaced by absent"
		if len(sites) < 2 || len(stores) != 1 {
			c.Bad("G", key, fn.Pos(), len(sites), fmt.Sprintf("expected the ForBlock()/BlockID.Equal(maj23) tests and one store into the signature slice; found %d tests, %d stores", len(sites), len(stores)))
		} else {
			rm := map[edge]bool{}
			for _, s := range sites {
				rm[s.Pass] = true
			}
			absent := CallTo(`^types\.NewCommitSigAbsent$`, "")
			w := &Walker{P: c.P, Removed: rm, Stop: func(in ssa.Instruction) bool { return absent(in) }}
			hit, found := w.Reach(fn, fn.Blocks[0], 0, func(in ssa.Instruction) bool { return in == stores[0] })
			if found {
				c.Bad("G", key, instrPos(hit.Instr), 3, "a commit signature for a block other than maj23 can be stored unreplaced; path "+c.P.pathStr(hit.Path))
			} else {
				st := stores[0].(*ssa.Store)
				ok := strings.Contains(pathOf(st.Val), "call:types.NewCommitSigAbsent()") && strings.Contains(pathOf(st.Val), "call:(*types.Vote).CommitSig(voteSet.votes[")
				c.Check("G", key, ok, instrPos(st), 3, "stored value: "+clip(pathOf(st.Val), 200))
			}
		}
	}
}
