package main

import (
	"fmt"
	"os"
	"path/filepath"
	"regexp"
	"strconv"
	"strings"
)

// applyUnifiedDiff applies a git-style unified diff to the files under root, in memory. Returns the new contents by
// absolute path; an error when a hunk's context does not match the current file (the tree was edited there).
func applyUnifiedDiff(root, patch string) (map[string][]byte, error) {
	out := map[string][]byte{}
	hunkRe := regexp.MustCompile(`^@@ -(\d+)(?:,(\d+))? \+(\d+)(?:,(\d+))? @@`)
	lines := strings.Split(patch, "\n")
	var file string
	var src []string // current file, by line
	var res []string
	pos := 0 // next unread line of src (0-based)
	isNew := false
	flush := func() {
		if file == "" {
			return
		}
		res = append(res, src[pos:]...)
		out[filepath.Join(root, file)] = []byte(strings.Join(res, "\n"))
		file = ""
	}
	for i := 0; i < len(lines); i++ {
		l := lines[i]
		switch {
		case strings.HasPrefix(l, "diff --git "):
			flush()
		case strings.HasPrefix(l, "--- "):
			isNew = strings.TrimSpace(l[4:]) == "/dev/null"
		case strings.HasPrefix(l, "+++ "):
			flush()
			name := strings.TrimSpace(l[4:])
			if name == "/dev/null" {
				return nil, fmt.Errorf("file deletion is not supported")
			}
			file = strings.TrimPrefix(name, "b/")
			res, pos = nil, 0
			if isNew {
				src = nil
			} else {
				b, err := os.ReadFile(filepath.Join(root, file))
				if err != nil {
					return nil, fmt.Errorf("%s: %v", file, err)
				}
				src = strings.Split(string(b), "\n")
			}
		default:
			m := hunkRe.FindStringSubmatch(l)
			if m == nil || file == "" {
				continue
			}
			start, _ := strconv.Atoi(m[1])
			if start > 0 {
				start--
			}
			if isNew {
				start = 0
			}
			// Like git apply, accept a hunk whose old lines sit at an offset from the stated line (lines were added or
			// removed above it since the patch was written): the nearest position at which every old line matches.
			var oldLines []string
			for j := i + 1; j < len(lines); j++ {
				h := lines[j]
				if strings.HasPrefix(h, "@@") || strings.HasPrefix(h, "diff --git ") || strings.HasPrefix(h, "--- ") {
					break
				}
				if h == "" && j == len(lines)-1 {
					break
				}
				if strings.HasPrefix(h, "\\") {
					continue
				}
				if h == "" {
					oldLines = append(oldLines, "")
				} else if h[0] == ' ' || h[0] == '-' {
					oldLines = append(oldLines, h[1:])
				}
			}
			matchAt := func(at int) bool {
				if at < pos || at+len(oldLines) > len(src) {
					return false
				}
				for k, ol := range oldLines {
					if src[at+k] != ol {
						return false
					}
				}
				return true
			}
			if !isNew && len(oldLines) > 0 && !matchAt(start) {
				for d := 1; d <= len(src); d++ {
					if matchAt(start - d) {
						start -= d
						break
					}
					if matchAt(start + d) {
						start += d
						break
					}
				}
			}
			if start < pos || start > len(src) {
				return nil, fmt.Errorf("%s: hunk at line %d out of order", file, start+1)
			}
			res = append(res, src[pos:start]...)
			pos = start
			for i+1 < len(lines) {
				h := lines[i+1]
				if strings.HasPrefix(h, "@@") || strings.HasPrefix(h, "diff --git ") || strings.HasPrefix(h, "--- ") {
					break
				}
				i++
				if h == "" && i == len(lines)-1 {
					break
				}
				if strings.HasPrefix(h, "\\") { // "\ No newline at end of file"
					continue
				}
				tag, body := byte(' '), ""
				if len(h) > 0 {
					tag, body = h[0], h[1:]
				}
				switch tag {
				case ' ':
					if pos >= len(src) || src[pos] != body {
						return nil, fmt.Errorf("%s: context mismatch at line %d", file, pos+1)
					}
					res = append(res, body)
					pos++
				case '-':
					if pos >= len(src) || src[pos] != body {
						return nil, fmt.Errorf("%s: removed line mismatch at line %d", file, pos+1)
					}
					pos++
				case '+':
					res = append(res, body)
				}
			}
		}
	}
	flush()
	return out, nil
}
