package main

// C03 — a correct validator never equivocates and obeys the locking rules.

import (
	"fmt"
	"strings"

	"golang.org/x/tools/go/ssa"
)

const (
	csT     = `\(\*consensus\.ConsensusState\)`
	reH     = `^cs\.RoundState\.Height$`
	reR     = `^cs\.RoundState\.Round$`
	reStep  = `^cs\.RoundState\.Step$`
	prevMaj = `^call:\(\*types\.VoteSet\)\.TwoThirdsMajority\(call:\(\*consensus/types\.HeightVoteSet\)\.Prevotes\(cs\.RoundState\.Votes, round\)\)`
)

func init() {
	register("C03", []string{"consensus/state.go", "types/priv_validator.go", "consensus/types/height_vote_set.go",
		"kai/state/cstate/validation.go", "kai/state/cstate/execution.go", "types/block.go"}, runC03)
}

// stepGuards: the body of enterX (every call that signs, schedules, transitions, and the registration of the
// deferred step update) runs only when (cs.Height == height) ∧ (round >= cs.Round) ∧ (cs.Round != round ∨ cs.Step < K).
func (c *Ctx) stepGuards(fn *ssa.Function, stepConst string, sinkDesc string, sel SinkSel) {
	c.Guarded(fn, sinkDesc, sel,
		G("cs.Height == height", Cmp(reH, "==", `^height$`)),
		G("round >= cs.Round", Cmp(`^round$`, ">=", reR)),
		G("cs.Round != round || cs.Step < "+stepConst, Cmp(reR, "!=", `^round$`), Cmp(reStep, "<", `^const:`+stepConst+`$`)),
	)
}

func runC03(c *Ctx) {
	c.Decided = []string{
		"who may sign: PrivValidator.SignVote only from signVote←signAddVote←{doPrevote,enterPrecommit}; SignProposal only from decideProposal←enterPropose under isProposer",
		"typestate: each enterX body is guarded by height/round/step and its deferred closure advances the step to the same constant; Step/Round/Height written only by updateRoundStep/updateHeight",
		"exactly one signAddVote on every path of doPrevote and enterPrecommit",
		"non-nil precommit only through +2/3 prevotes of this round for that block id, with the block in hand",
		"prevote the locked block if locked; proposal block prevoted only if validated",
		"lock fields written only in updateToState / enterPrecommit (under the polka) / addVote unlock branch (under its five conditions)",
		"validateBlock is a complete checklist (height, parent id, app hash, validator hashes, last commit verification, median time, proposer, evidence)",
		"the vote that is signed carries cs.Height, cs.Round and the requested type and block id",
	}
	c.NotDec = []string{"that the vote sets hold exactly the messages received (history-level)", "re-signing after WAL replay / restart (C05)", "behaviour of faulty validators"}
	c.Floors["G"] = 40
	c.Floors["W"] = 8
	c.Floors["O"] = 6
	// a previous-block commit verifies against the previous validator set: the sets keep their roles
	validatorSetRoles(c)
	// +2/3 means more than two thirds, counted once per validator; a previous-block commit is verified slot by slot
	tallyRules(c)
	verifyCommitRules(c)
	// a restarted validator finds its own votes of the height again (WAL search and replay), or it signs a second time
	searchRules(c)
	replayRules(c)
	// block sync commits too: the block it saves and applies is the one the verified commit names (C01)
	blockSyncRules(c)

	P := c.P
	stPropose := P.Const("consensus/types", "RoundStepPropose")
	stPrevote := P.Const("consensus/types", "RoundStepPrevote")
	stPrevoteWait := P.Const("consensus/types", "RoundStepPrevoteWait")
	stPrecommit := P.Const("consensus/types", "RoundStepPrecommit")
	stCommit := P.Const("consensus/types", "RoundStepCommit")
	stNewHeight := P.Const("consensus/types", "RoundStepNewHeight")
	stNewRound := P.Const("consensus/types", "RoundStepNewRound")
	tPrevote := P.Const("proto/kardiachain/types", "PrevoteType")
	tPrecommit := P.Const("proto/kardiachain/types", "PrecommitType")
	for n, v := range map[string]string{"RoundStepPropose": stPropose, "RoundStepPrevote": stPrevote, "RoundStepPrevoteWait": stPrevoteWait,
		"RoundStepPrecommit": stPrecommit, "RoundStepCommit": stCommit, "RoundStepNewHeight": stNewHeight, "RoundStepNewRound": stNewRound, "PrevoteType": tPrevote, "PrecommitType": tPrecommit} {
		if v == "" {
			c.Unres("anchor", "const "+n, "constant not found")
			return
		}
	}

	// ---- W: who may sign --------------------------------------------------------------------
	c.OnlyCalledFrom("SignVote only from signVote", `^iface:\(types\.PrivValidator\)\.SignVote$|PrivValidator\)\.SignVote$`, 1,
		`^`+csT+`\.signVote$`, `^types\.(NewMock|makeMock|MakeVote|signAddVote|MakeCommit|makeVote)`, `^\(\*?types\.(MockPV|ErroringMockPV|DefaultPrivValidator)\)`, `^types\.MakeBlock`, `^cmd/|^tests/|^dualnode/|^ksml/`)
	c.OnlyCalledFrom("signVote only from signAddVote", `^`+csT+`\.signVote$`, 1, `^`+csT+`\.signAddVote$`)
	c.OnlyCalledFrom("signAddVote only from doPrevote and enterPrecommit", `^`+csT+`\.signAddVote$`, 5, `^`+csT+`\.(doPrevote|enterPrecommit)$`)
	c.OnlyCalledFrom("doPrevote only from enterPrevote", `^`+csT+`\.doPrevote$`, 1, `^`+csT+`\.enterPrevote$`)
	c.OnlyCalledFrom("SignProposal only from decideProposal", `^iface:\(types\.PrivValidator\)\.SignProposal$`, 1, `^`+csT+`\.decideProposal$`, `^cmd/|^tests/|^dualnode/`)
	c.OnlyCalledFrom("decideProposal only from enterPropose", `^`+csT+`\.decideProposal$`, 1, `^`+csT+`\.enterPropose$`)

	// ---- W: typestate fields -----------------------------------------------------------------
	c.OnlyWrittenIn("consensus/types", "RoundState", "Step", 1, `^`+csT+`\.updateRoundStep$`)
	c.OnlyWrittenIn("consensus/types", "RoundState", "Round", 1, `^`+csT+`\.updateRoundStep$`, `^consensus\.NewConsensusState$`)
	c.OnlyWrittenIn("consensus/types", "RoundState", "Height", 1, `^`+csT+`\.updateHeight$`)
	c.OnlyCalledFrom("updateHeight only from updateToState", `^`+csT+`\.updateHeight$`, 1, `^`+csT+`\.updateToState$`)

	// ---- step guards ---------------------------------------------------------------------------
	type ent struct {
		name, k  string
		sinkDesc string
		sel      SinkSel
	}
	deferSel := func(in ssa.Instruction) bool { _, ok := in.(*ssa.Defer); return ok }
	ents := []ent{
		{"enterPropose", stPropose, "decideProposal/scheduleTimeout/deferred step update", Or(CallTo(csT+`\.(decideProposal|scheduleTimeout)$`, ""), deferSel)},
		{"enterPrevote", stPrevote, "doPrevote/deferred step update", Or(CallTo(csT+`\.doPrevote$`, ""), deferSel)},
		{"enterPrevoteWait", stPrevoteWait, "scheduleTimeout/deferred step update", Or(CallTo(csT+`\.scheduleTimeout$`, ""), deferSel)},
		{"enterPrecommit", stPrecommit, "signAddVote/lock stores/deferred step update", Or(CallTo(csT+`\.signAddVote$`, ""), StoreTo(`^&cs\.RoundState\.Locked`), deferSel)},
	}
	for _, e := range ents {
		fn := c.Fn("consensus", "ConsensusState", e.name)
		if fn == nil {
			continue
		}
		c.stepGuards(fn, e.k, e.sinkDesc, e.sel)
		// deferred closure sets the same step constant for the same round
		found := false
		for _, a := range fn.AnonFuncs {
			for _, in := range findInstrs(a, CallTo(csT+`\.updateRoundStep$`, "")) {
				args := argPaths(callCommon(in))
				ok := len(args) == 3 && args[1] == "round" && args[2] == "const:"+e.k
				c.Check("T", fnName(fn)+"/deferred updateRoundStep(round, "+e.k+")", ok, instrPos(in), 1,
					fmt.Sprintf("deferred step update is %s; the guard of %s tests step constant %s for parameter round — they must agree or the function can run twice in one round", describeInstr(in), e.name, e.k))
				found = true
			}
		}
		if !found {
			c.Bad("T", fnName(fn)+"/deferred updateRoundStep(round, "+e.k+")", fn.Pos(), 0, "no deferred updateRoundStep in "+e.name+": the step guard is never advanced, so the function can sign again in the same round")
		}
		// the defer is registered on every path that reaches a sink (so the step always advances once the body ran)
		if e.name == "enterPrevote" || e.name == "enterPrecommit" {
			c.RegistrationIsEvent = true
			c.Precedes(fn, "defer step update", deferSel, "signing/transition calls", CallTo(csT+`\.(signAddVote|doPrevote)$`, ""))
			c.RegistrationIsEvent = false
		}
	}
	// enterNewRound: guard ¬(cs.Round == round ∧ cs.Step != NewHeight)
	if fn := c.Fn("consensus", "ConsensusState", "enterNewRound"); fn != nil {
		c.Guarded(fn, "updateRoundStep/enterPropose", CallTo(csT+`\.(updateRoundStep|enterPropose)$`, ""),
			G("cs.Height == height", Cmp(reH, "==", `^height$`)),
			G("round >= cs.Round", Cmp(`^round$`, ">=", reR)),
			G("cs.Round != round || cs.Step == NewHeight", Cmp(reR, "!=", `^round$`), Cmp(reStep, "==", `^const:`+stNewHeight+`$`)))
		for _, in := range findInstrs(fn, CallTo(csT+`\.updateRoundStep$`, "")) {
			args := argPaths(callCommon(in))
			c.Check("T", fnName(fn)+"/updateRoundStep(round, NewRound)", len(args) == 3 && args[1] == "round" && args[2] == "const:"+stNewRound, instrPos(in), 1, describeInstr(in))
		}
	}
	// enterCommit: guard and deferred step
	if fn := c.Fn("consensus", "ConsensusState", "enterCommit"); fn != nil {
		deferOrStore := Or(deferSel, StoreTo(`^&cs\.RoundState\.(ProposalBlock|ProposalBlockParts)$`))
		c.Guarded(fn, "deferred commit step/proposal-block stores", deferOrStore,
			G("cs.Height == height", Cmp(reH, "==", `^height$`)),
			G("cs.Step < Commit", Cmp(reStep, "<", `^const:`+stCommit+`$`)))
		found := false
		for _, a := range fn.AnonFuncs {
			for _, in := range findInstrs(a, CallTo(csT+`\.updateRoundStep$`, "")) {
				args := argPaths(callCommon(in))
				c.Check("T", fnName(fn)+"/deferred updateRoundStep(cs.Round, Commit)", len(args) == 3 && args[2] == "const:"+stCommit && args[1] == "cs.RoundState.Round", instrPos(in), 1, describeInstr(in))
				found = true
			}
		}
		if !found {
			c.Bad("T", fnName(fn)+"/deferred updateRoundStep(cs.Round, Commit)", fn.Pos(), 0, "no deferred updateRoundStep in enterCommit")
		}
	}
	// enterPropose: decideProposal only when isProposer and a validator
	if fn := c.Fn("consensus", "ConsensusState", "enterPropose"); fn != nil {
		c.Guarded(fn, "decideProposal", CallTo(csT+`\.decideProposal$`, ""),
			G("cs.isProposer()", True(`^call:`+csT+`\.isProposer\(cs\)$`)),
			G("cs.privValidator != nil", NotNil(`^cs\.privValidator$`)),
			G("Validators.HasAddress(own address)", True(`^call:\(\*types\.ValidatorSet\)\.HasAddress\(cs\.RoundState\.Validators, call:iface:\(types\.PrivValidator\)\.GetAddress\(cs\.privValidator\)\)$`)))
		c.AtMostOncePerPath(fn, "decideProposal", CallTo(csT+`\.decideProposal$`, ""))
	}
	if fn := c.Fn("consensus", "ConsensusState", "decideProposal"); fn != nil {
		c.AtMostOncePerPath(fn, "SignProposal", CallTo(`PrivValidator\)\.SignProposal$`, ""))
		c.Precedes(fn, "wal.FlushAndSync", CallTo(`\(consensus\.WAL\)\.FlushAndSync$`, ""), "SignProposal", CallTo(`PrivValidator\)\.SignProposal$`, ""))
		// the proposal that is signed is for (height, round) of the caller
		for _, in := range findInstrs(fn, CallTo(`^types\.NewProposal$`, "")) {
			a := argPaths(callCommon(in))
			c.Check("F", fnName(fn)+"/NewProposal(height, round, cs.ValidRound, id)", len(a) == 4 && a[0] == "height" && a[1] == "round" && a[2] == "cs.RoundState.ValidRound", instrPos(in), 1, describeInstr(in))
		}
	}
	if fn := c.Fn("consensus", "ConsensusState", "isProposer"); fn != nil {
		ok := len(findInstrs(fn, CallTo(`^\(\*types\.ValidatorSet\)\.GetProposer$`, `GetProposer\(cs\.RoundState\.Validators\)`))) == 1 &&
			len(findInstrs(fn, CallTo(`PrivValidator\)\.GetAddress$`, ``))) == 1
		c.Check("F", fnName(fn)+"/compares round proposer with own address", ok, fn.Pos(), 2, "isProposer must compare cs.Validators.GetProposer().Address with privValidator.GetAddress()")
	}

	lockRules(c)
	// at most one vote per height/round/type also across a crash: what was signed must be on disk before it is acted on
	walAheadRules(c)

	// ---- signVote: signed content ------------------------------------------------------------------
	if fn := c.Fn("consensus", "ConsensusState", "signVote"); fn != nil {
		want := map[string]string{"Height": `^cs\.RoundState\.Height$`, "Round": `^cs\.RoundState\.Round$`, "Type": `^signedMsgType$`, "ValidatorAddress": `GetAddress\(cs\.privValidator\)`}
		got := map[string]string{}
		for _, in := range findInstrs(fn, StoreTo(`^&alloc:complit:types\.Vote\.`)) {
			st := in.(*ssa.Store)
			f := strings.TrimPrefix(pathOf(st.Addr), "&alloc:complit:types.Vote.")
			got[f] = pathOf(st.Val)
		}
		for _, f := range []string{"Height", "Round", "Type", "ValidatorAddress"} {
			c.Check("F", fnName(fn)+"/Vote."+f+" is "+want[f], re(want[f]).MatchString(got[f]), fn.Pos(), 1, "stored value: "+got[f])
		}
		var bid string
		for _, in := range findInstrs(fn, StoreTo(`^&alloc:complit:types\.Vote\.BlockID\.`)) {
			st := in.(*ssa.Store)
			bid += pathOf(st.Addr) + "=" + pathOf(st.Val) + ";"
		}
		c.Check("F", fnName(fn)+"/Vote.BlockID is {hash, header}", strings.Contains(bid, "BlockID.Hash=hash;") && strings.Contains(bid, "BlockID.PartsHeader=header;"), fn.Pos(), 2, bid)
		c.Guarded(fn, "SignVote", CallTo(`PrivValidator\)\.SignVote$`, ""))
		sv := findInstrs(fn, CallTo(`PrivValidator\)\.SignVote$`, ""))
		c.Check("O", fnName(fn)+"/exactly one SignVote", len(sv) == 1, fn.Pos(), len(sv), fmt.Sprintf("%d SignVote calls", len(sv)))
	}

	// ---- commit only a validated +2/3 block (shared with C01) --------------------------------------------
	c01CommitPath(c)

	// ---- validateBlock checklist -------------------------------------------------------------------------
	validateBlockChecklist(c)
}

// lockRules: prevote the lock, precommit only on a polka, unlock only on a later polka (shared by C01 and C03).
func lockRules(c *Ctx) {
	// the lock changes only where the rules change it: a new height, a precommit decision, a later polka seen in addVote
	lockWriters := []string{`^` + csT + `\.(updateToState|enterPrecommit|addVote)$`}
	c.OnlyWrittenIn("consensus/types", "RoundState", "LockedRound", 3, lockWriters...)
	c.OnlyWrittenIn("consensus/types", "RoundState", "LockedBlock", 3, lockWriters...)
	c.OnlyWrittenIn("consensus/types", "RoundState", "LockedBlockParts", 3, lockWriters...)
	tPrevote := c.P.Const("proto/kardiachain/types", "PrevoteType")
	tPrecommit := c.P.Const("proto/kardiachain/types", "PrecommitType")
	deferSel := func(in ssa.Instruction) bool { _, ok := in.(*ssa.Defer); return ok }
	_ = deferSel
	// a second updateToState for the height already running (block sync handing over late) leaves the height's votes,
	// round and lock alone: the reset happens only for a state further than ours
	if fn := c.Fn("consensus", "ConsensusState", "updateToState"); fn != nil {
		reset := Or(CallTo(`^`+csT+`\.(updateHeight|updateRoundStep)$`, ""), StoreTo(`^&cs\.RoundState\.(Votes|LockedRound|LockedBlock|LockedBlockParts|ValidRound|ValidBlock|Proposal|ProposalBlock)$`))
		c.Guarded(fn, "reset the height's round state", reset,
			G("our state is empty, or the new state is further than ours", True(`\.IsEmpty\(cs\.state\)$`), Cmp(`^state\.LastBlockHeight$`, ">", `^cs\.state\.LastBlockHeight$`)))
	}
	// ---- doPrevote ---------------------------------------------------------------------------------
	if fn := c.Fn("consensus", "ConsensusState", "doPrevote"); fn != nil {
		sign := CallTo(csT+`\.signAddVote$`, "")
		c.AtMostOncePerPath(fn, "signAddVote", sign)
		c.OnEveryPath(fn, "signAddVote", sign, "return", AnyReturn())
		lockedArg := `signAddVote\(cs, const:` + tPrevote + `, call:\(\*types\.Block\)\.Hash\(cs\.RoundState\.LockedBlock\), call:\(\*types\.PartSet\)\.Header\(cs\.RoundState\.LockedBlockParts\)\)`
		nonLocked := func(in ssa.Instruction) bool {
			return sign(in) && !re(lockedArg).MatchString(callPath(callCommon(in)))
		}
		c.Guarded(fn, "prevote other than the locked block", nonLocked, G("cs.LockedBlock == nil", IsNil(`^cs\.RoundState\.LockedBlock$`)))
		propArg := `signAddVote\(cs, const:` + tPrevote + `, call:\(\*types\.Block\)\.Hash\(cs\.RoundState\.ProposalBlock\), call:\(\*types\.PartSet\)\.Header\(cs\.RoundState\.ProposalBlockParts\)\)`
		nonNil := func(in ssa.Instruction) bool {
			if !sign(in) {
				return false
			}
			a := argPaths(callCommon(in))
			return len(a) == 4 && a[2] != "nil"
		}
		proposalVote := func(in ssa.Instruction) bool {
			return nonNil(in) && !re(lockedArg).MatchString(callPath(callCommon(in)))
		}
		c.Guarded(fn, "prevote for a non-nil, non-locked block", proposalVote,
			G("cs.ProposalBlock != nil", NotNil(`^cs\.RoundState\.ProposalBlock$`)),
			G("blockExec.ValidateBlock(cs.state, cs.ProposalBlock) == nil", IsNil(`^call:`+blockExT+`\.ValidateBlock\(cs\.blockExec, cs\.state, cs\.RoundState\.ProposalBlock\)$`)))
		// every non-nil prevote is for the locked block or for the proposal block, with type Prevote
		for _, in := range findInstrs(fn, sign) {
			cp := callPath(callCommon(in))
			a := argPaths(callCommon(in))
			ok := len(a) == 4 && a[1] == "const:"+tPrevote && (a[2] == "nil" || re(lockedArg).MatchString(cp) || re(propArg).MatchString(cp))
			c.Check("F", fnName(fn)+"/prevote target is nil, LockedBlock or ProposalBlock", ok, instrPos(in), 1, describeInstr(in))
		}
	}

	// ---- enterPrecommit ---------------------------------------------------------------------------
	if fn := c.Fn("consensus", "ConsensusState", "enterPrecommit"); fn != nil {
		sign := CallTo(csT+`\.signAddVote$`, "")
		c.AtMostOncePerPath(fn, "signAddVote", sign)
		c.FollowedBy(fn, "defer step update", deferSel, "signAddVote", sign, "return", AnyReturn())
		nonNil := func(in ssa.Instruction) bool {
			if !sign(in) {
				return false
			}
			a := argPaths(callCommon(in))
			return len(a) == 4 && a[2] != "nil"
		}
		c.Guarded(fn, "non-nil precommit", nonNil,
			G("Prevotes(round).TwoThirdsMajority() ok", True(prevMaj+`#1$`)),
			G("!blockID.IsZero()", False(`^call:\(\*types\.BlockID\)\.IsZero\(&\(?`+prevMaj[1:]+`#0\)?\)$`)),
			G("LockedBlock.HashesTo(blockID.Hash) || ProposalBlock.HashesTo(blockID.Hash)",
				True(`^call:\(\*types\.Block\)\.HashesTo\(cs\.RoundState\.LockedBlock, `+prevMaj[1:]+`#0\.Hash\)$`),
				True(`^call:\(\*types\.Block\)\.HashesTo\(cs\.RoundState\.ProposalBlock, `+prevMaj[1:]+`#0\.Hash\)$`)))
		for _, in := range findInstrs(fn, sign) {
			a := argPaths(callCommon(in))
			ok := len(a) == 4 && a[1] == "const:"+tPrecommit
			if ok && a[2] != "nil" {
				ok = re(prevMaj+`#0\.Hash$`).MatchString(a[2]) && re(prevMaj+`#0\.PartsHeader$`).MatchString(a[3])
			}
			c.Check("F", fnName(fn)+"/precommit target is nil or the polka block id of this round", ok, instrPos(in), 1, describeInstr(in))
		}
		// the lock round follows every precommit for a block (lock and relock): the unlock rule compares a later polka's
		// round with it, and a stale lock round lets an older polka release a lock the node has since renewed
		c.Precedes(fn, "LockedRound = round", func(in ssa.Instruction) bool {
			st, ok := in.(*ssa.Store)
			return ok && pathOf(st.Addr) == "&cs.RoundState.LockedRound" && pathOf(st.Val) == "round"
		}, "non-nil precommit", nonNil)
		// lock stores
		c.Guarded(fn, "store Locked*", StoreTo(`^&cs\.RoundState\.Locked`), G("Prevotes(round).TwoThirdsMajority() ok", True(prevMaj+`#1$`)))
		setLock := func(in ssa.Instruction) bool {
			st, ok := in.(*ssa.Store)
			return ok && re(`^&cs\.RoundState\.LockedBlock$`).MatchString(pathOf(st.Addr)) && pathOf(st.Val) != "nil"
		}
		c.Guarded(fn, "store non-nil LockedBlock", setLock,
			G("!blockID.IsZero()", False(`^call:\(\*types\.BlockID\)\.IsZero\(`)),
			G("ProposalBlock.HashesTo(blockID.Hash)", True(`^call:\(\*types\.Block\)\.HashesTo\(cs\.RoundState\.ProposalBlock, `+prevMaj[1:]+`#0\.Hash\)$`)))
		for _, in := range findInstrs(fn, setLock) {
			c.Check("F", fnName(fn)+"/locked block is the proposal block", pathOf(in.(*ssa.Store).Val) == "cs.RoundState.ProposalBlock", instrPos(in), 1, describeInstr(in))
		}
		unlock := func(in ssa.Instruction) bool {
			st, ok := in.(*ssa.Store)
			return ok && re(`^&cs\.RoundState\.LockedBlock$`).MatchString(pathOf(st.Addr)) && pathOf(st.Val) == "nil"
		}
		c.Guarded(fn, "unlock (LockedBlock = nil)", unlock, G("polka is for nil, or for a block other than the locked one",
			True(`^call:\(\*types\.BlockID\)\.IsZero\(`), False(`^call:\(\*types\.Block\)\.HashesTo\(cs\.RoundState\.LockedBlock, `+prevMaj[1:]+`#0\.Hash\)$`)))
	}

	// ---- addVote: a step of the vote's round is entered only in that round --------------------------------------------
	// enterPrecommit/enterPrevoteWait/enterPrecommitWait/enterCommit(height, vote.Round) sign or act for cs.Round; they are
	// reached with cs.Round == vote.Round, either tested or established by enterNewRound(height, vote.Round) just before
	if fn := c.Fn("consensus", "ConsensusState", "addVote"); fn != nil {
		step := CallTo(`^`+csT+`\.(enterPrecommit|enterPrevoteWait|enterPrecommitWait|enterCommit)$`, `\(cs, cs\.RoundState\.Height, vote\.Round\)$`)
		c.GuardedUnless(fn, "enter a step of the vote's round", step, "enterNewRound(height, vote.Round)", CallTo(`^`+csT+`\.enterNewRound$`, `\(cs, cs\.RoundState\.Height, vote\.Round\)$`),
			G("cs.Round == vote.Round", Cmp(`^cs\.RoundState\.Round$`, "==", `^vote\.Round$`)))
	}

	// ---- addVote: unlock branch --------------------------------------------------------------------
	if fn := c.Fn("consensus", "ConsensusState", "addVote"); fn != nil {
		pm := `call:\(\*types\.VoteSet\)\.TwoThirdsMajority\(call:\(\*consensus/types\.HeightVoteSet\)\.Prevotes\(cs\.RoundState\.Votes, vote\.Round\)\)`
		c.Guarded(fn, "store Locked* (unlock)", StoreTo(`^&cs\.RoundState\.Locked`),
			G("vote.Type == Prevote", Cmp(`^vote\.Type$`, "==", `^const:`+tPrevote+`$`)),
			G("Prevotes(vote.Round).TwoThirdsMajority() ok", True(`^`+pm+`#1$`)),
			G("cs.LockedBlock != nil", NotNil(`^cs\.RoundState\.LockedBlock$`)),
			G("cs.LockedRound < vote.Round", Cmp(`^cs\.RoundState\.LockedRound$`, "<", `^vote\.Round$`)),
			G("vote.Round <= cs.Round", Cmp(`^vote\.Round$`, "<=", reR)),
			G("!LockedBlock.HashesTo(blockID.Hash)", False(`^call:\(\*types\.Block\)\.HashesTo\(cs\.RoundState\.LockedBlock, `+pm+`#0\.Hash\)$`)),
			G("vote.Height == cs.Height", Cmp(`^vote\.Height$`, "==", reH)),
			G("HeightVoteSet.AddVote accepted the vote", True(`^call:\(\*consensus/types\.HeightVoteSet\)\.AddVote\(cs\.RoundState\.Votes, vote, peerID\)#0$`)))
		for _, in := range findInstrs(fn, StoreTo(`^&cs\.RoundState\.LockedBlock$`)) {
			c.Check("F", fnName(fn)+"/addVote never sets a lock", pathOf(in.(*ssa.Store).Val) == "nil", instrPos(in), 1, describeInstr(in))
		}
	}

}
