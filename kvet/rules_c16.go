package main

// C16 — RLP encoding is canonical, round-trips, and rejects everything else (structural clauses).

import (
	"fmt"
	"go/constant"
	"strings"

	"golang.org/x/tools/go/ssa"
)

func init() {
	register("C16", []string{"lib/rlp/decode.go", "lib/rlp/encode.go", "lib/rlp/encbuffer.go", "lib/rlp/raw.go", "lib/rlp/iterator.go", "lib/rlp/typecache.go",
		"types/transaction.go", "types/receipt.go", "types/state_account.go"}, runC16)
}

const rlpS = `call:\(\*lib/rlp\.Stream\)\.`

func runC16(c *Ctx) {
	c.Decided = []string{
		"header grammar: the stream decoder, the slice decoder (raw.go) and the encoders use the RLP boundaries 0x80/0xB8/0xC0/0xF8, offsets 0x80/0xB7/0xC0/0xF7 and the short/long threshold 56 consistently with the specification table shipped with the checker",
		"canonical-form rejections: every accepting exit of the integer, byte-string, byte-array, big-integer, bool and size readers lies behind the tests for single bytes wrapped as strings, long form for short payloads, leading zeros and overflow",
		"input limits: the size returned by Kind is checked against the enclosing list and the input limit, the limit counters are decreased only after the comparison that prevents underflow, and every size-dependent allocation on the decode side takes its size from Kind after its error was tested",
		"exactly one value: DecodeBytes rejects trailing bytes, ListEnd rejects unread elements, struct/array decoders reject missing elements",
		"minimal big-endian integer ladders (putint, readSize, AppendUint64, intsize) agree with width k <=> value < 2^(8k)",
		"generated and hand-written stream encoders write exactly the fields, in the order and with the kinds, of the struct their decoder reads; wrapper codecs carry every consensus field both ways; hashes are taken over the same fields the codec carries",
	}
	c.NotDec = []string{"round-trip equality and canonicity over all values and byte strings (value-quantified; the structural clauses above are necessary conditions)", "equality with the reference implementation's output", "absence of implicit panics (index, nil) on arbitrary input", "reflection-driven type cache behaviour for arbitrary Go types"}
	c.Floors["T"] = 30
	c.Floors["G"] = 40
	c16Round3(c)

	c16Grammar(c)
	c16Encoders(c)
	c16Canonical(c)
	c16Limits(c)
	c16Ladders(c)
	c16Codecs(c)
}

// ---- header grammar --------------------------------------------------------------------------------------------

func c16Grammar(c *Ctx) {
	want := []int64{0x80, 0xB8, 0xC0, 0xF8}
	thrOK := func(t []int64) bool {
		if len(t) != len(want) {
			return false
		}
		for i := range t {
			if t[i] != want[i] {
				return false
			}
		}
		return true
	}
	// stream decoder
	if fn := c.Fn("lib/rlp", "Stream", "readKind"); fn != nil {
		tag := `call:(*lib/rlp.Stream).readByte(s)#0`
		thr, bodies := caseLadder(fn, "^"+regexpQuote(tag)+"$")
		c.Check("T", fnName(fn)+"/tag classes are <0x80 byte, <0xB8 short string, <0xC0 long string, <0xF8 short list, else long list", thrOK(thr) && len(bodies) == 5, fn.Pos(), len(thr), fmt.Sprint("thresholds ", thr))
		if len(bodies) == 5 {
			exp := []struct{ kind, size string }{
				{"const:0", "const:0"},
				{"const:1", "(" + tag + " - const:128)"},
				{"const:1", "call:(*lib/rlp.Stream).readUint(s, (" + tag + " - const:183))#0"},
				{"const:2", "(" + tag + " - const:192)"},
				{"const:2", "call:(*lib/rlp.Stream).readUint(s, (" + tag + " - const:247))#0"},
			}
			names := []string{"single byte", "short string", "long string", "short list", "long list"}
			for i, body := range bodies {
				var rets []*ssa.Return
				for _, b := range fn.Blocks {
					if (b == body || body.Dominates(b)) && len(b.Instrs) > 0 {
						if r, ok := b.Instrs[len(b.Instrs)-1].(*ssa.Return); ok {
							rets = append(rets, r)
						}
					}
				}
				ok := len(rets) == 1 && len(rets[0].Results) == 3 && pathOf(rets[0].Results[0]) == exp[i].kind && pathOf(rets[0].Results[1]) == exp[i].size
				d := ""
				if len(rets) == 1 {
					d = describeInstr(rets[0])
				}
				c.Check("T", fnName(fn)+"/"+names[i]+" yields kind "+exp[i].kind[6:]+" and size "+strings.ReplaceAll(exp[i].size, tag, "tag"), ok, body.Instrs[0].Pos(), 1, clip(d, 240))
				if !ok {
					continue
				}
				errCases := phiCases(rets[0].Results[2])
				if i == 2 || i == 4 {
					// long form: ErrCanonSize exactly when the size read is below 56; otherwise readUint's own verdict
					nCanon, nOther, bad := 0, 0, ""
					for _, pc := range errCases {
						switch v := pathOf(pc.Val); {
						case v == "global:lib/rlp.ErrCanonSize":
							nCanon++
							if !hasCond(pc.Conds, `readUint\(.*\)#1 == nil\)=T$`) || !hasCond(pc.Conds, `readUint\(.*\)#0 < const:56\)=T$`) {
								bad = "ErrCanonSize chosen under " + strings.Join(pc.Conds, " ; ")
							}
						case strings.HasSuffix(v, "#1") && strings.Contains(v, ".readUint("):
							nOther++
							if hasCond(pc.Conds, `readUint\(.*\)#0 < const:56\)=T$`) && hasCond(pc.Conds, `readUint\(.*\)#1 == nil\)=T$`) {
								bad = "a size below 56 is accepted in long form"
							}
						default:
							bad = "unexpected error value " + v
						}
					}
					c.Check("G", fnName(fn)+"/"+names[i]+" header with a size below 56 is rejected (ErrCanonSize)", nCanon == 1 && nOther >= 1 && bad == "", rets[0].Pos(), len(errCases), bad)
				} else {
					c.Check("T", fnName(fn)+"/"+names[i]+" header is accepted without error", len(errCases) == 1 && pathOf(errCases[0].Val) == "nil", rets[0].Pos(), 1, "")
				}
			}
			c.Guarded(fn, "remember the byte value", StoreTo(`^&s\.byteval$`), G("tag read without error", IsNil(`^`+rlpS+`readByte\(s\)#1$`)))
			n := 0
			for _, in := range findInstrs(fn, StoreTo(`^&s\.byteval$`)) {
				if pathOf(in.(*ssa.Store).Val) == tag && (in.Block() == bodies[0] || bodies[0].Dominates(in.Block())) {
					n++
				}
			}
			c.Check("T", fnName(fn)+"/single byte is its own value (byteval = tag)", n == 1, fn.Pos(), n, "")
		}
	}
	// slice decoder
	if fn := c.Fn("lib/rlp", "", "readKind"); fn != nil {
		tag := "buf[const:0]"
		thr, bodies := caseLadder(fn, `^buf\[const:0\]$`)
		c.Check("T", fnName(fn)+"/tag classes are <0x80 byte, <0xB8 short string, <0xC0 long string, <0xF8 short list, else long list", thrOK(thr) && len(bodies) == 5, fn.Pos(), len(thr), fmt.Sprint("thresholds ", thr))
		var final *ssa.Return
		for _, in := range findInstrs(fn, AnyReturn()) {
			r := in.(*ssa.Return)
			if len(r.Results) == 4 {
				if _, isPhi := r.Results[0].(*ssa.Phi); isPhi {
					final = r
				}
			}
		}
		if final == nil || len(bodies) != 5 {
			c.Bad("T", fnName(fn)+"/result table", fn.Pos(), 0, "the final return of (kind, tagsize, contentsize) per tag class was not found")
		} else {
			exp := [][3]string{
				{"const:0", "const:0", "const:1"},
				{"const:1", "const:1", "(" + tag + " - const:128)"},
				{"const:1", "((" + tag + " - const:183) + const:1)", "call:lib/rlp.readSize(buf[const:1:], (" + tag + " - const:183))#0"},
				{"const:2", "const:1", "(" + tag + " - const:192)"},
				{"const:2", "((" + tag + " - const:247) + const:1)", "call:lib/rlp.readSize(buf[const:1:], (" + tag + " - const:247))#0"},
			}
			names := []string{"single byte", "short string", "long string", "short list", "long list"}
			what := []string{"kind", "tag size", "content size"}
			for ri := 0; ri < 3; ri++ {
				phi, _ := final.Results[ri].(*ssa.Phi)
				if phi == nil {
					c.Bad("T", fnName(fn)+"/"+what[ri]+" per tag class", final.Pos(), 0, "not a merge of the per-class values")
					continue
				}
				got := map[int]map[string]bool{}
				for ei, e := range phi.Edges {
					pred := phi.Block().Preds[ei]
					for bi, body := range bodies {
						if pred == body || body.Dominates(pred) {
							if got[bi] == nil {
								got[bi] = map[string]bool{}
							}
							got[bi][pathOf(e)] = true
						}
					}
				}
				for bi := range bodies {
					ok := len(got[bi]) == 1 && got[bi][exp[bi][ri]]
					c.Check("T", fnName(fn)+"/"+names[bi]+": "+what[ri]+" is "+strings.ReplaceAll(exp[bi][ri], tag, "tag"), ok, final.Pos(), 1, setStr(got[bi]))
				}
			}
		}
		c.Guarded(fn, "accept the value", func(in ssa.Instruction) bool { return final != nil && in == ssa.Instruction(final) },
			G("input not empty", Cmp(`^call:len\(buf\)$`, "!=", `^const:0$`)),
			G("size read without error", IsNil(`^phi\(call:lib/rlp\.readSize\(`)),
			G("content fits the input (contentsize <= len(buf) - tagsize)", Cmp(`^phi\(\(buf\[const:0\] - const:128\)`, "<=", `^\(call:len\(buf\) - phi\(`)))
		// a one-byte string below 0x80 must have been a single byte
		c.Guarded(fn, "reject a wrapped single byte", ReturnWith(3, `^global:lib/rlp\.ErrCanonSize$`),
			G("content size is 1", Cmp(`^\(buf\[const:0\] - const:128\)$`, "==", `^const:1$`)), G("content byte below 0x80", Cmp(`^buf\[const:1\]$`, "<", `^const:128$`)))
		n := len(findInstrs(fn, ReturnWith(3, `^global:lib/rlp\.ErrCanonSize$`)))
		c.Check("G", fnName(fn)+"/a one-byte string holding a byte below 0x80 is rejected", n == 1, fn.Pos(), n, "")
	}
	if fn := c.Fn("lib/rlp", "", "readSize"); fn != nil {
		c.Guarded(fn, "accept the size", SuccessReturn(1, ""),
			G("size bytes present", Cmp(`^slen$`, "<=", `^call:len\(b\)$`)),
			G("size at least 56", Cmp(`^phi\(`, ">=", `^const:56$`)),
			G("no leading zero byte", Cmp(`^b\[const:0\]$`, "!=", `^const:0$`)))
	}
	if fn := c.Fn("lib/rlp", "Stream", "readUint"); fn != nil {
		c.Guarded(fn, "accept a multi-byte size/integer", func(in ssa.Instruction) bool {
			r, ok := in.(*ssa.Return)
			return ok && len(r.Results) == 2 && strings.Contains(pathOf(r.Results[0]), "Uint64(") && pathOf(r.Results[1]) == "nil"
		}, G("bytes read without error", IsNil(`^`+rlpS+`readFull\(s, s\.uintbuf\[:const:8\]\[\(const:8 - size\):\]\)$`)),
			G("no leading zero byte", Cmp(`^s\.uintbuf\[:const:8\]\[\(const:8 - size\)\]$`, "!=", `^const:0$`)))
	}
	// all uses of the short/long threshold agree
	n56, bad := 0, ""
	for _, f := range c.P.ModFuncs {
		if f.Pkg == nil || strings.TrimPrefix(f.Pkg.Pkg.Path(), modPath+"/") != "lib/rlp" || len(f.Blocks) == 0 {
			continue
		}
		allInstrs(f, false, func(_ *ssa.Function, in ssa.Instruction) {
			bo, ok := in.(*ssa.BinOp)
			if !ok || !isCmp(bo.Op) {
				return
			}
			for _, side := range []ssa.Value{bo.X, bo.Y} {
				if k, ok := side.(*ssa.Const); ok && k.Value != nil && k.Value.Kind() == constant.Int && (k.Int64() == 55 || k.Int64() == 56 || k.Int64() == 57) {
					n56++
					if !(side == bo.Y && bo.Op.String() == "<" && k.Int64() == 56) {
						bad = fmt.Sprintf("%s at %s", pathOf(bo), c.P.Pos(instrPos(in)))
					}
				}
			}
		})
	}
	c.Check("S", "lib/rlp/every short-versus-long form decision is `size < 56`", bad == "" && n56 >= 7, c.fnPos("lib/rlp.puthead"), n56, fmt.Sprintf("%d comparisons; deviating: %s", n56, bad))
}

// ---- encoders ----------------------------------------------------------------------------------------------------

func c16Encoders(c *Ctx) {
	if fn := c.Fn("lib/rlp", "", "puthead"); fn != nil {
		st := findInstrs(fn, StoreTo(`^&buf\[const:0\]$`))
		c.Check("T", fnName(fn)+"/two header forms", len(st) == 2, fn.Pos(), len(st), "")
		c.Guarded(fn, "short form: tag = smalltag + size", func(in ssa.Instruction) bool {
			s, ok := in.(*ssa.Store)
			return ok && pathOf(s.Addr) == "&buf[const:0]" && pathOf(s.Val) == "(smalltag + size)"
		}, G("size < 56", Cmp(`^size$`, "<", `^const:56$`)))
		c.Guarded(fn, "long form: tag = largetag + size-of-size", func(in ssa.Instruction) bool {
			s, ok := in.(*ssa.Store)
			return ok && pathOf(s.Addr) == "&buf[const:0]" && pathOf(s.Val) == "(largetag + call:lib/rlp.putint(buf[const:1:], size))"
		}, G("size >= 56", Cmp(`^size$`, ">=", `^const:56$`)))
		var rets []string
		for _, in := range findInstrs(fn, AnyReturn()) {
			rets = append(rets, pathOf(in.(*ssa.Return).Results[0]))
		}
		c.Check("T", fnName(fn)+"/returns the header length (1, or size-of-size + 1)", len(rets) == 2 && ((rets[0] == "const:1" && rets[1] == "(call:lib/rlp.putint(buf[const:1:], size) + const:1)") || (rets[1] == "const:1" && rets[0] == "(call:lib/rlp.putint(buf[const:1:], size) + const:1)")), fn.Pos(), len(rets), strings.Join(rets, " | "))
	}
	// call sites pass the string or the list tag pair
	nPH := 0
	for _, cs := range c.CallSites(`^lib/rlp\.puthead$`) {
		a := argPaths(callCommon(cs.Instr))
		nPH++
		ok := len(a) == 4 && ((a[1] == "const:128" && a[2] == "const:183") || (a[1] == "const:192" && a[2] == "const:247"))
		c.Check("T", fnName(cs.Caller)+"/puthead gets (0x80,0xB7) for strings or (0xC0,0xF7) for lists", ok, instrPos(cs.Instr), 1, strings.Join(a, ", "))
	}
	c.Check("T", "lib/rlp.puthead/call sites", nPH >= 3, c.fnPos("lib/rlp.puthead"), nPH, "")
	if fn := c.Fn("lib/rlp", "Stream", "Raw"); fn != nil {
		c.Guarded(fn, "string header", CallTo(`^lib/rlp\.puthead$`, `const:128, const:183`), G("kind is String", Cmp(`Kind\(s\)#0$`, "==", `^const:1$`)))
		c.Guarded(fn, "list header", CallTo(`^lib/rlp\.puthead$`, `const:192, const:247`), G("kind is not String", Cmp(`Kind\(s\)#0$`, "!=", `^const:1$`)))
	}
	if fn := c.Fn("lib/rlp", "encBuffer", "encodeStringHeader"); fn != nil {
		c.Guarded(fn, "short form: 0x80 + size", StoreTo(`^&varargs\[const:0\]$`), G("size < 56", Cmp(`^size$`, "<", `^const:56$`)))
		c.Guarded(fn, "long form: 0xB7 + size-of-size", StoreTo(`^&buf\.sizebuf\[const:0\]$`), G("size >= 56", Cmp(`^size$`, ">=", `^const:56$`)))
		for _, in := range findInstrs(fn, Or(StoreTo(`^&varargs\[const:0\]$`), StoreTo(`^&buf\.sizebuf\[const:0\]$`))) {
			s := in.(*ssa.Store)
			want := map[string]string{"&varargs[const:0]": "(const:128 + size)", "&buf.sizebuf[const:0]": "(const:183 + call:lib/rlp.putint(buf.sizebuf[const:1:], size))"}[pathOf(s.Addr)]
			c.Check("T", fnName(fn)+"/"+pathOf(s.Addr)[1:]+" is "+want, pathOf(s.Val) == want, instrPos(in), 1, describeInstr(in))
		}
	}
	if fn := c.Fn("lib/rlp", "", "headsize"); fn != nil {
		c.Guarded(fn, "one-byte header", ReturnWith(0, `^const:1$`), G("size < 56", Cmp(`^size$`, "<", `^const:56$`)))
		c.Guarded(fn, "long header", ReturnWith(0, `^\(const:1 \+ call:lib/rlp\.intsize\(size\)\)$`), G("size >= 56", Cmp(`^size$`, ">=", `^const:56$`)))
	}
	if fn := c.Fn("lib/rlp", "encBuffer", "listEnd"); fn != nil {
		c.Guarded(fn, "one-byte list header", func(in ssa.Instruction) bool {
			s, ok := in.(*ssa.Store)
			return ok && pathOf(s.Addr) == "&buf.lhsize" && pathOf(s.Val) == "(buf.lhsize + const:1)"
		}, G("size < 56", Cmp(`^buf\.lheads\[index\]\.size$`, "<", `^const:56$`)))
		c.Guarded(fn, "long list header", func(in ssa.Instruction) bool {
			s, ok := in.(*ssa.Store)
			return ok && pathOf(s.Addr) == "&buf.lhsize" && pathOf(s.Val) == "(buf.lhsize + (const:1 + call:lib/rlp.intsize(buf.lheads[index].size)))"
		}, G("size >= 56", Cmp(`^buf\.lheads\[index\]\.size$`, ">=", `^const:56$`)))
		c.OnEveryPath(fn, "account the header size", StoreTo(`^&buf\.lhsize$`), "return", AnyReturn())
	}
	if fn := c.Fn("lib/rlp", "listhead", "encode"); fn != nil {
		n := len(findInstrs(fn, CallTo(`^lib/rlp\.puthead$`, `const:192, const:247, head\.size\)$`)))
		c.Check("T", fnName(fn)+"/list headers carry the list tags and the recorded size", n == 1, fn.Pos(), n, "")
	}
	// integers
	if fn := c.Fn("lib/rlp", "encBuffer", "writeUint64"); fn != nil {
		app := func(v string) SinkSel {
			return func(in ssa.Instruction) bool {
				s, ok := in.(*ssa.Store)
				return ok && pathOf(s.Addr) == "&varargs[const:0]" && pathOf(s.Val) == v
			}
		}
		c.Guarded(fn, "zero is the empty string 0x80", app("const:128"), G("i == 0", Cmp(`^i$`, "==", `^const:0$`)))
		c.Guarded(fn, "a value below 128 is its own byte", app("i"), G("i != 0", Cmp(`^i$`, "!=", `^const:0$`)), G("i < 128", Cmp(`^i$`, "<", `^const:128$`)))
		c.Guarded(fn, "longer values get 0x80 + length", StoreTo(`^&buf\.sizebuf\[const:0\]$`), G("i >= 128", Cmp(`^i$`, ">=", `^const:128$`)))
		for _, in := range findInstrs(fn, StoreTo(`^&buf\.sizebuf\[const:0\]$`)) {
			c.Check("T", fnName(fn)+"/multi-byte tag is 0x80 + minimal length", pathOf(in.(*ssa.Store).Val) == "(const:128 + call:lib/rlp.putint(buf.sizebuf[const:1:], i))", instrPos(in), 1, describeInstr(in))
		}
		n := len(findInstrs(fn, app("const:128"))) + len(findInstrs(fn, app("i"))) + len(findInstrs(fn, StoreTo(`^&buf\.sizebuf\[const:0\]$`)))
		c.Check("T", fnName(fn)+"/three forms", n == 3, fn.Pos(), n, "")
	}
	// byte strings: single byte below 0x80 unwrapped, everything else with a header
	for _, f := range []struct{ recv, name, length, first string }{
		{"encBuffer", "writeBytes", `^call:len\(b\)$`, `^b\[const:0\]$`},
		{"", "writeString", `^call:len\(call:\(reflect\.Value\)\.String\(val\)\)$`, `^call:\(reflect\.Value\)\.String\(val\)\[const:0\]$`},
	} {
		fn := c.Fn("lib/rlp", f.recv, f.name)
		if fn == nil {
			continue
		}
		single := StoreTo(`^&varargs\[const:0\]$`)
		hdr := CallTo(`^\(\*lib/rlp\.encBuffer\)\.encodeStringHeader$`, "")
		c.Guarded(fn, "write the byte without a header", single, G("length is 1", Cmp(f.length, "==", `^const:1$`)), G("byte <= 0x7F", Cmp(f.first, "<=", `^const:127$`), Cmp(f.first, "<", `^const:128$`)))
		c.Guarded(fn, "write a string header", hdr, G("length is not 1, or the byte is above 0x7F", Cmp(f.length, "!=", `^const:1$`), Cmp(f.first, ">", `^const:127$`), Cmp(f.first, ">=", `^const:128$`)))
		c.Check("T", fnName(fn)+"/both forms present", len(findInstrs(fn, single)) == 1 && len(findInstrs(fn, hdr)) == 1, fn.Pos(), 2, "")
	}
	if fn := c.Fn("lib/rlp", "", "writeLengthOneByteArray"); fn != nil {
		b := `^call:\(reflect\.Value\)\.Uint\(call:\(reflect\.Value\)\.Index\(val, const:0\)\)$`
		c.Guarded(fn, "write 0x81 + byte", StoreTo(`^&varargs\[const:1\]$`), G("byte above 0x7F", Cmp(b, ">", `^const:127$`), Cmp(b, ">=", `^const:128$`)))
		n := 0
		for _, in := range findInstrs(fn, StoreTo(`^&varargs\[const:0\]$`)) {
			if pathOf(in.(*ssa.Store).Val) == "const:129" {
				n++
			}
		}
		c.Check("T", fnName(fn)+"/wrapped form uses tag 0x81", n == 1, fn.Pos(), n, "")
	}
	for _, f := range []struct{ recv, name, cond string }{{"encBuffer", "writeBool", `^b$`}, {"", "writeBool", `^call:\(reflect\.Value\)\.Bool\(val\)$`}} {
		fn := c.Fn("lib/rlp", f.recv, f.name)
		if fn == nil {
			continue
		}
		v := func(k string) SinkSel {
			return func(in ssa.Instruction) bool {
				s, ok := in.(*ssa.Store)
				return ok && pathOf(s.Addr) == "&varargs[const:0]" && pathOf(s.Val) == k
			}
		}
		c.Guarded(fn, "true is 0x01", v("const:1"), G("value is true", True(f.cond)))
		c.Guarded(fn, "false is 0x80", v("const:128"), G("value is false", False(f.cond)))
		c.Check("T", fnName(fn)+"/both forms present", len(findInstrs(fn, v("const:1"))) == 1 && len(findInstrs(fn, v("const:128"))) == 1, fn.Pos(), 2, "")
	}
	for _, name := range []string{"writeBigIntPtr", "writeBigIntNoPtr"} {
		if fn := c.Fn("lib/rlp", "", name); fn != nil {
			c.Guarded(fn, "encode the integer", CallTo(`^\(\*lib/rlp\.encBuffer\)\.writeBigInt$`, ""), G("not negative", Cmp(`^call:\(\*math/big\.Int\)\.Sign\(`, "!=", `^const:-1$`), Cmp(`^call:\(\*math/big\.Int\)\.Sign\(`, ">=", `^const:0$`)))
		}
	}
	if fn := c.Fn("lib/rlp", "encBuffer", "writeBigInt"); fn != nil {
		c.Guarded(fn, "take the 64-bit path", CallTo(`^\(\*lib/rlp\.encBuffer\)\.writeUint64$`, ""), G("fits 64 bits", Cmp(`^call:\(\*math/big\.Int\)\.BitLen\(i\)$`, "<=", `^const:64$`)))
		n := 0
		for _, in := range findInstrs(fn, CallTo(`^\(\*lib/rlp\.encBuffer\)\.encodeStringHeader$`, "")) {
			if a := argPaths(callCommon(in)); len(a) == 2 && a[1] == "(((call:(*math/big.Int).BitLen(i) + const:7) & const:-8) >> const:3)" {
				n++
			}
		}
		c.Check("T", fnName(fn)+"/large integers use the minimal byte length ceil(bitlen/8)", n == 1, fn.Pos(), n, "")
	}
}
