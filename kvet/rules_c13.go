package main

// C13 — blocks are tamper-evident and reassemble exactly from their parts.

import (
	"fmt"
	"go/ast"
	"sort"
	"strings"

	"golang.org/x/tools/go/ssa"
)

const kp = "proto/kardiachain/types."

func init() {
	register("C13", []string{"types/part_set.go", "lib/merkle/simple_proof.go", "lib/merkle/simple_tree.go", "lib/merkle/hash.go", "types/block.go",
		"types/commit.go", "types/hashing.go", "kai/rawdb/accessors.go", "consensus/state.go", "kai/state/cstate/validation.go", "types/validator_set.go"}, runC13)
}

var blockCodecs = []codecSpec{
	{Name: "Header", Dom: "types.Header", Proto: kp + "Header", Enc: "(*types.Header).ToProto", Dec: "types.HeaderFromProto", Validates: `^call:\(types\.Header\)\.ValidateBasic\(`,
		ProtoSkip: map[string]string{"ChainID": "the domain header carries no chain id (bound through sign bytes instead)"}},
	{Name: "Vote", Dom: "types.Vote", Proto: kp + "Vote", Enc: "(*types.Vote).ToProto", Dec: "types.VoteFromProto", Validates: `^call:\(\*types\.Vote\)\.ValidateBasic\(`},
	{Name: "Commit", Dom: "types.Commit", Proto: kp + "Commit", Enc: "(*types.Commit).ToProto", Dec: "types.CommitFromProto", Validates: `^call:\(\*types\.Commit\)\.ValidateBasic\(`,
		DomSkip: map[string]string{"hash": "cache of Hash()", "bitArray": "cache of BitArray()"}},
	{Name: "CommitSig", Dom: "types.CommitSig", Proto: kp + "CommitSig", Enc: "(*types.CommitSig).ToProto", Dec: "(*types.CommitSig).FromProto", Validates: `^call:\(types\.CommitSig\)\.ValidateBasic\(|^call:\(\*types\.CommitSig\)\.ValidateBasic\(`},
	{Name: "Proposal", Dom: "types.Proposal", Proto: kp + "Proposal", Enc: "(*types.Proposal).ToProto", Dec: "types.ProposalFromProto", Validates: `ValidateBasic\(`,
		ProtoSkip: map[string]string{"Type": "constant ProposalType, set by the canonicaliser"}},
	{Name: "Part", Dom: "types.Part", Proto: kp + "Part", Enc: "(*types.Part).ToProto", Dec: "types.PartFromProto", Validates: `^call:\(\*types\.Part\)\.ValidateBasic\(`},
	{Name: "PartSetHeader", Dom: "types.PartSetHeader", Proto: kp + "PartSetHeader", Enc: "(*types.PartSetHeader).ToProto", Dec: "types.PartSetHeaderFromProto", Validates: `ValidateBasic\(`},
	{Name: "BlockID", Dom: "types.BlockID", Proto: kp + "BlockID", Enc: "(*types.BlockID).ToProto", Dec: "types.BlockIDFromProto", Validates: `ValidateBasic\(`},
	{Name: "SimpleProof", Dom: "lib/merkle.SimpleProof", Proto: "proto/kardiachain/crypto.Proof", Enc: "(*lib/merkle.SimpleProof).ToProto", Dec: "lib/merkle.ProofFromProto", Validates: `ValidateBasic\(`},
	{Name: "Block", Dom: "types.Block", Proto: kp + "Block", Enc: "(*types.Block).ToProto", Dec: "types.BlockFromProto", Validates: `^call:\(\*types\.Block\)\.ValidateBasic\(`,
		DomSkip: map[string]string{"mtx": "lock", "dualEvents": "dual-chain only, not on the wire", "hash": "cache", "size": "cache"}},
	{Name: "DuplicateVoteEvidence", Dom: "types.DuplicateVoteEvidence", Proto: kp + "DuplicateVoteEvidence", Enc: "(*types.DuplicateVoteEvidence).ToProto", Dec: "types.DuplicateVoteEvidenceFromProto", Validates: `ValidateBasic\(`},
	{Name: "BlockMeta", Dom: "types.BlockMeta", Proto: kp + "BlockMeta", Enc: "(*types.BlockMeta).ToProto", Dec: "types.BlockMetaFromProto", Validates: ``},
}

func runC13(c *Ctx) {
	c.Decided = []string{
		"a part enters the part set only behind its index bound, an empty slot, a Merkle proof that verifies against the set's hash, and a proof whose index/total are the slot index/part count",
		"proof verification compares leaf hash and recomputed root; leaf and inner hashes are domain-separated; builder and verifier share the split point",
		"the block hash is the header hash and the header encoder covers every header field; body components (last commit, transactions, evidence) are checked against the header's commitments in ValidateBasic, and every consensus-path caller passes a real trie hasher",
		"a memoised validation verdict is keyed by everything validation reads that the header hash does not commit to",
		"the proposal block is adopted only from a complete part set through the validating decoder",
		"hand-written wire/database codecs cover every field both ways with a consistent field mapping and end in the type's validation",
	}
	c.NotDec = []string{"byte-identical reassembly for all arrival orders (value-level)", "collision resistance of the hashes", "generated protobuf marshalling"}
	c.Floors["G"] = 25
	c.Floors["S"] = 120
	// the parts of a stored block are read back under the keys they were written under: one key per (height, index)
	c.rawdbKeyWidths()

	addPartRules(c)
	if fn := c.Fn("types", "PartSet", "IsComplete"); fn != nil {
		ok := false
		allInstrs(fn, false, func(_ *ssa.Function, in ssa.Instruction) {
			if b, isB := in.(*ssa.BinOp); isB && b.Op.String() == "==" && pathOf(b.X) == "ps.count" && pathOf(b.Y) == "ps.total" {
				ok = true
			}
		})
		c.Check("F", fnName(fn)+"/is count == total", ok, fn.Pos(), 1, "")
	}
	if fn := c.Fn("types", "PartSet", "GetReader"); fn != nil {
		c.Guarded(fn, "NewPartSetReader", CallTo(`^types\.NewPartSetReader$`, ""), G("ps.IsComplete()", True(`^call:\(\*types\.PartSet\)\.IsComplete\(ps\)$`)))
	}

	// ---- Merkle proofs --------------------------------------------------------------------------------
	if fn := c.Fn("lib/merkle", "SimpleProof", "Verify"); fn != nil {
		c.Guarded(fn, "return nil", SuccessReturn(0, ""),
			G("bytes.Equal(sp.LeafHash, leafHash(leaf))", True(`^call:bytes\.Equal\(sp\.LeafHash, call:lib/merkle\.leafHash\(leaf\)\)$`)),
			G("bytes.Equal(sp.ComputeRootHash(), rootHash)", True(`^call:bytes\.Equal\(call:\(\*lib/merkle\.SimpleProof\)\.ComputeRootHash\(sp\), rootHash\)$`)))
	}
	if fn := c.Fn("lib/merkle", "SimpleProof", "ComputeRootHash"); fn != nil {
		ok := false
		for _, in := range findInstrs(fn, CallTo(`^lib/merkle\.computeHashFromAunts$`, "")) {
			a := argPaths(callCommon(in))
			ok = len(a) == 4 && a[0] == "sp.Index" && a[1] == "sp.Total" && a[2] == "sp.LeafHash" && a[3] == "sp.Aunts"
		}
		c.Check("F", fnName(fn)+"/computeHashFromAunts(Index, Total, LeafHash, Aunts)", ok, fn.Pos(), 1, "")
	}
	if fn := c.Fn("lib/merkle", "", "computeHashFromAunts"); fn != nil {
		c.Guarded(fn, "inner hashing / leaf return", Or(CallTo(`^lib/merkle\.innerHash$`, ""), ReturnWith(0, `^leafHash$`)),
			G("index < total", Cmp(`^index$`, "<", `^total$`)),
			G("index >= 0", Cmp(`^index$`, ">=", `^const:0$`)),
			G("total > 0", Cmp(`^total$`, ">", `^const:0$`)))
		c.Guarded(fn, "leaf return", ReturnWith(0, `^leafHash$`), G("no aunts left at a leaf", Cmp(`^call:len\(innerHashes\)$`, "==", `^const:0$`)))
		n := len(findInstrs(fn, CallTo(`^lib/merkle\.getSplitPoint$`, "")))
		c.Check("S", fnName(fn)+"/uses getSplitPoint", n == 1, fn.Pos(), n, "verifier must split like the builder")
	}
	for _, b := range []string{"SimpleHashFromByteSlices", "trailsFromByteSlices"} {
		if fn := c.Fn("lib/merkle", "", b); fn != nil {
			n := len(findInstrs(fn, CallTo(`^lib/merkle\.getSplitPoint$`, "")))
			c.Check("S", fnName(fn)+"/uses getSplitPoint", n >= 1, fn.Pos(), n, "builder must split like the verifier")
			nl := len(findInstrs(fn, CallTo(`^lib/merkle\.leafHash$`, "")))
			c.Check("S", fnName(fn)+"/hashes leaves with leafHash", nl >= 1, fn.Pos(), nl, "")
		}
	}
	c.merklePrefixes()

	// ---- header hash ----------------------------------------------------------------------------------
	if fn := c.Fn("types", "Block", "Hash"); fn != nil {
		ok := false
		for _, in := range findInstrs(fn, AnyReturn()) {
			if pathOf(in.(*ssa.Return).Results[0]) == "call:(*types.Header).Hash(b.header)" {
				ok = true
			}
		}
		c.Check("F", fnName(fn)+"/is b.header.Hash() (or its cache)", ok, fn.Pos(), 1, "")
		st := findInstrs(fn, CallTo(`^\(\*sync/atomic\.Value\)\.Store$`, ""))
		ok = len(st) == 1 && strings.Contains(callPath(callCommon(st[0])), "call:(*types.Header).Hash(b.header)")
		c.Check("F", fnName(fn)+"/cache holds b.header.Hash()", ok, fn.Pos(), len(st), "")
	}
	if fn := c.Fn("types", "Header", "Hash"); fn != nil {
		n := len(findInstrs(fn, CallTo(`^\(\*types\.Header\)\.ToProto$`, `ToProto\(h\)`)))
		c.Check("F", fnName(fn)+"/hashes h.ToProto()", n == 1, fn.Pos(), n, "")
	}

	// ---- body bound to header ---------------------------------------------------------------------------
	if fn := c.Fn("types", "Block", "ValidateBasic"); fn != nil {
		c.Guarded(fn, "return nil", SuccessReturn(0, ""),
			G("b != nil", NotNil(`^b$`)),
			G("header.ValidateBasic() == nil", IsNil(`^call:\(types\.Header\)\.ValidateBasic\(\*b\.header\)$`)),
			G("height <= 1, or lastCommit != nil", Cmp(`^b\.header\.Height$`, "<=", `^const:1$`), NotNil(`^b\.lastCommit$`)),
			G("height <= 1, or lastCommit.ValidateBasic() == nil", Cmp(`^b\.header\.Height$`, "<=", `^const:1$`), IsNil(`^call:\(\*types\.Commit\)\.ValidateBasic\(b\.lastCommit\)$`)),
			G("LastCommitHash == lastCommit.Hash() (or zero for a nil commit)", True(`^call:\(lib/common\.Hash\)\.Equal\(b\.header\.LastCommitHash, call:\(\*types\.Commit\)\.Hash\(b\.lastCommit\)\)$`), True(`^call:\(\*lib/common\.Hash\)\.IsZero\(&b\.header\.LastCommitHash\)$`)),
			G("transactions.Hash(hasher) == header.TxHash (when a hasher is given)", True(`^call:\(lib/common\.Hash\)\.Equal\(call:\(types\.Transactions\)\.Hash\(b\.transactions, hasher\), b\.header\.TxHash\)$`), IsNil(`^hasher$`)),
			G("evidence.Hash() == header.EvidenceHash", True(`^call:\(lib/common\.Hash\)\.Equal\(call:\(\*types\.EvidenceData\)\.Hash\(b\.evidence\), b\.header\.EvidenceHash\)$`)))
		// the zero-hash alternative is only available for a nil commit
		c.Guarded(fn, "zero LastCommitHash alternative", func(in ssa.Instruction) bool {
			iff, ok := in.(*ssa.If)
			return ok && strings.HasPrefix(pathOf(iff.Cond), "call:(*lib/common.Hash).IsZero(&b.header.LastCommitHash)")
		}, G("b.lastCommit == nil", IsNil(`^b\.lastCommit$`)))
		// every evidence item is validated
		ev := findInstrs(fn, CallTo(`^iface:\(types\.Evidence\)\.ValidateBasic$`, `ValidateBasic\(b\.evidence\.Evidence\[`))
		c.Check("F", fnName(fn)+"/each evidence item is validated", len(ev) == 1, fn.Pos(), len(ev), "")
	}
	// callers on the consensus / sync path pass a real hasher
	for _, site := range c.CallSites(`^\(\*types\.Block\)\.ValidateBasic$|^types\.BlockFromProto$`) {
		cc := callCommon(site.Instr)
		if cc == nil {
			continue
		}
		a := argPaths(cc)
		h := a[len(a)-1]
		caller := fnName(rootFn(site.Caller))
		ok := h == "call:trie.NewStackTrie(nil)" || (caller == "types.BlockFromProto" && h == "hasher")
		c.Check("F", caller+"/passes a trie hasher to "+calleeNameNoPath(cc), ok, instrPos(site.Instr), 1,
			"hasher argument is "+h+": with a nil hasher Block.ValidateBasic skips the transaction-root check, so a body with altered transactions keeps its id")
	}
	c.OnlyCalledFrom("BlockFromProtoUnsafe only from the local database reader", `^types\.BlockFromProtoUnsafe$`, 1, `^kai/rawdb\.ReadBlock$`)
	if fn := c.Fn("types", "", "NewBlock"); fn != nil {
		var tx, lc, ev bool
		for _, in := range findInstrs(fn, StoreTo(`\.header\.(TxHash|LastCommitHash|EvidenceHash)$`)) {
			st := in.(*ssa.Store)
			v := pathOf(st.Val)
			switch {
			case strings.HasSuffix(pathOf(st.Addr), "TxHash") && strings.HasPrefix(v, "call:types.DeriveSha(txs, hasher)"):
				tx = true
			case strings.HasSuffix(pathOf(st.Addr), "LastCommitHash") && v == "call:(*types.Commit).Hash(lastCommit)":
				lc = true
			case strings.HasSuffix(pathOf(st.Addr), "EvidenceHash") && strings.HasPrefix(v, "call:(*types.EvidenceData).Hash("):
				ev = true
			}
		}
		c.Check("S", fnName(fn)+"/TxHash = DeriveSha(txs, hasher)", tx, fn.Pos(), 1, "")
		c.Check("S", fnName(fn)+"/LastCommitHash = lastCommit.Hash()", lc, fn.Pos(), 1, "")
		c.Check("S", fnName(fn)+"/EvidenceHash = evidence.Hash()", ev, fn.Pos(), 1, "")
	}
	c.deriveShaCoverage()
	if fn := c.Fn("types", "Transactions", "Hash"); fn != nil {
		n := len(findInstrs(fn, CallTo(`^types\.DeriveSha$`, "")))
		c.Check("S", fnName(fn)+"/is DeriveSha (as in NewBlock)", n == 1, fn.Pos(), n, "proposer and validator must derive the transaction root the same way")
	}

	// ---- memo key covers what the header hash does not commit to -------------------------------------------
	c.memoKey()

	// ---- proposal block from parts -----------------------------------------------------------------------
	if fn := c.Fn("consensus", "ConsensusState", "addProposalBlockPart"); fn != nil {
		c.Guarded(fn, "cs.ProposalBlock = block", StoreTo(`^&cs\.RoundState\.ProposalBlock$`),
			G("msg.Height == cs.Height", Cmp(reH, "==", `^msg\.Height$`)),
			G("cs.ProposalBlockParts != nil", NotNil(`^cs\.RoundState\.ProposalBlockParts$`)),
			G("AddPart returned no error", IsNil(`^call:\(\*types\.PartSet\)\.AddPart\(cs\.RoundState\.ProposalBlockParts, msg\.Part\)#1$`)),
			G("part was added", True(`^call:\(\*types\.PartSet\)\.AddPart\(cs\.RoundState\.ProposalBlockParts, msg\.Part\)#0$`)),
			G("ProposalBlockParts.IsComplete()", True(`^call:\(\*types\.PartSet\)\.IsComplete\(cs\.RoundState\.ProposalBlockParts\)$`)),
			G("proto.Unmarshal == nil", IsNil(`^call:github\.com/gogo/protobuf/proto\.Unmarshal\(`)),
			G("BlockFromProto(pbb, stack trie) == nil", IsNil(`^call:types\.BlockFromProto\(.*, call:trie\.NewStackTrie\(nil\)\)#1$`)))
		for _, in := range findInstrs(fn, StoreTo(`^&cs\.RoundState\.ProposalBlock$`)) {
			c.Check("F", fnName(fn)+"/ProposalBlock is the decoded, validated block", re(`^call:types\.BlockFromProto\(.*\)#0$`).MatchString(pathOf(in.(*ssa.Store).Val)), instrPos(in), 1, describeInstr(in))
		}
		rd := findInstrs(fn, CallTo(`^io/ioutil\.ReadAll$|^io\.ReadAll$`, `GetReader\(cs\.RoundState\.ProposalBlockParts\)`))
		c.Check("F", fnName(fn)+"/bytes come from the completed part set", len(rd) == 1, fn.Pos(), len(rd), "")
	}

	// ---- codecs ---------------------------------------------------------------------------------------------
	for _, s := range blockCodecs {
		c.codecPair(s)
	}
	// ---- reading a complete part set back: no byte of a part is dropped at a part boundary -------------------------------
	if fn := c.Fn("types", "PartSetReader", "Read"); fn != nil {
		first := `call:(*types.PartSetReader).Read(psr, p[:call:(*bytes.Reader).Len(psr.reader)])`
		second := `call:(*types.PartSetReader).Read(psr, p[call:(*bytes.Reader).Len(psr.reader):])`
		n := 0
		for _, in := range findInstrs(fn, AnyReturn()) {
			r := in.(*ssa.Return)
			if len(r.Results) != 2 {
				continue
			}
			a, b := pathOf(r.Results[0]), pathOf(r.Results[1])
			if strings.Contains(a, second) || strings.Contains(b, second) {
				n++
				c.Check("F", fnName(fn)+"/a read across a part boundary returns the bytes of both halves together with the second half's error", a == "("+first+"#0 + "+second+"#0)" && b == second+"#1", instrPos(in), 1,
					"returns "+clip(a, 120)+", "+clip(b, 120)+": bytes delivered together with io.EOF by the nested read must be counted, io.Reader allows n > 0 with err == io.EOF")
			}
		}
		c.Check("F", fnName(fn)+"/one exit after the second half", n == 1, fn.Pos(), n, "")
		c.Guarded(fn, "report end of data", ReturnWith(1, `^global:io\.EOF$`), G("current part exhausted", Cmp(`^call:\(\*bytes\.Reader\)\.Len\(psr\.reader\)$`, "<=", `^const:0$`)), G("no part left", Cmp(`^psr\.i$`, ">=", `^call:len\(psr\.parts\)$`)))
		k := 0
		for _, in := range findInstrs(fn, StoreTo(`^&psr\.reader$`)) {
			if pathOf(in.(*ssa.Store).Val) == "call:bytes.NewReader(psr.parts[psr.i].Bytes)" {
				k++
			}
		}
		c.Check("F", fnName(fn)+"/moves on to the bytes of the next part", k == 1, fn.Pos(), k, "")
	}

}

// merklePrefixes: leafPrefix and innerPrefix are distinct constants; leafHash / innerHash use their own.
func (c *Ctx) merklePrefixes() {
	f, _ := c.P.FileAST("lib/merkle/hash.go")
	if f == nil {
		c.Unres("T", "lib/merkle prefixes", "hash.go not loaded")
		return
	}
	vals := map[string]string{}
	ast.Inspect(f, func(n ast.Node) bool {
		vs, ok := n.(*ast.ValueSpec)
		if !ok {
			return true
		}
		for i, name := range vs.Names {
			if i < len(vs.Values) {
				if cl, ok := vs.Values[i].(*ast.CompositeLit); ok {
					var el []string
					for _, e := range cl.Elts {
						if bl, ok := e.(*ast.BasicLit); ok {
							el = append(el, bl.Value)
						} else {
							el = append(el, "?")
						}
					}
					vals[name.Name] = strings.Join(el, ",")
				}
			}
		}
		return true
	})
	l, lok := vals["leafPrefix"]
	i, iok := vals["innerPrefix"]
	c.Check("T", "lib/merkle/leafPrefix != innerPrefix", lok && iok && l != i && l != "" && i != "", f.Pos(), 2, fmt.Sprintf("leafPrefix={%s} innerPrefix={%s}", l, i))
	for fnm, g := range map[string]string{"leafHash": "leafPrefix", "innerHash": "innerPrefix"} {
		fn := c.Fn("lib/merkle", "", fnm)
		if fn == nil {
			continue
		}
		uses := map[string]bool{}
		allInstrs(fn, false, func(_ *ssa.Function, in ssa.Instruction) {
			var ops []*ssa.Value
			for _, op := range in.Operands(ops) {
				if op != nil && *op != nil {
					if gl, ok := (*op).(*ssa.Global); ok {
						uses[gl.Name()] = true
					}
				}
			}
		})
		var us []string
		for u := range uses {
			us = append(us, u)
		}
		sort.Strings(us)
		c.Check("T", "lib/merkle."+fnm+"/prepends only "+g, len(us) == 1 && us[0] == g, fn.Pos(), 1, "globals used: "+strings.Join(us, ","))
	}
	// nobody else writes the prefixes
	for _, f := range c.P.ModFuncs {
		if f.Name() == "init" {
			continue
		}
		allInstrs(f, false, func(_ *ssa.Function, in ssa.Instruction) {
			if st, ok := in.(*ssa.Store); ok {
				if gl, ok := st.Addr.(*ssa.Global); ok && (gl.Name() == "leafPrefix" || gl.Name() == "innerPrefix") && gl.Pkg != nil && strings.HasSuffix(gl.Pkg.Pkg.Path(), "lib/merkle") {
					c.Bad("T", "lib/merkle prefixes are written only at init", instrPos(in), 1, fnName(f)+" assigns "+gl.Name())
				}
			}
		})
	}
}

// memoKey: BlockExecutor.ValidateBlock memoises validateBlock's verdict; the key must determine every field of
// the last commit that validation reads and that the block hash does not commit to.
func (c *Ctx) memoKey() {
	vb := c.Fn("kai/state/cstate", "BlockExecutor", "ValidateBlock")
	val := c.Fn("kai/state/cstate", "", "validateBlock")
	ch := c.Fn("types", "Commit", "Hash")
	if vb == nil || val == nil || ch == nil {
		return
	}
	memo := false
	allInstrs(vb, false, func(_ *ssa.Function, in ssa.Instruction) {
		if l, ok := in.(*ssa.Lookup); ok && strings.HasPrefix(pathOf(l.X), "blockExec.cache") {
			memo = true
		}
	})
	key := "(*kai/state/cstate.BlockExecutor).ValidateBlock/memo key covers Commit fields read by validation but not by Commit.Hash"
	if !memo {
		c.OK("E", key, vb.Pos(), 1, "no memoisation of the verdict in ValidateBlock")
		return
	}
	read := c.Effects(val, 5).Reads
	hashed := c.Effects(ch, 3).Reads
	keyReads := c.effectsExcluding(vb, 3, map[string]bool{"kai/state/cstate.validateBlock": true}).Reads
	var need []string
	for r := range read {
		if r.Type == "types.Commit" && !hashed[r] && r.Field != "hash" && r.Field != "bitArray" {
			need = append(need, r.Field)
		}
	}
	sort.Strings(need)
	if len(need) == 0 {
		c.OK("E", key, vb.Pos(), 1, "Commit.Hash covers every Commit field validation reads")
		return
	}
	var missing []string
	for _, f := range need {
		if !keyReads[fieldRef{"types.Commit", f}] {
			missing = append(missing, f)
		}
	}
	c.Check("E", key, len(missing) == 0, vb.Pos(), len(need),
		fmt.Sprintf("validateBlock reads Commit.{%s}, which Commit.Hash (bound into the header as LastCommitHash) does not cover; the memo key of ValidateBlock does not cover {%s} either, so a block with the same header hash but an altered last commit is accepted from the cache once the genuine block was validated at that height",
			strings.Join(need, ","), strings.Join(missing, ",")))
}

// effectsExcluding is Effects with a set of callees that are not followed.
func (c *Ctx) effectsExcluding(fn *ssa.Function, depth int, skip map[string]bool) effects {
	e := effects{map[fieldRef]bool{}, map[fieldRef]bool{}}
	seen := map[*ssa.Function]bool{}
	var visit func(f *ssa.Function, d int)
	visit = func(f *ssa.Function, d int) {
		if f == nil || seen[f] || len(f.Blocks) == 0 || skip[fnName(f)] {
			return
		}
		seen[f] = true
		for _, b := range f.Blocks {
			for _, in := range b.Instrs {
				switch x := in.(type) {
				case *ssa.FieldAddr:
					e.Reads[fieldRef{namedOf(x.X.Type()), fieldName(x.X.Type(), x.Field)}] = true
				case *ssa.Field:
					e.Reads[fieldRef{namedOf(x.X.Type()), fieldName(x.X.Type(), x.Field)}] = true
				}
				if cc := callCommon(in); cc != nil && d > 0 {
					if callee := cc.StaticCallee(); callee != nil && callee.Pkg != nil && strings.HasPrefix(callee.Pkg.Pkg.Path(), modPath) {
						visit(callee, d-1)
					}
				}
			}
		}
	}
	visit(fn, depth)
	return e
}

// addPartRules: a part enters the set only behind bounds, slot, proof and index-binding guards (shared by C04, C13, C18).
func addPartRules(c *Ctx) {
	// a part is acceptable up to and including the full part size (every part of a large block but the last is full)
	if fn := c.Fn("types", "Part", "ValidateBasic"); fn != nil {
		partSize := c.P.Const("types", "BlockPartSizeBytes")
		c.Guarded(fn, "return nil", SuccessReturn(0, ""), G("len(part.Bytes) <= BlockPartSizeBytes", Cmp(`^call:len\(part\.Bytes\)$`, "<=", `^const:`+partSize+`$`)))
	}
	// ---- AddPart ------------------------------------------------------------------------------------
	if fn := c.Fn("types", "PartSet", "AddPart"); fn != nil {
		c.Guarded(fn, "store ps.parts[part.Index] / count++", StoreTo(`^&ps\.(parts\[part\.Index\]|count)$`),
			G("part.Index < ps.total", Cmp(`^part\.Index$`, "<", `^ps\.total$`)),
			G("ps.parts[part.Index] == nil", IsNil(`^ps\.parts\[part\.Index\]$`)),
			G("part.Proof.Verify(ps.Hash(), part.Bytes) == nil", IsNil(`^call:\(\*lib/merkle\.SimpleProof\)\.Verify\(&part\.Proof, call:\(lib/common\.Hash\)\.Bytes\(call:\(\*types\.PartSet\)\.Hash\(ps\)\), part\.Bytes\)$`)),
			G("part.Proof.Index == part.Index (the slot is the index the proof verified)", Cmp(`^part\.Proof\.Index$`, "==", `^part\.Index$`)),
			G("part.Proof.Total == ps.total (the proof is for a tree of this many parts)", Cmp(`^part\.Proof\.Total$`, "==", `^ps\.total$`)))
		for _, in := range findInstrs(fn, StoreTo(`^&ps\.parts\[`)) {
			st := in.(*ssa.Store)
			c.Check("F", fnName(fn)+"/stores the verified part at its own index", pathOf(st.Addr) == "&ps.parts[part.Index]" && pathOf(st.Val) == "part", instrPos(in), 1, describeInstr(in))
		}
		for _, in := range findInstrs(fn, StoreTo(`^&ps\.count$`)) {
			c.Check("F", fnName(fn)+"/count grows by one", pathOf(in.(*ssa.Store).Val) == "(ps.count + const:1)", instrPos(in), 1, describeInstr(in))
		}
		// the slot test and the slot/count update are atomic (no check-then-act window for concurrent duplicates)
		c.CriticalSection(fn, `^&ps\.mtx`, "slot-empty test and slot/count update", Or(StoreTo(`^&ps\.(parts\[part\.Index\]|count)$`), func(in ssa.Instruction) bool {
			iff, ok := in.(*ssa.If)
			if !ok {
				return false
			}
			m, _ := matchCond(IsNil(`^ps\.parts\[part\.Index\]$`), iff.Cond)
			return m
		}))
		c.OnlyWrittenIn("types", "PartSet", "count", 1, `^\(\*types\.PartSet\)\.AddPart$`, `^types\.NewPartSetFromData$`, `^types\.NewPartSetFromHeader$`)
		c.OnlyWrittenIn("types", "PartSet", "parts", 1, `^\(\*types\.PartSet\)\.AddPart$`, `^types\.NewPartSetFromData$`, `^types\.NewPartSetFromHeader$`)
	}
}

// deriveShaCoverage: the insertion sequence of DeriveSha ({0} ∪ [a0..u] ∪ [b0..)) covers every list index.
func (c *Ctx) deriveShaCoverage() {
	fn := c.Fn("types", "", "DeriveSha")
	if fn == nil {
		return
	}
	key := fnName(fn) + "/every list index is inserted into the root"
	type loop struct {
		start   int64
		upper   int64 // inclusive constant upper bound, -1 = only bounded by Len
		usesLen bool
	}
	var loops []loop
	single := map[int64]bool{}
	for _, b := range fn.Blocks {
		for _, in := range b.Instrs {
			phi, ok := in.(*ssa.Phi)
			if !ok || len(phi.Edges) != 2 {
				continue
			}
			var start int64 = -1
			inc := false
			for _, e := range phi.Edges {
				if k, ok := constIntVal(e); ok {
					start = k
				} else if bo, ok := e.(*ssa.BinOp); ok && bo.Op.String() == "+" && bo.X == phi && isConstInt(bo.Y, 1) {
					inc = true
				}
			}
			if start < 0 || !inc {
				continue
			}
			l := loop{start: start, upper: -1}
			for _, ref := range *phi.Referrers() {
				bo, ok := ref.(*ssa.BinOp)
				if !ok || !isCmp(bo.Op) || bo.X != phi {
					continue
				}
				if k, ok := constIntVal(bo.Y); ok {
					switch bo.Op.String() {
					case "<=":
						l.upper = k
					case "<":
						l.upper = k - 1
					}
				} else if strings.Contains(pathOf(bo.Y), ".Len(list)") && bo.Op.String() == "<" {
					l.usesLen = true
				}
			}
			// the counter must be what is inserted
			used := false
			for _, ref := range *phi.Referrers() {
				if cl, ok := ref.(*ssa.Call); ok && strings.HasSuffix(calleeNameNoPath(&cl.Call), "encodeForDerive") {
					used = true
				}
			}
			if used && l.usesLen {
				loops = append(loops, l)
			}
		}
	}
	// the trie keeps each value until Hash is called, the encoder reuses one pooled buffer: every item is handed over
	// as its own copy, or item i is hashed with the bytes of item i+1
	if enc := c.Fn("types", "", "encodeForDerive"); enc != nil {
		n, ok := 0, true
		for _, in := range findInstrs(enc, AnyReturn()) {
			n++
			r := pathOf(in.(*ssa.Return).Results[0])
			ok = ok && re(`^call:(lib/common\.CopyBytes|bytes\.Clone)\(|^call:append\((nil|const:nil|\[\]byte\(nil\)|make:)`).MatchString(r)
		}
		c.Check("S", fnName(enc)+"/returns a copy of the pooled buffer's bytes", n >= 1 && ok, enc.Pos(), n, "")
	}
	for _, in := range findInstrs(fn, CallTo(`^types\.encodeForDerive$`, "")) {
		a := callCommon(in).Args
		if len(a) == 3 {
			if k, ok := constIntVal(a[1]); ok {
				single[k] = true
			}
		}
	}
	// coverage of [0, N) for any N: walk the integers from 0 until an unbounded loop covers the rest
	covered := func(i int64) (bool, bool) { // (covered, coveredForever)
		if single[i] {
			return true, false
		}
		for _, l := range loops {
			if i >= l.start && (l.upper < 0 || i <= l.upper) {
				return true, l.upper < 0
			}
		}
		return false, false
	}
	gap := int64(-1)
	done := false
	for i := int64(0); i < 100000 && !done; i++ {
		ok, forever := covered(i)
		if !ok {
			gap = i
			break
		}
		if forever {
			done = true
		}
	}
	c.Check("T", key, gap < 0 && done && len(loops) >= 1, fn.Pos(), len(loops)+len(single),
		fmt.Sprintf("DeriveSha inserts index sets %v and single indices %v; list index %d is never inserted, so the transaction root (Header.TxHash) does not commit to that transaction and a block with it replaced keeps its id", loops, single, gap))
}
