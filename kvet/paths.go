package main

// Access paths: a canonical textual form of an SSA value in terms of parameters, fields, call results
// and constants. Captured parameters that go/ssa spills to heap cells are looked through.

import (
	"fmt"
	"go/constant"
	"go/token"
	"go/types"
	"sort"
	"strings"

	"golang.org/x/tools/go/ssa"
)

func singleStore(a *ssa.Alloc) ssa.Value {
	var st ssa.Value
	n := 0
	if a.Referrers() == nil {
		return nil
	}
	for _, r := range *a.Referrers() {
		if s, ok := r.(*ssa.Store); ok && s.Addr == a {
			st = s.Val
			n++
		}
	}
	if n == 1 {
		return st
	}
	return nil
}

func fieldName(t types.Type, i int) string {
	if p, ok := t.Underlying().(*types.Pointer); ok {
		t = p.Elem()
	}
	if s, ok := t.Underlying().(*types.Struct); ok && i < s.NumFields() {
		return s.Field(i).Name()
	}
	return fmt.Sprint("#", i)
}

func typeStr(t types.Type) string {
	return short(types.TypeString(t, nil))
}

// calleeName is the resolved callee of a call: static function, interface method, builtin or dynamic value.
func calleeName(c *ssa.CallCommon) string {
	if c.IsInvoke() {
		return "iface:" + short(c.Method.FullName())
	}
	if f := c.StaticCallee(); f != nil {
		return short(f.String())
	}
	if b, ok := c.Value.(*ssa.Builtin); ok {
		return b.Name()
	}
	return "dyn:" + pathOf(c.Value)
}

type pathCtx struct {
	depth   int
	phis    map[*ssa.Phi]bool
	getters bool                 // print a call of a trivial accessor as the expression it returns (pathOfX)
	subst   map[ssa.Value]string // parameters of the accessor being expanded -> argument paths
}

// pathOfX is pathOf with calls of trivial accessors (one block, no effects, `return <expression over the parameters>`)
// replaced by the expression they return: `j.length()` prints as `call:len(j.entries)`. Used as a second spelling when a
// pattern written against a field access does not match code that reads the field through its getter.
func pathOfX(v ssa.Value) string {
	return normPath((&pathCtx{phis: map[*ssa.Phi]bool{}, getters: true}).path(v))
}

// trivialGetter: the single returned value of a function whose only block computes it without calls (other than len/cap),
// stores or allocations — also behind the usual nil-receiver guard (`if x == nil { return <constant> }`).
var getterCache = map[*ssa.Function]ssa.Value{}
var getterKnown = map[*ssa.Function]bool{}

func trivialGetter(f *ssa.Function) ssa.Value {
	if f == nil {
		return nil
	}
	if getterKnown[f] {
		return getterCache[f]
	}
	getterKnown[f] = true
	getterCache[f] = trivialGetter0(f)
	return getterCache[f]
}

func trivialGetter0(f *ssa.Function) ssa.Value {
	if len(f.Blocks) == 0 || f.Signature.Results().Len() != 1 || len(f.Params) == 0 {
		return nil
	}
	pureBlock := func(b *ssa.BasicBlock) (ssa.Value, bool) {
		var ret ssa.Value
		for _, in := range b.Instrs {
			switch x := in.(type) {
			case *ssa.FieldAddr, *ssa.Field, *ssa.UnOp, *ssa.BinOp, *ssa.IndexAddr, *ssa.Index, *ssa.Convert, *ssa.ChangeType, *ssa.DebugRef, *ssa.Slice, *ssa.Lookup:
			case *ssa.Call:
				if b, ok := x.Call.Value.(*ssa.Builtin); !ok || (b.Name() != "len" && b.Name() != "cap") {
					return nil, false
				}
			case *ssa.Return:
				ret = x.Results[0]
			case *ssa.If:
			default:
				return nil, false
			}
		}
		return ret, true
	}
	switch len(f.Blocks) {
	case 1:
		r, ok := pureBlock(f.Blocks[0])
		if !ok {
			return nil
		}
		return r
	case 3:
		// entry: if recv == nil goto A else B; A: return const; B: return expr
		e := f.Blocks[0]
		iff, ok := e.Instrs[len(e.Instrs)-1].(*ssa.If)
		if !ok || len(e.Instrs) != 2 {
			return nil
		}
		bo, ok := iff.Cond.(*ssa.BinOp)
		if !ok || (bo.Op != token.EQL && bo.Op != token.NEQ) || bo != e.Instrs[0] {
			return nil
		}
		isNilK := func(v ssa.Value) bool { k, ok := v.(*ssa.Const); return ok && k.Value == nil }
		if !((bo.X == ssa.Value(f.Params[0]) && isNilK(bo.Y)) || (bo.Y == ssa.Value(f.Params[0]) && isNilK(bo.X))) {
			return nil
		}
		nilB, valB := e.Succs[0], e.Succs[1]
		if bo.Op == token.NEQ {
			nilB, valB = valB, nilB
		}
		if r, ok := pureBlock(nilB); !ok || r == nil {
			return nil
		} else if _, isConst := r.(*ssa.Const); !isConst || len(nilB.Instrs) != 1 {
			return nil
		}
		r, ok := pureBlock(valB)
		if !ok {
			return nil
		}
		return r
	}
	return nil
}

// getterKeep: per function of the pinned tree, the trivial accessors it already called there (printed as calls, as the
// rules' patterns expect); any other call of a trivial accessor prints as the expression it returns, which is what the
// pinned code reads at that place if a field access was replaced by its getter.
var getterKeep = map[*ssa.Function]map[string]bool{}
var getterExpandAll = false

func pathOf(v ssa.Value) string {
	return normPath((&pathCtx{phis: map[*ssa.Phi]bool{}}).path(v))
}

func normPath(s string) string {
	for strings.Contains(s, "*&") {
		s = strings.ReplaceAll(s, "*&", "")
	}
	return s
}

func deref(s string) string {
	if strings.HasPrefix(s, "&") {
		return s[1:]
	}
	return s
}

func (c *pathCtx) path(v ssa.Value) string {
	c.depth++
	defer func() { c.depth-- }()
	if c.depth > 14 {
		return "…"
	}
	if s, ok := c.subst[v]; ok {
		return s
	}
	switch x := v.(type) {
	case *ssa.Parameter:
		return nameOf(x, x.Name())
	case *ssa.FreeVar:
		// a captured variable is a pointer to the outer cell; name it like the outer variable's address
		return "&" + nameOf(x, x.Name())
	case *ssa.Const:
		if x.Value == nil {
			return "nil"
		}
		return "const:" + x.Value.ExactString()
	case *ssa.Global:
		pk := ""
		if x.Pkg != nil {
			pk = short(x.Pkg.Pkg.Path()) + "."
		}
		return "&global:" + pk + x.Name()
	case *ssa.Function:
		return "func:" + short(x.String())
	case *ssa.Builtin:
		return "builtin:" + x.Name()
	case *ssa.Alloc:
		if s := singleStore(x); s != nil {
			if _, isStruct := deptr(x.Type()).Underlying().(*types.Struct); !isStruct || onlyWholeUses(x) {
				return "&(" + c.path(s) + ")"
			}
		}
		if x.Comment != "" && x.Comment != "complit" && !strings.HasPrefix(x.Comment, "new") {
			return "&" + nameOf(x, x.Comment)
		}
		return "&alloc:" + x.Comment + ":" + typeStr(deptr(x.Type()))
	case *ssa.UnOp:
		switch x.Op {
		case token.MUL:
			// a load from a multiply-assigned local cell: the nearest preceding store in the same block is the value
			if a, ok := x.X.(*ssa.Alloc); ok && singleStore(a) == nil && x.Block() != nil {
				var last ssa.Value
				for _, in := range x.Block().Instrs {
					if in == ssa.Instruction(x) {
						break
					}
					if st, ok := in.(*ssa.Store); ok && st.Addr == a {
						last = st.Val
					}
					// a call that receives the cell's address may overwrite it
					if cc := callCommon(in); cc != nil {
						for _, arg := range cc.Args {
							if arg == ssa.Value(a) {
								last = nil
							}
						}
					}
				}
				if last != nil {
					return c.path(last)
				}
			}
			in := c.path(x.X)
			if strings.HasPrefix(in, "&(") && strings.HasSuffix(in, ")") && balanced(in[2:len(in)-1]) {
				return in[2 : len(in)-1]
			}
			if strings.HasPrefix(in, "&") {
				return in[1:]
			}
			return "*" + in
		case token.ARROW:
			return "<-" + c.path(x.X)
		}
		return x.Op.String() + c.path(x.X)
	case *ssa.FieldAddr:
		base := deref(c.path(x.X))
		if strings.HasPrefix(base, "(") && strings.HasSuffix(base, ")") && balanced(base[1:len(base)-1]) {
			base = base[1 : len(base)-1]
		}
		return "&" + base + "." + fieldName(x.X.Type(), x.Field)
	case *ssa.Field:
		return c.path(x.X) + "." + fieldName(x.X.Type(), x.Field)
	case *ssa.Extract:
		return c.path(x.Tuple) + fmt.Sprintf("#%d", x.Index)
	case *ssa.Call:
		expand := c.getters
		if !expand && x.Parent() != nil {
			if f := x.Call.StaticCallee(); f != nil && trivialGetter(f) != nil {
				keep, frozenFn := getterKeep[x.Parent()]
				if p := x.Parent().Parent(); !frozenFn && p != nil {
					keep, frozenFn = getterKeep[p]
				}
				expand = frozenFn && !keep[f.String()]
			}
		}
		if expand {
			if f := x.Call.StaticCallee(); f != nil && len(f.Params) == len(x.Call.Args) {
				if r := trivialGetter(f); r != nil {
					sub := map[ssa.Value]string{}
					for i, p := range f.Params {
						sub[p] = c.path(x.Call.Args[i])
					}
					inner := &pathCtx{depth: c.depth, phis: c.phis, getters: c.getters, subst: sub}
					return inner.path(r)
				}
			}
		}
		return "call:" + c.callStr(&x.Call)
	case *ssa.ChangeType:
		return c.path(x.X)
	case *ssa.ChangeInterface:
		return c.path(x.X)
	case *ssa.Convert:
		return c.path(x.X)
	case *ssa.MakeInterface:
		return c.path(x.X)
	case *ssa.IndexAddr:
		return "&" + deref(c.path(x.X)) + "[" + c.path(x.Index) + "]"
	case *ssa.Index:
		return c.path(x.X) + "[" + c.path(x.Index) + "]"
	case *ssa.Lookup:
		return c.path(x.X) + "[" + c.path(x.Index) + "]"
	case *ssa.Slice:
		if a, ok := x.X.(*ssa.Alloc); ok && (a.Comment == "varargs" || a.Comment == "slicelit") && x.Low == nil && x.High == nil {
			// variadic argument list: render the elements stored into the backing array
			elems := map[int64]string{}
			max := int64(-1)
			for _, r := range *a.Referrers() {
				if ia, ok := r.(*ssa.IndexAddr); ok {
					if k, ok := ia.Index.(*ssa.Const); ok && k.Value != nil {
						if i, ok := constant.Int64Val(k.Value); ok {
							for _, r2 := range *ia.Referrers() {
								if st, ok := r2.(*ssa.Store); ok && st.Addr == ia {
									elems[i] = c.path(st.Val)
									if i > max {
										max = i
									}
								}
							}
						}
					}
				}
			}
			var parts []string
			for i := int64(0); i <= max; i++ {
				parts = append(parts, elems[i])
			}
			return a.Comment + "[" + strings.Join(parts, ", ") + "]"
		}
		s := deref(c.path(x.X)) + "["
		if x.Low != nil {
			s += c.path(x.Low)
		}
		s += ":"
		if x.High != nil {
			s += c.path(x.High)
		}
		return s + "]"
	case *ssa.BinOp:
		return "(" + c.path(x.X) + " " + x.Op.String() + " " + c.path(x.Y) + ")"
	case *ssa.Phi:
		if c.phis[x] {
			return "phi@" + x.Name()
		}
		c.phis[x] = true
		seen := map[string]bool{}
		var parts []string
		for _, e := range x.Edges {
			s := c.path(e)
			if !seen[s] {
				seen[s] = true
				parts = append(parts, s)
			}
		}
		delete(c.phis, x)
		sort.Strings(parts)
		return "phi(" + strings.Join(parts, "|") + ")"
	case *ssa.TypeAssert:
		return c.path(x.X) + ".(" + typeStr(x.AssertedType) + ")"
	case *ssa.MakeClosure:
		return "closure:" + short(x.Fn.String())
	case *ssa.MakeMap:
		return "make:" + typeStr(x.Type())
	case *ssa.MakeSlice:
		return "make:" + typeStr(x.Type()) + "(" + c.path(x.Len) + ")"
	case *ssa.MakeChan:
		return "make:" + typeStr(x.Type())
	case *ssa.Range:
		return "range(" + c.path(x.X) + ")"
	case *ssa.Next:
		return "next(" + c.path(x.Iter) + ")"
	case *ssa.SliceToArrayPointer:
		return c.path(x.X)
	case *ssa.Select:
		var st []string
		for _, s := range x.States {
			d := "recv:"
			if s.Dir == types.SendOnly {
				d = "send:"
			}
			st = append(st, d+c.path(s.Chan))
		}
		return "select[" + strings.Join(st, ", ") + "]"
	}
	return fmt.Sprintf("%T", v)
}

func (c *pathCtx) callStr(cc *ssa.CallCommon) string {
	var args []string
	if cc.IsInvoke() {
		args = append(args, c.path(cc.Value))
	}
	for _, a := range cc.Args {
		args = append(args, c.path(a))
	}
	return calleeName(cc) + "(" + strings.Join(args, ", ") + ")"
}

func balanced(s string) bool {
	d := 0
	for _, r := range s {
		switch r {
		case '(':
			d++
		case ')':
			d--
			if d < 0 {
				return false
			}
		}
	}
	return d == 0
}

func deptr(t types.Type) types.Type {
	if p, ok := t.Underlying().(*types.Pointer); ok {
		return p.Elem()
	}
	return t
}

// onlyWholeUses: the alloc is only stored-to once as a whole and loaded / passed, never field-addressed
// for writing (otherwise looking through would lose later field stores).
func onlyWholeUses(a *ssa.Alloc) bool {
	for _, r := range *a.Referrers() {
		if fa, ok := r.(*ssa.FieldAddr); ok {
			for _, rr := range *fa.Referrers() {
				if st, ok := rr.(*ssa.Store); ok && st.Addr == fa {
					return false
				}
			}
		}
	}
	return true
}

// callPath renders a call instruction (call, defer or go) like pathOf does for *ssa.Call values.
func callPath(cc *ssa.CallCommon) string {
	return normPath((&pathCtx{phis: map[*ssa.Phi]bool{}}).callStr(cc))
}

// argPaths returns the access paths of the call's arguments (receiver first for methods).
func argPaths(cc *ssa.CallCommon) []string {
	var out []string
	if cc.IsInvoke() {
		out = append(out, pathOf(cc.Value))
	}
	for _, a := range cc.Args {
		out = append(out, pathOf(a))
	}
	return out
}
