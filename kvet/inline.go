package main

import (
	"bytes"
	"fmt"
	"go/ast"
	"go/token"
	"go/types"
	"os"
	"sort"
	"strings"

	"golang.org/x/tools/go/packages"
)

// Helper inlining (source level, before SSA construction).
//
// The rules are written against the functions of the pinned tree. "Extract function" — moving a few lines of such a
// function into a new unexported helper and calling it — does not change behaviour but hides the moved checks, stores
// and calls from every within-function rule. A function that does not exist in the pinned tree (names.json lists every
// function that does) and is called in statement position from the same package is therefore expanded at its call
// sites before analysis, as source text:
//
//	x, err := h(a, b)        var __kvr1_0 T0; var __kvr1_1 error
//	                   ==>   __kvL1: switch { default: var __kva.. = a, b; var p, q = __kva..; <body of h, each
//	                                 `return e, f` replaced by `{ __kvr1_0, __kvr1_1 = e, f; break __kvL1 }`> }
//	                         x, err := __kvr1_0, __kvr1_1
//
// which is ordinary Go with the same meaning (arguments evaluated once, in order, before the body; results assigned
// where the helper returned). The rewritten files are handed to the loader as an overlay; if they do not type-check the
// pre-pass is abandoned and the tree is analysed as written. On the pinned tree there is no such function and nothing
// is rewritten. Not expanded: helpers with defer/recover/labels/goto, variadic or generic helpers, recursive helpers,
// calls that are not the whole right-hand side of a statement, promoted methods, helpers in another package.

type inlineReport struct {
	Helpers  []string         // helpers expanded (FullName)
	Sites    int              // call sites expanded
	Skipped  []string         // helper call sites left alone, with reason
	Renamed  []string         // functions taken to be renamed functions of the pinned tree (names.go)
	Fallback string           // non-empty when the rewritten tree did not load and was abandoned
	LineMap  map[string][]int // rewritten file -> original line of every line
}

type textEdit struct {
	start, end int // byte offsets in the file; start == end for an insertion
	text       string
	line       int // original line the inserted text belongs to
}

type helperInfo struct {
	obj  *types.Func
	decl *ast.FuncDecl
	pkg  *packages.Package
	file *ast.File
	src  []byte
	uses int // references seen in the module
	done int // references expanded
}

func fileBytes(name string, overlay map[string][]byte) []byte {
	if b, ok := overlay[name]; ok {
		return b
	}
	b, _ := os.ReadFile(name)
	return b
}

// helperOK: the body can be expanded as a block.
func helperOK(fd *ast.FuncDecl, obj *types.Func, info *types.Info) string {
	sig := obj.Type().(*types.Signature)
	if sig.Variadic() {
		return "variadic"
	}
	if sig.TypeParams() != nil || sig.RecvTypeParams() != nil {
		return "generic"
	}
	if fd.Body == nil {
		return "no body"
	}
	why := ""
	ast.Inspect(fd.Body, func(n ast.Node) bool {
		switch x := n.(type) {
		case *ast.FuncLit:
			return false
		case *ast.DeferStmt:
			why = "defer"
		case *ast.BranchStmt:
			if x.Tok == token.GOTO {
				why = "goto"
			}
		case *ast.CallExpr:
			if id, ok := x.Fun.(*ast.Ident); ok {
				if id.Name == "recover" {
					why = "recover"
				}
				if info.Uses[id] == obj {
					why = "recursive"
				}
			}
			if sel, ok := x.Fun.(*ast.SelectorExpr); ok && info.Uses[sel.Sel] == obj {
				why = "recursive"
			}
		}
		return why == ""
	})
	return why
}

// inlineNewHelpers computes the overlay that expands helpers absent from the frozen function list.
func inlineNewHelpers(pkgs []*packages.Package, frozen map[string]frozenFn, overlay map[string][]byte, round int) (map[string][]byte, *inlineReport) {
	rep := &inlineReport{LineMap: map[string][]int{}}
	helpers := map[*types.Func]*helperInfo{}
	var modPkgs []*packages.Package
	for _, pk := range pkgs {
		if !strings.HasPrefix(pk.PkgPath, modPath) || pk.TypesInfo == nil {
			continue
		}
		modPkgs = append(modPkgs, pk)
		for _, f := range pk.Syntax {
			for _, d := range f.Decls {
				fd, ok := d.(*ast.FuncDecl)
				if !ok || fd.Body == nil || fd.Name.Name == "init" || fd.Name.Name == "main" || fd.Name.Name == "_" {
					continue
				}
				obj, _ := pk.TypesInfo.Defs[fd.Name].(*types.Func)
				if obj == nil {
					continue
				}
				if _, known := frozen[obj.FullName()]; known {
					continue
				}
				if _, isRename := renamedFuncs[obj.FullName()]; isRename {
					continue
				}
				fname := pk.Fset.Position(f.Pos()).Filename
				if why := helperOK(fd, obj, pk.TypesInfo); why != "" {
					rep.Skipped = append(rep.Skipped, obj.FullName()+": not expanded ("+why+")")
					continue
				}
				helpers[obj] = &helperInfo{obj: obj, decl: fd, pkg: pk, file: f, src: fileBytes(fname, overlay)}
			}
		}
	}
	if len(helpers) == 0 {
		return nil, rep
	}
	for _, pk := range modPkgs {
		for _, o := range pk.TypesInfo.Uses {
			if f, ok := o.(*types.Func); ok {
				if h := helpers[f]; h != nil {
					h.uses++
				}
			}
		}
	}
	edits := map[string][]textEdit{}
	aliasText := map[string]string{}
	imports := map[string]map[string]string{} // file -> name -> path to add
	site := 0
	for _, pk := range modPkgs {
		for _, f := range pk.Syntax {
			fname := pk.Fset.Position(f.Pos()).Filename
			if strings.HasSuffix(fname, "_test.go") {
				continue
			}
			src := fileBytes(fname, overlay)
			off := func(p token.Pos) int { return pk.Fset.Position(p).Offset }
			lineOf := func(p token.Pos) int { return pk.Fset.Position(p).Line }
			// statement lists
			var lists [][]ast.Stmt
			ast.Inspect(f, func(n ast.Node) bool {
				switch x := n.(type) {
				case *ast.BlockStmt:
					lists = append(lists, x.List)
				case *ast.CaseClause:
					lists = append(lists, x.Body)
				case *ast.CommClause:
					lists = append(lists, x.Body)
				}
				return true
			})
			for _, list := range lists {
				for _, st := range list {
					var call *ast.CallExpr
					var form string
					var h *helperInfo
					var recvExpr ast.Expr
					for _, cand := range siteCands(st) {
						if hh, re := resolveHelper(cand.call, pk, helpers); hh != nil {
							if cand.form == "arg" && hh.obj.Type().(*types.Signature).Results().Len() != 1 {
								continue
							}
							call, form, h, recvExpr = cand.call, cand.form, hh, re
							break
						}
					}
					if h == nil {
						continue
					}
					if h.pkg != pk {
						rep.Skipped = append(rep.Skipped, h.obj.FullName()+": called from another package")
						continue
					}
					// the enclosing function must not be the helper itself (guarded by helperOK) — and identifiers of the
					// helper's body must mean the same thing at the call site
					if why := shadowed(h, pk, call.Pos()); why != "" {
						rep.Skipped = append(rep.Skipped, fmt.Sprintf("%s at %s:%d: %s", h.obj.Name(), rel("/repo", fname), lineOf(call.Pos()), why))
						continue
					}
					need, why := importsNeeded(h, pk, f)
					if why != "" {
						rep.Skipped = append(rep.Skipped, fmt.Sprintf("%s at %s:%d: %s", h.obj.Name(), rel("/repo", fname), lineOf(call.Pos()), why))
						continue
					}
					site++
					pro, temps, als := expandText(h, call, recvExpr, src, off, site+round*1000)
					aliasText[fname] += als
					for n, p := range need {
						if imports[fname] == nil {
							imports[fname] = map[string]string{}
						}
						imports[fname][n] = p
					}
					ln := lineOf(st.Pos())
					edits[fname] = append(edits[fname], textEdit{off(st.Pos()), off(st.Pos()), pro, ln})
					repl := strings.Join(temps, ", ")
					if form == "expr" {
						edits[fname] = append(edits[fname], textEdit{off(st.Pos()), off(st.End()), "{\n}", ln})
					} else {
						edits[fname] = append(edits[fname], textEdit{off(call.Pos()), off(call.End()), repl, ln})
					}
					h.done++
					rep.Sites++
				}
			}
		}
	}
	if rep.Sites == 0 {
		return nil, rep
	}
	// helpers whose every reference was expanded disappear (otherwise ownership rules would see a new caller)
	for _, h := range helpers {
		if h.done > 0 {
			rep.Helpers = append(rep.Helpers, h.obj.FullName())
		}
		if h.done > 0 && h.done == h.uses && !h.obj.Exported() {
			fname := h.pkg.Fset.Position(h.file.Pos()).Filename
			start := h.decl.Pos()
			if h.decl.Doc != nil {
				start = h.decl.Doc.Pos()
			}
			s, e := h.pkg.Fset.Position(start).Offset, h.pkg.Fset.Position(h.decl.End()).Offset
			// drop edits inside the removed declaration
			var keep []textEdit
			for _, ed := range edits[fname] {
				if ed.start >= s && ed.end <= e {
					continue
				}
				keep = append(keep, ed)
			}
			edits[fname] = append(keep, textEdit{s, e, "", h.pkg.Fset.Position(start).Line})
		}
	}
	sort.Strings(rep.Helpers)
	out := map[string][]byte{}
	for fname, es := range edits {
		src := fileBytes(fname, overlay)
		if imp := imports[fname]; len(imp) > 0 {
			var f *ast.File
			for _, pk := range modPkgs {
				for _, g := range pk.Syntax {
					if pk.Fset.Position(g.Pos()).Filename == fname {
						f = g
						var names []string
						for n := range imp {
							names = append(names, n)
						}
						sort.Strings(names)
						txt := ""
						for _, n := range names {
							txt += fmt.Sprintf("\nimport %s %q", n, imp[n])
						}
						o := pk.Fset.Position(f.Name.End()).Offset
						es = append(es, textEdit{o, o, txt + "\n", pk.Fset.Position(f.Name.End()).Line})
					}
				}
			}
		}
		if a := aliasText[fname]; a != "" {
			es = append(es, textEdit{len(src), len(src), "\n" + a, 0})
		}
		b, lm, ok := applyEdits(src, es)
		if !ok {
			rep.Fallback = "overlapping edits in " + fname
			return nil, rep
		}
		out[fname] = b
		rep.LineMap[fname] = lm
	}
	return out, rep
}

// siteOf: the statement evaluates exactly one candidate call, unconditionally and before anything else it evaluates.
type siteCand struct {
	call *ast.CallExpr
	form string
}

// siteCands: the direct form, and the first-evaluated argument of the direct form's call.
func siteCands(st ast.Stmt) []siteCand {
	var out []siteCand
	c, f := siteOf(st)
	if c != nil {
		out = append(out, siteCand{c, f})
		if f == "expr" || f == "assign" || f == "return" || f == "init" {
			if a := firstArgCall(c); a != nil {
				out = append(out, siteCand{a, "arg"})
			}
		}
	}
	return out
}

func pureExpr(e ast.Expr) bool {
	ok := true
	ast.Inspect(e, func(n ast.Node) bool {
		switch x := n.(type) {
		case *ast.CallExpr, *ast.FuncLit:
			ok = false
		case *ast.UnaryExpr:
			if x.Op == token.ARROW {
				ok = false
			}
		}
		return ok
	})
	return ok
}

// firstArgCall: outer is `f(h(x), …)` with f a plain name or selector chain and every earlier argument a literal, so that
// evaluating h(x) in front of the statement keeps the order of effects.
func firstArgCall(outer *ast.CallExpr) *ast.CallExpr {
	if outer == nil || !pureExpr(outer.Fun) || outer.Ellipsis.IsValid() {
		return nil
	}
	for _, a := range outer.Args {
		if c, ok := ast.Unparen(a).(*ast.CallExpr); ok {
			return c
		}
		if _, lit := ast.Unparen(a).(*ast.BasicLit); !lit {
			return nil
		}
	}
	return nil
}

func siteOf(st ast.Stmt) (*ast.CallExpr, string) {
	pure := func(e ast.Expr) bool {
		ok := true
		ast.Inspect(e, func(n ast.Node) bool {
			switch n.(type) {
			case *ast.CallExpr, *ast.FuncLit:
				ok = false
			case *ast.UnaryExpr:
				if n.(*ast.UnaryExpr).Op == token.ARROW {
					ok = false
				}
			}
			return ok
		})
		return ok
	}
	asCall := func(e ast.Expr) *ast.CallExpr {
		c, _ := ast.Unparen(e).(*ast.CallExpr)
		return c
	}
	fromSimple := func(s ast.Stmt) (*ast.CallExpr, string) {
		switch x := s.(type) {
		case *ast.ExprStmt:
			if c := asCall(x.X); c != nil {
				return c, "expr"
			}
		case *ast.AssignStmt:
			if len(x.Rhs) == 1 && (x.Tok == token.DEFINE || x.Tok == token.ASSIGN) {
				if c := asCall(x.Rhs[0]); c != nil {
					for _, l := range x.Lhs {
						if !pure(l) {
							return nil, ""
						}
					}
					return c, "assign"
				}
			}
		}
		return nil, ""
	}
	condCall := func(e ast.Expr) *ast.CallExpr {
		e = ast.Unparen(e)
		if u, ok := e.(*ast.UnaryExpr); ok && u.Op == token.NOT {
			e = ast.Unparen(u.X)
		}
		if b, ok := e.(*ast.BinaryExpr); ok && (b.Op == token.EQL || b.Op == token.NEQ || b.Op == token.LSS || b.Op == token.GTR || b.Op == token.LEQ || b.Op == token.GEQ) && pure(b.Y) {
			e = ast.Unparen(b.X)
		}
		return asCall(e)
	}
	switch x := st.(type) {
	case *ast.ExprStmt, *ast.AssignStmt:
		c, f := fromSimple(st)
		return c, f
	case *ast.ReturnStmt:
		if len(x.Results) == 1 {
			if c := asCall(x.Results[0]); c != nil {
				return c, "return"
			}
		}
	case *ast.IfStmt:
		if x.Init != nil {
			if c, _ := fromSimple(x.Init); c != nil {
				if _, isExpr := x.Init.(*ast.ExprStmt); !isExpr {
					return c, "init"
				}
			}
			return nil, ""
		}
		if c := condCall(x.Cond); c != nil {
			return c, "cond"
		}
	case *ast.SwitchStmt:
		if x.Init != nil {
			if c, _ := fromSimple(x.Init); c != nil {
				if _, isExpr := x.Init.(*ast.ExprStmt); !isExpr {
					return c, "init"
				}
			}
			return nil, ""
		}
		if x.Tag != nil {
			if c := asCall(x.Tag); c != nil {
				return c, "cond"
			}
		}
	}
	return nil, ""
}

// resolveHelper: the call's callee is one of the helpers; returns the receiver expression text adjustment ("" for functions).
func resolveHelper(call *ast.CallExpr, pk *packages.Package, helpers map[*types.Func]*helperInfo) (*helperInfo, ast.Expr) {
	for _, a := range call.Args {
		// a call with a multi-value argument f(g()) is not expanded
		if tv, ok := pk.TypesInfo.Types[a]; ok {
			if _, tuple := tv.Type.(*types.Tuple); tuple {
				return nil, nil
			}
		}
	}
	if call.Ellipsis.IsValid() {
		return nil, nil
	}
	switch fun := ast.Unparen(call.Fun).(type) {
	case *ast.Ident:
		if f, ok := pk.TypesInfo.Uses[fun].(*types.Func); ok {
			return helpers[f], nil
		}
	case *ast.SelectorExpr:
		if sel := pk.TypesInfo.Selections[fun]; sel != nil {
			if sel.Kind() != types.MethodVal || len(sel.Index()) != 1 {
				return nil, nil
			}
			if f, ok := sel.Obj().(*types.Func); ok && helpers[f] != nil {
				return helpers[f], fun.X
			}
			return nil, nil
		}
		if f, ok := pk.TypesInfo.Uses[fun.Sel].(*types.Func); ok {
			return helpers[f], nil
		}
	}
	return nil, nil
}

// shadowed: an identifier the helper's body resolves at package level (or to an import, or to the universe) resolves
// to something else at the call site.
func shadowed(h *helperInfo, pk *packages.Package, at token.Pos) string {
	inner := pk.Types.Scope().Innermost(at)
	if inner == nil {
		return "no scope at the call site"
	}
	why := ""
	check := func(id *ast.Ident) {
		o := h.pkg.TypesInfo.Uses[id]
		if o == nil {
			return
		}
		top := o.Parent() == h.pkg.Types.Scope() || o.Parent() == types.Universe
		_, isPkg := o.(*types.PkgName)
		if !top && !isPkg {
			return
		}
		if isPkg {
			return // handled by importsNeeded (file scope)
		}
		_, got := inner.LookupParent(id.Name, at)
		if got != o {
			why = "identifier " + id.Name + " of the helper means something else at the call site"
		}
	}
	ast.Inspect(h.decl.Body, func(n ast.Node) bool {
		if sel, ok := n.(*ast.SelectorExpr); ok {
			ast.Inspect(sel.X, func(m ast.Node) bool {
				if id, ok := m.(*ast.Ident); ok {
					check(id)
				}
				return true
			})
			return false
		}
		if id, ok := n.(*ast.Ident); ok {
			check(id)
		}
		return why == ""
	})
	if why != "" {
		return why
	}
	// package names used by the helper's body must not be shadowed by a local of the caller (the types of its signature
	// are written through file-level aliases and are not affected)
	ast.Inspect(h.decl.Body, func(n ast.Node) bool {
		if id, ok := n.(*ast.Ident); ok {
			if pn, ok := h.pkg.TypesInfo.Uses[id].(*types.PkgName); ok {
				if _, got := inner.LookupParent(id.Name, at); got != nil {
					if g, ok := got.(*types.PkgName); !ok || g.Imported() != pn.Imported() {
						if _, isPkgName := got.(*types.PkgName); !isPkgName {
							why = "package name " + id.Name + " is shadowed at the call site"
						}
					}
				}
			}
		}
		return why == ""
	})
	return why
}

// importsNeeded: imports of the helper's file that its text uses and the caller's file lacks.
func importsNeeded(h *helperInfo, pk *packages.Package, callerFile *ast.File) (map[string]string, string) {
	if callerFile == h.file {
		return nil, ""
	}
	have := map[string]string{}
	for _, is := range callerFile.Imports {
		path := strings.Trim(is.Path.Value, `"`)
		name := ""
		if is.Name != nil {
			name = is.Name.Name
		} else if ip := pk.Imports[path]; ip != nil {
			name = ip.Name
		}
		if name != "" {
			have[name] = path
		}
	}
	need := map[string]string{}
	why := ""
	ast.Inspect(h.decl, func(n ast.Node) bool {
		if id, ok := n.(*ast.Ident); ok {
			if pn, ok := h.pkg.TypesInfo.Uses[id].(*types.PkgName); ok {
				path := pn.Imported().Path()
				if p, ok := have[id.Name]; ok {
					if p != path {
						why = "import name " + id.Name + " means another package in the caller's file"
					}
				} else {
					need[id.Name] = path
				}
			}
		}
		return why == ""
	})
	return need, why
}

// expandText builds the text inserted before the statement and the names that stand for the call's results.
func expandText(h *helperInfo, call *ast.CallExpr, recvExpr ast.Expr, callerSrc []byte, off func(token.Pos) int, id int) (string, []string, string) {
	// types of the signature are named through aliases declared at file scope, where no local of the caller can shadow a
	// package name they mention
	var aliases bytes.Buffer
	nAlias := 0
	alias := func(typeText string) string {
		nAlias++
		name := fmt.Sprintf("__kvt%d_%d", id, nAlias)
		fmt.Fprintf(&aliases, "type %s = %s\n", name, typeText)
		return name
	}
	hf := h.pkg.Fset
	hoff := func(p token.Pos) int { return hf.Position(p).Offset }
	htext := func(n ast.Node) string { return string(h.src[hoff(n.Pos()):hoff(n.End())]) }
	ctext := func(n ast.Node) string { return string(callerSrc[off(n.Pos()):off(n.End())]) }
	var b bytes.Buffer
	// result temporaries
	var temps, rtypes, rnames []string
	if rs := h.decl.Type.Results; rs != nil {
		for _, f := range rs.List {
			n := len(f.Names)
			if n == 0 {
				n = 1
			}
			for i := 0; i < n; i++ {
				rtypes = append(rtypes, alias(htext(f.Type)))
				if len(f.Names) > 0 {
					rnames = append(rnames, f.Names[i].Name)
				} else {
					rnames = append(rnames, "")
				}
			}
		}
	}
	for i, t := range rtypes {
		temps = append(temps, fmt.Sprintf("__kvr%d_%d", id, i))
		fmt.Fprintf(&b, "var %s %s\n", temps[i], t)
	}
	// body with returns rewritten
	label := fmt.Sprintf("__kvL%d", id)
	type rng struct {
		s, e int
		txt  string
	}
	var rs []rng
	nRet := 0
	ast.Inspect(h.decl.Body, func(n ast.Node) bool {
		switch x := n.(type) {
		case *ast.FuncLit:
			return false
		case *ast.LabeledStmt:
			rs = append(rs, rng{hoff(x.Label.Pos()), hoff(x.Label.End()), fmt.Sprintf("%s_kv%d", x.Label.Name, id)})
		case *ast.BranchStmt:
			if x.Label != nil {
				rs = append(rs, rng{hoff(x.Label.Pos()), hoff(x.Label.End()), fmt.Sprintf("%s_kv%d", x.Label.Name, id)})
			}
		case *ast.ReturnStmt:
			txt := "{ "
			switch {
			case len(temps) == 0:
			case len(x.Results) == 0: // bare return with named results
				txt += strings.Join(temps, ", ") + " = " + strings.Join(rnames, ", ") + "; "
			default:
				var es []string
				for _, e := range x.Results {
					es = append(es, htext(e))
				}
				txt += strings.Join(temps, ", ") + " = " + strings.Join(es, ", ") + "; "
			}
			txt += "break " + label + " }"
			rs = append(rs, rng{hoff(x.Pos()), hoff(x.End()), txt})
			nRet++
		}
		return true
	})
	bs, be := hoff(h.decl.Body.Lbrace)+1, hoff(h.decl.Body.Rbrace)
	var body bytes.Buffer
	cur := bs
	sort.Slice(rs, func(i, j int) bool { return rs[i].s < rs[j].s })
	for _, r := range rs {
		body.Write(h.src[cur:r.s])
		body.WriteString(r.txt)
		cur = r.e
	}
	body.Write(h.src[cur:be])
	if nRet > 0 {
		fmt.Fprintf(&b, "%s:\n", label)
	}
	b.WriteString("switch {\ndefault:\n")
	// arguments, evaluated once and in order in the caller's scope, then bound to the helper's names
	type bind struct{ name, typ, tmp string }
	var binds []bind
	k := 0
	if h.decl.Recv != nil && len(h.decl.Recv.List) == 1 {
		rf := h.decl.Recv.List[0]
		name := "_"
		if len(rf.Names) == 1 {
			name = rf.Names[0].Name
		}
		expr := ctext(recvExpr)
		// implicit address / dereference of the receiver
		sig := h.obj.Type().(*types.Signature)
		_, wantPtr := sig.Recv().Type().(*types.Pointer)
		havePtr := false
		if tv, ok := findPkgInfo(h.pkg, recvExpr); ok {
			_, havePtr = tv.Underlying().(*types.Pointer)
		}
		if wantPtr && !havePtr {
			expr = "&(" + expr + ")"
		} else if !wantPtr && havePtr {
			expr = "*(" + expr + ")"
		}
		tmp := fmt.Sprintf("__kva%d_%d", id, k)
		k++
		rt := alias(htext(rf.Type))
		fmt.Fprintf(&b, "var %s %s = %s\n", tmp, rt, expr)
		binds = append(binds, bind{name, rt, tmp})
	}
	ai := 0
	for _, f := range h.decl.Type.Params.List {
		names := f.Names
		n := len(names)
		if n == 0 {
			n = 1
		}
		for i := 0; i < n; i++ {
			name := "_"
			if len(names) > 0 {
				name = names[i].Name
			}
			tmp := fmt.Sprintf("__kva%d_%d", id, k)
			k++
			pt := alias(htext(f.Type))
			fmt.Fprintf(&b, "var %s %s = %s\n", tmp, pt, ctext(call.Args[ai]))
			ai++
			binds = append(binds, bind{name, pt, tmp})
		}
	}
	for _, bd := range binds {
		if bd.name == "_" {
			fmt.Fprintf(&b, "_ = %s\n", bd.tmp)
			continue
		}
		fmt.Fprintf(&b, "var %s %s = %s\n_ = %s\n", bd.name, bd.typ, bd.tmp, bd.name)
	}
	for i, n := range rnames {
		if n != "" && n != "_" {
			fmt.Fprintf(&b, "var %s %s\n_ = %s\n", n, rtypes[i], n)
		}
	}
	b.Write(body.Bytes())
	b.WriteString("\n}\n")
	for _, t := range temps {
		fmt.Fprintf(&b, "_ = %s\n", t)
	}
	return b.String(), temps, aliases.String()
}

func findPkgInfo(pk *packages.Package, e ast.Expr) (types.Type, bool) {
	if tv, ok := pk.TypesInfo.Types[e]; ok && tv.Type != nil {
		return tv.Type, true
	}
	return nil, false
}

// applyEdits splices the edits into src; returns the new text and, per line of it, the original line.
func applyEdits(src []byte, es []textEdit) ([]byte, []int, bool) {
	sort.SliceStable(es, func(i, j int) bool {
		if es[i].start != es[j].start {
			return es[i].start < es[j].start
		}
		// insertion before a replacement that starts at the same offset
		return (es[i].end - es[i].start) < (es[j].end - es[j].start)
	})
	var out bytes.Buffer
	var lm []int
	line := 1
	emitOrig := func(b []byte) {
		for _, ch := range b {
			if ch == '\n' {
				lm = append(lm, line)
				line++
			}
		}
		out.Write(b)
	}
	emitNew := func(s string, at int) {
		for _, ch := range []byte(s) {
			if ch == '\n' {
				lm = append(lm, at)
			}
		}
		out.WriteString(s)
	}
	cur := 0
	for _, e := range es {
		if e.start < cur {
			return nil, nil, false
		}
		emitOrig(src[cur:e.start])
		emitNew(e.text, e.line)
		// skipped original text still advances the original line counter
		for _, ch := range src[e.start:e.end] {
			if ch == '\n' {
				line++
			}
		}
		cur = e.end
	}
	emitOrig(src[cur:])
	lm = append(lm, line)
	return out.Bytes(), lm, true
}
