package main

// C04 — liveness: structural necessary conditions (every wait has a wake-up; nothing blocks under the state lock).

import (
	"fmt"
	"sort"
	"strings"

	"golang.org/x/tools/go/ssa"
)

func init() {
	register("C04", []string{"consensus/state.go", "consensus/ticker.go", "consensus/types/round_state.go", "types/part_set.go", "types/validator_set.go", "kai/state/cstate/execution.go"}, runC04)
}

// invalidArgsEdges: the edges into the block that logs "Invalid args" and returns (the entry guard's refusal).
func invalidArgsEdges(fn *ssa.Function) map[edge]bool {
	rm := map[edge]bool{}
	for _, b := range fn.Blocks {
		for _, in := range b.Instrs {
			for _, op := range in.Operands(nil) {
				if k, ok := (*op).(*ssa.Const); ok && k.Value != nil && strings.Contains(k.Value.ExactString(), "Invalid args") {
					for _, p := range b.Preds {
						rm[edge{p, b}] = true
					}
				}
			}
		}
	}
	return rm
}

func runC04(c *Ctx) {
	c.Decided = []string{
		"every step constant given to scheduleTimeout is handled by handleTimeout, and each handled step moves the state machine on (new height -> new round, propose -> prevote, prevote wait -> precommit, precommit wait -> precommit and the next round)",
		"every step function that waits schedules its own timeout once its entry guard passed; a committed height schedules the next height; the stale-timeout filters drop only strictly older timeouts",
		"round skipping, rotation of the proposer by the number of skipped rounds, and fetching the committed block when only the commit is known are present with the right operands",
		"the vote rebuilt from a commit is the vote that was signed, for the block and for nil (group shared with C11, C02): the last commit of a height with a correct validator's nil precommit verifies at the next height; the ticker drops a schedule request only when it is stale in (height, round, step) order",
		"no blocking channel operation under the consensus state lock (sends are non-blocking or go to the ticker's buffered channel, tabled); every lock in the consensus packages is released on every path",
	}
	c.NotDec = []string{"termination within a bounded number of rounds under partial synchrony (schedule-quantified)", "that a fresh network commits its first block", "absence of livelock; timing", "progress when the node is configured to wait for transactions without an empty-block interval (advisory)"}
	c.Floors["S"] = 8
	c.Floors["O"] = 10

	// ---- timeouts: scheduled steps are handled ---------------------------------------------------------------------
	handled := map[string]bool{}
	if fn := c.Fn("consensus", "ConsensusState", "handleTimeout"); fn != nil {
		for _, in := range findInstrs(fn, IfOn(`^\(ti\.Step == const:\d+\)$`)) {
			p := pathOf(in.(*ssa.If).Cond)
			handled[p[len("(ti.Step == const:"):len(p)-1]] = true
		}
		nPanic := 0
		allInstrs(fn, false, func(_ *ssa.Function, in ssa.Instruction) {
			if _, ok := in.(*ssa.Panic); ok {
				nPanic++
			}
		})
		c.Check("S", fnName(fn)+"/an unknown step is a programming error (panic), not silently ignored", nPanic == 1, fn.Pos(), nPanic, "")
		for _, t := range []struct{ step, name, callee, args string }{
			{"1", "new height", "enterNewRound", "cs, ti.Height, const:1"},
			{"2", "new round (waiting for transactions)", "enterPropose", "cs, ti.Height, const:1"},
			{"3", "propose", "enterPrevote", "cs, ti.Height, ti.Round"},
			{"5", "prevote wait", "enterPrecommit", "cs, ti.Height, ti.Round"},
			{"7", "precommit wait", "enterPrecommit", "cs, ti.Height, ti.Round"},
			{"7", "precommit wait", "enterNewRound", "cs, ti.Height, (ti.Round + const:1)"},
		} {
			sel := func(in ssa.Instruction) bool {
				cc := callCommon(in)
				if cc == nil || calleeNameNoPath(cc) != "(*consensus.ConsensusState)."+t.callee || strings.Join(argPaths(cc), ", ") != t.args {
					return false
				}
				return hasCond(domConds(in), `^\(ti\.Step == const:`+t.step+`\)=T$`)
			}
			c.Check("S", fmt.Sprintf("%s/the %s timeout calls %s(%s)", fnName(fn), t.name, t.callee, t.args[4:]), len(findInstrs(fn, sel)) == 1, fn.Pos(), 1, "")
		}
		if s7 := findInstrs(fn, CallTo(`^`+csT+`\.enterNewRound$`, `\(ti\.Round \+ const:1\)\)$`)); len(s7) == 1 {
			c.Precedes(fn, "enterPrecommit", func(in ssa.Instruction) bool {
				cc := callCommon(in)
				return cc != nil && calleeNameNoPath(cc) == "(*consensus.ConsensusState).enterPrecommit" && hasCond(domConds(in), `^\(ti\.Step == const:7\)=T$`)
			}, "moving to the next round", func(in ssa.Instruction) bool { return in == s7[0] })
		}
		// stale-timeout filter: only strictly older timeouts are dropped
		lock := CallTo(`^\(\*(sync|github\.com/sasha-s/go-deadlock)\.RWMutex\)\.Lock$`, "")
		c.Guarded(fn, "act on the timeout", lock, G("same height", Cmp(`^ti\.Height$`, "==", `^rs\.Height$`)), G("round not older", Cmp(`^ti\.Round$`, ">=", `^rs\.Round$`)),
			G("in the same round, step not older", Cmp(`^ti\.Round$`, "!=", `^rs\.Round$`), Cmp(`^ti\.Step$`, ">=", `^rs\.Step$`)))
		// ...and a timeout for the current height/round/step is never dropped: the refusal lies behind exactly these tests
		var early []ssa.Instruction
		for _, in := range findInstrs(fn, AnyReturn()) {
			w := &Walker{P: c.P, Stop: lock}
			if _, found := w.Reach(fn, fn.Blocks[0], 0, func(x ssa.Instruction) bool { return x == in }); found {
				early = append(early, in)
			}
		}
		for _, in := range early {
			c.Guarded(fn, "ignore the timeout", func(x ssa.Instruction) bool { return x == in }, G("older height, older round, or older step of the same round", Cmp(`^ti\.Height$`, "!=", `^rs\.Height$`), Cmp(`^ti\.Round$`, "<", `^rs\.Round$`), Cmp(`^ti\.Step$`, "<", `^rs\.Step$`)))
		}
		c.Check("S", fnName(fn)+"/one refusal exit", len(early) == 1, fn.Pos(), len(early), "")
	}
	var scheduled []string
	for _, cs := range c.CallSites(`^` + csT + `\.scheduleTimeout$`) {
		a := argPaths(callCommon(cs.Instr))
		if len(a) != 5 {
			continue
		}
		step := strings.TrimPrefix(a[4], "const:")
		scheduled = append(scheduled, step)
		c.Check("S", fmt.Sprintf("%s/the timeout it schedules (step %s) is handled by handleTimeout", fnName(cs.Caller), step), handled[step], instrPos(cs.Instr), 1, "step "+a[4]+" has no case in handleTimeout: the wait would end in the default panic or never")
	}
	sort.Strings(scheduled)
	c.Check("S", "consensus.scheduleTimeout/call sites enumerated", len(scheduled) >= 5, c.fnPos("(*consensus.ConsensusState).scheduleTimeout"), len(scheduled), strings.Join(scheduled, ","))
	if fn := c.Fn("consensus", "ConsensusState", "scheduleTimeout"); fn != nil {
		n := 0
		for _, in := range findInstrs(fn, CallTo(`^iface:\(consensus\.TimeoutTicker\)\.ScheduleTimeout$`, "")) {
			_ = in
			n++
		}
		ok := 0
		for _, in := range findInstrs(fn, StoreTo(`complit:consensus\.timeoutInfo\.(Duration|Height|Round|Step)$`)) {
			a := pathOf(in.(*ssa.Store).Addr)
			want := map[string]string{"Duration": "duration", "Height": "height", "Round": "round", "Step": "step"}[a[strings.LastIndex(a, ".")+1:]]
			if pathOf(in.(*ssa.Store).Val) == want {
				ok++
			}
		}
		c.Check("F", fnName(fn)+"/hands duration, height, round and step to the ticker unchanged", n == 1 && ok == 4, fn.Pos(), ok, "")
	}
	// ---- every waiting step schedules its own timeout once its guard passed --------------------------------------------
	for _, t := range []struct{ name, step, dur string }{
		{"enterPropose", "3", "Propose"}, {"enterPrevoteWait", "5", "Prevote"}, {"enterPrecommitWait", "7", "Precommit"},
	} {
		fn := c.Fn("consensus", "ConsensusState", t.name)
		if fn == nil {
			continue
		}
		sch := func(in ssa.Instruction) bool {
			cc := callCommon(in)
			if cc == nil || calleeNameNoPath(cc) != "(*consensus.ConsensusState).scheduleTimeout" {
				return false
			}
			a := argPaths(cc)
			return len(a) == 5 && a[1] == "call:(*configs.ConsensusConfig)."+t.dur+"(cs.config, round)" && a[2] == "height" && a[3] == "round" && a[4] == "const:"+t.step
		}
		c.Check("O", fmt.Sprintf("%s/schedules its own timeout (step %s, duration config.%s(round)) for its own height and round", fnName(fn), t.step, t.dur), len(findInstrs(fn, sch)) == 1, fn.Pos(), 1, "")
		rm := invalidArgsEdges(fn)
		c.Check("O", fnName(fn)+"/entry guard found", len(rm) > 0, fn.Pos(), len(rm), "")
		w := &Walker{P: c.P, Removed: rm, Stop: sch}
		hit, found := w.Reach(fn, fn.Blocks[0], 0, AnyReturn())
		c.Check("O", fnName(fn)+"/once the entry guard passed, no return is reached without scheduling the timeout", !found, fn.Pos(), 1, func() string {
			if found {
				return "return at " + c.P.Pos(instrPos(hit.Instr)) + " reachable without scheduleTimeout: the node would wait in this step with no wake-up; path " + c.P.pathStr(hit.Path)
			}
			return ""
		}())
	}
	if fn := c.Fn("consensus", "ConsensusState", "enterNewRound"); fn != nil {
		rm := invalidArgsEdges(fn)
		goOn := Or(CallTo(`^`+csT+`\.enterPropose$`, `enterPropose\(cs, height, round\)$`), CallTo(`^`+csT+`\.scheduleTimeout$`, `, height, round, const:2\)$`))
		w := &Walker{P: c.P, Removed: rm, Stop: goOn}
		hit, found := w.Reach(fn, fn.Blocks[0], 0, AnyReturn())
		if found {
			// the one tolerated exit: waiting for transactions with no empty-block interval
			viaNoInterval := false
			for i := 0; i+1 < len(hit.Path); i++ {
				b := hit.Path[i]
				if iff, ok := b.Instrs[len(b.Instrs)-1].(*ssa.If); ok && strings.HasSuffix(pathOf(iff.Cond), "CreateEmptyBlocksInterval > const:0)") && hit.Path[i+1] == b.Succs[1] {
					viaNoInterval = true
				}
			}
			if viaNoInterval {
				o := c.add("O", fnName(fn)+"/a new round either enters propose or schedules the wake-up for it", Violated, instrPos(hit.Instr), 1,
					"with WaitForTxs() and CreateEmptyBlocksInterval == 0 the round neither proposes nor schedules a timeout, and this tree has no transactions-available notification: the node waits until a peer's +2/3 votes arrive (advisory: only under the non-default configuration is_create_empty_blocks=false with create_empty_blocks_interval=0)")
				o.Advisory = true
				// every other path must go on
				rm2 := map[edge]bool{}
				for k, v := range rm {
					rm2[k] = v
				}
				for _, b := range fn.Blocks {
					if iff, ok := b.Instrs[len(b.Instrs)-1].(*ssa.If); ok && strings.HasSuffix(pathOf(iff.Cond), "CreateEmptyBlocksInterval > const:0)") {
						rm2[edge{b, b.Succs[1]}] = true
					}
				}
				w2 := &Walker{P: c.P, Removed: rm2, Stop: goOn}
				hit2, found2 := w2.Reach(fn, fn.Blocks[0], 0, AnyReturn())
				c.Check("O", fnName(fn)+"/apart from the wait-for-transactions configuration, a new round enters propose or schedules the wake-up", !found2, fn.Pos(), 1, func() string {
					if found2 {
						return "return at " + c.P.Pos(instrPos(hit2.Instr)) + "; path " + c.P.pathStr(hit2.Path)
					}
					return ""
				}())
			} else {
				c.Bad("O", fnName(fn)+"/a new round either enters propose or schedules the wake-up for it", instrPos(hit.Instr), 1, "return reachable with neither enterPropose nor a timeout; path "+c.P.pathStr(hit.Path))
			}
		} else {
			c.OK("O", fnName(fn)+"/a new round either enters propose or schedules the wake-up for it", fn.Pos(), 1, "")
		}
		// round setup
		n := 0
		for _, in := range findInstrs(fn, CallTo(`^\(\*consensus/types\.HeightVoteSet\)\.SetRound$`, "")) {
			if a := argPaths(callCommon(in)); len(a) == 2 && a[1] == "(round + const:1)" {
				n++
			}
		}
		c.Check("F", fnName(fn)+"/vote tracking is extended to round+1 (needed to see +2/3 of a later round and skip to it)", n == 1, fn.Pos(), n, "")
	}
	c04More(c)
}
