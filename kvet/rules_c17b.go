package main

// C17 (continued) — the containers the pool is built from: the nonce-sorted map with its cached ordering, the per-account
// list with its cost/gas caps, the price heap and the hash lookup.

import (
	"fmt"
	"sort"
	"strings"

	"golang.org/x/tools/go/ssa"
)

// IfOn selects branch instructions whose condition matches.
func IfOn(condRe string) SinkSel {
	r := re(condRe)
	return func(in ssa.Instruction) bool {
		iff, ok := in.(*ssa.If)
		return ok && r.MatchString(pathOf(iff.Cond))
	}
}

func runC17Containers(c *Ctx) {
	const smT = "(*mainchain/tx_pool.txSortedMap)"
	// ---- txSortedMap: the cached ordering never outlives a change of the items ---------------------------------
	// Every path through a method that changes m.items also maintains m.cache (clears it, shifts it when present,
	// or calls reheap, which clears it). Otherwise Flatten()/Pending() keep offering the old contents.
	mutItems := func(in ssa.Instruction) bool {
		switch v := in.(type) {
		case *ssa.MapUpdate:
			return pathOf(v.Map) == "m.items"
		}
		if cc := callCommon(in); cc != nil && calleeNameNoPath(cc) == "delete" {
			a := argPaths(cc)
			return len(a) == 2 && a[0] == "m.items"
		}
		return false
	}
	nMut := 0
	var methods []*ssa.Function
	for _, name := range []string{"Put", "Forward", "Filter", "reheap", "filter", "Cap", "Remove", "Ready", "Get", "Len", "flatten", "Flatten", "LastElement"} {
		if fn := c.P.Func("mainchain/tx_pool", "txSortedMap", name); fn != nil && len(fn.Blocks) > 0 {
			methods = append(methods, fn)
			c.Funcs[fnName(fn)] = true
		}
	}
	// any other method of the type is picked up too
	if nt, _ := c.P.NamedStruct("mainchain/tx_pool", "txSortedMap"); nt != nil {
		seen := map[string]bool{}
		for _, m := range methods {
			seen[m.Name()] = true
		}
		for _, fn := range c.P.MethodsOf("mainchain/tx_pool", "txSortedMap") {
			if !seen[fn.Name()] && len(fn.Blocks) > 0 {
				methods = append(methods, fn)
			}
		}
	}
	for _, fn := range methods {
		muts := findInstrs(fn, mutItems)
		if len(muts) == 0 {
			continue
		}
		nMut++
		maint := Or(StoreTo(`^&m\.cache$`), CallTo(`^\(\*mainchain/tx_pool\.txSortedMap\)\.reheap$`, ""), IfOn(`^\(m\.cache != nil\)$`))
		if fn.Name() == "filter" {
			// filter clears the cache when anything was removed; removal and the test are the same event
			maint = Or(maint, IfOn(`^\(call:len\(phi\(call:append\(.*\) > const:0\)$`))
		}
		bad := ""
		for _, m := range muts {
			m := m
			wb := &Walker{P: c.P, Stop: maint}
			_, before := wb.Reach(fn, fn.Blocks[0], 0, func(in ssa.Instruction) bool { return in == m })
			wa := &Walker{P: c.P, Stop: maint}
			hit, after := wa.Reach(fn, m.Block(), instrIndex(m)+1, AnyReturn())
			if before && after {
				bad = fmt.Sprintf("%s at %s: a path reaches %s without touching m.cache before or after the change", describeInstr(m), c.P.Pos(instrPos(m)), c.P.Pos(instrPos(hit.Instr)))
			}
		}
		c.Check("O", fnName(fn)+"/every change of m.items maintains the cached ordering m.cache", bad == "", fn.Pos(), len(muts), bad+" — Flatten() would keep returning the ordering cached before the change (a replaced or removed transaction is still offered)")
	}
	c.Check("O", "mainchain/tx_pool.txSortedMap/methods that change the items", nMut >= 6, c.fnPos(smT+".Put"), nMut, fmt.Sprintf("%d mutating methods found, 6 confirmed by reading (Put, Forward, filter, Cap, Remove, Ready)", nMut))
	// the shifts keep exactly the surviving transactions
	if fn := c.Fn("mainchain/tx_pool", "txSortedMap", "Forward"); fn != nil {
		for _, in := range findInstrs(fn, StoreTo(`^&m\.cache$`)) {
			v := pathOf(in.(*ssa.Store).Val)
			ret := ""
			for _, r := range findInstrs(fn, AnyReturn()) {
				ret = pathOf(r.(*ssa.Return).Results[0])
			}
			c.Check("F", fnName(fn)+"/the cache drops as many leading entries as were removed", v == "m.cache[call:len("+ret+"):]", instrPos(in), 1, clip(v, 200))
		}
		c.Guarded(fn, "remove a transaction", mutItems, G("index not empty", Cmp(`^call:\(mainchain/tx_pool\.nonceHeap\)\.Len\(\*m\.index\)$`, ">", `^const:0$`)), G("lowest nonce below the threshold", Cmp(`^\*m\.index\[const:0\]$`, "<", `^threshold$`)))
	}
	if fn := c.Fn("mainchain/tx_pool", "txSortedMap", "Cap"); fn != nil {
		for _, in := range findInstrs(fn, StoreTo(`^&m\.cache$`)) {
			v := pathOf(in.(*ssa.Store).Val)
			ret := ""
			for _, r := range findInstrs(fn, AnyReturn()) {
				if p := pathOf(r.(*ssa.Return).Results[0]); p != "nil" {
					ret = p
				}
			}
			_ = ret
			c.Check("F", fnName(fn)+"/the cache drops as many trailing entries as were removed", re(`^m\.cache\[:\(call:len\(m\.cache\) - call:len\(phi\(call:append\(phi@t\d+, varargs\[m\.items\[`).MatchString(v), instrPos(in), 1, clip(v, 200))
		}
		c.Guarded(fn, "remove a transaction", mutItems, G("more items than the threshold", Cmp(`^phi\(`, ">", `^threshold$`)))
	}
	if fn := c.Fn("mainchain/tx_pool", "txSortedMap", "Put"); fn != nil {
		nonce := `call:\(\*types\.Transaction\)\.Nonce\(tx\)`
		c.AfterGuard(fn, G("no transaction at this nonce yet", IsNil(`^m\.items\[`+nonce+`\]$`)), "push the nonce on the index heap", CallTo(`^container/heap\.Push$`, `Push\(m\.index, `+nonce+`\)$`), "storing the transaction", mutItems)
		c.Guarded(fn, "push the nonce on the index heap", CallTo(`^container/heap\.Push$`, ""), G("no transaction at this nonce yet", IsNil(`^m\.items\[`+nonce+`\]$`)))
		c.OnEveryPath(fn, "store the transaction under its nonce", mutItems, "return", AnyReturn())
	}
	if fn := c.Fn("mainchain/tx_pool", "txSortedMap", "Remove"); fn != nil {
		c.OnEveryPath(fn, "delete the item", mutItems, "return true", ReturnWith(0, `^const:true$`))
		c.Guarded(fn, "heap.Remove", CallTo(`^container/heap\.Remove$`, ""), G("index entry is this nonce", Cmp(`^\*m\.index\[`, "==", `^nonce$`)))
	}
	if fn := c.Fn("mainchain/tx_pool", "txSortedMap", "Ready"); fn != nil {
		c.Guarded(fn, "hand out a transaction", mutItems,
			G("index not empty", Cmp(`^call:\(mainchain/tx_pool\.nonceHeap\)\.Len\(\*m\.index\)$`, ">", `^const:0$`), Cmp(`^call:\(mainchain/tx_pool\.nonceHeap\)\.Len\(\*m\.index\)$`, "!=", `^const:0$`)),
			G("lowest nonce not above start", Cmp(`^\*m\.index\[const:0\]$`, "<=", `^start$`)),
			G("lowest nonce is the next consecutive one", Cmp(`^\*m\.index\[const:0\]$`, "==", `^phi\(`)))
	}
	if fn := c.Fn("mainchain/tx_pool", "txSortedMap", "Flatten"); fn != nil {
		n := len(findInstrs(fn, CallTo(`^copy$`, "")))
		c.Check("W", fnName(fn)+"/hands out a copy of the cache, never the cache", n == 1 && len(findInstrs(fn, ReturnWith(0, `^make:types\.Transactions\(`))) == len(findInstrs(fn, AnyReturn())), fn.Pos(), n, "callers sort and truncate the returned slice")
	}
	if fn := c.Fn("mainchain/tx_pool", "txSortedMap", "flatten"); fn != nil {
		c.Guarded(fn, "rebuild the cache", CallTo(`^sort\.Sort$`, ""), G("no cached ordering", IsNil(`^m\.cache$`)))
		n := 0
		for _, in := range findInstrs(fn, CallTo(`^sort\.Sort$`, "")) {
			if mi, ok := callCommon(in).Args[0].(*ssa.MakeInterface); ok && strings.HasSuffix(mi.X.Type().String(), "types.TxByNonce") {
				n++
			}
		}
		c.Check("F", fnName(fn)+"/the cache is sorted by nonce", n == 1, fn.Pos(), n, "")
	}

	// ---- txList ---------------------------------------------------------------------------------------------
	if fn := c.Fn("mainchain/tx_pool", "txList", "Add"); fn != nil {
		costT := `^\(call:\(\*math/big\.Int\)\.Cmp\(l\.costcap, call:\(\*types\.Transaction\)\.Cost\(tx\)\) < const:0\)$`
		gasT := `^\(l\.gascap < call:\(\*types\.Transaction\)\.Gas\(tx\)\)$`
		c.OnEveryPath(fn, "compare the cost cap with the new transaction's cost", IfOn(costT), "return inserted = true", ReturnWith(0, `^const:true$`))
		c.OnEveryPath(fn, "compare the gas cap with the new transaction's gas", IfOn(gasT), "return inserted = true", ReturnWith(0, `^const:true$`))
		c.Guarded(fn, "raise the cost cap", StoreTo(`^&l\.costcap$`), G("cap below the new cost", Cmp(`^call:\(\*math/big\.Int\)\.Cmp\(l\.costcap, call:\(\*types\.Transaction\)\.Cost\(tx\)\)$`, "<", `^const:0$`)))
		c.Guarded(fn, "raise the gas cap", StoreTo(`^&l\.gascap$`), G("cap below the new gas", Cmp(`^l\.gascap$`, "<", `^call:\(\*types\.Transaction\)\.Gas\(tx\)$`)))
		for _, in := range findInstrs(fn, StoreTo(`^&l\.(costcap|gascap)$`)) {
			st := in.(*ssa.Store)
			want := map[string]string{"&l.costcap": "call:(*types.Transaction).Cost(tx)", "&l.gascap": "call:(*types.Transaction).Gas(tx)"}[pathOf(st.Addr)]
			c.Check("F", fnName(fn)+"/"+pathOf(st.Addr)[3:]+" becomes the new transaction's value", pathOf(st.Val) == want, instrPos(in), 1, describeInstr(in))
		}
	}
	if fn := c.Fn("mainchain/tx_pool", "txList", "Filter"); fn != nil {
		flt := CallTo(`^\(\*mainchain/tx_pool\.txSortedMap\)\.Filter$`, "")
		// the short cut is taken only when BOTH caps are within the limits
		c.Guarded(fn, "return without filtering", func(in ssa.Instruction) bool {
			r, ok := in.(*ssa.Return)
			if !ok || len(r.Results) != 2 || pathOf(r.Results[0]) != "nil" {
				return false
			}
			// the return that is not preceded by the filter call
			w := &Walker{P: c.P, Stop: flt}
			_, direct := w.Reach(fn, fn.Blocks[0], 0, func(x ssa.Instruction) bool { return x == in })
			return direct
		}, G("cost cap within the balance", Cmp(`^call:\(\*math/big\.Int\)\.Cmp\(l\.costcap, costLimit\)$`, "<=", `^const:0$`)), G("gas cap within the gas limit", Cmp(`^l\.gascap$`, "<=", `^gasLimit$`)))
		c.OnEveryPath(fn, "filter the items", flt, "return removed", func(in ssa.Instruction) bool {
			r, ok := in.(*ssa.Return)
			return ok && len(r.Results) == 2 && pathOf(r.Results[0]) != "nil"
		})
		for _, in := range findInstrs(fn, StoreTo(`^&l\.(costcap|gascap)$`)) {
			st := in.(*ssa.Store)
			want := map[string]string{"&l.costcap": `^call:\(\*math/big\.Int\)\.Set\(alloc:new:math/big\.Int|call:math/big\.NewInt\(.*\), costLimit\)$|^call:\(\*math/big\.Int\)\.Set\(.*, costLimit\)$`, "&l.gascap": `^gasLimit$`}[pathOf(st.Addr)]
			c.Check("F", fnName(fn)+"/"+pathOf(st.Addr)[3:]+" is lowered to the limit", re(want).MatchString(pathOf(st.Val)), instrPos(in), 1, describeInstr(in))
		}
		// the predicate removes what exceeds either limit
		for _, an := range fn.AnonFuncs {
			if an.Name() != "Filter$1" {
				continue
			}
			s := ""
			allInstrs(an, false, func(_ *ssa.Function, in ssa.Instruction) {
				switch v := in.(type) {
				case *ssa.If:
					s += pathOf(v.Cond) + ";"
				case *ssa.Return:
					s += pathOf(v.Results[0]) + ";"
				}
			})
			// both comparisons are present, however they are written (mirrored operands, Cmp with exchanged operands)
			gasOver, costOver := false, false
			allInstrs(an, false, func(_ *ssa.Function, in ssa.Instruction) {
				if b, isBin := in.(*ssa.BinOp); isBin {
					if m, pt := matchCond(Cmp(`^call:\(\*types\.Transaction\)\.Gas\(tx\)$`, ">", `^gasLimit$`), b); m && pt {
						gasOver = true
					}
					if m, pt := matchCond(Cmp(`^call:\(\*math/big\.Int\)\.Cmp\(call:\(\*types\.Transaction\)\.Cost\(tx\), costLimit\)$`, ">", `^const:0$`), b); m && pt {
						costOver = true
					}
				}
			})
			ok := gasOver && costOver
			c.Check("F", fnName(fn)+"/removes transactions whose gas exceeds the gas limit or whose cost exceeds the balance", ok, an.Pos(), 1, clip(s, 300))
		}
		c.Guarded(fn, "invalidate later nonces", CallTo(`^\(\*mainchain/tx_pool\.txSortedMap\)\.filter$`, ""), G("strict (pending) list", True(`^l\.strict$`)))
		c.FollowedBy(fn, "txs.filter (no reheap)", CallTo(`^\(\*mainchain/tx_pool\.txSortedMap\)\.filter$`, ""), "txs.reheap()", CallTo(`^\(\*mainchain/tx_pool\.txSortedMap\)\.reheap$`, ""), "return", AnyReturn())
		for _, an := range fn.AnonFuncs {
			if an.Name() != "Filter$2" {
				continue
			}
			s := ""
			allInstrs(an, false, func(_ *ssa.Function, in ssa.Instruction) {
				if r, ok := in.(*ssa.Return); ok {
					s += pathOf(r.Results[0])
				}
			})
			c.Check("F", fnName(fn)+"/strict mode invalidates every nonce above the lowest removed one", re(`^\(call:\(\*types\.Transaction\)\.Nonce\(tx\) > (\*)?(free:)?lowest\)$`).MatchString(s), an.Pos(), 1, s)
		}
	}
	if fn := c.Fn("mainchain/tx_pool", "txList", "Remove"); fn != nil {
		c.Guarded(fn, "report removal without invalidating later nonces", func(in ssa.Instruction) bool {
			r, ok := in.(*ssa.Return)
			return ok && len(r.Results) == 2 && pathOf(r.Results[0]) == "const:true" && pathOf(r.Results[1]) == "nil"
		}, G("non-strict (queue) list", False(`^l\.strict$`)))
		for _, an := range fn.AnonFuncs {
			s := ""
			allInstrs(an, false, func(_ *ssa.Function, in ssa.Instruction) {
				if r, ok := in.(*ssa.Return); ok {
					s += pathOf(r.Results[0])
				}
			})
			c.Check("F", fnName(fn)+"/strict mode invalidates every nonce above the removed one", re(`^\(call:\(\*types\.Transaction\)\.Nonce\(tx\) > (\*)?(free:)?nonce\)$`).MatchString(s), an.Pos(), 1, s)
		}
	}

	// ---- txPricedList: the three heap consumers agree on what a stale entry is ---------------------------------
	lookups := map[string][]string{}
	for _, name := range []string{"Cap", "Underpriced", "Discard"} {
		fn := c.Fn("mainchain/tx_pool", "txPricedList", name)
		if fn == nil {
			continue
		}
		allInstrs(fn, false, func(_ *ssa.Function, in ssa.Instruction) {
			if cc := callCommon(in); cc != nil && strings.HasPrefix(calleeNameNoPath(cc), "(*mainchain/tx_pool.txLookup).") {
				lookups[name] = append(lookups[name], strings.TrimPrefix(calleeNameNoPath(cc), "(*mainchain/tx_pool.txLookup)."))
			}
		})
		l := lookups[name]
		c.Check("S", fnName(fn)+"/an entry is stale when it is no longer a REMOTE transaction (all.GetRemote)", len(l) == 1 && l[0] == "GetRemote", fn.Pos(), len(l),
			"lookups used: "+strings.Join(l, ",")+" — the heap tracks remote transactions only; one that migrated to the locals must be dropped as stale, not evicted")
		stale := G("entry is stale", IsNil(`^call:\(\*mainchain/tx_pool\.txLookup\)\.GetRemote\(l\.all, `))
		dec := Or(StoreTo(`^&l\.stales$`), CallTo(`^sync/atomic\.AddInt64$`, `&l\.stales, const:-1\)$`))
		c.Guarded(fn, "decrement the stale counter", dec, stale)
		nd := len(findInstrs(fn, dec))
		c.Check("O", fnName(fn)+"/one stale-counter decrement per stale entry popped", nd == 1, fn.Pos(), nd, "")
		if name != "Underpriced" {
			c.Guarded(fn, "select a transaction for eviction (append to drop)", func(in ssa.Instruction) bool {
				cc := callCommon(in)
				return cc != nil && calleeNameNoPath(cc) == "append"
			}, G("entry is live", NotNil(`^call:\(\*mainchain/tx_pool\.txLookup\)\.GetRemote\(l\.all, `)))
		}
	}
	if fn := c.Fn("mainchain/tx_pool", "txPricedList", "Cap"); fn != nil {
		c.Guarded(fn, "select a transaction for eviction (append to drop)", func(in ssa.Instruction) bool {
			cc := callCommon(in)
			return cc != nil && calleeNameNoPath(cc) == "append"
		}, G("price below the threshold", Cmp(`^call:\(\*types\.Transaction\)\.GasPriceIntCmp\(.*, threshold\)$`, "<", `^const:0$`)))
	}
	if fn := c.Fn("mainchain/tx_pool", "txPricedList", "Put"); fn != nil {
		c.Guarded(fn, "track in the remote heap", CallTo(`^container/heap\.Push$`, ""), G("transaction is not local", False(`^local$`)))
	}
	if fn := c.Fn("mainchain/tx_pool", "txPricedList", "Discard"); fn != nil {
		// a failed, unforced discard puts everything back
		c.Guarded(fn, "report failure", ReturnWith(1, `^const:false$`), G("still short of slots", Cmp(`^phi\(`, ">", `^const:0$`)), G("not forced", False(`^force$`)))
		c.OnEveryPath(fn, "push the collected transactions back", IfOn(`^\(\(phi\(.*\) \+ const:1\) < call:len\(phi\(call:append\(`), "report failure", ReturnWith(1, `^const:false$`))
	}

	// ---- txLookup ---------------------------------------------------------------------------------------------
	if fn := c.Fn("mainchain/tx_pool", "txLookup", "Add"); fn != nil {
		c.Guarded(fn, "store in locals", func(in ssa.Instruction) bool { m, ok := in.(*ssa.MapUpdate); return ok && pathOf(m.Map) == "t.locals" }, G("local", True(`^local$`)))
		c.Guarded(fn, "store in remotes", func(in ssa.Instruction) bool { m, ok := in.(*ssa.MapUpdate); return ok && pathOf(m.Map) == "t.remotes" }, G("remote", False(`^local$`)))
		c.OnEveryPath(fn, "store the transaction", func(in ssa.Instruction) bool { _, ok := in.(*ssa.MapUpdate); return ok }, "return", AnyReturn())
		for _, in := range findInstrs(fn, func(in ssa.Instruction) bool { _, ok := in.(*ssa.MapUpdate); return ok }) {
			m := in.(*ssa.MapUpdate)
			c.Check("F", fnName(fn)+"/"+pathOf(m.Map)+" is keyed by the transaction hash", pathOf(m.Key) == "call:(*types.Transaction).Hash(tx)" && pathOf(m.Value) == "tx", instrPos(in), 1, describeInstr(in))
		}
	}
	slotsDelta := map[string]string{}
	for _, name := range []string{"Add", "Remove"} {
		if fn := c.P.Func("mainchain/tx_pool", "txLookup", name); fn != nil {
			for _, in := range findInstrs(fn, StoreTo(`^&t\.slots$`)) {
				slotsDelta[name] = pathOf(in.(*ssa.Store).Val)
			}
		}
	}
	c.Check("S", "mainchain/tx_pool.txLookup/Add and Remove account slots with the same unit (numSlots of the transaction)",
		slotsDelta["Add"] == "(t.slots + call:mainchain/tx_pool.numSlots(tx))" && re(`^\(t\.slots - call:mainchain/tx_pool\.numSlots\(phi\(.*t\.locals\[hash\].*t\.remotes\[hash\].*\)\)\)$`).MatchString(slotsDelta["Remove"]),
		c.fnPos("(*mainchain/tx_pool.txLookup).Add"), 2, "Add: "+slotsDelta["Add"]+"  Remove: "+clip(slotsDelta["Remove"], 200))
	if fn := c.Fn("mainchain/tx_pool", "txLookup", "Remove"); fn != nil {
		del := func(m string) SinkSel {
			return func(in ssa.Instruction) bool {
				cc := callCommon(in)
				if cc == nil || calleeNameNoPath(cc) != "delete" {
					return false
				}
				a := argPaths(cc)
				return len(a) == 2 && a[0] == m && a[1] == "hash"
			}
		}
		for _, m := range []string{"t.locals", "t.remotes"} {
			n := len(findInstrs(fn, del(m)))
			c.Check("O", fnName(fn)+"/deletes the hash from "+m, n == 1, fn.Pos(), n, "")
			c.FollowedBy(fn, "slots decremented", StoreTo(`^&t\.slots$`), "delete from "+m, del(m), "return", AnyReturn())
		}
	}
	if fn := c.Fn("mainchain/tx_pool", "txLookup", "Get"); fn != nil {
		s := ""
		allInstrs(fn, false, func(_ *ssa.Function, in ssa.Instruction) {
			if l, ok := in.(*ssa.Lookup); ok {
				s += pathOf(l.X) + ";"
			}
		})
		c.Check("F", fnName(fn)+"/consults locals and remotes", strings.Contains(s, "t.locals") && strings.Contains(s, "t.remotes"), fn.Pos(), 2, s)
	}
	for name, m := range map[string]string{"GetLocal": "t.locals", "GetRemote": "t.remotes"} {
		if fn := c.Fn("mainchain/tx_pool", "txLookup", name); fn != nil {
			var maps []string
			allInstrs(fn, false, func(_ *ssa.Function, in ssa.Instruction) {
				if l, ok := in.(*ssa.Lookup); ok {
					maps = append(maps, pathOf(l.X))
				}
			})
			sort.Strings(maps)
			c.Check("F", fnName(fn)+"/consults only "+m, len(maps) == 1 && maps[0] == m, fn.Pos(), len(maps), strings.Join(maps, ","))
		}
	}
	if fn := c.Fn("mainchain/tx_pool", "txLookup", "RemoteToLocals"); fn != nil {
		mv := func(in ssa.Instruction) bool {
			if m, ok := in.(*ssa.MapUpdate); ok {
				return pathOf(m.Map) == "t.locals"
			}
			return false
		}
		rm := func(in ssa.Instruction) bool {
			cc := callCommon(in)
			if cc == nil || calleeNameNoPath(cc) != "delete" {
				return false
			}
			a := argPaths(cc)
			return len(a) == 2 && a[0] == "t.remotes"
		}
		c.Guarded(fn, "migrate a transaction", Or(mv, rm), G("sender is a local account", True(`^call:\(\*mainchain/tx_pool\.accountSet\)\.containsTx\(locals, `)))
		c.FollowedBy(fn, "added to locals", mv, "deleted from remotes", rm, "next iteration or return", Or(AnyReturn(), IfOn(`^next\(range\(t\.remotes\)\)#0$`)))
	}
	c.GuardedBy("mainchain/tx_pool", "txLookup", "lock", []string{"locals", "remotes", "slots"}, nil, map[string]string{})
}
