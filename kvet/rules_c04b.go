package main

// C04 (continued) — round skipping, rotation, fetching the committed block, next height, ticker, blocking operations.

import (
	"fmt"
	"go/types"
	"sort"
	"strings"

	"golang.org/x/tools/go/ssa"
)

func c04More(c *Ctx) {
	// ---- round skipping and vote-driven transitions ---------------------------------------------------------------------
	if fn := c.Fn("consensus", "ConsensusState", "addVote"); fn != nil {
		h := `cs\.RoundState\.Height`
		call := func(name, args string) SinkSel {
			return func(in ssa.Instruction) bool {
				cc := callCommon(in)
				return cc != nil && calleeNameNoPath(cc) == "(*consensus.ConsensusState)."+name && re(`^cs, `+h+`, `+args+`$`).MatchString(strings.Join(argPaths(cc), ", "))
			}
		}
		pv := `call:\(\*consensus/types\.HeightVoteSet\)\.Prevotes\(cs\.RoundState\.Votes, vote\.Round\)`
		pc := `call:\(\*consensus/types\.HeightVoteSet\)\.Precommits\(cs\.RoundState\.Votes, vote\.Round\)`
		any := func(set string) string { return `^call:\(\*types\.VoteSet\)\.HasTwoThirdsAny\(` + set + `\)$` }
		maj := func(set string) string { return `^call:\(\*types\.VoteSet\)\.TwoThirdsMajority\(` + set + `\)#1$` }
		skip := findInstrs(fn, call("enterNewRound", `vote\.Round`))
		c.Check("S", fnName(fn)+"/three round-skip sites (prevotes any, precommit majority, precommits any)", len(skip) == 3, fn.Pos(), len(skip), "")
		// the prevote skip
		found := map[string]bool{}
		for _, in := range skip {
			dc := domConds(in)
			switch {
			case hasCond(dc, `^phi\(`+any(pv)[1:len(any(pv))-1]+`\|const:false\)=T$`):
				// `cs.Round < vote.Round && prevotes.HasTwoThirdsAny()`: the second operand is evaluated under the first
				for _, b := range fn.Blocks {
					iff, ok := b.Instrs[len(b.Instrs)-1].(*ssa.If)
					if !ok || !re(`^phi\(`+any(pv)[1:len(any(pv))-1]+`\|const:false\)$`).MatchString(pathOf(iff.Cond)) {
						continue
					}
					good := true
					for _, pcase := range phiCases(iff.Cond) {
						if pathOf(pcase.Val) == "const:false" {
							good = good && hasCond(pcase.Conds, `^\(cs\.RoundState\.Round < vote\.Round\)=F$`)
						} else {
							good = good && hasCond(pcase.Conds, `^\(cs\.RoundState\.Round < vote\.Round\)=T$`)
						}
					}
					if good {
						found["prevotes"] = true
					}
				}
			case hasCond(dc, maj(pc)[:len(maj(pc))-1]+`=T$`):
				found["majority"] = true
			case hasCond(dc, `^\(cs\.RoundState\.Round <= vote\.Round\)=T$`) && hasCond(dc, any(pc)[:len(any(pc))-1]+`=T$`):
				found["precommits"] = true
			}
		}
		for _, k := range []string{"prevotes", "majority", "precommits"} {
			c.Check("S", fnName(fn)+"/skips to the vote's round on +2/3 "+map[string]string{"prevotes": "prevotes of a later round", "majority": "precommit majority of any round", "precommits": "precommits (any) of this or a later round"}[k], found[k], fn.Pos(), 1, "without it a node that fell behind never joins the round the others are in")
		}
		// what follows +2/3
		c.Guarded(fn, "enter precommit on a polka", call("enterPrecommit", `vote\.Round`), G("+2/3 prevotes or precommits for one block id", True(maj(pv)), True(maj(pc))))
		c.Guarded(fn, "start the prevote timeout", call("enterPrevoteWait", `vote\.Round`), G("+2/3 prevotes of any kind in the current round", True(any(pv))), G("current round", Cmp(`^cs\.RoundState\.Round$`, "==", `^vote\.Round$`)))
		c.Guarded(fn, "enter commit", call("enterCommit", `vote\.Round`), G("+2/3 precommits for one block id", True(maj(pc))), G("the id is a block, not nil", False(`^call:\(\*lib/common\.Hash\)\.IsZero\(&call:\(\*types\.VoteSet\)\.TwoThirdsMajority\(`+pc+`\)#0\.Hash\)$`)))
		pw := findInstrs(fn, call("enterPrecommitWait", `vote\.Round`))
		c.Check("S", fnName(fn)+"/the precommit timeout is started on +2/3 nil and on +2/3 any", len(pw) == 2, fn.Pos(), len(pw), "")
		for _, in := range findInstrs(fn, call("enterPrevote", `cs\.RoundState\.Round`)) {
			c.Check("G", fnName(fn)+"/a proposal completed by its POL prevotes leads to prevote", hasCond(domConds(in), `isProposalComplete\(cs\)=T$`), instrPos(in), 1, "")
		}
	}
	// ---- rotation ------------------------------------------------------------------------------------------------------
	if fn := c.Fn("consensus", "ConsensusState", "enterNewRound"); fn != nil {
		n := 0
		for _, in := range findInstrs(fn, CallTo(`^\(\*types\.ValidatorSet\)\.IncrementProposerPriority$`, "")) {
			a := argPaths(callCommon(in))
			if len(a) == 2 && a[0] == "call:(*types.ValidatorSet).Copy(cs.RoundState.Validators)" && a[1] == "(round - cs.RoundState.Round)" && hasCond(domConds(in), `^\(cs\.RoundState\.Round < round\)=T$`) {
				n++
			}
		}
		c.Check("F", fnName(fn)+"/the proposer rotates by the number of rounds skipped, on a copy of the set", n == 1, fn.Pos(), n, "")
	}
	if fn := c.Fn("kai/state/cstate", "", "updateState"); fn != nil {
		n := len(findInstrs(fn, CallTo(`^\(\*types\.ValidatorSet\)\.IncrementProposerPriority$`, `, const:1\)$`)))
		c.OnEveryPath(fn, "rotate the proposer once per height", CallTo(`^\(\*types\.ValidatorSet\)\.IncrementProposerPriority$`, ""), "a successful return", SuccessReturn(1, ""))
		c.Check("F", fnName(fn)+"/rotates by exactly one", n == 1, fn.Pos(), n, "")
	}
	// ---- the committed block is fetched when only the commit is known ---------------------------------------------------
	if fn := c.Fn("consensus", "ConsensusState", "enterCommit"); fn != nil {
		id := `call:\(\*types\.VoteSet\)\.TwoThirdsMajority\(call:\(\*consensus/types\.HeightVoteSet\)\.Precommits\(cs\.RoundState\.Votes, commitRound\)\)#0`
		set := func(in ssa.Instruction) bool {
			st, ok := in.(*ssa.Store)
			return ok && pathOf(st.Addr) == "&cs.RoundState.ProposalBlockParts" && re(`^call:types\.NewPartSetFromHeader\(`+id+`\.PartsHeader\)$`).MatchString(pathOf(st.Val))
		}
		c.Check("F", fnName(fn)+"/a part set for the committed block id is installed when the block is unknown", len(findInstrs(fn, set)) == 1, fn.Pos(), 1, "")
		c.Guarded(fn, "install the part set of the committed block", set, G("proposal block is not the committed one", False(`^call:\(\*types\.Block\)\.HashesTo\(cs\.RoundState\.ProposalBlock, `)), G("parts being assembled are for another block", False(`^call:\(\*types\.PartSet\)\.HasHeader\(cs\.RoundState\.ProposalBlockParts, `)))
		// the deferred tail tries to finalise
		ok := false
		for _, a := range fn.AnonFuncs {
			if len(findInstrs(a, CallTo(`^`+csT+`\.tryFinalizeCommit$`, ""))) == 1 {
				ok = true
			}
		}
		c.Check("O", fnName(fn)+"/entering commit always ends by trying to finalise", ok, fn.Pos(), 1, "")
	}
	if fn := c.Fn("consensus", "ConsensusState", "addProposalBlockPart"); fn != nil {
		c.Guarded(fn, "finalise once the committed block is complete", CallTo(`^`+csT+`\.tryFinalizeCommit$`, ""), G("block complete", True(`^call:\(\*types\.PartSet\)\.IsComplete\(`)), G("in the commit step", Cmp(`^cs\.RoundState\.Step$`, "==", `^const:8$`)))
		c.Guarded(fn, "prevote once the proposal is complete", CallTo(`^`+csT+`\.enterPrevote$`, ""), G("block complete", True(`^call:\(\*types\.PartSet\)\.IsComplete\(`)), G("not past propose", Cmp(`^cs\.RoundState\.Step$`, "<=", `^const:3$`)), G("proposal complete (with its POL)", True(`isProposalComplete\(cs\)$`)))
		// ...and on nothing else: a node that learnt the commit from precommits alone has no Proposal message, and no
		// timeout exists in the commit step, so any further condition here leaves it stuck with the complete block
		for _, in := range findInstrs(fn, CallTo(`^`+csT+`\.tryFinalizeCommit$`, "")) {
			var extra []string
			for _, d := range domConds(in) {
				if factMatches(d, `^call:\(\*types\.PartSet\)\.IsComplete\(.*=T$|^\(cs\.RoundState\.Step == const:8\)=T$|^phi\(.*IsComplete.*=T$|#0=T$|#1 (!=|==) nil\)=[TF]$|^\(cs\.RoundState\.ProposalBlockParts == nil\)=F$|^\(cs\.RoundState\.Height != .*\)=F$|^\(call:.*(Unmarshal|BlockFromProto|ReadAll|NewReader).*(!=|==) nil\)=[TF]$`) {
					continue
				}
				extra = append(extra, d)
			}
			c.Check("G", fnName(fn)+"/finalising the completed committed block depends on nothing but completion and the commit step", len(extra) == 0, instrPos(in), 1, "additional condition(s): "+strings.Join(extra, " ; "))
		}
		n := len(findInstrs(fn, CallTo(`^`+csT+`\.tryFinalizeCommit$`, ""))) + len(findInstrs(fn, CallTo(`^`+csT+`\.enterPrevote$`, "")))
		c.Check("S", fnName(fn)+"/both continuations present", n == 2, fn.Pos(), n, "")
	}
	// ---- next height ------------------------------------------------------------------------------------------------------
	if fn := c.Fn("consensus", "ConsensusState", "finalizeCommit"); fn != nil {
		upd := CallTo(`^`+csT+`\.updateToState$`, "")
		r0 := CallTo(`^`+csT+`\.scheduleRound0$`, `\(cs, &cs\.RoundState\)$`)
		c.FollowedBy(fn, "updateToState (height+1)", upd, "scheduleRound0", r0, "return", AnyReturn())
		c.Precedes(fn, "updateToState", upd, "scheduleRound0", r0)
		c.Check("O", fnName(fn)+"/one schedule of the next height", len(findInstrs(fn, r0)) == 1, fn.Pos(), 1, "")
	}
	if fn := c.Fn("consensus", "ConsensusState", "scheduleRound0"); fn != nil {
		n := 0
		for _, in := range findInstrs(fn, CallTo(`^`+csT+`\.scheduleTimeout$`, "")) {
			a := argPaths(callCommon(in))
			if len(a) == 5 && a[2] == "rs.Height" && a[3] == "const:1" && a[4] == "const:1" && strings.HasPrefix(a[1], "call:(time.Time).Sub(rs.StartTime, ") {
				n++
			}
		}
		c.Check("F", fnName(fn)+"/wakes the new height (step NewHeight, first round) at its start time", n == 1, fn.Pos(), n, "")
	}
	// ---- ticker ------------------------------------------------------------------------------------------------------------
	if fn := c.Fn("consensus", "timeoutTicker", "timeoutRoutine"); fn != nil {
		reset := CallTo(`^\(\*time\.Timer\)\.Reset$`, "")
		nw, od := `^select\[.*\]#2\.`, `^ti\.`
		c.Guarded(fn, "arm the timer", reset,
			G("not an older height", Cmp(nw+`Height$`, ">=", od+`Height$`)),
			G("same height: not an older round", Cmp(nw+`Height$`, "!=", od+`Height$`), Cmp(nw+`Round$`, ">=", od+`Round$`)),
			G("same round: a later step (or nothing armed yet)", Cmp(nw+`Height$`, "!=", od+`Height$`), Cmp(nw+`Round$`, "!=", od+`Round$`), Cmp(od+`Step$`, "<=", `^const:0$`), Cmp(nw+`Step$`, ">", od+`Step$`)))
		// a request for a later height, round or step is never dropped
		for _, t := range []struct{ desc, l, op, r string }{
			{"a later height", nw + `Height$`, "<", od + `Height$`},
			{"a later round", nw + `Round$`, "<", od + `Round$`},
			{"a later step", nw + `Step$`, "<=", od + `Step$`},
		} {
			tests := c.P.guardEdges(fn, G(t.desc, Cmp(t.l, t.op, t.r)))
			c.Check("G", fnName(fn)+"/a request is dropped as stale only when it is not for "+t.desc, len(tests) == 1, fn.Pos(), len(tests), "the staleness test on this field must be `new "+t.op+" armed`")
		}
		// ... in conjunctive normal form of "dropped => older height, or same height and older round, or same round and
		// a step not later than the armed one": the loop head is reached again without arming only behind these tests
		c.GuardedBetween(fn, "drop the request (back to the select without arming)",
			func(in ssa.Instruction) bool {
				st, ok := in.(*ssa.Store)
				return ok && re(`^select\[.*\]#2$`).MatchString(pathOf(st.Val)) && strings.HasPrefix(pathOf(st.Addr), "&(select[")
			}, reset, IfOn(`^\(select\[.*\]#0 == const:0\)$`),
			G("the request is for the armed height or an older one", Cmp(nw+`Height$`, "<", od+`Height$`), Cmp(nw+`Height$`, "==", od+`Height$`)),
			G("older height, or the armed round or an older one", Cmp(nw+`Height$`, "<", od+`Height$`), Cmp(nw+`Round$`, "<", od+`Round$`), Cmp(nw+`Round$`, "==", od+`Round$`)),
			G("older height, older round, or a step not later than the armed one", Cmp(nw+`Height$`, "<", od+`Height$`), Cmp(nw+`Round$`, "<", od+`Round$`), Cmp(nw+`Step$`, "<=", od+`Step$`)))
		n := len(findInstrs(fn, reset))
		c.Check("O", fnName(fn)+"/one arming site", n == 1, fn.Pos(), n, "")
		c.Precedes(fn, "stop the previous timer", CallTo(`^\(\*consensus\.timeoutTicker\)\.stopTimer$`, ""), "arm the timer", reset)
		// the fired timeout is delivered without blocking the routine
		g := 0
		allInstrs(fn, false, func(_ *ssa.Function, in ssa.Instruction) {
			if _, ok := in.(*ssa.Go); ok {
				g++
			}
		})
		direct := 0
		allInstrs(fn, false, func(_ *ssa.Function, in ssa.Instruction) {
			if _, ok := in.(*ssa.Send); ok {
				direct++
			}
		})
		c.Check("O", fnName(fn)+"/a fired timeout is handed over from its own goroutine, so the routine keeps draining schedule requests", g == 1 && direct == 0, fn.Pos(), g, "")
	}
	if fn := c.Fn("consensus", "", "NewTimeoutTicker"); fn != nil {
		n := 0
		allInstrs(fn, false, func(_ *ssa.Function, in ssa.Instruction) {
			if mc, ok := in.(*ssa.MakeChan); ok && pathOf(mc.Size) != "const:0" {
				n++
			}
		})
		c.Check("F", fnName(fn)+"/schedule and fire channels are buffered", n == 2, fn.Pos(), n, "")
	}
	// ---- nothing blocks under the state lock ----------------------------------------------------------------------------------
	entries := []*ssa.Function{c.Fn("consensus", "ConsensusState", "handleMsg"), c.Fn("consensus", "ConsensusState", "handleTimeout")}
	skip := func(f *ssa.Function) bool {
		p := strings.TrimPrefix(f.Pkg.Pkg.Path(), modPath+"/")
		return !(p == "consensus" || p == "consensus/types" || p == "types")
	}
	reach := c.reachable(entries, skip)
	tabled := map[string]string{
		"(*consensus.byteBufferWAL).Write":           "in-memory WAL of the WAL generator (test tooling compiled into the package); never installed in a running node",
		"(*consensus.timeoutTicker).ScheduleTimeout": "send on the ticker's buffered channel (10 slots), drained continuously by timeoutRoutine, which never takes the state lock",
	}
	var fns []*ssa.Function
	for f := range reach {
		fns = append(fns, f)
	}
	sort.Slice(fns, func(i, j int) bool { return fnName(fns[i]) < fnName(fns[j]) })
	nOps := 0
	for _, f := range fns {
		f := f
		if f.Parent() != nil {
			// a closure that is only ever started with `go` does not run under the caller's lock
			onlyGo, used := true, false
			allInstrs(f.Parent(), false, func(_ *ssa.Function, in ssa.Instruction) {
				mc, ok := in.(*ssa.MakeClosure)
				if !ok || mc.Fn != ssa.Value(f) {
					return
				}
				for _, r := range *mc.Referrers() {
					used = true
					if _, isGo := r.(*ssa.Go); !isGo {
						onlyGo = false
					}
				}
			})
			if used && onlyGo {
				continue
			}
		}
		allInstrs(f, false, func(_ *ssa.Function, in ssa.Instruction) {
			desc := ""
			switch x := in.(type) {
			case *ssa.Send:
				desc = "blocking send on " + pathOf(x.Chan)
			case *ssa.Select:
				if x.Blocking {
					desc = fmt.Sprintf("blocking select with %d cases", len(x.States))
				} else {
					nOps++
					return
				}
			case *ssa.UnOp:
				if x.Op.String() == "<-" {
					desc = "blocking receive from " + pathOf(x.X)
				}
			}
			if desc == "" {
				return
			}
			nOps++
			why, ok := tabled[fnName(f)]
			c.Check("L3", fmt.Sprintf("%s/%s cannot stall the state machine", fnName(f), desc), ok, instrPos(in), 1, desc+" reachable from handleMsg/handleTimeout, which hold the consensus state lock: "+chain(reach, f)+" "+why)
		})
	}
	c.Check("L3", "consensus/channel operations under the state lock inventoried", nOps >= 2 && len(reach) >= 60, c.fnPos("(*consensus.ConsensusState).handleMsg"), nOps, fmt.Sprintf("%d channel operations in %d functions reachable from handleMsg/handleTimeout", nOps, len(reach)))
	if fn := c.Fn("consensus", "ConsensusState", "sendInternalMessage"); fn != nil {
		nb := 0
		allInstrs(fn, false, func(_ *ssa.Function, in ssa.Instruction) {
			if s, ok := in.(*ssa.Select); ok && !s.Blocking {
				nb++
			}
		})
		c.Check("L3", fnName(fn)+"/own messages are queued without blocking (select with default, overflow handed to a goroutine)", nb == 1, fn.Pos(), nb, "")
	}
	// ---- what we believe a peer has is kept per (height, round): a round change clears the per-round records, otherwise the
	// vote picker finds nothing the peer "lacks" in the new round and the round's votes are never sent to it
	if fn := c.Fn("consensus", "PeerState", "ApplyNewRoundStepMessage"); fn != nil {
		stale := Cmp(`^call:consensus\.CompareHRS\(msg\.Height, msg\.Round, msg\.Step, ps\.PRS\.Height, ps\.PRS\.Round, ps\.PRS\.Step\)$`, "<=", `^const:0$`)
		for _, f := range []string{"Prevotes", "Precommits", "ProposalBlockParts", "ProposalPOL"} {
			c.GuardedBetween(fn, "leave the peer's "+f+" record as it was", CallTo(`^consensus\.CompareHRS$`, ""), StoreTo(`^&ps\.PRS\.`+f+`$`), AnyReturn(),
				G("the message is not newer, or it is for the same round", stale, Cmp(`^ps\.PRS\.Round$`, "==", `^msg\.Round$`)),
				G("the message is not newer, or it is for the same height", stale, Cmp(`^ps\.PRS\.Height$`, "==", `^msg\.Height$`)))
		}
		c.Guarded(fn, "clear the peer's proposal flag", StoreTo(`^&ps\.PRS\.Proposal$`), G("the message is newer", Cmp(`^call:consensus\.CompareHRS\(.*\)$`, ">", `^const:0$`)))
	}
	c04Constructors(c)
	c04Gossip(c)
	// the last commit of the next height is the one MakeCommit built (C02): a foreign precommit in it stalls the next height
	makeCommitRules(c)
	tickerBeforeReplay(c)
	// a part set filled with a part that does not belong to its slot can never be completed
	addPartRules(c)
	// what consensus sends is what arrives: a proposal or vote that loses a signed field in transit fails its signature
	// check at every receiver (wire codecs of the gossiped types, group owned by C13)
	for _, s := range blockCodecs {
		switch s.Name {
		case "Proposal", "Vote", "Part", "BlockID", "PartSetHeader":
			c.codecPair(s)
		}
	}
	c04InitialHeight(c)
	// a stale lock must be released by a later polka, including one that completes in the current round
	lockRules(c)
	// the commit of the previous height, nil precommits included, must verify in the next height's blocks
	commitVoteRules(c)
	c.LockPairing([]string{"consensus", "consensus/types"}, map[string]string{})
}

// c04Constructors: a constructor must not call a method of the object it is building that uses an interface or
// pointer field the constructor has not assigned yet (a nil dereference at node start-up: the process dies before
// consensus ever runs).
func c04Constructors(c *Ctx) {
	n := 0
	for _, f := range c.P.ModFuncs {
		if f.Pkg == nil || strings.TrimPrefix(f.Pkg.Pkg.Path(), modPath+"/") != "consensus" || len(f.Blocks) == 0 || f.Parent() != nil || !strings.HasPrefix(f.Name(), "New") {
			continue
		}
		if strings.HasSuffix(c.P.Pos(f.Pos()), "_test.go") || strings.Contains(c.P.Pos(f.Pos()), "wal_generator.go") {
			continue
		}
		f := f
		allInstrs(f, false, func(_ *ssa.Function, in ssa.Instruction) {
			a, ok := in.(*ssa.Alloc)
			if !ok || !a.Heap {
				return
			}
			st, ok := deptr(a.Type()).Underlying().(*types.Struct)
			if !ok || namedOf(a.Type()) == "" || !strings.HasPrefix(namedOf(a.Type()), "consensus.") {
				return
			}
			// fields assigned, by instruction
			type asg struct {
				field string
				in    ssa.Instruction
			}
			var assigned []asg
			var calls []*ssa.Call
			for _, r := range *a.Referrers() {
				switch x := r.(type) {
				case *ssa.FieldAddr:
					for _, r2 := range *x.Referrers() {
						if s, isSt := r2.(*ssa.Store); isSt && s.Addr == ssa.Value(x) {
							assigned = append(assigned, asg{fieldName(x.X.Type(), x.Field), s})
						}
					}
				case *ssa.Call:
					if len(x.Call.Args) > 0 && x.Call.Args[0] == ssa.Value(a) && x.Call.StaticCallee() != nil {
						calls = append(calls, x)
					}
				}
			}
			for _, cl := range calls {
				callee := cl.Call.StaticCallee()
				if len(callee.Blocks) == 0 {
					continue
				}
				n++
				// fields of the receiver the callee dereferences: invoked through (interfaces) or loaded through (pointers)
				used := map[string]ssa.Instruction{}
				allInstrs(callee, false, func(_ *ssa.Function, x ssa.Instruction) {
					cc := callCommon(x)
					if cc == nil || !cc.IsInvoke() {
						return
					}
					if u, isLoad := cc.Value.(*ssa.UnOp); isLoad {
						if fa, isFA := u.X.(*ssa.FieldAddr); isFA && len(callee.Params) > 0 && fa.X == ssa.Value(callee.Params[0]) {
							used[fieldName(fa.X.Type(), fa.Field)] = x
						}
					}
				})
				var missing []string
				for fld, at := range used {
					set := false
					for _, as := range assigned {
						if as.field == fld && reaches(as.in, cl) {
							set = true
						}
					}
					// fields the struct literal cannot leave nil are not interfaces; check the type
					isIface := false
					for i := 0; i < st.NumFields(); i++ {
						if st.Field(i).Name() == fld {
							_, isIface = st.Field(i).Type().Underlying().(*types.Interface)
						}
					}
					if !set && isIface {
						missing = append(missing, fmt.Sprintf("%s (used at %s)", fld, c.P.Pos(instrPos(at))))
					}
				}
				sort.Strings(missing)
				c.Check("U", fmt.Sprintf("%s/%s is called on the object under construction only after the interface fields it calls through are set", fnName(f), callee.Name()), len(missing) == 0, cl.Pos(), len(used),
					"still nil at the call: "+strings.Join(missing, ", ")+" — a nil-interface method call panics while the node is being constructed")
			}
		})
	}
	c.Check("U", "consensus/constructor self-calls inventoried", n >= 1, c.fnPos("consensus.NewTimeoutTicker"), n, "")
}

// c04InitialHeight: the first block of a chain whose genesis sets an initial height above 1.
func c04InitialHeight(c *Ctx) {
	fn := c.Fn("kai/state/cstate", "", "validateBlock")
	if fn == nil {
		return
	}
	h := `call:(*types.Block).Height(block)`
	for _, in := range findInstrs(fn, IfOn(`^\(`+regexpQuote(h)+` != \(state\.LastBlockHeight \+ const:1\)\)$`)) {
		guarded := hasCond(domConds(in), `^\(state\.LastBlockHeight > const:0\)=T$`)
		// the If may itself be the second operand of `LastBlockHeight > 0 && …`
		for _, p := range in.Block().Preds {
			if iff, ok := p.Instrs[len(p.Instrs)-1].(*ssa.If); ok && pathOf(iff.Cond) == "(state.LastBlockHeight > const:0)" && p.Succs[0] == in.Block() && len(in.Block().Preds) == 1 {
				guarded = true
			}
		}
		if guarded {
			c.OK("G", fnName(fn)+"/the follows-the-last-block height test applies after the first block", instrPos(in), 1, "")
			continue
		}
		o := c.add("G", fnName(fn)+"/the first block of a chain is accepted at the genesis' initial height", Violated, instrPos(in), 1,
			"block.Height() != state.LastBlockHeight+1 is tested unconditionally before the initial-height case: with a genesis InitialHeight above 1 the first block would have to be at height 1 and at InitialHeight at once, so no first block validates (advisory: only for a genesis file that sets initial_height > 1; the shipped genesis files do not)")
		o.Advisory = true
	}
}
