package main

// C06 — block execution is deterministic (structural clauses).

import (
	"fmt"
	"go/types"
	"sort"
	"strings"

	"golang.org/x/tools/go/ssa"
)

func init() {
	register("C06", []string{"mainchain/blockchain/block_operations.go", "mainchain/blockchain/state_processor.go", "kai/state/statedb.go", "kai/state/cstate/execution.go", "mainchain/staking/staking_smc.go", "types/validator_set.go"}, runC06)
}

var c06SkipPkgs = []string{"lib/log", "lib/metrics", "mainchain/tracers", "kvm/logger", "lib/p2p", "lib/event", "lib/service", "rpc", "lib/sysutils", "kai/kaidb", "lib/prque", "lib/cache"}

// reachable: module functions reachable from the entries through the call graph, with one caller each (for reports).
func (c *Ctx) reachable(entries []*ssa.Function, skip func(*ssa.Function) bool) map[*ssa.Function]*ssa.Function {
	cg := c.P.CallGraph()
	out := map[*ssa.Function]*ssa.Function{}
	var stack []*ssa.Function
	for _, e := range entries {
		if e != nil {
			out[e] = nil
			stack = append(stack, e)
		}
	}
	for len(stack) > 0 {
		f := stack[len(stack)-1]
		stack = stack[:len(stack)-1]
		node := cg.Nodes[f]
		if node == nil {
			continue
		}
		for _, e := range node.Out {
			g := e.Callee.Func
			if g == nil || g.Pkg == nil || !strings.HasPrefix(g.Pkg.Pkg.Path(), modPath) {
				continue
			}
			if _, isGo := e.Site.(*ssa.Go); isGo {
				continue // goroutine bodies are inventoried separately (their start sites are tabled)
			}
			if _, seen := out[g]; seen || skip(g) {
				continue
			}
			out[g] = f
			stack = append(stack, g)
		}
		for _, a := range f.AnonFuncs {
			if _, seen := out[a]; !seen && !skip(a) {
				out[a] = f
				stack = append(stack, a)
			}
		}
	}
	return out
}

func chain(parents map[*ssa.Function]*ssa.Function, f *ssa.Function) string {
	var s []string
	for g := f; g != nil && len(s) < 8; g = parents[g] {
		s = append(s, fnName(g))
	}
	return strings.Join(s, " <- ")
}

// loopBlocks: the blocks of the loop whose header is hdr and whose body starts at body.
func loopBlocks(hdr, body *ssa.BasicBlock) map[*ssa.BasicBlock]bool {
	out := map[*ssa.BasicBlock]bool{}
	stack := []*ssa.BasicBlock{body}
	for len(stack) > 0 {
		b := stack[len(stack)-1]
		stack = stack[:len(stack)-1]
		if out[b] || b == hdr {
			continue
		}
		// stay inside the loop: only blocks from which the header is reachable
		out[b] = true
		stack = append(stack, b.Succs...)
	}
	// drop blocks that cannot come back to the header (loop exits reached via break/return)
	back := map[*ssa.BasicBlock]bool{}
	var canReach func(b *ssa.BasicBlock, seen map[*ssa.BasicBlock]bool) bool
	canReach = func(b *ssa.BasicBlock, seen map[*ssa.BasicBlock]bool) bool {
		if b == hdr {
			return true
		}
		if v, ok := back[b]; ok {
			return v
		}
		if seen[b] {
			return false
		}
		seen[b] = true
		for _, s := range b.Succs {
			if canReach(s, seen) {
				back[b] = true
				return true
			}
		}
		return false
	}
	for b := range out {
		if !canReach(b, map[*ssa.BasicBlock]bool{}) {
			delete(out, b)
		}
	}
	return out
}

type mapLoop struct {
	fn     *ssa.Function
	rng    *ssa.Range
	blocks map[*ssa.BasicBlock]bool
}

func mapLoops(f *ssa.Function) []mapLoop {
	var out []mapLoop
	allInstrs(f, false, func(_ *ssa.Function, in ssa.Instruction) {
		r, ok := in.(*ssa.Range)
		if !ok {
			return
		}
		if _, isMap := r.X.Type().Underlying().(*types.Map); !isMap {
			return
		}
		// the Next instruction and its header block
		for _, ref := range *r.Referrers() {
			nx, ok := ref.(*ssa.Next)
			if !ok {
				continue
			}
			hdr := nx.Block()
			if iff, ok := hdr.Instrs[len(hdr.Instrs)-1].(*ssa.If); ok && len(hdr.Succs) == 2 {
				_ = iff
				out = append(out, mapLoop{f, r, loopBlocks(hdr, hdr.Succs[0])})
			}
		}
	})
	return out
}

var orderSinkRe = re(`^(iface:)?\((\*?hash\.|\*?bytes\.Buffer|\*?strings\.Builder|io\.Writer|\*?bufio\.Writer|golang\.org/x/crypto/sha3|lib/crypto\.KeccakState).*\)\.Write(String|Byte|Rune)?$|^fmt\.Fp?rint|\.AddLog$|^lib/rlp\.Encode$|\)\.EncodeRLP$|^io\.WriteString$|^encoding/binary\.Write$`)

// orderSinks: instructions in the loop whose effect depends on the order of iterations: appends that accumulate
// across iterations (not the construction of a per-iteration key), writes to hashes/buffers/streams, log records, sends.
func (l mapLoop) orderSinks() []string {
	var out []string
	inLoop := func(v ssa.Value) bool {
		in, ok := v.(ssa.Instruction)
		return ok && in.Block() != nil && l.blocks[in.Block()]
	}
	for b := range l.blocks {
		for _, in := range b.Instrs {
			if _, ok := in.(*ssa.Send); ok {
				out = append(out, "send")
			}
			cc := callCommon(in)
			if cc == nil {
				continue
			}
			n := calleeNameNoPath(cc)
			if n == "append" && len(cc.Args) > 0 {
				// accumulating: the result is carried to the next iteration (merged by a phi, stored into a variable,
				// field or map); an append whose result is only passed on builds a per-iteration key
				acc := false
				if val, ok := in.(ssa.Value); ok && val.Referrers() != nil {
					for _, r := range *val.Referrers() {
						switch x := r.(type) {
						case *ssa.Phi:
							acc = true
						case *ssa.MapUpdate:
							acc = true
						case *ssa.Store:
							if al, isAlloc := x.Addr.(*ssa.Alloc); isAlloc && inLoop(al) {
								continue
							}
							if x.Val == val {
								acc = true
							}
						}
					}
				}
				if acc {
					out = append(out, "append")
				}
			} else if orderSinkRe.MatchString(n) {
				out = append(out, n)
			}
		}
	}
	sort.Strings(out)
	return out
}

// sortedAfter: a sort.* call follows the loop in the same function.
func (l mapLoop) sortedAfter() bool {
	found := false
	for _, b := range l.fn.Blocks {
		if l.blocks[b] {
			continue
		}
		for _, in := range b.Instrs {
			if cc := callCommon(in); cc != nil && strings.HasPrefix(calleeNameNoPath(cc), "sort.") {
				// after the loop: reachable from one of the loop's blocks
				for lb := range l.blocks {
					if len(lb.Instrs) > 0 && reaches(lb.Instrs[0], in) {
						found = true
					}
					break
				}
			}
		}
	}
	return found
}

// c06Loops: map iterations whose accumulated output is order-dependent, with the reason the order cannot matter.
var c06Loops = map[string]struct {
	appends int
	why     string
}{
	"(*kai/state.StateDB).Finalise|s.journal.dirties":             {1, "the only list built is the address list handed to the prefetcher (cache warming); objects are moved to sets and finalised independently"},
	"(*kai/state.StateDB).IntermediateRoot|s.stateObjectsPending": {1, "storage roots and account updates of distinct accounts commute (the trie root is a function of content); the list built is the prefetcher's used-address list"},
	"(*kai/state.stateObject).finalise|s.dirtyStorage":            {1, "slots move to the pending map; the list built is the prefetch list"},
	"(*kai/state.stateObject).updateTrie|s.pendingStorage":        {1, "trie updates of distinct slots commute; the list built is the prefetcher's used-slot list"},
	"(*kai/state/snapshot.Tree).Cap|t.layers":                     {1, "builds the parent->children index used only to drop stale layers"},
	"(*trie/triedb/hashdb.Database).Update|nodes.Sets":            {1, "order of storage-trie node sets among themselves is irrelevant for reference counting; the account trie is appended last after the loop"},
	"kai/state/cstate.calculateValidatorSetUpdates|make:map":      {1, "the removals appended in map order are sorted by address in processChanges before being applied (checked below)"},
}

func runC06(c *Ctx) {
	c.Decided = []string{
		"no map iteration reachable from block execution lets its order reach an order-sensitive sink (accumulating append without a later sort, hash/buffer/stream write, log record, channel send), except a frozen table of loops with the reason their order cannot matter",
		"no wall-clock, random, environment or network value reachable from block execution flows anywhere but metrics, logs, tracer callbacks and GC-timing; goroutine starts on the execution path are inventoried",
		"validator updates are order independent: the change list is copied and sorted by address before it is scanned, the resulting set is sorted by a total order, and the application's list reaches consensus only through that path",
		"transactions are applied sequentially in block order with their index; the address blacklist fetched during commit is read only by the transaction pool",
		"the proposer builds the header from the same state fields the validators compare against",
	}
	c.NotDec = []string{"equality of results across cache/snapshot/prefetcher/GC configurations and across runs (value-level)", "determinism of the staking contract's own bytecode", "absence of data races between execution and background goroutines"}
	c.Floors["D"] = 40
	c06Round3(c)
	// snapshot layers answer as the trie would (C08): lookup order inside a diff layer, filter membership, destruct marks
	c08Snapshot(c)
	signerEqualRule(c)
	mapLoopsRunToTheEnd(c)

	skip := func(f *ssa.Function) bool {
		p := strings.TrimPrefix(f.Pkg.Pkg.Path(), modPath+"/")
		for _, s := range c06SkipPkgs {
			if p == s || strings.HasPrefix(p, s+"/") {
				return true
			}
		}
		return false
	}
	entries := []*ssa.Function{
		c.Fn("mainchain/blockchain", "BlockOperations", "CommitAndValidateBlockTxs"),
		c.Fn("kai/state/cstate", "", "updateState"),
		c.Fn("kai/state/cstate", "", "calculateValidatorSetUpdates"),
	}
	reach := c.reachable(entries, skip)
	c.Check("D", "execution call tree/reachable functions", len(reach) >= 600, c.fnPos("(*mainchain/blockchain.BlockOperations).commitBlock"), len(reach), fmt.Sprintf("%d functions reachable from CommitAndValidateBlockTxs, updateState, calculateValidatorSetUpdates (goroutine bodies and %v excluded)", len(reach), c06SkipPkgs))
	var fns []*ssa.Function
	for f := range reach {
		fns = append(fns, f)
	}
	sort.Slice(fns, func(i, j int) bool { return fnName(fns[i]) < fnName(fns[j]) })
	// ---- map iteration order ---------------------------------------------------------------------------------
	nLoops := 0
	perKey := map[string]int{}
	for _, f := range fns {
		for _, l := range mapLoops(f) {
			nLoops++
			sinks := l.orderSinks()
			ranged := pathOf(l.rng.X)
			tk := fnName(f) + "|" + ranged
			if strings.HasPrefix(ranged, "make:map") {
				tk = fnName(f) + "|make:map"
			}
			key := fmt.Sprintf("%s/iteration over map %s does not let its order reach an order-sensitive sink", fnName(f), clip(ranged, 60))
			perKey[key]++
			if perKey[key] > 1 {
				key += fmt.Sprintf(" #%d", perKey[key])
			}
			nApp, other := 0, []string{}
			for _, s := range sinks {
				if s == "append" {
					nApp++
				} else {
					other = append(other, s)
				}
			}
			t, tabled := c06Loops[tk]
			switch {
			case len(other) > 0:
				c.Bad("D", key, instrPos(l.rng), len(sinks), "the loop body calls "+strings.Join(other, ", ")+": its output depends on Go's randomised map order ("+chain(reach, f)+")")
			case nApp == 0:
				c.OK("D", key, instrPos(l.rng), 1, "body only updates maps/sets and per-key state")
			case l.sortedAfter():
				c.OK("D", key, instrPos(l.rng), nApp, "the collected slice is sorted after the loop")
			case tabled && nApp <= t.appends:
				c.OK("D", key, instrPos(l.rng), nApp, "tabled: "+t.why)
			default:
				c.Bad("D", key, instrPos(l.rng), nApp, fmt.Sprintf("%d slice(s) are built in map order and not sorted afterwards; reached from block execution via %s", nApp, chain(reach, f)))
			}
		}
	}
	c.Check("D", "execution call tree/map iterations inventoried", nLoops >= 30, c.fnPos("(*kai/state.StateDB).Finalise"), nLoops, "")
	// ---- goroutines -------------------------------------------------------------------------------------------------
	goTable := map[string]string{
		"(*trie.hasher).hashFullNodeChildren": "16 workers each write only slot i of the two private copies and are joined by the WaitGroup before the copies are used",
		"kai/state.newSubfetcher":             "prefetcher: warms node caches; the trie it hands back is used through CopyTrie and is content-determined",
		"kai/state/snapshot.diffToDisk":       "background snapshot generation after a flatten; execution reads through the layer API",
	}
	for _, f := range fns {
		f := f
		allInstrs(f, false, func(_ *ssa.Function, in ssa.Instruction) {
			if _, ok := in.(*ssa.Go); !ok {
				return
			}
			why, ok := goTable[fnName(f)]
			c.Check("D", fnName(f)+"/goroutine started on the execution path is joined or cannot influence the result", ok, instrPos(in), 1, "goroutine start "+describeInstr(in)+" reachable from block execution via "+chain(reach, f)+" "+why)
		})
	}
	if fn := c.Fn("trie", "hasher", "hashFullNodeChildren"); fn != nil {
		c.FollowedBy(fn, "start the workers", func(in ssa.Instruction) bool { _, ok := in.(*ssa.Go); return ok }, "wg.Wait()", CallTo(`^\(\*sync\.WaitGroup\)\.Wait$`, ""), "return", AnyReturn())
	}
	// ---- wall clock and other ambient inputs -----------------------------------------------------------------------------
	srcRe := re(`^time\.(Now|Since|Until)$|^math/rand\.|^crypto/rand\.|^os\.(Getenv|Hostname|Getpid|Environ)$|^runtime\.(NumCPU|NumGoroutine|GOMAXPROCS)$`)
	nSrc := 0
	for _, f := range fns {
		f := f
		allInstrs(f, true, func(g *ssa.Function, in ssa.Instruction) {
			cl, ok := in.(*ssa.Call)
			if !ok {
				return
			}
			n := calleeNameNoPath(&cl.Call)
			if !srcRe.MatchString(n) {
				return
			}
			nSrc++
			esc := c06Escape(cl, map[ssa.Value]bool{})
			c.Check("D", fmt.Sprintf("%s/%s at %s feeds only metrics, logs, tracer callbacks or GC timing", fnName(f), n, c.P.Pos(instrPos(in))), esc == "", instrPos(in), 1, "the value reaches "+esc+" ("+chain(reach, f)+")")
		})
	}
	c.Check("D", "execution call tree/ambient inputs inventoried", nSrc >= 20, c.fnPos("(*mainchain/blockchain.BlockOperations).commitBlock"), nSrc, "")
	// network inside commit: the blacklist
	if g := c.P.Global("mainchain/tx_pool", "Blacklisted"); g != nil {
		var readers []string
		for _, f := range c.P.ModFuncs {
			if len(f.Blocks) == 0 {
				continue
			}
			f := f
			allInstrs(f, false, func(_ *ssa.Function, in ssa.Instruction) {
				for _, op := range in.Operands(nil) {
					if *op == ssa.Value(g) {
						readers = append(readers, fnName(rootFn(f)))
					}
				}
			})
		}
		sort.Strings(readers)
		bad := ""
		for _, r := range readers {
			if f := c.P.FuncByName(r); f != nil {
				if _, in := reach[f]; in && r != "mainchain/tx_pool.UpdateBlacklist" {
					bad = r
				}
			}
		}
		c.Check("W", "mainchain/tx_pool.Blacklisted/the list fetched over HTTP during commit is not read by block execution", bad == "" && len(readers) >= 2, c.fnPos("mainchain/tx_pool.UpdateBlacklist"), len(readers), "read by "+bad+"; all users: "+strings.Join(readers, ", "))
	} else {
		c.Unres("anchor", "mainchain/tx_pool.Blacklisted", "global not found")
	}
	if fn := c.Fn("mainchain/blockchain", "BlockOperations", "CommitAndValidateBlockTxs"); fn != nil {
		for _, in := range findInstrs(fn, CallTo(`^mainchain/tx_pool\.UpdateBlacklist$`, "")) {
			cl := in.(*ssa.Call)
			esc := c06Escape(cl, map[ssa.Value]bool{})
			c.Check("D", fnName(fn)+"/the outcome of the blacklist download does not influence the result", esc == "" || strings.HasPrefix(esc, "a branch"), instrPos(in), 1, esc)
		}
	}
	c06Validators(c)
	c06Sequential(c)
	c06Config(c)
}

// c06Escape follows a value forward through arithmetic, conversions, local variables and time arithmetic; it returns
// "" when every use ends in a metrics/log/tracer/GC-timing sink, otherwise a description of the first other use.
func c06Escape(v ssa.Value, seen map[ssa.Value]bool) string {
	if seen[v] {
		return ""
	}
	seen[v] = true
	refs := v.Referrers()
	if refs == nil {
		return ""
	}
	sinkRe := re(`^lib/metrics\.|^\(\*?lib/metrics\.|^iface:\(lib/metrics\.|^lib/log\.|^iface:\(lib/log\.|^\(\*?lib/log\.|AccumulateGCProc$|^iface:\(kvm\.(KVMLogger|Tracer)\)\.Capture|\)\.(UpdateSince|Update|Mark|Inc|Add)$|^\(lib/common\.PrettyDuration\)|^fmt\.Sprintf$`)
	passRe := re(`^time\.(Since|Until)$|^\(time\.Time\)\.(Sub|Add|Round|Truncate|UnixNano|Unix)$|^\(time\.Duration\)\.`)
	metricField := re(`^kai/state\.StateDB\.(Account|Storage|Snapshot|TrieDB)\w*(Reads|Hashes|Updates|Commits)$|^trie/triedb/hashdb\.Database\.(gc|flush)\w+$|^kai/state/snapshot\.generatorStats\.|^kai/state/snapshot\.generatorContext\.(stats|logged)$`)
	for _, r := range *refs {
		switch x := r.(type) {
		case *ssa.DebugRef:
		case *ssa.Call, *ssa.Defer, *ssa.Go:
			cc := callCommon(x)
			n := calleeNameNoPath(cc)
			if cc.StaticCallee() == nil && !cc.IsInvoke() {
				// a function value chosen among loggers (logger := log.Info / log.Debug)
				all := true
				cases := phiCases(cc.Value)
				for _, pc := range cases {
					f, isFn := pc.Val.(*ssa.Function)
					if !isFn || !sinkRe.MatchString(short(f.String())) {
						all = false
					}
				}
				if all && len(cases) > 0 {
					continue
				}
			}
			switch {
			case sinkRe.MatchString(n):
			case passRe.MatchString(n):
				if val, ok := x.(ssa.Value); ok {
					if e := c06Escape(val, seen); e != "" {
						return e
					}
				}
			default:
				// a closure called or deferred right here (the `defer func(start time.Time){…}(time.Now())` idiom):
				// follow the value into the matching parameter
				callee := cc.StaticCallee()
				if callee != nil && callee.Parent() != nil && len(callee.Blocks) > 0 {
					followed := false
					for i, a := range cc.Args {
						if a == v && i < len(callee.Params) {
							followed = true
							if e := c06Escape(callee.Params[i], seen); e != "" {
								return e
							}
						}
					}
					if followed {
						continue
					}
				}
				return "call " + n
			}
		case *ssa.BinOp:
			switch x.Op.String() {
			case "+", "-", "*", "/":
				if e := c06Escape(x, seen); e != "" {
					return e
				}
			default:
				// comparison: where does the verdict go?
				if e := c06Escape(x, seen); e != "" {
					return e
				}
			}
		case *ssa.Convert, *ssa.ChangeType, *ssa.MakeInterface, *ssa.Phi, *ssa.UnOp, *ssa.Extract:
			if e := c06Escape(x.(ssa.Value), seen); e != "" {
				return e
			}
		case *ssa.Store:
			switch a := x.Addr.(type) {
			case *ssa.Alloc:
				if e := c06Escape(a, seen); e != "" {
					return e
				}
			case *ssa.FieldAddr:
				ref := fieldRef{namedOf(a.X.Type()), fieldName(a.X.Type(), a.Field)}
				if !metricField.MatchString(ref.String()) {
					return "field " + ref.String()
				}
			case *ssa.IndexAddr:
				// element of a variadic argument list: follow the slice to its call
				if e := c06Escape(a.X, seen); e != "" {
					return e
				}
			default:
				return "a store to " + pathOf(x.Addr)
			}
		case *ssa.Slice:
			if e := c06Escape(x, seen); e != "" {
				return e
			}
		case *ssa.IndexAddr, *ssa.FieldAddr:
			// address computations on the variadic argument array; the stores are followed from the stored value
		case *ssa.MakeClosure:
			// captured by a deferred metrics closure: follow the free variable inside
			if fn, ok := x.Fn.(*ssa.Function); ok {
				for i, b := range x.Bindings {
					if b == v && i < len(fn.FreeVars) {
						if e := c06Escape(fn.FreeVars[i], seen); e != "" {
							return e
						}
					}
				}
			}
		case *ssa.If:
			return "a branch condition at " + fmt.Sprint(x.Pos())
		case *ssa.Return:
			return "a return value of " + fnName(x.Parent())
		case *ssa.MapUpdate, *ssa.Send:
			return "a map/channel"
		default:
			return fmt.Sprintf("%T", r)
		}
	}
	return ""
}
