package main

// C06 — block execution is deterministic (structural clauses).

import (
	"fmt"
	"go/types"
	"os"
	"sort"
	"strings"

	"golang.org/x/tools/go/ssa"
)

func init() {
	register("C06", []string{"mainchain/blockchain/block_operations.go", "mainchain/blockchain/state_processor.go", "kai/state/statedb.go", "kai/state/cstate/execution.go", "mainchain/staking/staking_smc.go", "types/validator_set.go"}, runC06)
}

var c06SkipPkgs = []string{"lib/log", "lib/metrics", "mainchain/tracers", "kvm/logger", "lib/p2p", "lib/event", "lib/service", "rpc", "lib/sysutils", "kai/kaidb", "lib/prque", "lib/cache"}

// reachable: module functions reachable from the entries through the call graph, with one caller each (for reports).
func (c *Ctx) reachable(entries []*ssa.Function, skip func(*ssa.Function) bool) map[*ssa.Function]*ssa.Function {
	cg := c.P.CallGraph()
	out := map[*ssa.Function]*ssa.Function{}
	var stack []*ssa.Function
	for _, e := range entries {
		if e != nil {
			out[e] = nil
			stack = append(stack, e)
		}
	}
	for len(stack) > 0 {
		f := stack[len(stack)-1]
		stack = stack[:len(stack)-1]
		node := cg.Nodes[f]
		if node == nil {
			continue
		}
		for _, e := range node.Out {
			g := e.Callee.Func
			if g == nil || g.Pkg == nil || !strings.HasPrefix(g.Pkg.Pkg.Path(), modPath) {
				continue
			}
			if _, isGo := e.Site.(*ssa.Go); isGo {
				// still followed: a goroutine started from execution runs execution code
			}
			if _, seen := out[g]; seen || skip(g) {
				continue
			}
			out[g] = f
			stack = append(stack, g)
		}
		for _, a := range f.AnonFuncs {
			if _, seen := out[a]; !seen && !skip(a) {
				out[a] = f
				stack = append(stack, a)
			}
		}
	}
	return out
}

func chain(parents map[*ssa.Function]*ssa.Function, f *ssa.Function) string {
	var s []string
	for g := f; g != nil && len(s) < 8; g = parents[g] {
		s = append(s, fnName(g))
	}
	return strings.Join(s, " <- ")
}

func runC06(c *Ctx) {
	skip := func(f *ssa.Function) bool {
		p := strings.TrimPrefix(f.Pkg.Pkg.Path(), modPath+"/")
		for _, s := range c06SkipPkgs {
			if p == s || strings.HasPrefix(p, s+"/") {
				return true
			}
		}
		return false
	}
	entries := []*ssa.Function{
		c.Fn("mainchain/blockchain", "BlockOperations", "CommitAndValidateBlockTxs"),
		c.Fn("kai/state/cstate", "", "updateState"),
		c.Fn("kai/state/cstate", "", "calculateValidatorSetUpdates"),
	}
	reach := c.reachable(entries, skip)
	if os.Getenv("KVET_C06_DUMP") != "" {
		var lines []string
		for f := range reach {
			allInstrs(f, false, func(_ *ssa.Function, in ssa.Instruction) {
				switch x := in.(type) {
				case *ssa.Range:
					if _, isMap := x.X.Type().Underlying().(*types.Map); isMap {
						lines = append(lines, fmt.Sprintf("MAPRANGE %s %s over %s  [%s]", c.P.Pos(instrPos(in)), fnName(f), clip(pathOf(x.X), 60), chain(reach, f)))
					}
				case *ssa.Go:
					lines = append(lines, fmt.Sprintf("GO %s %s %s", c.P.Pos(instrPos(in)), fnName(f), clip(describeInstr(in), 80)))
				case *ssa.Select:
					if len(x.States) > 1 || !x.Blocking {
						lines = append(lines, fmt.Sprintf("SELECT %s %s states=%d blocking=%v", c.P.Pos(instrPos(in)), fnName(f), len(x.States), x.Blocking))
					}
				}
				if cc := callCommon(in); cc != nil {
					n := calleeNameNoPath(cc)
					if re(`^time\.(Now|Since|Until)$|^math/rand\.|^crypto/rand\.|^os\.(Getenv|Hostname|Getpid)|^net/http\.|^runtime\.(NumCPU|NumGoroutine|GOMAXPROCS)`).MatchString(n) {
						lines = append(lines, fmt.Sprintf("SOURCE %s %s %s", c.P.Pos(instrPos(in)), fnName(f), n))
					}
				}
			})
		}
		sort.Strings(lines)
		fmt.Println(strings.Join(lines, "\n"))
		fmt.Println("REACH", len(reach))
	}
}
