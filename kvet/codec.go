package main

// Sibling agreement of hand-written encoder/decoder pairs (rule S/F): field coverage both ways, consistent
// field-to-field mapping, decoder ends in the type's validation.

import (
	"fmt"
	"go/types"
	"sort"
	"strings"

	"golang.org/x/tools/go/ssa"
)

// sliceFields collects the fields of named type srcT (short qualified name) read anywhere in the backward
// def-use slice of v (through phis, conversions, arithmetic, call arguments, loads of local cells and the
// elements stored into locally made slices / maps).
func sliceFields(v ssa.Value, srcT string, out map[string]bool) {
	seen := map[ssa.Value]bool{}
	var walk func(v ssa.Value, d int)
	follow := func(refs *[]ssa.Instruction, self ssa.Value, d int) {
		if refs == nil {
			return
		}
		for _, ref := range *refs {
			switch r := ref.(type) {
			case *ssa.Store:
				if r.Addr == self {
					walk(r.Val, d+1)
				}
			case *ssa.FieldAddr:
				for _, r2 := range *r.Referrers() {
					if st, ok := r2.(*ssa.Store); ok && st.Addr == r {
						walk(st.Val, d+1)
					}
				}
			case *ssa.IndexAddr:
				for _, r2 := range *r.Referrers() {
					if st, ok := r2.(*ssa.Store); ok && st.Addr == r {
						walk(st.Val, d+1)
					}
					// method calls on the element that fill it (x[i].FromProto(src))
					if cl, ok := r2.(*ssa.Call); ok {
						for _, a := range cl.Call.Args {
							if a != r {
								walk(a, d+1)
							}
						}
					}
				}
			case *ssa.MapUpdate:
				if r.Map == self {
					walk(r.Value, d+1)
					walk(r.Key, d+1)
				}
			case *ssa.Call:
				// a local cell passed by address to a filler: x.FromProto(src) / fill(&x, src)
				if isCell(self) {
					for _, a := range r.Call.Args {
						if a != self {
							walk(a, d+1)
						}
					}
				}
			}
		}
	}
	walk = func(v ssa.Value, d int) {
		if v == nil || seen[v] || d > 60 {
			return
		}
		seen[v] = true
		switch x := v.(type) {
		case *ssa.FieldAddr:
			if namedOf(x.X.Type()) == srcT {
				out[fieldName(x.X.Type(), x.Field)] = true
			}
			walk(x.X, d+1)
			return
		case *ssa.Field:
			if namedOf(x.X.Type()) == srcT {
				out[fieldName(x.X.Type(), x.Field)] = true
			}
			walk(x.X, d+1)
			return
		case *ssa.Alloc:
			follow(x.Referrers(), x, d)
			return
		case *ssa.MakeSlice:
			walk(x.Len, d+1)
			follow(x.Referrers(), x, d)
			return
		case *ssa.MakeMap:
			follow(x.Referrers(), x, d)
			return
		case *ssa.Call:
			// getters on the source message: m.GetX() reads field X
			if f := x.Call.StaticCallee(); f != nil && len(x.Call.Args) > 0 && strings.HasPrefix(f.Name(), "Get") && namedOf(x.Call.Args[0].Type()) == srcT {
				out[strings.TrimPrefix(f.Name(), "Get")] = true
			}
			// small accessor callees in the module: the fields of srcT they read flow into their result
			if f := x.Call.StaticCallee(); f != nil && f.Pkg != nil && strings.HasPrefix(f.Pkg.Pkg.Path(), modPath) && len(f.Blocks) > 0 && len(f.Blocks) <= 6 {
				for _, r := range directFieldReads(f, srcT) {
					out[r] = true
				}
			}
		}
		if in, ok := v.(ssa.Instruction); ok {
			var ops []*ssa.Value
			for _, op := range in.Operands(ops) {
				if op != nil && *op != nil {
					walk(*op, d+1)
				}
			}
		}
	}
	walk(v, 0)
}

func isCell(v ssa.Value) bool {
	_, ok := v.(*ssa.Alloc)
	return ok
}

// fieldFlows: dst field -> set of src fields, for stores in fn into fields of dstT.
func fieldFlows(fn *ssa.Function, srcT, dstT string) map[string]map[string]bool {
	out := map[string]map[string]bool{}
	allInstrs(fn, true, func(_ *ssa.Function, in ssa.Instruction) {
		st, ok := in.(*ssa.Store)
		if !ok {
			return
		}
		fa, ok := st.Addr.(*ssa.FieldAddr)
		if !ok || namedOf(fa.X.Type()) != dstT {
			return
		}
		f := fieldName(fa.X.Type(), fa.Field)
		if out[f] == nil {
			out[f] = map[string]bool{}
		}
		sliceFields(st.Val, srcT, out[f])
	})
	// fields of the destination filled by a method call on their address: dst.f.FromProto(src.g) / fill(&dst.f, src.g)
	allInstrs(fn, true, func(_ *ssa.Function, in ssa.Instruction) {
		cl, ok := in.(*ssa.Call)
		if !ok {
			return
		}
		for _, a := range cl.Call.Args {
			v := a
			if u, ok := v.(*ssa.UnOp); ok {
				v = u.X
			}
			fa, ok := v.(*ssa.FieldAddr)
			if !ok || namedOf(fa.X.Type()) != dstT {
				continue
			}
			if f := cl.Call.StaticCallee(); f != nil && !strings.Contains(f.Name(), "FromProto") && !strings.Contains(f.Name(), "Unmarshal") && !strings.HasPrefix(f.Name(), "fill") {
				continue
			}
			fname := fieldName(fa.X.Type(), fa.Field)
			if out[fname] == nil {
				out[fname] = map[string]bool{}
			}
			for _, b := range cl.Call.Args {
				if b != a {
					sliceFields(b, srcT, out[fname])
				}
			}
		}
	})
	return out
}

func setStr(m map[string]bool) string {
	var s []string
	for k := range m {
		s = append(s, k)
	}
	sort.Strings(s)
	return "{" + strings.Join(s, ",") + "}"
}

type codecSpec struct {
	Name      string            // label
	Dom       string            // short qualified domain type, e.g. "types.Header"
	Proto     string            // short qualified wire type, e.g. "proto/kardiachain/types.Header"
	Enc, Dec  string            // short function names as printed by fnName
	DomSkip   map[string]string // domain fields not on the wire (field -> reason)
	ProtoSkip map[string]string // wire fields not mapped (field -> reason)
	Validates string            // regexp the error result of the decoder's final return must match ("" = not checked)
}

func (c *Ctx) namedFields(qual string) []string {
	i := strings.LastIndex(qual, ".")
	if i < 0 {
		return nil
	}
	pk := c.P.ByPath[modPath+"/"+qual[:i]]
	if pk == nil || pk.Types == nil {
		return nil
	}
	tn, ok := pk.Types.Scope().Lookup(qual[i+1:]).(*types.TypeName)
	if !ok {
		return nil
	}
	st, ok := tn.Type().Underlying().(*types.Struct)
	if !ok {
		return nil
	}
	var out []string
	for i := 0; i < st.NumFields(); i++ {
		n := st.Field(i).Name()
		if strings.HasPrefix(n, "XXX_") {
			continue
		}
		out = append(out, n)
	}
	return out
}

// codecPair emits the sibling obligations for one encoder/decoder pair.
func (c *Ctx) codecPair(s codecSpec) {
	enc := c.P.FuncByName(s.Enc)
	dec := c.P.FuncByName(s.Dec)
	if enc == nil || dec == nil {
		c.Unres("S", s.Name+" codec", fmt.Sprintf("encoder %s or decoder %s not found", s.Enc, s.Dec))
		return
	}
	c.Funcs[s.Enc] = true
	c.Funcs[s.Dec] = true
	domF := c.namedFields(s.Dom)
	protoF := c.namedFields(s.Proto)
	if domF == nil || protoF == nil {
		c.Unres("S", s.Name+" codec", "type "+s.Dom+" or "+s.Proto+" not found")
		return
	}
	ef := fieldFlows(enc, s.Dom, s.Proto) // proto field -> domain fields
	df := fieldFlows(dec, s.Proto, s.Dom) // domain field -> proto fields
	encReads := map[string]bool{}
	for _, m := range ef {
		for f := range m {
			encReads[f] = true
		}
	}
	decReads := map[string]bool{}
	for _, m := range df {
		for f := range m {
			decReads[f] = true
		}
	}
	for _, f := range domF {
		if _, skip := s.DomSkip[f]; skip {
			continue
		}
		c.Check("S", s.Name+"/encoder "+s.Enc+" carries "+s.Dom+"."+f, encReads[f], enc.Pos(), 1,
			"field "+f+" of "+s.Dom+" never flows into a field of "+s.Proto+" in "+s.Enc+": it is lost on the wire / in the database")
		_, written := df[f]
		c.Check("S", s.Name+"/decoder "+s.Dec+" restores "+s.Dom+"."+f, written, dec.Pos(), 1,
			"field "+f+" of "+s.Dom+" is never assigned in "+s.Dec+": the decoded value differs from the encoded one")
	}
	for _, g := range protoF {
		if _, skip := s.ProtoSkip[g]; skip {
			continue
		}
		_, written := ef[g]
		c.Check("S", s.Name+"/encoder "+s.Enc+" fills "+s.Proto+"."+g, written, enc.Pos(), 1, "wire field "+g+" is never assigned by the encoder")
		c.Check("S", s.Name+"/decoder "+s.Dec+" reads "+s.Proto+"."+g, decReads[g], dec.Pos(), 1, "wire field "+g+" never flows into the decoded "+s.Dom)
	}
	// mapping agreement: if the decoder fills f from g, the encoder must fill g from f
	var fs []string
	for f := range df {
		fs = append(fs, f)
	}
	sort.Strings(fs)
	for _, f := range fs {
		if _, skip := s.DomSkip[f]; skip {
			continue
		}
		for g := range df[f] {
			if len(ef[g]) == 0 {
				continue
			}
			c.Check("S", s.Name+"/mapping "+s.Dom+"."+f+" <-> "+s.Proto+"."+g, ef[g][f], dec.Pos(), 2,
				fmt.Sprintf("decoder fills %s from wire field %s, but the encoder fills %s from %s: the pair does not round-trip", f, g, g, setStr(ef[g])))
		}
	}
	if s.Validates != "" {
		ok, n := false, 0
		for _, in := range findInstrs(dec, AnyReturn()) {
			r := in.(*ssa.Return)
			if len(r.Results) == 0 {
				continue
			}
			last := pathOf(r.Results[len(r.Results)-1])
			n++
			if re(s.Validates).MatchString(last) {
				ok = true
			}
			if last == "nil" {
				ok = false
				c.Bad("S", s.Name+"/decoder "+s.Dec+" ends in validation", instrPos(in), 1, "the decoder has a return with a literal nil error: a decoded value can leave without "+s.Validates)
				return
			}
		}
		c.Check("S", s.Name+"/decoder "+s.Dec+" ends in validation", ok, dec.Pos(), n, "the success return of the decoder must return the verdict of "+s.Validates)
	}
}

var dfrCache = map[*ssa.Function]map[string][]string{}

// directFieldReads: fields of named type t read in the body of f (and of the module callees it calls directly).
func directFieldReads(f *ssa.Function, t string) []string {
	if m, ok := dfrCache[f]; ok {
		if r, ok := m[t]; ok {
			return r
		}
	} else {
		dfrCache[f] = map[string][]string{}
	}
	set := map[string]bool{}
	var visit func(g *ssa.Function, d int)
	visit = func(g *ssa.Function, d int) {
		for _, b := range g.Blocks {
			for _, in := range b.Instrs {
				switch x := in.(type) {
				case *ssa.FieldAddr:
					if namedOf(x.X.Type()) == t {
						set[fieldName(x.X.Type(), x.Field)] = true
					}
				case *ssa.Field:
					if namedOf(x.X.Type()) == t {
						set[fieldName(x.X.Type(), x.Field)] = true
					}
				case *ssa.Call:
					if d > 0 {
						if cal := x.Call.StaticCallee(); cal != nil && cal.Pkg != nil && strings.HasPrefix(cal.Pkg.Pkg.Path(), modPath) && len(cal.Blocks) > 0 && len(cal.Blocks) <= 6 {
							visit(cal, d-1)
						}
					}
				}
			}
		}
	}
	visit(f, 1)
	var out []string
	for k := range set {
		out = append(out, k)
	}
	sort.Strings(out)
	dfrCache[f][t] = out
	return out
}
