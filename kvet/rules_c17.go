package main

// C17 — the transaction pool only offers executable transactions and respects its limits.

import (
	"strings"

	"golang.org/x/tools/go/ssa"
)

func init() {
	register("C17", []string{"mainchain/tx_pool/tx_pool.go", "mainchain/tx_pool/tx_list.go", "mainchain/tx_pool/tx_sorted_map.go", "mainchain/tx_pool/tx_priced_list.go",
		"mainchain/tx_pool/tx_noncer.go", "mainchain/tx_pool/tx_journal.go"}, runC17)
}

const poolT = `\(\*mainchain/tx_pool\.TxPool\)`

func runC17(c *Ctx) {
	c.Decided = []string{
		"validateTx is a complete checklist (size, non-negative value, block gas limit, recoverable sender, price floor for remotes, nonce not stale, balance >= cost, intrinsic gas) against the pool's current state",
		"add mutates the pool only for unknown, validated transactions; a same-nonce replacement enters a list only with the required price bump and the replaced transaction leaves the index",
		"promotion applies forward-by-state-nonce, filter-by-balance-and-gas and ready-from-pending-nonce before promoting; demotion applies forward, filter and the nonce-gap rule; truncation exempts local senders; removal drops a transaction from index and price heap together",
		"pending/queue/beats and the writes of the pool's state view are accessed only with the pool mutex held (lock summaries propagated to entry points); every lock in the package is released on every path",
	}
	c.NotDec = []string{"the pool invariant after every operation sequence (history-quantified)", "equivalence with a reference model", "eviction fairness"}
	c.Floors["G"] = 22
	c.Floors["L2"] = 10
	c17Round3(c)

	// ---- validateTx -----------------------------------------------------------------------------------
	if fn := c.Fn("mainchain/tx_pool", "TxPool", "validateTx"); fn != nil {
		from := `call:types\.Sender\(pool\.signer, tx\)#0`
		intr := `call:mainchain/tx_pool\.IntrinsicGas\(call:\(\*types\.Transaction\)\.Data\(tx\), .*\)`
		c.Guarded(fn, "return nil", SuccessReturn(0, ""),
			G("size <= txMaxSize", Cmp(`^call:\(\*types\.Transaction\)\.Size\(tx\)$`, "<=", `^const:\d+$`)),
			G("value >= 0", Cmp(`^call:\(\*math/big\.Int\)\.Sign\(call:\(\*types\.Transaction\)\.Value\(tx\)\)$`, ">=", `^const:0$`)),
			G("gas <= current block gas limit", Cmp(`^pool\.currentMaxGas$`, ">=", `^call:\(\*types\.Transaction\)\.Gas\(tx\)$`)),
			G("sender recoverable with the pool's signer", IsNil(`^call:types\.Sender\(pool\.signer, tx\)#1$`)),
			G("local, or price >= pool floor", True(`^local$`), Cmp(`^call:\(\*types\.Transaction\)\.GasPriceIntCmp\(tx, pool\.gasPrice\)$`, ">=", `^const:0$`)),
			G("state nonce <= tx nonce", Cmp(`^call:\(\*kai/state\.StateDB\)\.GetNonce\(pool\.currentState, `+from+`\)$`, "<=", `^call:\(\*types\.Transaction\)\.Nonce\(tx\)$`)),
			G("balance >= cost (value + gas*price)", Cmp(`^call:\(\*math/big\.Int\)\.Cmp\(call:\(\*kai/state\.StateDB\)\.GetBalance\(pool\.currentState, `+from+`\), call:\(\*types\.Transaction\)\.Cost\(tx\)\)$`, ">=", `^const:0$`)),
			G("IntrinsicGas error == nil", IsNil(`^`+intr+`#1$`)),
			G("gas >= intrinsic gas", Cmp(`^call:\(\*types\.Transaction\)\.Gas\(tx\)$`, ">=", `^`+intr+`#0$`)))
	}
	if fn := c.Fn("types", "Transaction", "Cost"); fn != nil {
		p := ""
		for _, in := range findInstrs(fn, CallTo(`^\(\*math/big\.Int\)\.Add$`, "")) {
			p = callPath(callCommon(in))
		}
		ok := strings.Contains(p, "tx.data.Amount") && strings.Contains(p, "Mul(") && strings.Contains(p, "tx.data.Price") && strings.Contains(p, "tx.data.GasLimit")
		for _, in := range findInstrs(fn, AnyReturn()) {
			if !strings.Contains(pathOf(in.(*ssa.Return).Results[0]), "Mul(") {
				ok = false
			}
		}
		c.Check("F", fnName(fn)+"/is amount + gasprice * gaslimit", ok, fn.Pos(), 1, clip(p, 200))
	}
	// ---- add --------------------------------------------------------------------------------------------
	if fn := c.Fn("mainchain/tx_pool", "TxPool", "add"); fn != nil {
		mut := Or(CallTo(`^\(\*mainchain/tx_pool\.txList\)\.Add$`, ""), CallTo(poolT+`\.(enqueueTx|journalTx|removeTx|queueTxEvent)$`, ""),
			CallTo(`^\(\*mainchain/tx_pool\.txLookup\)\.(Add|Remove|RemoteToLocals)$`, ""), CallTo(`^\(\*mainchain/tx_pool\.txPricedList\)\.(Put|Removed|Discard)$`, ""), StoreTo(`^&pool\.(beats\[|changesSinceReorg)`))
		c.Guarded(fn, "any pool mutation", mut,
			G("transaction not already known", IsNil(`^call:\(\*mainchain/tx_pool\.txLookup\)\.Get\(pool\.all, call:\(\*types\.Transaction\)\.Hash\(tx\)\)$`)),
			G("validateTx(tx, isLocal) == nil", IsNil(`^call:`+poolT+`\.validateTx\(pool, tx, `)))
		ins := `call:\(\*mainchain/tx_pool\.txList\)\.Add\(pool\.pending\[.*\]#?0?, tx, pool\.config\.PriceBump\)`
		c.Guarded(fn, "index the replacing transaction (all.Add / priced.Put after list.Add)", func(in ssa.Instruction) bool {
			cc := callCommon(in)
			if cc == nil || !re(`^\(\*mainchain/tx_pool\.(txLookup\)\.Add|txPricedList\)\.Put)$`).MatchString(calleeNameNoPath(cc)) {
				return false
			}
			return true
		}, G("list.Add inserted the transaction", True(`^`+ins+`#0$`)))
		c.Guarded(fn, "drop the replaced transaction from the index", CallTo(`^\(\*mainchain/tx_pool\.txLookup\)\.Remove$`, ""), G("an old transaction was replaced", NotNil(`^`+ins+`#1$`)))
		for _, in := range findInstrs(fn, CallTo(`^\(\*mainchain/tx_pool\.txLookup\)\.Remove$`, "")) {
			a := argPaths(callCommon(in))
			c.Check("F", fnName(fn)+"/the index drops exactly the replaced transaction", len(a) == 2 && re(`^call:\(\*types\.Transaction\)\.Hash\(`+ins+`#1\)$`).MatchString(a[1]), instrPos(in), 1, describeInstr(in))
		}
		// pool-full branch
		c.Guarded(fn, "discard cheaper transactions to make room", CallTo(`^\(\*mainchain/tx_pool\.txPricedList\)\.Discard$`, ""),
			G("pool is full", Cmp(`Slots\(pool\.all\)`, ">", `GlobalSlots`)),
			G("local, or not underpriced", True(`^phi\(`), False(`^call:\(\*mainchain/tx_pool\.txPricedList\)\.Underpriced\(pool\.priced, tx\)$`)))
	}
	if fn := c.Fn("mainchain/tx_pool", "txList", "Add"); fn != nil {
		old := `call:\(\*mainchain/tx_pool\.txSortedMap\)\.Get\(l\.txs, call:\(\*types\.Transaction\)\.Nonce\(tx\)\)`
		put := CallTo(`^\(\*mainchain/tx_pool\.txSortedMap\)\.Put$`, "")
		c.Guarded(fn, "l.txs.Put(tx)", put,
			G("no same-nonce transaction, or the old one is strictly cheaper", IsNil(`^`+old+`$`), Cmp(`^call:\(\*types\.Transaction\)\.GasPriceCmp\(`+old+`, tx\)$`, "<", `^const:0$`)),
			G("no same-nonce transaction, or the new price reaches the bumped threshold", IsNil(`^`+old+`$`), Cmp(`^call:\(\*types\.Transaction\)\.GasPriceIntCmp\(tx, .*\)$`, ">=", `^const:0$`)))
		// threshold = old.GasPrice * (100 + priceBump) / 100
		thr := ""
		for _, in := range findInstrs(fn, CallTo(`^\(\*types\.Transaction\)\.GasPriceIntCmp$`, "")) {
			a := argPaths(callCommon(in))
			if len(a) == 2 {
				thr = a[1]
			}
		}
		ok := strings.Contains(thr, "Div(") && strings.Contains(thr, "Mul(") && strings.Contains(thr, "(const:100 + priceBump)") && strings.Contains(thr, "GasPrice("+strings.ReplaceAll(strings.ReplaceAll(old, `\`, ""), "", "")) && strings.Contains(thr, "NewInt(const:100)")
		c.Check("F", fnName(fn)+"/threshold is oldPrice * (100 + priceBump) / 100", ok, fn.Pos(), 1, clip(thr, 260))
		for _, in := range findInstrs(fn, AnyReturn()) {
			r := in.(*ssa.Return)
			if pathOf(r.Results[0]) == "const:true" {
				c.Check("F", fnName(fn)+"/reports the replaced transaction", re(`^`+old+`$`).MatchString(pathOf(r.Results[1])), instrPos(in), 1, describeInstr(in))
			}
		}
		c.Precedes(fn, "l.txs.Put(tx)", put, "return inserted = true", ReturnWith(0, `^const:true$`))
	}
	// ---- promotion / demotion -----------------------------------------------------------------------------
	if fn := c.Fn("mainchain/tx_pool", "TxPool", "promoteExecutables"); fn != nil {
		lst := `pool\.queue\[.*\]`
		fwd := CallTo(`^\(\*mainchain/tx_pool\.txList\)\.Forward$`, `Forward\(`+lst+`, call:\(\*kai/state\.StateDB\)\.GetNonce\(pool\.currentState, `)
		flt := CallTo(`^\(\*mainchain/tx_pool\.txList\)\.Filter$`, `Filter\(`+lst+`, call:\(\*kai/state\.StateDB\)\.GetBalance\(pool\.currentState, .*\), pool\.currentMaxGas\)`)
		rdy := CallTo(`^\(\*mainchain/tx_pool\.txList\)\.Ready$`, `Ready\(`+lst+`, call:\(\*mainchain/tx_pool\.txNoncer\)\.get\(pool\.pendingNonces, `)
		prm := CallTo(poolT+`\.promoteTx$`, "")
		for d, s := range map[string]SinkSel{"Forward(state nonce)": fwd, "Filter(balance, max gas)": flt, "Ready(pending nonce)": rdy} {
			n := len(findInstrs(fn, s))
			c.Check("O", fnName(fn)+"/applies "+d, n == 1, fn.Pos(), n, "")
		}
		c.Precedes(fn, "Forward(state nonce)", fwd, "Ready(pending nonce)", rdy)
		c.Precedes(fn, "Filter(balance, max gas)", flt, "Ready(pending nonce)", rdy)
		c.Precedes(fn, "Ready(pending nonce)", rdy, "promoteTx", prm)
		for _, in := range findInstrs(fn, prm) {
			a := argPaths(callCommon(in))
			c.Check("F", fnName(fn)+"/promotes only transactions returned by Ready", len(a) == 4 && strings.Contains(a[3], ".Ready("), instrPos(in), 1, describeInstr(in))
		}
		c.Guarded(fn, "cap the queue of an account", CallTo(`^\(\*mainchain/tx_pool\.txList\)\.Cap$`, ""), G("account is not local", False(`^call:\(\*mainchain/tx_pool\.accountSet\)\.contains\(pool\.locals, `)))
		// everything dropped leaves the index
		nRem := len(findInstrs(fn, CallTo(`^\(\*mainchain/tx_pool\.txLookup\)\.Remove$`, "")))
		c.Check("O", fnName(fn)+"/forwarded, unpayable and capped transactions leave the index", nRem == 3, fn.Pos(), nRem, "")
	}
	if fn := c.Fn("mainchain/tx_pool", "TxPool", "demoteUnexecutables"); fn != nil {
		nonce := `call:\(\*kai/state\.StateDB\)\.GetNonce\(pool\.currentState, `
		fwd := CallTo(`^\(\*mainchain/tx_pool\.txList\)\.Forward$`, `Forward\(.*, `+nonce)
		flt := CallTo(`^\(\*mainchain/tx_pool\.txList\)\.Filter$`, `Filter\(.*, call:\(\*kai/state\.StateDB\)\.GetBalance\(pool\.currentState, .*\), pool\.currentMaxGas\)`)
		c.Check("O", fnName(fn)+"/applies Forward(state nonce)", len(findInstrs(fn, fwd)) == 1, fn.Pos(), 1, "")
		c.Check("O", fnName(fn)+"/applies Filter(balance, max gas)", len(findInstrs(fn, flt)) == 1, fn.Pos(), 1, "")
		c.Guarded(fn, "demote a gapped list (Cap(0))", CallTo(`^\(\*mainchain/tx_pool\.txList\)\.Cap$`, `const:0\)$`),
			G("list not empty", Cmp(`^call:\(\*mainchain/tx_pool\.txList\)\.Len\(`, ">", `^const:0$`)),
			G("no transaction at the state nonce", IsNil(`^call:\(\*mainchain/tx_pool\.txSortedMap\)\.Get\(.*\.txs, `+nonce)))
		n := len(findInstrs(fn, CallTo(`^\(\*mainchain/tx_pool\.txList\)\.Cap$`, `const:0\)$`)))
		c.Check("O", fnName(fn)+"/nonce-gap rule present", n == 1, fn.Pos(), n, "a pending list whose first nonce is missing must be moved back to the queue")
		nEnq := len(findInstrs(fn, CallTo(poolT+`\.enqueueTx$`, "")))
		c.Check("O", fnName(fn)+"/invalidated and gapped transactions are re-queued", nEnq == 2, fn.Pos(), nEnq, "")
		nRem := len(findInstrs(fn, CallTo(`^\(\*mainchain/tx_pool\.txLookup\)\.Remove$`, "")))
		c.Check("O", fnName(fn)+"/old and unpayable transactions leave the index", nRem == 2, fn.Pos(), nRem, "")
	}
	for _, name := range []string{"truncatePending", "truncateQueue"} {
		if fn := c.Fn("mainchain/tx_pool", "TxPool", name); fn != nil {
			n := 0
			allInstrs(fn, true, func(_ *ssa.Function, in ssa.Instruction) {
				if cc := callCommon(in); cc != nil && calleeNameNoPath(cc) == "(*mainchain/tx_pool.accountSet).contains" && strings.Contains(callPath(cc), "pool.locals") {
					n++
				}
			})
			c.Check("G", fnName(fn)+"/local senders are exempt", n >= 1, fn.Pos(), n, "truncation must test pool.locals.contains(addr) before selecting an account for eviction")
		}
	}
	if fn := c.Fn("mainchain/tx_pool", "TxPool", "truncateQueue"); fn != nil {
		c.Guarded(fn, "select an account for eviction (append to addresses)", func(in ssa.Instruction) bool {
			cc := callCommon(in)
			return cc != nil && calleeNameNoPath(cc) == "append" && strings.Contains(callPath(cc), "addressByHeartbeat")
		}, G("account is not local", False(`^call:\(\*mainchain/tx_pool\.accountSet\)\.contains\(pool\.locals, `)))
	}
	if fn := c.Fn("mainchain/tx_pool", "TxPool", "truncatePending"); fn != nil {
		c.Guarded(fn, "select an account as spammer (Push)", CallTo(`\)\.Push(\[|$)`, ""), G("account is not local", False(`^call:\(\*mainchain/tx_pool\.accountSet\)\.contains\(pool\.locals, `)))
	}
	if fn := c.Fn("mainchain/tx_pool", "TxPool", "removeTx"); fn != nil {
		rem := CallTo(`^\(\*mainchain/tx_pool\.txLookup\)\.Remove$`, "")
		c.Guarded(fn, "remove from the index", rem, G("transaction is known", NotNil(`^call:\(\*mainchain/tx_pool\.txLookup\)\.Get\(pool\.all, hash\)$`)))
		n := len(findInstrs(fn, rem))
		c.Check("O", fnName(fn)+"/drops the transaction from the index", n == 1, fn.Pos(), n, "")
		c.Guarded(fn, "tell the price heap (priced.Removed)", CallTo(`^\(\*mainchain/tx_pool\.txPricedList\)\.Removed$`, ""), G("only for out-of-bound removals (as upstream)", True(`^outofbound$`)))
	}
	if fn := c.Fn("mainchain/tx_pool", "TxPool", "removeTx"); fn != nil {
		// removing an executable transaction lowers the sender's pending nonce to it, also when the list becomes empty
		addr := `call:types\.Sender\(pool\.signer, call:\(\*mainchain/tx_pool\.txLookup\)\.Get\(pool\.all, hash\)\)#0`
		low := func(in ssa.Instruction) bool {
			cc := callCommon(in)
			if cc == nil || calleeNameNoPath(cc) != "(*mainchain/tx_pool.txNoncer).setIfLower" {
				return false
			}
			a := argPaths(cc)
			return len(a) == 3 && a[0] == "pool.pendingNonces" && re(`^`+addr+`$`).MatchString(a[1]) && strings.HasPrefix(a[2], "call:(*types.Transaction).Nonce(call:(*mainchain/tx_pool.txLookup).Get(pool.all, hash)")
		}
		c.AfterGuard(fn, G("the transaction was removed from the pending list", True(`^call:\(\*mainchain/tx_pool\.txList\)\.Remove\(pool\.pending\[.*#0$`)), "lower the pending nonce to the removed transaction's nonce", low, "returning", AnyReturn())
	}
	if fn := c.Fn("mainchain/tx_pool", "TxPool", "promoteTx"); fn != nil {
		c.Guarded(fn, "advance the pending nonce / heartbeat", Or(CallTo(`^\(\*mainchain/tx_pool\.txNoncer\)\.set$`, ""), StoreTo(`^&pool\.beats\[`)), G("list.Add inserted the transaction", True(`^call:\(\*mainchain/tx_pool\.txList\)\.Add\(.*\)#0$`)))
		for _, in := range findInstrs(fn, CallTo(`^\(\*mainchain/tx_pool\.txNoncer\)\.set$`, "")) {
			a := argPaths(callCommon(in))
			c.Check("F", fnName(fn)+"/pending nonce becomes tx.Nonce()+1", len(a) == 3 && a[2] == "(call:(*types.Transaction).Nonce(tx) + const:1)", instrPos(in), 1, describeInstr(in))
		}
	}
	// ---- locking ---------------------------------------------------------------------------------------------
	c.GuardedBy("mainchain/tx_pool", "TxPool", "mu", []string{"pending", "queue", "beats", "changesSinceReorg"}, []string{"currentState", "currentMaxGas", "pendingNonces", "gasPrice"},
		map[string]string{
			"mainchain/tx_pool.NewTxPool": "constructor: the pool is not shared yet when reset() and the journal load run",
		})
	c.LockPairing([]string{"mainchain/tx_pool"}, map[string]string{})
	runC17Containers(c)
}
