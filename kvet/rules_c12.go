package main

// C12 — proposer rotation is the specified weighted round-robin; set updates are well-formed.

import (
	"fmt"
	"sort"
	"strings"

	"golang.org/x/tools/go/ssa"
)

func init() {
	register("C12", []string{"types/validator_set.go", "types/validator.go", "kai/state/cstate/execution.go"}, runC12)
}

const vsT = `\(\*types\.ValidatorSet\)`

func runC12(c *Ctx) {
	c.Decided = []string{
		"no numeric guard in the rotation / update arithmetic is decided constant by constant propagation with int64 wrap-around and type-extreme facts (open finding: the max/min scan of the priority window is dead, so the window is never enforced)",
		"IncrementProposerPriority rescales to the 2*total window, centres on the average, then increments `times` times; each increment adds every validator's power and the highest-priority validator pays the total; ties break by address",
		"newcomers start at -(T + T>>3) of the updated total; existing validators keep their priority",
		"the update pipeline verifies everything before the first mutation (no error return after a mutator), works on a sorted copy, and rejects duplicates, negative and oversized powers, unknown removals, totals above the cap and emptying the set",
		"consensus state advances the next validator set by exactly one increment per block, after applying the change set to a copy",
	}
	c.NotDec = []string{"equality with an executable transcription of the specification over histories", "proportional fairness / absence of starvation", "absence of overflow in unguarded additions"}
	c.Floors["I"] = 10
	c.Floors["G"] = 14

	// ---- I: dead numeric guards ----------------------------------------------------------------------
	names := [][3]string{{"types", "ValidatorSet", "IncrementProposerPriority"}, {"types", "ValidatorSet", "RescalePriorities"}, {"types", "ValidatorSet", "incrementProposerPriority"},
		{"types", "", "computeMaxMinPriorityDiff"}, {"types", "ValidatorSet", "computeAvgProposerPriority"}, {"types", "ValidatorSet", "shiftByAvgProposerPriority"},
		{"types", "ValidatorSet", "getValWithMostPriority"}, {"types", "Validator", "CompareProposerPriority"}, {"types", "", "safeAdd"}, {"types", "", "safeSub"},
		{"types", "", "safeAddClip"}, {"types", "", "safeSubClip"}, {"types", "", "computeNewPriorities"}, {"types", "", "verifyUpdates"}, {"types", "ValidatorSet", "updateTotalVotingPower"},
		{"types", "", "processChanges"}, {"types", "", "verifyRemovals"}}
	summaries := map[*ssa.Function]lat{}
	var fns []*ssa.Function
	for _, n := range names {
		if fn := c.Fn(n[0], n[1], n[2]); fn != nil {
			fns = append(fns, fn)
		}
	}
	for round := 0; round < 2; round++ {
		for _, fn := range fns {
			if r := sccp(fn, summaries); r.ConstRet != nil {
				summaries[fn] = *r.ConstRet
			}
		}
	}
	for _, fn := range fns {
		r := sccp(fn, summaries)
		if len(r.DeadEdges) == 0 {
			c.OK("I", fnName(fn)+"/no branch decided constant", fn.Pos(), len(fn.Blocks), "")
		} else {
			var ds []string
			for _, d := range r.DeadEdges {
				ds = append(ds, fmt.Sprintf("%s: `%s` is always %v", c.P.Pos(instrPos(d.If)), clip(pathOf(d.If.Cond), 120), d.Always))
			}
			c.Bad("I", fnName(fn)+"/no branch decided constant", instrPos(r.DeadEdges[0].If), len(r.DeadEdges),
				"constant propagation with int64 wrap-around (x > MaxInt64 and x < MinInt64 are impossible) decides these branches: "+strings.Join(ds, "; ")+" — the guarded updates are dead code, so the values they were meant to track never change")
		}
		if k, ok := summaries[fn]; ok && (k.kind == 1) {
			c.Bad("I", fnName(fn)+"/does not return a constant", fn.Pos(), 1, fmt.Sprintf("every reachable return of %s yields the constant %d whatever its input", fnName(fn), k.i))
		}
	}

	// ---- spec shape ------------------------------------------------------------------------------------
	factor := c.P.Const("types", "PriorityWindowSizeFactor")
	c.Check("T", "PriorityWindowSizeFactor == 2", factor == "2", c.fnPos("(*types.ValidatorSet).IncrementProposerPriority"), 1, "window factor is "+factor)
	tvp := `call:` + vsT + `\.TotalVotingPower\(vs\)`
	if fn := c.Fn("types", "ValidatorSet", "IncrementProposerPriority"); fn != nil {
		resc := CallTo(vsT+`\.RescalePriorities$`, "")
		shift := CallTo(vsT+`\.shiftByAvgProposerPriority$`, "")
		inc := CallTo(vsT+`\.incrementProposerPriority$`, "")
		c.Precedes(fn, "RescalePriorities", resc, "shiftByAvgProposerPriority", shift)
		c.Precedes(fn, "shiftByAvgProposerPriority", shift, "incrementProposerPriority", inc)
		c.OnEveryPath(fn, "RescalePriorities", resc, "return", AnyReturn())
		for _, in := range findInstrs(fn, resc) {
			a := argPaths(callCommon(in))
			c.Check("F", fnName(fn)+"/window is PriorityWindowSizeFactor * TotalVotingPower()", len(a) == 2 && re(`^\(const:`+factor+` \* `+tvp+`\)$`).MatchString(a[1]), instrPos(in), 1, describeInstr(in))
		}
		c.Guarded(fn, "rotation", Or(resc, inc), G("times > 0", Cmp(`^times$`, ">", `^const:0$`)), G("set not empty", False(`^call:`+vsT+`\.IsNilOrEmpty\(vs\)$`)))
		// loop runs `times` iterations
		okLoop := false
		allInstrs(fn, false, func(_ *ssa.Function, in ssa.Instruction) {
			if iff, ok := in.(*ssa.If); ok {
				if m, _ := matchCond(Cmp(`^phi\(`, "<", `^times$`), iff.Cond); m {
					okLoop = true
				}
			}
		})
		c.Check("F", fnName(fn)+"/increments `times` times", okLoop, fn.Pos(), 1, "")
		for _, in := range findInstrs(fn, StoreTo(`^&vs\.Proposer$`)) {
			c.Check("F", fnName(fn)+"/proposer is the validator chosen by the last increment", strings.Contains(pathOf(in.(*ssa.Store).Val), "incrementProposerPriority(vs)"), instrPos(in), 1, describeInstr(in))
		}
	}
	if fn := c.Fn("types", "ValidatorSet", "incrementProposerPriority"); fn != nil {
		okAdd, okPay := false, false
		for _, in := range findInstrs(fn, StoreTo(`\.ProposerPriority$`)) {
			st := in.(*ssa.Store)
			v := pathOf(st.Val)
			a := pathOf(st.Addr)
			if re(`^\(vs\.Validators\[.*\]\.ProposerPriority \+ vs\.Validators\[.*\]\.VotingPower\)$`).MatchString(v) {
				okAdd = true
			}
			if strings.HasPrefix(a, "&call:(*types.ValidatorSet).getValWithMostPriority(vs).ProposerPriority") &&
				re(`^call:types\.safeSubClip\(call:`+vsT+`\.getValWithMostPriority\(vs\)\.ProposerPriority, `+tvp+`\)$`).MatchString(v) {
				okPay = true
			}
		}
		c.Check("F", fnName(fn)+"/every validator gains its voting power", okAdd, fn.Pos(), 1, "")
		c.Check("F", fnName(fn)+"/the highest-priority validator pays the total voting power", okPay, fn.Pos(), 1, "")
		ok := false
		for _, in := range findInstrs(fn, AnyReturn()) {
			ok = pathOf(in.(*ssa.Return).Results[0]) == "call:(*types.ValidatorSet).getValWithMostPriority(vs)"
		}
		c.Check("F", fnName(fn)+"/returns that validator", ok, fn.Pos(), 1, "")
	}
	if fn := c.Fn("types", "ValidatorSet", "getValWithMostPriority"); fn != nil {
		n := len(findInstrs(fn, CallTo(`^\(\*types\.Validator\)\.CompareProposerPriority$`, "")))
		c.Check("F", fnName(fn)+"/folds CompareProposerPriority over the set", n == 1, fn.Pos(), n, "")
	}
	if fn := c.Fn("types", "Validator", "CompareProposerPriority"); fn != nil {
		c.Guarded(fn, "return v (the receiver wins)", ReturnWith(0, `^v$`),
			G("v.priority > other.priority, or equal priority and smaller address", Cmp(`^v\.ProposerPriority$`, ">", `^other\.ProposerPriority$`), Cmp(`^call:bytes\.Compare\(.*v\.Address.*other\.Address.*\)$`, "<", `^const:0$`)))
		c.Guarded(fn, "address tie-break", CallTo(`^bytes\.Compare$`, ""),
			G("priorities equal", Cmp(`^v\.ProposerPriority$`, "<=", `^other\.ProposerPriority$`)), G("priorities equal (2)", Cmp(`^v\.ProposerPriority$`, ">=", `^other\.ProposerPriority$`)))
	}
	if fn := c.Fn("types", "ValidatorSet", "RescalePriorities"); fn != nil {
		diff := `call:types\.computeMaxMinPriorityDiff\(vs\)`
		c.Guarded(fn, "divide priorities", StoreTo(`\.ProposerPriority$`), G("diff > diffMax", Cmp(`^`+diff+`$`, ">", `^diffMax$`)), G("diffMax > 0", Cmp(`^diffMax$`, ">", `^const:0$`)))
		for _, in := range findInstrs(fn, StoreTo(`\.ProposerPriority$`)) {
			v := pathOf(in.(*ssa.Store).Val)
			c.Check("F", fnName(fn)+"/divides by ceil(diff/diffMax)", re(`^\(vs\.Validators\[.*\]\.ProposerPriority / \(\(\(`+diff+` \+ diffMax\) - const:1\) / diffMax\)\)$`).MatchString(v), instrPos(in), 1, clip(v, 200))
		}
	}
	if fn := c.Fn("types", "ValidatorSet", "shiftByAvgProposerPriority"); fn != nil {
		ok := false
		for _, in := range findInstrs(fn, StoreTo(`\.ProposerPriority$`)) {
			ok = re(`^call:types\.safeSubClip\(vs\.Validators\[.*\]\.ProposerPriority, call:` + vsT + `\.computeAvgProposerPriority\(vs\)\)$`).MatchString(pathOf(in.(*ssa.Store).Val))
		}
		c.Check("F", fnName(fn)+"/subtracts the average from every priority", ok, fn.Pos(), 1, "")
	}
	if fn := c.Fn("types", "", "computeNewPriorities"); fn != nil {
		var vals []string
		for _, in := range findInstrs(fn, StoreTo(`\.ProposerPriority$`)) {
			vals = append(vals, pathOf(in.(*ssa.Store).Val))
		}
		sort.Strings(vals)
		okNew, okOld := false, false
		for _, v := range vals {
			if v == "-(updatedTotalVotingPower + (updatedTotalVotingPower >> const:3))" {
				okNew = true
			}
			if re(`^call:` + vsT + `\.GetByAddress\(vs, .*\)#1\.ProposerPriority$`).MatchString(v) {
				okOld = true
			}
		}
		c.Check("F", fnName(fn)+"/newcomer priority is -(T' + T'>>3) of the updated total", okNew, fn.Pos(), 1, strings.Join(vals, " ; "))
		c.Check("F", fnName(fn)+"/existing validators keep their priority", okOld, fn.Pos(), 1, strings.Join(vals, " ; "))
		c.Guarded(fn, "assign the newcomer priority", func(in ssa.Instruction) bool {
			st, ok := in.(*ssa.Store)
			return ok && strings.HasSuffix(pathOf(st.Addr), ".ProposerPriority") && strings.HasPrefix(pathOf(st.Val), "-(")
		}, G("validator not in the set", IsNil(`^call:`+vsT+`\.GetByAddress\(vs, .*\)#1$`)))
	}

	// ---- verify-then-apply ---------------------------------------------------------------------------
	if fn := c.Fn("types", "ValidatorSet", "updateWithChangeSet"); fn != nil {
		mut := Or(CallTo(vsT+`\.(applyUpdates|applyRemovals|updateTotalVotingPower|RescalePriorities|shiftByAvgProposerPriority)$`, ""), CallTo(`^sort\.Sort$`, ""), CallTo(`^types\.computeNewPriorities$`, ""))
		c.Guarded(fn, "mutation of the set", mut,
			G("processChanges error == nil", IsNil(`^call:types\.processChanges\(changes\)#2$`)),
			G("deletes allowed or none", True(`^allowDeletes$`), Cmp(`^call:len\(call:types\.processChanges\(changes\)#1\)$`, "==", `^const:0$`)),
			G("verifyRemovals error == nil", IsNil(`^call:types\.verifyRemovals\(call:types\.processChanges\(changes\)#1, vs\)#1$`)),
			G("verifyUpdates error == nil", IsNil(`^call:types\.verifyUpdates\(call:types\.processChanges\(changes\)#0, vs, call:types\.verifyRemovals\(.*\)#0\)#1$`)),
			G("result not empty", Cmp(`^call:types\.numNewValidators\(call:types\.processChanges\(changes\)#0, vs\)$`, "!=", `^const:0$`), Cmp(`^call:len\(vs\.Validators\)$`, "!=", `^call:len\(call:types\.processChanges\(changes\)#1\)$`)))
		// all-or-nothing: after the first mutator no error can be returned
		muts := findInstrs(fn, mut)
		bad := ""
		for _, m := range muts {
			w := &Walker{P: c.P}
			hit, found := w.Reach(fn, m.Block(), instrIndex(m)+1, func(in ssa.Instruction) bool {
				r, ok := in.(*ssa.Return)
				return ok && len(r.Results) == 1 && pathOf(r.Results[0]) != "nil"
			})
			if found {
				bad = describeInstr(m) + " can be followed by the error return at " + c.P.Pos(instrPos(hit.Instr))
				break
			}
		}
		c.Check("O", fnName(fn)+"/no error return after the first mutation (all-or-nothing)", bad == "" && len(muts) >= 5, fn.Pos(), len(muts), bad)
		apU := CallTo(vsT+`\.applyUpdates$`, "")
		apR := CallTo(vsT+`\.applyRemovals$`, "")
		c.Precedes(fn, "computeNewPriorities", CallTo(`^types\.computeNewPriorities$`, ""), "applyUpdates", apU)
		c.Precedes(fn, "applyUpdates", apU, "applyRemovals", apR)
		c.Precedes(fn, "applyRemovals", apR, "updateTotalVotingPower", CallTo(vsT+`\.updateTotalVotingPower$`, ""))
		c.Precedes(fn, "updateTotalVotingPower", CallTo(vsT+`\.updateTotalVotingPower$`, ""), "RescalePriorities", CallTo(vsT+`\.RescalePriorities$`, ""))
		c.Precedes(fn, "RescalePriorities", CallTo(vsT+`\.RescalePriorities$`, ""), "shiftByAvgProposerPriority", CallTo(vsT+`\.shiftByAvgProposerPriority$`, ""))
		for _, in := range findInstrs(fn, CallTo(`^types\.computeNewPriorities$`, "")) {
			a := argPaths(callCommon(in))
			c.Check("F", fnName(fn)+"/newcomer priorities use the verified updated total", len(a) == 3 && strings.HasSuffix(a[2], "#0") && strings.HasPrefix(a[2], "call:types.verifyUpdates("), instrPos(in), 1, describeInstr(in))
		}
		n := len(findInstrs(fn, CallTo(`^sort\.Sort$`, `ValidatorsByVotingPower|vs\.Validators`)))
		c.Check("O", fnName(fn)+"/result is sorted (ValidatorsByVotingPower)", n == 1, fn.Pos(), n, "")
	}
	if fn := c.Fn("types", "", "processChanges"); fn != nil {
		srt := CallTo(`^sort\.Sort$`, "")
		c.Precedes(fn, "sort.Sort(ValidatorsByAddress(copy))", srt, "scan of the changes", func(in ssa.Instruction) bool {
			cc := callCommon(in)
			return cc != nil && calleeNameNoPath(cc) == "(lib/common.Address).Equal"
		})
		for _, in := range findInstrs(fn, srt) {
			c.Check("F", fnName(fn)+"/sorts a copy of the input", strings.Contains(callPath(callCommon(in)), "call:types.validatorListCopy(origChanges)"), instrPos(in), 1, describeInstr(in))
		}
		maxP := c.P.Const("types", "MaxTotalVotingPower")
		app := func(in ssa.Instruction) bool {
			cc := callCommon(in)
			return cc != nil && calleeNameNoPath(cc) == "append"
		}
		c.Guarded(fn, "accept a change (append)", app,
			G("not a duplicate of the previous address", False(`^call:\(lib/common\.Address\)\.Equal\(.*\.Address, .*\)$`)),
			G("power >= 0", Cmp(`\.VotingPower$`, ">=", `^const:0$`)),
			G("power <= MaxTotalVotingPower", Cmp(`\.VotingPower$`, "<=", `^const:`+maxP+`$`)))
		okPrev := false
		for _, in := range findInstrs(fn, CallTo(`^\(lib/common\.Address\)\.Equal$`, "")) {
			a := argPaths(callCommon(in))
			okPrev = len(a) == 2 && strings.HasPrefix(a[1], "phi(") && strings.Contains(a[1], ".Address")
		}
		c.Check("F", fnName(fn)+"/the previous address advances", okPrev, fn.Pos(), 1, "the duplicate test must compare with the address of the previous (sorted) entry, otherwise duplicates pass")
	}
	if fn := c.Fn("types", "", "verifyRemovals"); fn != nil {
		c.Guarded(fn, "accumulate removed power", func(in ssa.Instruction) bool {
			b, ok := in.(*ssa.BinOp)
			return ok && b.Op.String() == "+" && strings.HasSuffix(pathOf(b.Y), ".VotingPower")
		}, G("validator to remove is in the set", NotNil(`^call:`+vsT+`\.GetByAddress\(vs, .*\)#1$`)))
	}
	if fn := c.Fn("types", "", "verifyUpdates"); fn != nil {
		maxP := c.P.Const("types", "MaxTotalVotingPower")
		c.Guarded(fn, "return ErrTotalVotingPowerOverflow", ReturnWith(1, `^global:types\.ErrTotalVotingPowerOverflow$`),
			G("running total > MaxTotalVotingPower", Cmp(`TotalVotingPower\(vals\) - removedPower`, ">", `^const:`+maxP+`$`)))
		// the test follows every accumulation step before the next one
		acc := func(in ssa.Instruction) bool {
			b, ok := in.(*ssa.BinOp)
			return ok && b.Op.String() == "+" && strings.Contains(pathOf(b.Y), "verifyUpdates$1(")
		}
		test := func(in ssa.Instruction) bool {
			iff, ok := in.(*ssa.If)
			if !ok {
				return false
			}
			m, _ := matchCond(Cmp(`TotalVotingPower\(vals\) - removedPower`, ">", `^const:`+maxP+`$`), iff.Cond)
			return m
		}
		c.FollowedBy(fn, "total += delta", acc, "cap test", test, "next step / return", Or(acc, AnyReturn()))
		c.OnFailureTo(fn, G("running total <= MaxTotalVotingPower", Cmp(`TotalVotingPower\(vals\) - removedPower`, "<=", `^const:`+maxP+`$`)),
			"return ErrTotalVotingPowerOverflow", ReturnWith(1, `^global:types\.ErrTotalVotingPowerOverflow$`), Or(acc, SuccessReturn(1, "")))
	}
	if fn := c.Fn("types", "", "NewValidatorSet"); fn != nil {
		ok := false
		for _, in := range findInstrs(fn, CallTo(vsT+`\.updateWithChangeSet$`, "")) {
			a := argPaths(callCommon(in))
			ok = len(a) == 3 && a[2] == "const:false"
		}
		c.Check("F", fnName(fn)+"/deletes are not allowed when building a set", ok, fn.Pos(), 1, "")
	}

	// ---- consensus: a skipped-to round advances the rotation by the number of rounds skipped -------------------
	if fn := c.Fn("consensus", "ConsensusState", "enterNewRound"); fn != nil {
		inc := CallTo(vsT+`\.IncrementProposerPriority$`, "")
		calls := findInstrs(fn, inc)
		ok := len(calls) == 1
		if ok {
			a := argPaths(callCommon(calls[0]))
			ok = len(a) == 2 && a[0] == "call:(*types.ValidatorSet).Copy(cs.RoundState.Validators)" && a[1] == "(round - cs.RoundState.Round)"
		}
		c.Check("F", fnName(fn)+"/rotation advances a copy of the validators by round - cs.Round", ok, fn.Pos(), len(calls),
			"entering round r from round cs.Round must apply IncrementProposerPriority(r - cs.Round) to a copy of cs.Validators; any other amount makes a node that skips rounds disagree with the others about the proposer")
		c.Guarded(fn, "advance the rotation", inc, G("cs.Round < round", Cmp(reR, "<", `^round$`)))
		for _, in := range findInstrs(fn, StoreTo(`^&cs\.RoundState\.Validators$`)) {
			v := pathOf(in.(*ssa.Store).Val)
			c.Check("F", fnName(fn)+"/cs.Validators becomes the advanced copy (or stays)", strings.Contains(v, "call:(*types.ValidatorSet).Copy(cs.RoundState.Validators)") && strings.Contains(v, "cs.RoundState.Validators"), instrPos(in), 1, v)
		}
	}

	// ---- consensus state: one increment per block ------------------------------------------------------
	if fn := c.Fn("kai/state/cstate", "", "updateState"); fn != nil {
		inc := CallTo(vsT+`\.IncrementProposerPriority$`, "")
		c.AtMostOncePerPath(fn, "IncrementProposerPriority", inc)
		c.OnEveryPath(fn, "IncrementProposerPriority", inc, "success return", SuccessReturn(1, ""))
		for _, in := range findInstrs(fn, inc) {
			a := argPaths(callCommon(in))
			c.Check("F", fnName(fn)+"/advances a copy of NextValidators by one", len(a) == 2 && a[0] == "call:(*types.ValidatorSet).Copy(state.NextValidators)" && a[1] == "const:1", instrPos(in), 1, describeInstr(in))
		}
		c.Precedes(fn, "UpdateWithChangeSet (when there are updates)", Or(CallTo(vsT+`\.UpdateWithChangeSet$`, ""), func(in ssa.Instruction) bool {
			iff, ok := in.(*ssa.If)
			if !ok {
				return false
			}
			m, _ := matchCond(Cmp(`^call:len\(validatorUpdates\)$`, ">", `^const:0$`), iff.Cond)
			return m
		}), "IncrementProposerPriority", inc)
		c.Guarded(fn, "IncrementProposerPriority", inc, G("no updates, or UpdateWithChangeSet error == nil", IsNil(`^call:`+vsT+`\.UpdateWithChangeSet\(call:`+vsT+`\.Copy\(state\.NextValidators\), validatorUpdates\)$`), Cmp(`^call:len\(validatorUpdates\)$`, "<=", `^const:0$`)))
	}
	validatorSetRoles(c)
	// the rotation survives a restart only if every save writes the next set's priorities (C14), and the change set is
	// computed against the set it is applied to (C06)
	nextSetSavedRule(c)
	c06Validators(c)
	// a reloaded set names the proposer that was stored (not one re-derived from the priorities, which the elected
	// proposer has already paid for), and a proposal is judged against the proposer of the set advanced to this round
	for _, sp := range c14Codecs {
		if sp.Name == "ValidatorSet" || sp.Name == "Validator" {
			c.codecPair(sp)
		}
	}
	if fn := c.Fn("consensus", "ConsensusState", "setProposal"); fn != nil {
		c.Guarded(fn, "accept the proposal", StoreTo(`^&cs\.RoundState\.Proposal$`), G("signed by the proposer of the round's validator set",
			True(`^call:types\.VerifySignature\(call:\(\*types\.ValidatorSet\)\.GetProposer\(cs\.RoundState\.Validators\)\.Address, `)))
	}
}

// validatorSetRoles: which of the three validator sets of a state judges what. Applying a block shifts them by one
// (next -> current -> last); the commit of the previous height — in a block, and when it is rebuilt after a restart — is
// judged by the LAST validators, and consensus works with the state's current and last sets. Shared by C12 (set
// updates), C01/C02/C03 (a commit verifies against the previous validator set) and C05 (the last commit rebuilt on
// restart).
func validatorSetRoles(c *Ctx) {
	vsT := `\(\*types\.ValidatorSet\)`
	if fn := c.Fn("kai/state/cstate", "", "updateState"); fn != nil {
		want := map[string]string{"NextValidators": `^call:` + vsT + `\.Copy\(state\.NextValidators\)$`, "Validators": `^call:` + vsT + `\.Copy\(state\.NextValidators\)$`, "LastValidators": `^call:` + vsT + `\.Copy\(state\.Validators\)$`}
		got := map[string][]string{}
		for _, in := range findInstrs(fn, StoreTo(`^&alloc:complit:kai/state/cstate\.LatestBlockState\.`)) {
			st := in.(*ssa.Store)
			f := pathOf(st.Addr)
			f = f[strings.LastIndex(f, ".")+1:]
			got[f] = append(got[f], pathOf(st.Val))
		}
		for _, f := range []string{"NextValidators", "Validators", "LastValidators"} {
			ok := len(got[f]) == 1 && re(want[f]).MatchString(got[f][0])
			c.Check("F", fnName(fn)+"/new state's "+f+" shifts from the right set", ok, fn.Pos(), 1, strings.Join(got[f], ";"))
		}
	}
	// a reloaded state takes each set from the record named by the like-named hash, and the saved state names each record by
	// the like-named set
	if load := c.Fn("kai/state/cstate", "", "loadStateAtHeight"); load != nil {
		rec := func(h string) string {
			return `^call:types\.ValidatorSetFromProto\(call:kai/rawdb\.ReadConsensusValidatorsInfo\(db, call:lib/common\.BytesToHash\(call:kai/rawdb\.ReadConsensusStateHeight\(db, height\)\.` + h + `\)\)\.ValidatorSet\)#0$`
		}
		got := map[string]string{}
		for _, in := range findInstrs(load, StoreTo(`^&call:kai/state/cstate\.StateFromProto\(.*\)#0\.`)) {
			st := in.(*ssa.Store)
			f := pathOf(st.Addr)
			got[f[strings.LastIndex(f, ".")+1:]] = pathOf(st.Val)
		}
		for _, f := range []string{"LastValidators", "Validators", "NextValidators"} {
			h := f + "InfoHash"
			c.Check("F", fnName(load)+"/"+f+" is loaded from the record named by "+h, re(rec(h)).MatchString(got[f]), load.Pos(), 1, f+" = "+clip(got[f], 220))
		}
	}
	if fn := c.Fn("consensus", "ConsensusState", "reconstructLastCommit"); fn != nil {
		n := 0
		for _, in := range findInstrs(fn, CallTo(`^types\.CommitToVoteSet$`, "")) {
			a := argPaths(callCommon(in))
			if len(a) == 3 && a[0] == "state.ChainID" && strings.HasSuffix(a[1], ".LoadSeenCommit(cs.blockOperations, state.LastBlockHeight)") && a[2] == "state.LastValidators" {
				n++
			}
		}
		c.Check("F", fnName(fn)+"/the last commit is rebuilt from the seen commit of the last height against the last validators", n == 1, fn.Pos(), n, "")
		c.Guarded(fn, "install the rebuilt last commit", StoreTo(`^&cs\.RoundState\.LastCommit$`), G("it has +2/3", True(`^call:\(\*types\.VoteSet\)\.HasTwoThirdsMajority\(call:types\.CommitToVoteSet\(`)))
	}
	if fn := c.Fn("consensus", "ConsensusState", "updateToState"); fn != nil {
		for f, want := range map[string]string{"Validators": "state.Validators", "LastValidators": "state.LastValidators"} {
			n, okv := 0, true
			for _, in := range findInstrs(fn, StoreTo(`^&cs\.RoundState\.`+f+`$`)) {
				n++
				okv = okv && pathOf(in.(*ssa.Store).Val) == want
			}
			c.Check("F", fnName(fn)+"/consensus takes "+f+" from the state's "+f, n == 1 && okv, fn.Pos(), n, "")
		}
	}
}
