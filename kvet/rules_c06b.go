package main

// C06 (continued) — order independence of validator updates, sequential application, proposer/validator agreement.

import (
	"fmt"
	"strings"

	"golang.org/x/tools/go/ssa"
)

func c06Validators(c *Ctx) {
	if fn := c.Fn("types", "", "processChanges"); fn != nil {
		cp := `call:types.validatorListCopy(origChanges)`
		srt := func(in ssa.Instruction) bool {
			cc := callCommon(in)
			if cc == nil || calleeNameNoPath(cc) != "sort.Sort" || len(cc.Args) != 1 {
				return false
			}
			mi, ok := cc.Args[0].(*ssa.MakeInterface)
			return ok && strings.HasSuffix(mi.X.Type().String(), "types.ValidatorsByAddress") && pathOf(cc.Args[0]) == cp
		}
		c.Check("F", fnName(fn)+"/sorts its own copy of the changes by address", len(findInstrs(fn, srt)) == 1, fn.Pos(), 1, "")
		c.Precedes(fn, "sort by address", srt, "scanning the changes", IfOn(`< call:len\(`+regexpQuote(cp)+`\)\)$`))
		// every element read in the scan comes from the sorted copy, never from the caller's slice
		bad := ""
		allInstrs(fn, false, func(_ *ssa.Function, in ssa.Instruction) {
			if ia, ok := in.(*ssa.IndexAddr); ok && pathOf(ia.X) == "origChanges" {
				bad = c.P.Pos(instrPos(in))
			}
			if r, ok := in.(*ssa.Range); ok && pathOf(r.X) == "origChanges" {
				bad = c.P.Pos(instrPos(in))
			}
		})
		c.Check("F", fnName(fn)+"/the scan reads the sorted copy, not the caller's list", bad == "", fn.Pos(), 1, "origChanges indexed at "+bad)
		c.Guarded(fn, "accept a change", func(in ssa.Instruction) bool {
			cc := callCommon(in)
			return cc != nil && calleeNameNoPath(cc) == "append"
		}, G("address differs from the previous one (duplicates are adjacent after sorting)", False(`^call:\(lib/common\.Address\)\.Equal\(`)))
	}
	if fn := c.Fn("types", "ValidatorSet", "updateWithChangeSet"); fn != nil {
		srt := func(in ssa.Instruction) bool {
			cc := callCommon(in)
			if cc == nil || calleeNameNoPath(cc) != "sort.Sort" || len(cc.Args) != 1 {
				return false
			}
			mi, ok := cc.Args[0].(*ssa.MakeInterface)
			return ok && strings.HasSuffix(mi.X.Type().String(), "types.ValidatorsByVotingPower") && pathOf(cc.Args[0]) == "vs.Validators"
		}
		c.OnEveryPath(fn, "sort the set by voting power", srt, "a successful return after changes were applied", func(in ssa.Instruction) bool {
			r, ok := in.(*ssa.Return)
			if !ok || pathOf(r.Results[0]) != "nil" {
				return false
			}
			// the return after applyUpdates, not the early one for an empty change list
			w := &Walker{}
			_, viaApply := w.Reach(fn, fn.Blocks[0], 0, func(x ssa.Instruction) bool {
				cc := callCommon(x)
				return cc != nil && calleeNameNoPath(cc) == "(*types.ValidatorSet).applyUpdates" && reaches(x, in)
			})
			return viaApply
		})
		for _, later := range []string{"applyUpdates", "applyRemovals", "RescalePriorities", "shiftByAvgProposerPriority"} {
			c.Precedes(fn, later, CallTo(`^\(\*types\.ValidatorSet\)\.`+later+`$`, ""), "final sort", srt)
		}
		n := len(findInstrs(fn, CallTo(`^types\.processChanges$`, `\(changes\)$`)))
		c.Check("F", fnName(fn)+"/the changes go through processChanges", n == 1, fn.Pos(), n, "")
		c.Precedes(fn, "processChanges", CallTo(`^types\.processChanges$`, ""), "any use of the change list", Or(CallTo(`^types\.(verifyRemovals|verifyUpdates|computeNewPriorities|numNewValidators)$`, ""), CallTo(`^\(\*types\.ValidatorSet\)\.(applyUpdates|applyRemovals)$`, "")))
		for _, in := range findInstrs(fn, Or(CallTo(`^types\.(verifyRemovals|verifyUpdates|computeNewPriorities|numNewValidators)$`, ""), CallTo(`^\(\*types\.ValidatorSet\)\.(applyUpdates|applyRemovals)$`, ""))) {
			a := strings.Join(argPaths(callCommon(in)), ", ")
			c.Check("F", fnName(fn)+"/"+calleeNameNoPath(callCommon(in))+" works on the sorted lists", !strings.Contains(a, "changes") || strings.Contains(a, "processChanges("), instrPos(in), 1, a)
		}
	}
	// total orders
	if fn := c.Fn("types", "ValidatorsByVotingPower", "Less"); fn != nil {
		c.Guarded(fn, "decide by address", ReturnWith(0, `^\(call:bytes\.Compare\(call:\(lib/common\.Address\)\.Bytes\(valz\[i\]\.Address\), call:\(lib/common\.Address\)\.Bytes\(valz\[j\]\.Address\)\) == const:-1\)$`), G("equal power", Cmp(`^valz\[i\]\.VotingPower$`, "==", `^valz\[j\]\.VotingPower$`)))
		c.Guarded(fn, "decide by power", ReturnWith(0, `^\(valz\[i\]\.VotingPower > valz\[j\]\.VotingPower\)$`), G("different power", Cmp(`^valz\[i\]\.VotingPower$`, "!=", `^valz\[j\]\.VotingPower$`)))
		n := len(findInstrs(fn, AnyReturn()))
		c.Check("F", fnName(fn)+"/is a total order (power descending, then address)", n == 2, fn.Pos(), n, "")
	}
	if fn := c.Fn("types", "ValidatorsByAddress", "Less"); fn != nil {
		n := len(findInstrs(fn, ReturnWith(0, `^\(call:bytes\.Compare\(call:\(lib/common\.Address\)\.Bytes\(vals\[i\]\.Address\), call:\(lib/common\.Address\)\.Bytes\(vals\[j\]\.Address\)\) == const:-1\)$`)))
		c.Check("F", fnName(fn)+"/orders by address bytes", n == 1, fn.Pos(), n, "")
	}
	// the application's list reaches consensus only through calculateValidatorSetUpdates -> updateState -> UpdateWithChangeSet
	if fn := c.Fn("kai/state/cstate", "BlockExecutor", "ApplyBlock"); fn != nil {
		app := `call:iface:\(kai/state/cstate\.BlockStore\)\.CommitAndValidateBlockTxs\(.*\)#0`
		calc := `call:kai/state/cstate\.calculateValidatorSetUpdates\(state\.NextValidators\.Validators, ` + app + `\)`
		n := len(findInstrs(fn, CallTo(`^kai/state/cstate\.calculateValidatorSetUpdates$`, "")))
		m := 0
		for _, in := range findInstrs(fn, CallTo(`^kai/state/cstate\.updateState$`, "")) {
			a := argPaths(callCommon(in))
			if len(a) == 5 && re(`^`+calc+`$`).MatchString(a[4]) {
				m++
			}
		}
		c.Check("F", fnName(fn)+"/updateState receives the difference computed against NextValidators", n == 1 && m == 1, fn.Pos(), 2, "")
		// no other use of the raw list
		bad := ""
		allInstrs(fn, false, func(_ *ssa.Function, in ssa.Instruction) {
			cc := callCommon(in)
			if cc == nil {
				return
			}
			name := calleeNameNoPath(cc)
			for _, a := range argPaths(cc) {
				if re(`^`+app+`$`).MatchString(a) && name != "kai/state/cstate.calculateValidatorSetUpdates" {
					bad = name
				}
				if re(`^`+calc+`$`).MatchString(a) && name != "kai/state/cstate.updateState" && name != "kai/state/cstate.fireEvents" {
					bad = name
				}
			}
		})
		c.Check("W", fnName(fn)+"/the validator list is used only by calculateValidatorSetUpdates, updateState and event publication", bad == "", fn.Pos(), 1, "also passed to "+bad)
	}
	if fn := c.Fn("kai/state/cstate", "", "updateState"); fn != nil {
		n := 0
		for _, in := range findInstrs(fn, CallTo(`^\(\*types\.ValidatorSet\)\.UpdateWithChangeSet$`, "")) {
			a := argPaths(callCommon(in))
			if len(a) == 2 && a[0] == "call:(*types.ValidatorSet).Copy(state.NextValidators)" && a[1] == "validatorUpdates" {
				n++
			}
		}
		c.Check("F", fnName(fn)+"/applies the updates to a copy of NextValidators through UpdateWithChangeSet", n == 1, fn.Pos(), n, "")
		bad := ""
		allInstrs(fn, false, func(_ *ssa.Function, in ssa.Instruction) {
			if ia, ok := in.(*ssa.IndexAddr); ok && pathOf(ia.X) == "validatorUpdates" {
				bad = c.P.Pos(instrPos(in))
			}
			if r, ok := in.(*ssa.Range); ok && pathOf(r.X) == "validatorUpdates" {
				bad = c.P.Pos(instrPos(in))
			}
		})
		c.Check("W", fnName(fn)+"/does not look at individual updates in list order", bad == "", fn.Pos(), 1, bad)
	}
	if fn := c.Fn("kai/state/cstate", "", "calculateValidatorSetUpdates"); fn != nil {
		// the positional part follows the application's list; only removals come from the map
		for _, l := range mapLoops(fn) {
			ok := true
			for b := range l.blocks {
				for _, in := range b.Instrs {
					if st, isSt := in.(*ssa.Store); isSt && strings.HasSuffix(pathOf(st.Addr), "types.Validator.VotingPower") && pathOf(st.Val) != "const:0" {
						ok = false
					}
				}
			}
			c.Check("F", fnName(fn)+"/validators taken from the map are removals (power 0), which processChanges sorts by address", ok, instrPos(l.rng), 1, "")
		}
	}
}

func c06Sequential(c *Ctx) {
	if fn := c.Fn("mainchain/blockchain", "BlockOperations", "commitBlock"); fn != nil {
		idx := `\(phi\(\(phi@t\d+ \+ const:1\)\|const:-1\) \+ const:1\)`
		prep := 0
		for _, in := range findInstrs(fn, CallTo(`^\(\*kai/state\.StateDB\)\.Prepare$`, "")) {
			a := argPaths(callCommon(in))
			if len(a) == 4 && re(`^call:\(\*types\.Transaction\)\.Hash\(txs\[`+idx+`\]\)$`).MatchString(a[1]) && a[2] == "call:(*types.Header).Hash(header)" && re(`^`+idx+`$`).MatchString(a[3]) {
				prep++
			}
		}
		c.Check("F", fnName(fn)+"/each transaction is prepared with its own hash, the header hash and its position in the block", prep == 1, fn.Pos(), prep, "")
		apply := CallTo(`^mainchain/blockchain\.ApplyTransaction$`, "")
		c.Check("F", fnName(fn)+"/one application site, inside the index-ordered loop over the block's transactions", len(findInstrs(fn, apply)) == 1 && len(findInstrs(fn, IfOn(`^\(`+idx+` < call:len\(txs\)\)$`))) == 1, fn.Pos(), 2, "")
		for _, in := range findInstrs(fn, apply) {
			a := argPaths(callCommon(in))
			c.Check("F", fnName(fn)+"/applies txs[i] to the block's state with the shared gas pool and gas counter", len(a) == 9 && a[4] == "state" && a[5] == "header" && re(`^txs\[`+idx+`\]$`).MatchString(a[6]) && a[7] == "&alloc:new:uint64", instrPos(in), 1, clip(strings.Join(a, ", "), 300))
		}
		c.Precedes(fn, "Prepare", CallTo(`^\(\*kai/state\.StateDB\)\.Prepare$`, ""), "ApplyTransaction", apply)
		c.Precedes(fn, "Snapshot", CallTo(`^\(\*kai/state\.StateDB\)\.Snapshot$`, ""), "ApplyTransaction", apply)
		c.Guarded(fn, "keep the receipt", func(in ssa.Instruction) bool {
			cc := callCommon(in)
			return cc != nil && calleeNameNoPath(cc) == "append"
		}, G("the transaction was applied", IsNil(`^call:mainchain/blockchain\.ApplyTransaction\(.*\)#2$`)))
		c.Guarded(fn, "revert the failed transaction", CallTo(`^\(\*kai/state\.StateDB\)\.RevertToSnapshot$`, ""), G("the transaction failed", NotNil(`^call:mainchain/blockchain\.ApplyTransaction\(.*\)#2$`)))
		g := 0
		allInstrs(fn, true, func(_ *ssa.Function, in ssa.Instruction) {
			if _, ok := in.(*ssa.Go); ok {
				g++
			}
		})
		c.Check("D", fnName(fn)+"/starts no goroutine", g == 0, fn.Pos(), 1, "")
		// system steps in a fixed order around the transactions
		mint := CallTo(`^\(\*mainchain/staking\.StakingSmcUtil\)\.Mint$`, "")
		fin := CallTo(`^\(\*mainchain/staking\.StakingSmcUtil\)\.FinalizeCommit$`, "")
		ds := CallTo(`^\(\*mainchain/staking\.StakingSmcUtil\)\.DoubleSign$`, "")
		vs := CallTo(`^\(\*mainchain/staking\.StakingSmcUtil\)\.ApplyAndReturnValidatorSets$`, "")
		c.Precedes(fn, "Mint", mint, "FinalizeCommit", fin)
		c.Precedes(fn, "FinalizeCommit", fin, "DoubleSign", ds)
		c.Precedes(fn, "DoubleSign", ds, "the transactions", apply)
		c.Precedes(fn, "Mint", mint, "reading the validator sets", vs)
		for _, in := range findInstrs(fn, vs) {
			w := &Walker{P: c.P}
			_, again := w.Reach(fn, in.Block(), instrIndex(in)+1, apply)
			c.Check("O", fnName(fn)+"/the validator sets are read after the last transaction", !again, instrPos(in), 1, "")
		}
		// block info is built from the ordered receipts
		ok := 0
		for _, in := range findInstrs(fn, StoreTo(`complit:types\.BlockInfo\.(Receipts|Bloom|GasUsed)$`)) {
			v := pathOf(in.(*ssa.Store).Val)
			a := pathOf(in.(*ssa.Store).Addr)
			switch {
			case strings.HasSuffix(a, ".Receipts") && strings.HasPrefix(v, "phi(call:append(phi@"):
				ok++
			case strings.HasSuffix(a, ".Bloom") && strings.HasPrefix(v, "call:types.CreateBloom(phi(call:append(phi@"):
				ok++
			case strings.HasSuffix(a, ".GasUsed") && v == "alloc:new:uint64":
				ok++
			}
		}
		c.Check("F", fnName(fn)+"/receipts, bloom and gas used come from the receipts collected in application order", ok == 3, fn.Pos(), ok, "")
	}
	if fn := c.Fn("mainchain/blockchain", "BlockOperations", "CommitAndValidateBlockTxs"); fn != nil {
		n := 0
		for _, in := range findInstrs(fn, CallTo(`^\(\*mainchain/blockchain\.BlockOperations\)\.commitBlock$`, "")) {
			a := argPaths(callCommon(in))
			if len(a) == 6 && a[2] == "call:(*types.Block).Transactions(block)" && a[3] == "call:(*types.Block).Header(block)" && a[4] == "lastCommit" && a[5] == "byzVals" {
				n++
			}
		}
		c.Check("F", fnName(fn)+"/executes the block's own transactions and header on the head state", n == 1, fn.Pos(), n, "")
		r := 0
		for _, in := range findInstrs(fn, SuccessReturn(2, "")) {
			if ret, ok := in.(*ssa.Return); ok && strings.HasPrefix(pathOf(ret.Results[1]), "call:(*kai/state.StateDB).IntermediateRoot(call:(*mainchain/blockchain.BlockChain).State(") && strings.HasSuffix(pathOf(ret.Results[1]), ", const:true)") {
				r++
			}
		}
		c.Check("F", fnName(fn)+"/the application hash is the root of the executed state with empty accounts removed", r == 1, fn.Pos(), r, "")
	}
	// proposer and validators derive the header from the same state fields
	if fn := c.Fn("mainchain/blockchain", "BlockOperations", "CreateProposalBlock"); fn != nil {
		hdr := ""
		for _, in := range findInstrs(fn, CallTo(`^\(\*mainchain/blockchain\.BlockOperations\)\.newHeader$`, "")) {
			hdr = strings.Join(argPaths(callCommon(in)), " | ")
		}
		for _, f := range []string{"lastState.LastBlockID", "lastState.AppHash", "call:(*types.ValidatorSet).Hash(lastState.Validators)", "call:(*types.ValidatorSet).Hash(lastState.NextValidators)", "call:kai/state/cstate.MedianTime(commit, lastState.LastValidators)"} {
			c.Check("S", fnName(fn)+"/the proposed header carries "+f+" (what validateBlock compares with)", strings.Contains(hdr, f), fn.Pos(), 1, clip(hdr, 400))
		}
	}
}

// c06Config: results must not depend on which optional layers are switched on or how warm the caches are.
func c06Config(c *Ctx) {
	snapshotFallbackRules(c)
	// ---- the snapshot layer mirrors exactly what goes into the trie --------------------------------------------------
	if fn := c.Fn("kai/state", "stateObject", "updateTrie"); fn != nil {
		var trieWrites, snapWrites []ssa.Instruction
		allInstrs(fn, false, func(_ *ssa.Function, in ssa.Instruction) {
			if cc := callCommon(in); cc != nil && re(`^iface:\(kai/state\.Trie\)\.(UpdateStorage|DeleteStorage)$`).MatchString(calleeNameNoPath(cc)) {
				trieWrites = append(trieWrites, in)
			}
			if mu, ok := in.(*ssa.MapUpdate); ok && strings.HasPrefix(pathOf(mu.Key), "call:lib/crypto.HashData(") {
				snapWrites = append(snapWrites, in)
			}
		})
		c.Check("S", fnName(fn)+"/one slot write into the snapshot cache, two into the trie (update, delete)", len(snapWrites) == 1 && len(trieWrites) == 2, fn.Pos(), len(snapWrites)+len(trieWrites), "")
		if len(snapWrites) == 1 && len(trieWrites) == 2 {
			common := map[string]bool{}
			for _, d := range domConds(trieWrites[0]) {
				for _, e := range domConds(trieWrites[1]) {
					if d == e {
						common[d] = true
					}
				}
			}
			var extra []string
			for _, d := range domConds(snapWrites[0]) {
				if common[d] || factIs(d, "(s.db.snap != nil)=T") {
					continue
				}
				extra = append(extra, d)
			}
			c.Check("S", fnName(fn)+"/with snapshots on, every slot written to or deleted from the trie is recorded in the snapshot cache (a deletion as nil)", len(extra) == 0 && hasCond(domConds(snapWrites[0]), `^\(s\.db\.snap != nil\)=T$`), instrPos(snapWrites[0]), 1,
				"the snapshot write additionally depends on "+strings.Join(extra, " ; ")+": nodes with and without the snapshot layer would read different values for the same slot")
			// the key is the hash of the slot key and the value is the encoding of the same trimmed value
			mu := snapWrites[0].(*ssa.MapUpdate)
			vals := map[string]bool{}
			for _, pc := range phiCases(mu.Value) {
				vals[clip(pathOf(pc.Val), 80)] = true
			}
			ok := len(vals) == 2 && vals["nil"]
			for v := range vals {
				if v != "nil" && !strings.HasPrefix(v, "call:lib/rlp.EncodeToBytes(call:lib/common.TrimLeftZeroes(") {
					ok = false
				}
			}
			c.Check("S", fnName(fn)+"/the cached value is nil for a deletion and the RLP of the trimmed value otherwise", ok, instrPos(snapWrites[0]), len(vals), setStr(vals))
		}
	}
	if fn := c.Fn("kai/state", "StateDB", "updateStateObject"); fn != nil {
		for _, in := range findInstrs(fn, func(in ssa.Instruction) bool {
			mu, ok := in.(*ssa.MapUpdate)
			return ok && pathOf(mu.Map) == "s.snapAccounts"
		}) {
			var extra []string
			for _, d := range domConds(in) {
				if !factIs(d, "(s.snap != nil)=T") && !strings.Contains(d, "UpdateAccount(") {
					extra = append(extra, d)
				}
			}
			c.Check("S", fnName(fn)+"/with snapshots on, every account written to the trie is recorded in the snapshot cache", len(extra) == 0, instrPos(in), 1, strings.Join(extra, " ; "))
		}
	}
	if fn := c.Fn("kai/state", "StateDB", "Finalise"); fn != nil {
		n := 0
		for _, in := range findInstrs(fn, CallTo(`^delete$`, `^delete\(s\.snap(Accounts|Storage), `)) {
			dc := domConds(in)
			ok := hasCond(dc, `^\(s\.snap != nil\)=T$`)
			for _, d := range dc {
				if factIs(d, "(s.snap != nil)=T") || strings.Contains(d, ".suicided") || strings.Contains(d, ".empty(") || strings.Contains(d, "deleteEmptyObjects") || strings.HasPrefix(d, "next(range(") || strings.Contains(d, "s.stateObjects[") {
					continue
				}
				ok = false
			}
			if ok {
				n++
			}
		}
		c.Check("S", fnName(fn)+"/a destructed account's cached snapshot entries are dropped exactly when the object is marked deleted", n == 2, fn.Pos(), n, "")
	}
	cacheKeyRules(c)
	if fn := c.Fn("kvm", "Contract", "isCode"); fn != nil {
		n := 0
		allInstrs(fn, false, func(_ *ssa.Function, in ssa.Instruction) {
			switch x := in.(type) {
			case *ssa.Lookup:
				if pathOf(x.X) == "c.jumpdests" && pathOf(x.Index) == "c.CodeHash" {
					n++
				}
			case *ssa.MapUpdate:
				if pathOf(x.Map) == "c.jumpdests" && pathOf(x.Key) == "c.CodeHash" && pathOf(x.Value) == "call:kvm.codeBitmap(c.Code)" {
					n++
				}
			}
		})
		c.Check("E", fnName(fn)+"/the shared jump-destination analysis is keyed by the code hash and computed from that code", n == 2, fn.Pos(), n, "")
		c.Guarded(fn, "use the shared analysis", func(in ssa.Instruction) bool {
			l, ok := in.(*ssa.Lookup)
			return ok && pathOf(l.X) == "c.jumpdests"
		}, G("the contract has a code hash", Cmp(`^c\.CodeHash$`, "!=", `.`), False(`^\(c\.CodeHash == `)))
	}
}

// cacheKeyRules (shared by C06 and C08): the code and code-size caches of the state database are addressed by the code
// hash; keyed by the account, a committed code size would be read back from an earlier incarnation of the account.
func cacheKeyRules(c *Ctx) {
	// ---- caches on the execution path are keyed by the content they hold ------------------------------------------------
	nCache := 0
	for _, f := range c.P.ModFuncs {
		if f.Pkg == nil || strings.TrimPrefix(f.Pkg.Pkg.Path(), modPath+"/") != "kai/state" || len(f.Blocks) == 0 {
			continue
		}
		f := f
		allInstrs(f, false, func(_ *ssa.Function, in ssa.Instruction) {
			cc := callCommon(in)
			if cc == nil || len(cc.Args) < 2 {
				return
			}
			n := calleeNameNoPath(cc)
			if !re(`^\(\*lib/common/lru\.(Cache|SizeConstrainedCache)\[.*\]\)\.(Add|Get|Contains|Peek|Remove)\[`).MatchString(n) {
				return
			}
			recv := pathOf(cc.Args[0])
			if recv != "db.codeSizeCache" && recv != "db.codeCache" {
				return
			}
			nCache++
			c.Check("E", fmt.Sprintf("%s/%s is addressed by the code hash (content), never by the account", fnName(f), recv), pathOf(cc.Args[1]) == "codeHash", instrPos(in), 1,
				"key "+pathOf(cc.Args[1])+": an account's code can change (self-destruct and re-creation, fork upgrades), so a long-running node would serve a stale entry that a freshly started node does not have")
		})
	}
	c.Check("E", "kai/state.cachingDB/code cache accesses inventoried", nCache >= 6, c.fnPos("(*kai/state.cachingDB).ContractCodeSize"), nCache, "")
}
