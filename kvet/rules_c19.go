package main

// C19 — accountability: evidence is accepted exactly for real double-signing, once.

import (
	"strings"

	"golang.org/x/tools/go/ssa"
)

func init() {
	register("C19", []string{"types/evidence/pool.go", "types/evidence/verify.go", "types/evidence.go", "consensus/state.go", "kai/state/cstate/validation.go",
		"kai/state/cstate/execution.go", "mainchain/blockchain/block_operations.go"}, runC19)
}

func runC19(c *Ctx) {
	c.Decided = []string{
		"VerifyDuplicateVote accepts only behind: validator of that height's set, same height/round/type, same signer, different block ids, stated power and total power equal to the set's, both signatures valid for that validator over the canonical sign bytes",
		"the pool verifies against the block time of the evidence height, the expiry rule (both ages exceeded, same form as isExpired) and the validator set loaded for the evidence height",
		"evidence becomes pending only if neither pending nor committed and verified; a proposed block's evidence is checked item by item and for duplicates inside the list; the only unverifying writer is reachable only from consensus",
		"consensus builds evidence only from a conflicting-votes error, from the two votes of that error, never against itself",
		"canonical order: validation and construction order the two votes by the same block-id key",
		"unit agreement of the evidence budget: the pool is asked for a byte budget, counts are compared with counts",
		"committed evidence is marked committed and removed from pending after the state is saved; block validation ends in the pool's check",
	}
	c.NotDec = []string{"that evidence produced by one node is accepted by all others (timestamps are computed from local commits — value-level)", "expiry over histories", "behaviour across restarts"}
	c.Floors["G"] = 30
	c19Round3(c)

	// ---- VerifyDuplicateVote ------------------------------------------------------------------------
	if fn := c.Fn("types/evidence", "", "VerifyDuplicateVote"); fn != nil {
		val := `call:\(\*types\.ValidatorSet\)\.GetByAddress\(valSet, e\.VoteA\.ValidatorAddress\)#1`
		sig := func(v string) Cond {
			return True(`^call:types\.VerifySignature\(` + val + `\.Address, call:lib/crypto\.Keccak256\(varargs\[call:types\.VoteSignBytes\(chainID, call:\(\*types\.Vote\)\.ToProto\(e\.` + v + `\)\)\]\), e\.` + v + `\.Signature\)$`)
		}
		c.Guarded(fn, "return nil", SuccessReturn(0, ""),
			G("VoteA's signer is in the validator set", NotNil(`^`+val+`$`)),
			G("same height", Cmp(`^e\.VoteA\.Height$`, "==", `^e\.VoteB\.Height$`)),
			G("same round", Cmp(`^e\.VoteA\.Round$`, "==", `^e\.VoteB\.Round$`)),
			G("same type", Cmp(`^e\.VoteA\.Type$`, "==", `^e\.VoteB\.Type$`)),
			G("same validator address", True(`^call:bytes\.Equal\(call:\(lib/common\.Address\)\.Bytes\(e\.VoteA\.ValidatorAddress\), call:\(lib/common\.Address\)\.Bytes\(e\.VoteB\.ValidatorAddress\)\)$`)),
			G("different block ids", False(`^call:\(\*types\.BlockID\)\.Equal\(&e\.VoteA\.BlockID, e\.VoteB\.BlockID\)$`)),
			G("stated validator power equals the set's", Cmp(`^`+val+`\.VotingPower$`, "==", `^e\.ValidatorPower$`)),
			G("stated total power equals the set's", Cmp(`^call:\(\*types\.ValidatorSet\)\.TotalVotingPower\(valSet\)$`, "==", `^e\.TotalVotingPower$`)),
			G("VoteA signature valid for the validator", sig("VoteA")),
			G("VoteB signature valid for the validator", sig("VoteB")))
	}
	// ---- Pool.verify -----------------------------------------------------------------------------------
	if fn := c.Fn("types/evidence", "Pool", "verify"); fn != nil {
		meta := `call:iface:\(types/evidence\.BlockStore\)\.LoadBlockMeta\(evpool\.blockStore, call:iface:\(types\.Evidence\)\.Height\(evidence\)\)`
		vdv := CallTo(`^types/evidence\.VerifyDuplicateVote$`, "")
		c.Guarded(fn, "VerifyDuplicateVote (the only accepting exit)", vdv,
			G("block meta of the evidence height exists", NotNil(`^`+meta+`$`)),
			G("evidence time equals that block's time", Cmp(`^call:iface:\(types\.Evidence\)\.Time\(evidence\)$`, "==", `^`+meta+`\.Header\.Time$`)),
			G("not expired (age in time or in blocks within the limits)", Cmp(`Sub\(.*LastBlockTime`, "<=", `MaxAgeDuration$`), Cmp(`LastBlockHeight.*Height\(evidence\)`, "<=", `MaxAgeNumBlocks$`)),
			G("LoadValidators(evidence.Height()) error == nil", IsNil(`^call:iface:\(kai/state/cstate\.Store\)\.LoadValidators\(evpool\.stateDB, call:iface:\(types\.Evidence\)\.Height\(evidence\)\)#1$`)))
		for _, in := range findInstrs(fn, vdv) {
			a := argPaths(callCommon(in))
			ok := len(a) == 3 && strings.HasSuffix(a[1], ".ChainID") && a[2] == "call:iface:(kai/state/cstate.Store).LoadValidators(evpool.stateDB, call:iface:(types.Evidence).Height(evidence))#0"
			c.Check("F", fnName(fn)+"/verifies against the chain id and the validator set loaded for the evidence height", ok, instrPos(in), 1, describeInstr(in))
		}
		nNil := len(findInstrs(fn, ReturnWith(0, `^nil$`)))
		c.Check("G", fnName(fn)+"/no literal nil verdict (acceptance is VerifyDuplicateVote's)", nNil == 0, fn.Pos(), 1, "")
	}
	if fn := c.Fn("types/evidence", "Pool", "isExpired"); fn != nil {
		// same conjunction form as verify
		n := 0
		allInstrs(fn, false, func(_ *ssa.Function, in ssa.Instruction) {
			if b, ok := in.(*ssa.BinOp); ok && b.Op.String() == ">" {
				n++
			}
		})
		c.Check("S", fnName(fn)+"/expired iff both the block age and the time age exceed their limits", n == 2, fn.Pos(), n, "")
	}

	// ---- pool admission ------------------------------------------------------------------------------------
	addP := CallTo(`^\(\*types/evidence\.Pool\)\.addPendingEvidence$`, "")
	if fn := c.Fn("types/evidence", "Pool", "AddEvidence"); fn != nil {
		c.Guarded(fn, "addPendingEvidence / push to the gossip list", Or(addP, CallTo(`\)\.PushBack$`, "")),
			G("not already pending", False(`^call:\(\*types/evidence\.Pool\)\.isPending\(evpool, ev\)$`)),
			G("not already committed", False(`^call:\(\*types/evidence\.Pool\)\.isCommitted\(evpool, ev\)$`)),
			G("verify(ev) == nil", IsNil(`^call:\(\*types/evidence\.Pool\)\.verify\(evpool, ev\)$`)))
		c.Guarded(fn, "push to the gossip list", CallTo(`\)\.PushBack$`, ""), G("addPendingEvidence == nil", IsNil(`^call:\(\*types/evidence\.Pool\)\.addPendingEvidence\(evpool, ev\)$`)))
	}
	if fn := c.Fn("types/evidence", "Pool", "CheckEvidence"); fn != nil {
		c.Guarded(fn, "return nil", SuccessReturn(0, ""), G("present", True(`^$`), Cmp(`phi`, ">=", `len\(evList\)`), Cmp(`len\(evList\)`, "<=", `phi`)))
		item := `evList\[.*\]`
		c.Guarded(fn, "record the item's hash (item accepted)", CallTo(`^iface:\(types\.Evidence\)\.Hash$`, ""),
			G("fast check hit, or not committed", True(`^call:\(\*types/evidence\.Pool\)\.(fastCheck|isPending)\(evpool, `+item+`\)$`), False(`^call:\(\*types/evidence\.Pool\)\.isCommitted\(evpool, `+item+`\)$`)),
			G("fast check hit, or verify == nil", True(`^call:\(\*types/evidence\.Pool\)\.(fastCheck|isPending)\(evpool, `+item+`\)$`), IsNil(`^call:\(\*types/evidence\.Pool\)\.verify\(evpool, `+item+`\)$`)))
		// duplicate inside the list is an error
		dup := findInstrs(fn, CallTo(`^\(lib/common\.Hash\)\.Equal$`, ""))
		c.Check("G", fnName(fn)+"/pairwise duplicate-hash test present", len(dup) == 1, fn.Pos(), len(dup), "")
		if len(dup) == 1 {
			g := G("hashes differ", False(`^call:\(lib/common\.Hash\)\.Equal\(`))
			c.OnFailureTo(fn, g, "return an invalid-evidence error", func(in ssa.Instruction) bool {
				r, ok := in.(*ssa.Return)
				return ok && pathOf(r.Results[0]) != "nil"
			}, Or(CallTo(`^iface:\(types\.Evidence\)\.Hash$`, ""), SuccessReturn(0, "")))
		}
	}
	// the shortcut is the pending test, through the one-line wrapper or called directly
	if c.P.Func("types/evidence", "Pool", "fastCheck") != nil {
		if fn := c.Fn("types/evidence", "Pool", "fastCheck"); fn != nil {
			n := len(findInstrs(fn, CallTo(`isPending$`, "")))
			c.Check("F", fnName(fn)+"/is the pending (already verified) test", n == 1, fn.Pos(), n, "the shortcut may only accept evidence this node verified before")
		}
	} else if fn := c.Fn("types/evidence", "Pool", "CheckEvidence"); fn != nil {
		n := len(findInstrs(fn, CallTo(`^\(\*types/evidence\.Pool\)\.isPending$`, "")))
		c.Check("F", "(*types/evidence.Pool).fastCheck/is the pending (already verified) test", n == 1, fn.Pos(), n, "the shortcut may only accept evidence this node verified before")
	}
	c.OnlyCalledFrom("AddEvidenceFromConsensus only from tryAddVote", `AddEvidenceFromConsensus$`, 1, `^`+csT+`\.tryAddVote$`)
	c.OnlyCalledFrom("addPendingEvidence only from the three admission paths", `^\(\*types/evidence\.Pool\)\.addPendingEvidence$`, 3, `^\(\*types/evidence\.Pool\)\.(AddEvidence|AddEvidenceFromConsensus|CheckEvidence)$`)

	// ---- consensus: conflicting votes -> evidence ---------------------------------------------------------
	if fn := c.Fn("consensus", "ConsensusState", "tryAddVote"); fn != nil {
		conflict := `call:` + csT + `\.addVote\(cs, vote, peerID\)#1\.\(\*types\.ErrVoteConflictingVotes\)`
		newEv := CallTo(`^types\.NewDuplicateVoteEvidence$`, "")
		c.Guarded(fn, "build and submit evidence", Or(newEv, CallTo(`AddEvidenceFromConsensus$`, "")),
			G("addVote returned an error", NotNil(`^call:`+csT+`\.addVote\(cs, vote, peerID\)#1$`)),
			G("the error is *ErrVoteConflictingVotes", True(`^`+conflict+`#1$`)),
			G("not our own address", False(`^call:\(lib/common\.Address\)\.Equal\(vote\.ValidatorAddress, call:iface:\(types\.PrivValidator\)\.GetAddress\(cs\.privValidator\)\)$`)))
		for _, in := range findInstrs(fn, newEv) {
			a := argPaths(callCommon(in))
			ok := len(a) == 4 && re(`^`+conflict+`#0\.(DuplicateVoteEvidence\.)?VoteA$`).MatchString(a[0]) && re(`^`+conflict+`#0\.(DuplicateVoteEvidence\.)?VoteB$`).MatchString(a[1]) && a[3] == "cs.RoundState.Validators"
			c.Check("F", fnName(fn)+"/evidence is made of the two conflicting votes and the current validator set", ok, instrPos(in), 1, describeInstr(in))
		}
		for _, in := range findInstrs(fn, CallTo(`AddEvidenceFromConsensus$`, "")) {
			a := argPaths(callCommon(in))
			c.Check("F", fnName(fn)+"/submits the evidence it built", len(a) == 2 && strings.HasPrefix(a[1], "call:types.NewDuplicateVoteEvidence("), instrPos(in), 1, describeInstr(in))
		}
	}
	if fn := c.Fn("types", "VoteSet", "addVote"); fn != nil {
		c.Guarded(fn, "report conflicting votes", CallTo(`^types\.NewConflictingVoteError$`, ""),
			G("addVerifiedVote returned a conflicting vote", NotNil(`^call:\(\*types\.VoteSet\)\.addVerifiedVote\(.*\)#1$`)),
			G("the new vote was verified", IsNil(`^call:\(\*types\.Vote\)\.Verify\(vote, voteSet\.chainID, `)))
		for _, in := range findInstrs(fn, CallTo(`^types\.NewConflictingVoteError$`, "")) {
			a := argPaths(callCommon(in))
			c.Check("F", fnName(fn)+"/the error carries the stored and the new vote", len(a) == 2 && strings.HasSuffix(a[0], "#1") && a[1] == "vote", instrPos(in), 1, describeInstr(in))
		}
	}

	// ---- canonical order --------------------------------------------------------------------------------------
	keyA, keyB := `call:\(\*types\.BlockID\)\.Key\(&dve\.VoteA\.BlockID\)`, `call:\(\*types\.BlockID\)\.Key\(&dve\.VoteB\.BlockID\)`
	if fn := c.Fn("types", "DuplicateVoteEvidence", "ValidateBasic"); fn != nil {
		c.Guarded(fn, "return nil", SuccessReturn(0, ""),
			G("evidence not nil", NotNil(`^dve$`)),
			G("VoteA present", NotNil(`^dve\.VoteA$`)),
			G("VoteB present", NotNil(`^dve\.VoteB$`)),
			G("VoteA.ValidateBasic() == nil", IsNil(`^call:\(\*types\.Vote\)\.ValidateBasic\(dve\.VoteA\)$`)),
			G("VoteB.ValidateBasic() == nil", IsNil(`^call:\(\*types\.Vote\)\.ValidateBasic\(dve\.VoteB\)$`)),
			G("Key(VoteA.BlockID) < Key(VoteB.BlockID)", Cmp(`^call:strings\.Compare\(`+keyA+`, `+keyB+`\)$`, "<", `^const:0$`)))
	}
	if fn := c.Fn("types", "", "NewDuplicateVoteEvidence"); fn != nil {
		// the two keys compared, in either order (Compare(a, b) == -1 and Compare(b, a) == 1 say the same)
		n := len(findInstrs(fn, CallTo(`^strings\.Compare$`, `^strings\.Compare\(call:\(\*types\.BlockID\)\.Key\(&vote(1|2)\.BlockID\), call:\(\*types\.BlockID\)\.Key\(&vote(1|2)\.BlockID\)\)$`)))
		c.Check("S", fnName(fn)+"/orders the votes by the same block-id key as ValidateBasic", n == 1, fn.Pos(), n, "")
		got := map[string]string{}
		for _, in := range findInstrs(fn, StoreTo(`^&alloc:complit:types\.DuplicateVoteEvidence\.`)) {
			st := in.(*ssa.Store)
			f := pathOf(st.Addr)
			got[f[strings.LastIndex(f, ".")+1:]] = pathOf(st.Val)
		}
		c.Check("F", fnName(fn)+"/states the set's total power", got["TotalVotingPower"] == "call:(*types.ValidatorSet).TotalVotingPower(valSet)", fn.Pos(), 1, got["TotalVotingPower"])
		c.Check("F", fnName(fn)+"/states the validator's power", got["ValidatorPower"] == "call:(*types.ValidatorSet).GetByAddress(valSet, vote1.ValidatorAddress)#1.VotingPower", fn.Pos(), 1, got["ValidatorPower"])
		c.Check("F", fnName(fn)+"/votes are the two inputs in key order", strings.HasPrefix(got["VoteA"], "phi(") && strings.Contains(got["VoteA"], "vote1") && strings.Contains(got["VoteA"], "vote2") && strings.HasPrefix(got["VoteB"], "phi("), fn.Pos(), 2, got["VoteA"]+" / "+got["VoteB"])
	}

	// The hash is hash(Bytes()) = hash(ToProto().Marshal()): the wire form carries each field from the like-named field.
	if fn := c.Fn("types", "DuplicateVoteEvidence", "Hash"); fn != nil {
		n := len(findInstrs(fn, CallTo(`^types\.hash$`, `^types\.hash\(call:\(\*types\.DuplicateVoteEvidence\)\.Bytes\(dve\)\)$`)))
		c.Check("F", fnName(fn)+"/hashes the full encoding (Bytes)", n == 1, fn.Pos(), n, "")
	}
	if fn := c.Fn("types", "DuplicateVoteEvidence", "Bytes"); fn != nil {
		n := len(findInstrs(fn, CallTo(`\.Marshal$`, `\.Marshal\(call:\(\*types\.DuplicateVoteEvidence\)\.ToProto\(dve\)\)$`)))
		c.Check("F", fnName(fn)+"/marshals the wire form of this item", n == 1, fn.Pos(), n, "")
	}
	if fn := c.Fn("types", "DuplicateVoteEvidence", "ToProto"); fn != nil {
		got := map[string]string{}
		for _, in := range findInstrs(fn, func(in ssa.Instruction) bool { _, ok := in.(*ssa.Store); return ok }) {
			st := in.(*ssa.Store)
			if fa, ok := st.Addr.(*ssa.FieldAddr); ok && strings.HasSuffix(fa.X.Type().String(), "proto/kardiachain/types.DuplicateVoteEvidence") {
				f := pathOf(st.Addr)
				got[f[strings.LastIndex(f, ".")+1:]] = pathOf(st.Val)
			}
		}
		want := map[string]string{"VoteA": "call:(*types.Vote).ToProto(dve.VoteA)", "VoteB": "call:(*types.Vote).ToProto(dve.VoteB)",
			"TotalVotingPower": "dve.TotalVotingPower", "ValidatorPower": "dve.ValidatorPower", "Timestamp": "dve.Timestamp"}
		for _, f := range []string{"VoteA", "VoteB", "TotalVotingPower", "ValidatorPower", "Timestamp"} {
			c.Check("F", fnName(fn)+"/wire form carries "+f, got[f] == want[f], fn.Pos(), 1, got[f])
		}
	}

	// ---- unit agreement of the evidence budget ----------------------------------------------------------------
	nP := 0
	for _, s := range c.CallSites(`\)\.PendingEvidence$`) {
		caller := fnName(rootFn(s.Caller))
		if strings.HasPrefix(caller, "cmd/") || strings.HasPrefix(caller, "tests/") {
			continue
		}
		cc := callCommon(s.Instr)
		if cc == nil {
			continue
		}
		a := argPaths(cc)
		arg := a[len(a)-1]
		nP++
		ok := re(`^call:types\.MaxEvidencePerBlock\(.*\)#1$`).MatchString(arg) || arg == "maxBytes" || arg == "const:-1"
		c.Check("U", caller+"/PendingEvidence is given a byte budget", ok, instrPos(s.Instr), 1,
			"Pool.PendingEvidence compares its argument with the encoded size of the evidence list (bytes); the argument here is "+clip(arg, 120)+" — a count (MaxEvidencePerBlock #0) makes the pool return nothing, so evidence is never proposed")
	}
	if nP < 2 {
		c.Unres("U", "PendingEvidence call sites", "fewer than 2 found")
	}
	if fn := c.Fn("types/evidence", "Pool", "listEvidence"); fn != nil {
		c.Guarded(fn, "append evidence to the result", func(in ssa.Instruction) bool {
			cc := callCommon(in)
			return cc != nil && calleeNameNoPath(cc) == "append" && strings.Contains(callPath(cc), "EvidenceFromProto(")
		}, G("within the byte budget (or unlimited)", Cmp(`\.Size\(`, "<=", `^maxBytes$`), Cmp(`^maxBytes$`, "==", `^const:-1$`)))
	}
	if fn := c.Fn("types", "", "MaxEvidencePerBlock"); fn != nil {
		ok := false
		for _, in := range findInstrs(fn, AnyReturn()) {
			r := in.(*ssa.Return)
			ok = len(r.Results) == 2 && strings.Contains(pathOf(r.Results[0]), "/ const:") && strings.Count(pathOf(r.Results[0]), "/") == 2 && strings.Count(pathOf(r.Results[1]), "/") == 1
		}
		c.Check("U", fnName(fn)+"/#0 is a count (bytes / per-evidence bytes), #1 is bytes", ok, fn.Pos(), 1, "")
	}

	// ---- commit path ----------------------------------------------------------------------------------------
	if fn := c.Fn("kai/state/cstate", "BlockExecutor", "ApplyBlock"); fn != nil {
		upd := CallTo(`EvidencePool\)\.Update$`, "")
		c.Precedes(fn, "store.Save(state)", CallTo(`cstate\.Store\)\.Save$`, ""), "evpool.Update", upd)
		c.FollowedBy(fn, "store.Save(state)", CallTo(`cstate\.Store\)\.Save$`, ""), "evpool.Update", upd, "return", AnyReturn())
		for _, in := range findInstrs(fn, upd) {
			a := argPaths(callCommon(in))
			c.Check("F", fnName(fn)+"/pool is updated with the new state and the block's evidence", len(a) == 3 && a[1] == "state" && a[2] == "call:(*types.Block).Evidence(block).Evidence", instrPos(in), 1, describeInstr(in))
		}
	}
	if fn := c.Fn("types/evidence", "Pool", "Update"); fn != nil {
		c.OnEveryPath(fn, "markEvidenceAsCommitted", CallTo(`\.markEvidenceAsCommitted$`, ""), "return", AnyReturn())
	}
	if fn := c.Fn("types/evidence", "Pool", "markEvidenceAsCommitted"); fn != nil {
		put := findInstrs(fn, CallTo(`\)\.Put$`, `keyCommitted\(`))
		c.Check("O", fnName(fn)+"/writes the committed key for each evidence", len(put) == 1, fn.Pos(), len(put), "")
		c.Guarded(fn, "removePendingEvidence", CallTo(`\.removePendingEvidence$`, ""), G("it is pending", True(`^call:\(\*types/evidence\.Pool\)\.isPending\(`)))
		n := len(findInstrs(fn, CallTo(`\.removePendingEvidence$`, "")))
		c.Check("O", fnName(fn)+"/removes committed evidence from pending", n == 1, fn.Pos(), n, "")
	}
	validateBlockChecklist(c)
	// ---- the evidence hash identifies everything that verification vouched for --------------------------------------------
	// The pool treats "same hash as a pending or committed item" as "already verified" (fastCheck) and keys both stores by
	// it, so the hash has to cover every field, the stated powers and the timestamp included.
	if fn := c.Fn("types", "DuplicateVoteEvidence", "Hash"); fn != nil {
		e := c.Effects(fn, 3).Reads
		for _, f := range c.namedFields("types.DuplicateVoteEvidence") {
			c.Check("E", fnName(fn)+"/the evidence hash covers "+f, e[fieldRef{"types.DuplicateVoteEvidence", f}], fn.Pos(), 1,
				"two items that differ only in "+f+" share one hash: once the genuine item is pending, a variant with a forged "+f+" in a proposed block is accepted without verification")
		}
	}

}
