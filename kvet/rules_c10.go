package main

// C10 — KVM: jump table vs specification vs implementation (rule T), interpreter guards, frame limits.

import (
	"fmt"
	"go/ast"
	"go/token"
	"sort"
	"strconv"
	"strings"

	"golang.org/x/tools/go/ssa"
)

func init() {
	register("C10", []string{"kvm/interpreter.go", "kvm/instructions.go", "kvm/instruction_set.go", "kvm/gas.go", "kvm/memory.go", "kvm/stack.go", "kvm/kvm.go", "kvm/contract.go", "kvm/contracts.go", "kvm/eips.go"}, runC10)
}

// evmArity: (pops, pushes) per opcode from the Ethereum Yellow Paper (δ, α), shipped with the checker as the
// independent specification table.
var evmArity = map[string][2]int{
	"STOP": {0, 0}, "ADD": {2, 1}, "MUL": {2, 1}, "SUB": {2, 1}, "DIV": {2, 1}, "SDIV": {2, 1}, "MOD": {2, 1}, "SMOD": {2, 1}, "ADDMOD": {3, 1}, "MULMOD": {3, 1},
	"EXP": {2, 1}, "SIGNEXTEND": {2, 1}, "LT": {2, 1}, "GT": {2, 1}, "SLT": {2, 1}, "SGT": {2, 1}, "EQ": {2, 1}, "ISZERO": {1, 1}, "AND": {2, 1}, "OR": {2, 1}, "XOR": {2, 1},
	"NOT": {1, 1}, "BYTE": {2, 1}, "SHL": {2, 1}, "SHR": {2, 1}, "SAR": {2, 1}, "SHA3": {2, 1}, "ADDRESS": {0, 1}, "BALANCE": {1, 1}, "ORIGIN": {0, 1}, "CALLER": {0, 1},
	"CALLVALUE": {0, 1}, "CALLDATALOAD": {1, 1}, "CALLDATASIZE": {0, 1}, "CALLDATACOPY": {3, 0}, "CODESIZE": {0, 1}, "CODECOPY": {3, 0}, "GASPRICE": {0, 1},
	"EXTCODESIZE": {1, 1}, "EXTCODECOPY": {4, 0}, "RETURNDATASIZE": {0, 1}, "RETURNDATACOPY": {3, 0}, "EXTCODEHASH": {1, 1}, "BLOCKHASH": {1, 1}, "COINBASE": {0, 1},
	"TIMESTAMP": {0, 1}, "NUMBER": {0, 1}, "DIFFICULTY": {0, 1}, "GASLIMIT": {0, 1}, "CHAINID": {0, 1}, "SELFBALANCE": {0, 1}, "BASEFEE": {0, 1}, "POP": {1, 0},
	"MLOAD": {1, 1}, "MSTORE": {2, 0}, "MSTORE8": {2, 0}, "SLOAD": {1, 1}, "SSTORE": {2, 0}, "JUMP": {1, 0}, "JUMPI": {2, 0}, "PC": {0, 1}, "MSIZE": {0, 1}, "GAS": {0, 1},
	"JUMPDEST": {0, 0}, "CREATE": {3, 1}, "CALL": {7, 1}, "CALLCODE": {7, 1}, "RETURN": {2, 0}, "DELEGATECALL": {6, 1}, "CREATE2": {4, 1}, "STATICCALL": {6, 1},
	"REVERT": {2, 0}, "SELFDESTRUCT": {1, 0},
}

func init() {
	for i := 1; i <= 32; i++ {
		evmArity["PUSH"+strconv.Itoa(i)] = [2]int{0, 1}
	}
	for i := 1; i <= 16; i++ {
		evmArity["DUP"+strconv.Itoa(i)] = [2]int{i, i + 1}
		evmArity["SWAP"+strconv.Itoa(i)] = [2]int{i + 1, i + 1}
	}
	for i := 0; i <= 4; i++ {
		evmArity["LOG"+strconv.Itoa(i)] = [2]int{i + 2, 0}
	}
}

// flags the specification requires per opcode class
var evmFlags = map[string]string{
	"STOP": "halts", "RETURN": "halts", "SELFDESTRUCT": "halts,writes", "REVERT": "returns,reverts", "JUMP": "jumps", "JUMPI": "jumps", "SSTORE": "writes",
	"LOG0": "writes", "LOG1": "writes", "LOG2": "writes", "LOG3": "writes", "LOG4": "writes", "CREATE": "returns,writes", "CREATE2": "returns,writes",
	"CALL": "returns", "CALLCODE": "returns", "DELEGATECALL": "returns", "STATICCALL": "returns",
}

type jtEntry struct {
	Op       string
	Pos      token.Pos
	Exec     string  // function name or maker name
	ExecArgs []int64 // maker arguments
	MinFn    string
	MinArgs  []int64
	MaxFn    string
	MaxArgs  []int64
	MemSize  string
	DynGas   string
	Flags    map[string]bool
}

func intLits(args []ast.Expr) []int64 {
	var out []int64
	for _, a := range args {
		if bl, ok := a.(*ast.BasicLit); ok && bl.Kind == token.INT {
			n, _ := strconv.ParseInt(bl.Value, 0, 64)
			out = append(out, n)
		} else {
			out = append(out, -1)
		}
	}
	return out
}

func (c *Ctx) parseJumpTable(file, fn string) []jtEntry {
	f, _ := c.P.FileAST(file)
	if f == nil {
		return nil
	}
	var out []jtEntry
	ast.Inspect(f, func(n ast.Node) bool {
		fd, ok := n.(*ast.FuncDecl)
		if !ok || fd.Name.Name != fn {
			return true
		}
		ast.Inspect(fd.Body, func(n ast.Node) bool {
			kv, ok := n.(*ast.KeyValueExpr)
			if !ok {
				return true
			}
			key, ok := kv.Key.(*ast.Ident)
			lit, ok2 := kv.Value.(*ast.CompositeLit)
			if !ok || !ok2 || strings.ToUpper(key.Name) != key.Name {
				return true
			}
			e := jtEntry{Op: key.Name, Pos: kv.Pos(), Flags: map[string]bool{}}
			for _, el := range lit.Elts {
				fkv, ok := el.(*ast.KeyValueExpr)
				if !ok {
					continue
				}
				name := fkv.Key.(*ast.Ident).Name
				switch v := fkv.Value.(type) {
				case *ast.Ident:
					switch name {
					case "execute":
						e.Exec = v.Name
					case "memorySize":
						e.MemSize = v.Name
					case "dynamicGas":
						e.DynGas = v.Name
					case "halts", "jumps", "writes", "reverts", "returns":
						e.Flags[name] = v.Name == "true"
					}
				case *ast.CallExpr:
					fnName := ""
					if id, ok := v.Fun.(*ast.Ident); ok {
						fnName = id.Name
					}
					switch name {
					case "execute":
						e.Exec, e.ExecArgs = fnName, intLits(v.Args)
					case "minStack":
						e.MinFn, e.MinArgs = fnName, intLits(v.Args)
					case "maxStack":
						e.MaxFn, e.MaxArgs = fnName, intLits(v.Args)
					case "dynamicGas":
						e.DynGas = fnName
					}
				}
			}
			out = append(out, e)
			return false
		})
		return false
	})
	return out
}

// declaredArity folds minStack/maxStack helper calls to (pops, pushes).
func declaredArity(fn string, args []int64) (int, int, bool) {
	switch {
	case (fn == "minStack" || fn == "maxStack") && len(args) == 2:
		return int(args[0]), int(args[1]), true
	case (fn == "minDupStack" || fn == "maxDupStack") && len(args) == 1:
		return int(args[0]), int(args[0]) + 1, true
	case (fn == "minSwapStack" || fn == "maxSwapStack") && len(args) == 1:
		return int(args[0]), int(args[0]), true
	}
	return 0, 0, false
}

// ---- stack-effect analysis ---------------------------------------------------------------------------

type stackFx struct {
	Net     int // net depth change on success exits
	Deepest int // deepest item touched below the entry depth (positive number of items)
	OK      bool
	Why     string
	Exits   int
}

// stackEffect abstractly interprets fn over the stack-depth domain with constant propagation for integer
// counters (free variables bound through `bind`). Only success exits (nil error result) constrain Net.
func (c *Ctx) stackEffect(fn *ssa.Function, bind map[string]int64, stackRe string) stackFx {
	type state struct {
		b    *ssa.BasicBlock
		pred *ssa.BasicBlock
		net  int
		deep int
		env  map[ssa.Value]int64
	}
	res := stackFx{OK: true}
	nets := map[int]bool{}
	var eval func(v ssa.Value, env map[ssa.Value]int64) (int64, bool)
	eval = func(v ssa.Value, env map[ssa.Value]int64) (int64, bool) {
		if k, ok := constIntVal(v); ok {
			return k, true
		}
		if x, ok := env[v]; ok {
			return x, true
		}
		switch x := v.(type) {
		case *ssa.Convert:
			return eval(x.X, env)
		case *ssa.ChangeType:
			return eval(x.X, env)
		case *ssa.UnOp:
			if x.Op == token.MUL {
				if fv, ok := x.X.(*ssa.FreeVar); ok {
					if k, ok := bind[fv.Name()]; ok {
						return k, true
					}
				}
			}
		case *ssa.FreeVar:
			if k, ok := bind[x.Name()]; ok {
				return k, true
			}
		case *ssa.Call:
			// len/cap of a slice made with a known length (a range loop over it runs that many times)
			if bi, ok := x.Call.Value.(*ssa.Builtin); ok && (bi.Name() == "len" || bi.Name() == "cap") && len(x.Call.Args) == 1 {
				if ms, ok := x.Call.Args[0].(*ssa.MakeSlice); ok {
					if bi.Name() == "len" {
						return eval(ms.Len, env)
					}
					return eval(ms.Cap, env)
				}
			}
		case *ssa.BinOp:
			a, ok1 := eval(x.X, env)
			b, ok2 := eval(x.Y, env)
			if ok1 && ok2 {
				switch x.Op {
				case token.ADD:
					return a + b, true
				case token.SUB:
					return a - b, true
				}
			}
		}
		return 0, false
	}
	steps := 0
	var stack []state
	stack = append(stack, state{fn.Blocks[0], nil, 0, 0, map[ssa.Value]int64{}})
	for len(stack) > 0 {
		st := stack[len(stack)-1]
		stack = stack[:len(stack)-1]
		steps++
		if steps > 4000 {
			res.OK, res.Why = false, "analysis budget exceeded (unbounded loop over the stack?)"
			return res
		}
		env := map[ssa.Value]int64{}
		for k, v := range st.env {
			env[k] = v
		}
		net, deep := st.net, st.deep
		touch := func(n int) {
			// touching n items below the current top
			if d := n - net; d > deep {
				deep = d
			}
		}
		blocked := false
		for _, in := range st.b.Instrs {
			switch x := in.(type) {
			case *ssa.Phi:
				for i, p := range st.b.Preds {
					if p == st.pred {
						if k, ok := eval(x.Edges[i], st.env); ok {
							env[x] = k
						} else {
							delete(env, x)
						}
					}
				}
			case *ssa.Call:
				cal := calleeNameNoPath(&x.Call)
				if !strings.HasPrefix(cal, "(*kvm.Stack).") || len(x.Call.Args) == 0 || !re(stackRe).MatchString(pathOf(x.Call.Args[0])) {
					if c.P.callNoReturn(&x.Call) {
						blocked = true
					}
					continue
				}
				arg := func() (int, bool) {
					if len(x.Call.Args) < 2 {
						return 0, false
					}
					k, ok := eval(x.Call.Args[1], env)
					return int(k), ok
				}
				switch strings.TrimPrefix(cal, "(*kvm.Stack).") {
				case "pop":
					touch(1)
					net--
				case "push":
					net++
				case "peek":
					touch(1)
				case "Back":
					n, ok := arg()
					if !ok {
						res.OK, res.Why = false, "Back() with a non-constant depth at "+c.P.Pos(x.Pos())
						return res
					}
					touch(n + 1)
				case "dup":
					n, ok := arg()
					if !ok {
						res.OK, res.Why = false, "dup() with a non-constant depth at "+c.P.Pos(x.Pos())
						return res
					}
					touch(n)
					net++
				case "swap":
					n, ok := arg()
					if !ok {
						res.OK, res.Why = false, "swap() with a non-constant depth at "+c.P.Pos(x.Pos())
						return res
					}
					touch(n)
				case "pushN":
					res.OK, res.Why = false, "pushN with a variable count at "+c.P.Pos(x.Pos())
					return res
				case "len", "Data", "Print":
				}
			case *ssa.Panic:
				blocked = true
			case *ssa.Return:
				// success exits only: last result is a nil error
				ok := true
				if n := len(x.Results); n > 0 {
					last := pathOf(x.Results[n-1])
					if _, isBool := x.Results[n-1].Type().Underlying().(interface{ Info() int }); isBool {
						_ = last
					}
					if strings.Contains(typeStr(x.Results[n-1].Type()), "error") && last != "nil" && !strings.HasPrefix(last, "phi(") {
						ok = false
					}
				}
				if ok {
					res.Exits++
					nets[net] = true
					if deep > res.Deepest {
						res.Deepest = deep
					}
				}
				blocked = true
			}
			if blocked {
				break
			}
		}
		if blocked {
			continue
		}
		succs := st.b.Succs
		if iff, ok := st.b.Instrs[len(st.b.Instrs)-1].(*ssa.If); ok {
			if bo, ok := iff.Cond.(*ssa.BinOp); ok && isCmp(bo.Op) {
				a, ok1 := eval(bo.X, env)
				b, ok2 := eval(bo.Y, env)
				if ok1 && ok2 {
					var t bool
					switch bo.Op {
					case token.LSS:
						t = a < b
					case token.LEQ:
						t = a <= b
					case token.GTR:
						t = a > b
					case token.GEQ:
						t = a >= b
					case token.EQL:
						t = a == b
					case token.NEQ:
						t = a != b
					}
					if t {
						succs = succs[:1]
					} else {
						succs = succs[1:2]
					}
				}
			}
		}
		for _, s := range succs {
			stack = append(stack, state{s, st.b, net, deep, env})
		}
	}
	if len(nets) > 1 {
		var ns []int
		for n := range nets {
			ns = append(ns, n)
		}
		sort.Ints(ns)
		res.OK, res.Why = false, fmt.Sprintf("success exits leave different stack heights %v", ns)
		return res
	}
	for n := range nets {
		res.Net = n
	}
	if res.Exits == 0 {
		res.OK, res.Why = false, "no success exit found"
	}
	return res
}

// makerBinding evaluates a closure maker (makeDup, makeSwap, makeLog, makePush, makeGasLog) on concrete arguments and
// returns the closure function with its free-variable bindings.
func (c *Ctx) makerBinding(maker *ssa.Function, args []int64) (*ssa.Function, map[string]int64) {
	if maker == nil || len(maker.Blocks) == 0 {
		return nil, nil
	}
	cell := map[ssa.Value]int64{}
	vals := map[ssa.Value]int64{}
	for i, p := range maker.Params {
		if i < len(args) {
			vals[p] = args[i]
		}
	}
	var eval func(v ssa.Value) (int64, bool)
	eval = func(v ssa.Value) (int64, bool) {
		if k, ok := constIntVal(v); ok {
			return k, true
		}
		if x, ok := vals[v]; ok {
			return x, true
		}
		switch x := v.(type) {
		case *ssa.Convert:
			return eval(x.X)
		case *ssa.UnOp:
			if x.Op == token.MUL {
				if k, ok := cell[x.X]; ok {
					return k, true
				}
			}
		case *ssa.BinOp:
			a, ok1 := eval(x.X)
			b, ok2 := eval(x.Y)
			if ok1 && ok2 {
				switch x.Op {
				case token.ADD:
					return a + b, true
				case token.SUB:
					return a - b, true
				}
			}
		}
		return 0, false
	}
	for _, in := range maker.Blocks[0].Instrs {
		switch x := in.(type) {
		case *ssa.Store:
			if k, ok := eval(x.Val); ok {
				cell[x.Addr] = k
			}
		case *ssa.MakeClosure:
			fn, _ := x.Fn.(*ssa.Function)
			if fn == nil {
				continue
			}
			bind := map[string]int64{}
			for i, b := range x.Bindings {
				if i >= len(fn.FreeVars) {
					break
				}
				if k, ok := cell[b]; ok {
					bind[fn.FreeVars[i].Name()] = k
				} else if k, ok := eval(b); ok {
					bind[fn.FreeVars[i].Name()] = k
				}
			}
			return fn, bind
		}
	}
	return nil, nil
}

// reachesCallee: fn reaches (through static module callees, depth-limited, not through the frame functions) a call
// whose callee name matches calleeRe.
func (c *Ctx) reachesCallee(fn *ssa.Function, calleeRe string, depth int, stop string) (string, bool) {
	seen := map[*ssa.Function]bool{}
	var hit string
	var visit func(f *ssa.Function, d int) bool
	visit = func(f *ssa.Function, d int) bool {
		if f == nil || seen[f] || len(f.Blocks) == 0 {
			return false
		}
		seen[f] = true
		found := false
		allInstrs(f, true, func(_ *ssa.Function, in ssa.Instruction) {
			if found {
				return
			}
			cc := callCommon(in)
			if cc == nil {
				return
			}
			n := calleeNameNoPath(cc)
			if re(calleeRe).MatchString(n) {
				hit = n + " at " + c.P.Pos(instrPos(in))
				found = true
				return
			}
			if d > 0 && (stop == "" || !re(stop).MatchString(n)) {
				if cal := cc.StaticCallee(); cal != nil && cal.Pkg != nil && strings.HasPrefix(cal.Pkg.Pkg.Path(), modPath) {
					if visit(cal, d-1) {
						found = true
					}
				}
			}
		})
		return found
	}
	ok := visit(fn, depth)
	return hit, ok
}

func runC10(c *Ctx) {
	c.Decided = []string{
		"every jump-table entry declares the (pops, pushes) of the Yellow Paper for its opcode, min and max bounds agree, and the helper functions compute min = pops, max = limit + pops - pushes",
		"every instruction implementation, abstractly interpreted over the stack depth (closures with their bound constants, loops with their trip counts), touches at most `pops` items and changes the height by pushes - pops on every success exit; memory-size and dynamic-gas functions look at most `pops` deep",
		"instructions that touch memory have a memory-size function; instructions that reach a state mutator are flagged writes; halts/reverts/jumps/returns match the opcode class",
		"the interpreter executes an operation only behind: defined opcode, stack within [min, max], not a write in read-only mode (including value-bearing CALL), constant and dynamic gas paid, memory sized; memory is resized before execution",
		"call depth is limited before running a frame; STATICCALL runs read-only; jumps go only to valid destinations; gas is subtracted only when sufficient",
	}
	c.NotDec = []string{"equivalence with a reference EVM (value-level)", "termination", "absence of implicit run-time panics in general", "gas constants"}
	c.Floors["T"] = 500
	c10Round3(c)

	entries := c.parseJumpTable("kvm/instruction_set.go", "newV1InstructionSet")
	alias := newAliasAn(c.P)
	if len(entries) < 130 {
		c.Unres("T", "jump table", fmt.Sprintf("parsed %d entries from newV1InstructionSet, expected about 139", len(entries)))
		return
	}
	// EIP additions
	if f, _ := c.P.FileAST("kvm/eips.go"); f != nil {
		ast.Inspect(f, func(n ast.Node) bool {
			as, ok := n.(*ast.AssignStmt)
			if !ok || len(as.Lhs) != 1 || len(as.Rhs) != 1 {
				return true
			}
			ix, ok := as.Lhs[0].(*ast.IndexExpr)
			if !ok {
				return true
			}
			key, ok := ix.Index.(*ast.Ident)
			if !ok {
				return true
			}
			var lit *ast.CompositeLit
			switch r := as.Rhs[0].(type) {
			case *ast.CompositeLit:
				lit = r
			case *ast.UnaryExpr:
				lit, _ = r.X.(*ast.CompositeLit)
			}
			if lit == nil {
				return true
			}
			e := jtEntry{Op: key.Name, Pos: as.Pos(), Flags: map[string]bool{}}
			for _, el := range lit.Elts {
				fkv, ok := el.(*ast.KeyValueExpr)
				if !ok {
					continue
				}
				name := fkv.Key.(*ast.Ident).Name
				switch v := fkv.Value.(type) {
				case *ast.Ident:
					if name == "execute" {
						e.Exec = v.Name
					}
				case *ast.CallExpr:
					id, _ := v.Fun.(*ast.Ident)
					if id == nil {
						continue
					}
					if name == "minStack" {
						e.MinFn, e.MinArgs = id.Name, intLits(v.Args)
					}
					if name == "maxStack" {
						e.MaxFn, e.MaxArgs = id.Name, intLits(v.Args)
					}
				}
			}
			if e.Exec != "" {
				entries = append(entries, e)
			}
			return true
		})
	}
	c.Extra["jump_table_entries"] = len(entries)
	// helper definitions
	if fn := c.Fn("kvm", "", "minStack"); fn != nil {
		ok := false
		for _, in := range findInstrs(fn, AnyReturn()) {
			ok = pathOf(in.(*ssa.Return).Results[0]) == "pops"
		}
		c.Check("T", "kvm.minStack/is pops", ok, fn.Pos(), 1, "")
	}
	if fn := c.Fn("kvm", "", "maxStack"); fn != nil {
		p := ""
		for _, in := range findInstrs(fn, AnyReturn()) {
			p = pathOf(in.(*ssa.Return).Results[0])
		}
		lim := c.P.Const("configs", "StackLimit")
		c.Check("T", "kvm.maxStack/is StackLimit + pops - pushes with StackLimit 1024", p == "((const:"+lim+" + pop) - push)" && lim == "1024", fn.Pos(), 1, p)
	}
	for name, want := range map[string]string{"minDupStack": "call:kvm.minStack(n, (n + const:1))", "maxDupStack": "call:kvm.maxStack(n, (n + const:1))", "minSwapStack": "call:kvm.minStack(n, n)", "maxSwapStack": "call:kvm.maxStack(n, n)"} {
		if fn := c.Fn("kvm", "", name); fn != nil {
			p := ""
			for _, in := range findInstrs(fn, AnyReturn()) {
				p = pathOf(in.(*ssa.Return).Results[0])
			}
			c.Check("T", "kvm."+name+"/definition", p == want, fn.Pos(), 1, p)
		}
	}
	seenOps := map[string]bool{}
	for _, e := range entries {
		seenOps[e.Op] = true
		spec, known := evmArity[e.Op]
		if !known {
			c.Bad("T", "opcode "+e.Op+"/has a specification entry", e.Pos, 1, "opcode "+e.Op+" is in the jump table but not in the checker's Yellow-Paper arity table: classify it")
			continue
		}
		p1, q1, ok1 := declaredArity(e.MinFn, e.MinArgs)
		p2, q2, ok2 := declaredArity(e.MaxFn, e.MaxArgs)
		c.Check("T", "opcode "+e.Op+"/min and max stack bounds are declared with the same arity", ok1 && ok2 && p1 == p2 && q1 == q2, e.Pos, 2, fmt.Sprintf("minStack=%s%v maxStack=%s%v", e.MinFn, e.MinArgs, e.MaxFn, e.MaxArgs))
		c.Check("T", "opcode "+e.Op+"/declared (pops, pushes) equals the specification", ok1 && p1 == spec[0] && q1 == spec[1], e.Pos, 1, fmt.Sprintf("declared (%d,%d), Yellow Paper (%d,%d)", p1, q1, spec[0], spec[1]))
		// implementation
		var fn *ssa.Function
		bind := map[string]int64{}
		if e.ExecArgs != nil {
			fn, bind = c.makerBinding(c.P.Func("kvm", "", e.Exec), e.ExecArgs)
		} else {
			fn = c.P.Func("kvm", "", e.Exec)
		}
		if fn == nil {
			c.Unres("T", "opcode "+e.Op+"/implementation resolvable", "execute = "+e.Exec+" not found")
			continue
		}
		c.Funcs[fnName(fn)] = true
		fx := c.stackEffect(fn, bind, `^(callContext|scope)\.Stack$|^stack$`)
		if !fx.OK {
			c.Bad("T", "opcode "+e.Op+"/stack effect of "+e.Exec+" is analysable", fn.Pos(), 1, fx.Why)
			continue
		}
		c.Check("T", "opcode "+e.Op+"/implementation touches at most `pops` stack items", fx.Deepest <= spec[0], fn.Pos(), fx.Exits,
			fmt.Sprintf("%s reaches %d items below the top but the table guarantees only %d (minStack): a shorter stack makes it index out of range", e.Exec, fx.Deepest, spec[0]))
		c.Check("T", "opcode "+e.Op+"/implementation changes the stack height by pushes - pops", fx.Net == spec[1]-spec[0], fn.Pos(), fx.Exits,
			fmt.Sprintf("%s leaves the stack %+d, the table says %+d: the maxStack bound (limit 1024) or the next instruction's minStack is then wrong", e.Exec, fx.Net, spec[1]-spec[0]))
		// memory / gas functions look at most pops deep
		for _, aux := range []string{e.MemSize, e.DynGas} {
			if aux == "" {
				continue
			}
			af := c.P.Func("kvm", "", aux)
			ab := map[string]int64{}
			if aux == "makeGasLog" {
				af, ab = c.makerBinding(af, []int64{int64(spec[0] - 2)})
			}
			if af == nil {
				af, ab = c.resolveFuncVar("kvm", aux)
			}
			if af == nil {
				c.Unres("T", "opcode "+e.Op+"/"+aux+" resolvable", "not found")
				continue
			}
			c.Funcs[fnName(af)] = true
			afx := c.stackEffect(af, ab, `^stack$`)
			if !afx.OK && !strings.Contains(afx.Why, "no success exit") {
				c.Bad("T", "opcode "+e.Op+"/"+aux+" is analysable", af.Pos(), 1, afx.Why)
				continue
			}
			c.Check("T", "opcode "+e.Op+"/"+aux+" looks at most `pops` deep", afx.Deepest <= spec[0] && afx.Net == 0, af.Pos(), 1,
				fmt.Sprintf("%s touches %d items (net %+d), opcode guarantees %d", aux, afx.Deepest, afx.Net, spec[0]))
		}
		// memory use implies a memory-size function
		if hit, uses := c.reachesCallee(fn, `^\(\*kvm\.Memory\)\.(GetPtr|GetCopy|Set|Set32)$`, 1, ""); uses {
			c.Check("T", "opcode "+e.Op+"/touches memory only with a memorySize function", e.MemSize != "", e.Pos, 1, e.Exec+" reaches "+hit+" but the table has no memorySize: memory is not resized before the access")
		}
		// writes flag
		if hit, w := c.reachesCallee(fn, `^iface:\(kvm\.StateDB\)\.(SetState|AddLog|CreateAccount|Suicide|AddBalance|SubBalance|SetCode|SetNonce|SetTransientState)$`, 1, `^\(\*kvm\.KVM\)\.(Call|CallCode|DelegateCall|StaticCall|Create|Create2)$`); w {
			c.Check("T", "opcode "+e.Op+"/state-mutating implementation is flagged writes", e.Flags["writes"], e.Pos, 1, e.Exec+" reaches "+hit+" but writes is not set: the instruction would run inside a static call")
		}
		if _, cr := c.reachesCallee(fn, `^\(\*kvm\.KVM\)\.(Create|Create2)$`, 0, ""); cr {
			c.Check("T", "opcode "+e.Op+"/contract creation is flagged writes", e.Flags["writes"], e.Pos, 1, "")
		}
		// class flags
		want := evmFlags[e.Op]
		var got []string
		for _, f := range []string{"halts", "jumps", "returns", "reverts", "writes"} {
			if e.Flags[f] {
				got = append(got, f)
			}
		}
		c.Check("T", "opcode "+e.Op+"/halts, jumps, returns, reverts, writes flags match the opcode class", strings.Join(got, ",") == want, e.Pos, 1, "flags {"+strings.Join(got, ",")+"}, specification {"+want+"}")
		// An instruction whose result becomes the interpreter's return data while the frame keeps running must hand
		// over a buffer of its own: one that shares the frame memory's backing array changes under later memory writes
		// (MSTORE, the call's own output copy), and RETURNDATACOPY then reads something the callee never returned.
		if e.Flags["returns"] && !e.Flags["halts"] && !e.Flags["reverts"] {
			var seeds []ssa.Value
			for _, in := range findInstrs(fn, CallTo(`^\(\*kvm\.Memory\)\.GetPtr$`, "")) {
				if v, ok := in.(ssa.Value); ok {
					seeds = append(seeds, v)
				}
			}
			al := alias.forward(fn, seeds)
			bad := ""
			for _, in := range findInstrs(fn, AnyReturn()) {
				if r := in.(*ssa.Return); len(r.Results) > 0 && al[r.Results[0]] {
					bad = describeInstr(in) + " at " + c.P.Pos(instrPos(in))
				}
			}
			why := ""
			if bad != "" {
				why = bad + ": the returned buffer may be the slice obtained from Memory.GetPtr (" + aliasWhy(alias, fn, al) + "); it is kept as the interpreter's return data while the frame goes on writing its memory"
			}
			c.Check("T", "opcode "+e.Op+"/the retained return data does not share the frame memory's backing array", bad == "", e.Pos, len(seeds), why)
		}
	}
	for _, op := range []string{"STOP", "ADD", "SSTORE", "CALL", "STATICCALL", "REVERT", "SELFDESTRUCT", "JUMP", "JUMPI", "PUSH1", "PUSH32", "DUP16", "SWAP16", "LOG4", "CHAINID"} {
		c.Check("T", "opcode "+op+"/present in the instruction set", seenOps[op], token.NoPos, 1, "")
	}

	// ---- interpreter loop -----------------------------------------------------------------------------
	if fn := c.Fn("kvm", "Interpreter", "Run"); fn != nil {
		opn := `in\.cfg\.JumpTable\[call:\(\*kvm\.Contract\)\.GetOp\(contract, .*\)\]`
		exec := func(in ssa.Instruction) bool {
			cc := callCommon(in)
			return cc != nil && re(`^dyn:`+opn+`\.execute$`).MatchString(calleeName(cc))
		}
		c.Guarded(fn, "operation.execute", exec,
			G("operation != nil (defined opcode)", NotNil(`^`+opn+`$`)),
			G("stack length >= minStack", Cmp(`^call:\(\*kvm\.Stack\)\.len\(`, ">=", `^`+opn+`\.minStack$`)),
			G("stack length <= maxStack", Cmp(`^call:\(\*kvm\.Stack\)\.len\(`, "<=", `^`+opn+`\.maxStack$`)),
			G("not read-only, or the operation does not write", False(`^in\.readOnly$`), False(`^`+opn+`\.writes$`)),
			G("constant gas paid", True(`^call:\(\*kvm\.Contract\)\.UseGas\(contract, (cost|`+opn+`\.constantGas)\)$`)))
		for _, in := range findInstrs(fn, StoreTo(`^&cost$`)) {
			v := pathOf(in.(*ssa.Store).Val)
			if !strings.HasPrefix(v, "(cost + ") {
				c.Check("F", fnName(fn)+"/cost starts as the operation's constant gas", re(`^`+opn+`\.constantGas$`).MatchString(v), instrPos(in), 1, v)
			}
		}
		// value-bearing CALL in read-only mode
		callOp := c.P.Const("kvm", "CALL")
		c.Guarded(fn, "operation.execute (value-bearing CALL)", exec,
			G("not read-only, or not CALL, or value == 0", False(`^in\.readOnly$`), Cmp(`^call:\(\*kvm\.Contract\)\.GetOp\(`, "!=", `^const:`+callOp+`$`), Cmp(`^call:\(\*github\.com/holiman/uint256\.Int\)\.Sign\(call:\(\*kvm\.Stack\)\.Back\(.*, const:2\)\)$`, "==", `^const:0$`)))
		// dynamic gas: when present its error and payment are checked
		dyn := func(in ssa.Instruction) bool {
			cc := callCommon(in)
			return cc != nil && re(`^dyn:`+opn+`\.dynamicGas$`).MatchString(calleeName(cc))
		}
		nd := len(findInstrs(fn, dyn))
		c.Check("G", fnName(fn)+"/dynamic gas function is consulted", nd == 1, fn.Pos(), nd, "")
		c.FollowedBy(fn, "dynamicGas(...)", dyn, "UseGas(dynamic cost) (or out-of-gas return)", Or(CallTo(`^\(\*kvm\.Contract\)\.UseGas$`, ""), func(in ssa.Instruction) bool {
			r, ok := in.(*ssa.Return)
			return ok && len(r.Results) == 2 && pathOf(r.Results[1]) != "nil"
		}), "operation.execute", exec)
		// memory resized before execution when a size was computed
		rs := findInstrs(fn, CallTo(`^\(\*kvm\.Memory\)\.Resize$`, ""))
		okR := len(rs) == 1
		if okR {
			for _, e := range findInstrs(fn, exec) {
				if !instrBefore(rs[0], e) && !rs[0].Block().Dominates(e.Block()) {
					// Resize is conditional (memorySize > 0); require that every path to execute passes the test block
				}
			}
		}
		c.Check("O", fnName(fn)+"/memory is resized (when needed) before the operation runs", okR, fn.Pos(), len(rs), "")
		if okR {
			c.Guarded(fn, "mem.Resize", CallTo(`^\(\*kvm\.Memory\)\.Resize$`, ""), G("memorySize > 0", Cmp(`^phi\(`, ">", `^const:0$`)))
			// and no execute is reachable from the overflow branches
			c.Guarded(fn, "operation.execute (memory size)", exec, G("memory size computation did not overflow (or no memorySize function)", False(`^call:dyn:`+opn+`\.memorySize\(.*\)#1$`), IsNil(`^`+opn+`\.memorySize$`)))
		}
		// depth bookkeeping
		inc := findInstrs(fn, StoreTo(`^&in\.kvm\.depth$`))
		c.Check("O", fnName(fn)+"/depth is incremented on entry", len(inc) >= 1 && strings.HasSuffix(pathOf(inc[0].(*ssa.Store).Val), "+ const:1)"), fn.Pos(), len(inc), "")
		dec := false
		for _, a := range fn.AnonFuncs {
			for _, in := range findInstrs(a, StoreTo(`\.depth$`)) {
				if strings.HasSuffix(pathOf(in.(*ssa.Store).Val), "- const:1)") {
					dec = true
				}
			}
		}
		c.Check("O", fnName(fn)+"/depth is decremented by a deferred function", dec, fn.Pos(), 1, "")
		// result handling
		c.Guarded(fn, "advance pc", func(in ssa.Instruction) bool {
			st, ok := in.(*ssa.Store)
			return ok && pathOf(st.Addr) == "&pc" && strings.HasSuffix(pathOf(st.Val), "+ const:1)")
		}, G("execute error == nil", IsNil(`^err$|#1$`)), G("operation does not jump", False(`^`+opn+`\.jumps$`)), G("operation does not halt", False(`^`+opn+`\.halts$`)), G("operation does not revert", False(`^`+opn+`\.reverts$`)))
	}
	// ---- frames ---------------------------------------------------------------------------------------------
	depthLim := c.P.Const("configs", "CallCreateDepth")
	c.Check("T", "configs.CallCreateDepth == 1024", depthLim == "1024", token.NoPos, 1, depthLim)
	for _, name := range []string{"Call", "CallCode", "DelegateCall", "StaticCall", "create"} {
		if fn := c.Fn("kvm", "KVM", name); fn != nil {
			c.Guarded(fn, "run the frame", CallTo(`^kvm\.run$|^kvm\.RunPrecompiledContract$`, ""), G("depth <= CallCreateDepth", Cmp(`^kvm\.depth$`, "<=", `^const:`+depthLim+`$`)))
		}
	}
	if fn := c.Fn("kvm", "KVM", "StaticCall"); fn != nil {
		for _, in := range findInstrs(fn, CallTo(`^kvm\.run$`, "")) {
			a := argPaths(callCommon(in))
			c.Check("F", fnName(fn)+"/runs the frame read-only", len(a) == 4 && a[3] == "const:true", instrPos(in), 1, describeInstr(in))
		}
	}
	for _, name := range []string{"Call", "CallCode", "DelegateCall", "create"} {
		if fn := c.P.Func("kvm", "KVM", name); fn != nil {
			for _, in := range findInstrs(fn, CallTo(`^kvm\.run$`, "")) {
				a := argPaths(callCommon(in))
				c.Check("F", fnName(fn)+"/inherits read-only mode (passes false, the interpreter keeps its own flag)", len(a) == 4 && a[3] == "const:false", instrPos(in), 1, describeInstr(in))
			}
		}
	}
	if fn := c.Fn("kvm", "Interpreter", "Run"); fn != nil {
		c.Guarded(fn, "enter read-only mode", func(in ssa.Instruction) bool {
			st, ok := in.(*ssa.Store)
			return ok && pathOf(st.Addr) == "&in.readOnly" && pathOf(st.Val) == "const:true"
		}, G("requested and not already read-only", True(`^readOnly$`)), G("not already read-only", False(`^in\.readOnly$`)))
		// the flag is only ever raised here and lowered by the reset deferred by the frame that raised it: a nested
		// non-static frame must not clear or overwrite an inherited flag
		bad, nSet, nReset := "", 0, 0
		allInstrs(fn, true, func(f *ssa.Function, in ssa.Instruction) {
			st, ok := in.(*ssa.Store)
			if !ok || !re(`^&(in|\*?free:in|\*in)\.readOnly$`).MatchString(pathOf(st.Addr)) {
				return
			}
			switch v := pathOf(st.Val); {
			case v == "const:true" && f == fn:
				nSet++
			case v == "const:false" && f != fn:
				nReset++
			default:
				bad = describeInstr(in) + " at " + c.P.Pos(instrPos(in))
			}
		})
		c.Check("W", fnName(fn)+"/read-only mode is only raised by the static frame and lowered by its own deferred reset", bad == "" && nSet == 1 && nReset == 1, fn.Pos(), nSet+nReset, "other write of the flag: "+bad+" — a CALL inside a STATICCALL would clear or replace the inherited flag")
		for _, a := range fn.AnonFuncs {
			if len(findInstrs(a, StoreTo(`readOnly$`))) == 0 {
				continue
			}
			c.Guarded(fn, "register the reset of the read-only flag", func(in ssa.Instruction) bool {
				d, ok := in.(*ssa.Defer)
				if !ok {
					return false
				}
				if mc, ok := d.Call.Value.(*ssa.MakeClosure); ok {
					return mc.Fn == a
				}
				return d.Call.Value == ssa.Value(a)
			}, G("this frame raised the flag", True(`^readOnly$`)), G("flag was not inherited", False(`^in\.readOnly$`)))
		}
	}
	c.frameRules()
	runC10Slices(c)
	runC10ALU(c)
	// ---- jumps / gas -------------------------------------------------------------------------------------------
	for _, name := range []string{"opJump", "opJumpi"} {
		if fn := c.Fn("kvm", "", name); fn != nil {
			c.Guarded(fn, "set pc to the destination", func(in ssa.Instruction) bool {
				st, ok := in.(*ssa.Store)
				return ok && pathOf(st.Addr) == "&*pc" || ok && pathOf(st.Addr) == "pc" && strings.Contains(pathOf(st.Val), "Uint64(")
			}, G("validJumpdest(pos)", True(`^call:\(\*kvm\.Contract\)\.validJumpdest\(`)))
		}
	}
	if fn := c.Fn("kvm", "Contract", "UseGas"); fn != nil {
		c.Guarded(fn, "c.Gas -= gas", StoreTo(`^&c\.Gas$`), G("c.Gas >= gas", Cmp(`^c\.Gas$`, ">=", `^gas$`)))
		c.GuardedReturnVal(fn, "return true", 0, `^const:true$`, G("c.Gas >= gas", Cmp(`^c\.Gas$`, ">=", `^gas$`)))
	}
	if fn := c.Fn("kvm", "Contract", "validJumpdest"); fn != nil {
		c.GuardedReturnVal(fn, "return true", 0, `^const:true$`,
			G("destination fits in 64 bits and is inside the code", False(`^call:\(\*github\.com/holiman/uint256\.Int\)\.Uint64WithOverflow\(dest\)#1$`)),
			G("destination is inside the code", Cmp(`Uint64WithOverflow\(dest\)#0$`, "<", `^call:len\(c\.Code\)$`)),
			G("target opcode is JUMPDEST", Cmp(`^c\.Code\[.*\]$`, "==", `^const:`+c.P.Const("kvm", "JUMPDEST")+`$`)))
	}
}

// resolveFuncVar: a package-level function variable initialised in the package init to a function or to the result
// of a closure maker with constant arguments.
func (c *Ctx) resolveFuncVar(pkg, name string) (*ssa.Function, map[string]int64) {
	sp := c.P.SSAPkgs[modPath+"/"+pkg]
	if sp == nil {
		return nil, nil
	}
	init := sp.Func("init")
	var fn *ssa.Function
	var bind map[string]int64
	allInstrs(init, false, func(_ *ssa.Function, in ssa.Instruction) {
		st, ok := in.(*ssa.Store)
		if !ok {
			return
		}
		g, ok := st.Addr.(*ssa.Global)
		if !ok || g.Name() != name {
			return
		}
		switch v := st.Val.(type) {
		case *ssa.Function:
			fn, bind = v, map[string]int64{}
		case *ssa.Call:
			if mk := v.Call.StaticCallee(); mk != nil {
				var args []int64
				for _, a := range v.Call.Args {
					k, _ := constIntVal(a)
					args = append(args, k)
				}
				fn, bind = c.makerBinding(mk, args)
			}
		case *ssa.MakeClosure:
			fn, _ = v.Fn.(*ssa.Function)
			bind = map[string]int64{}
		}
	})
	return fn, bind
}
