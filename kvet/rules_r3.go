package main

import (
	"go/token"
	"strings"

	"golang.org/x/tools/go/ssa"
)

// Rules added for the third round of seeded changes (sub-agents told to avoid every function seeded before). Each is
// called from the run function of the property it serves; groups serving several properties say so.

// nodeOrderRule (C06 C07 C08): a commit's node set is handed to the node database children first — the database counts a
// child's reference only when the child is there when its parent arrives, and dereferencing an older root otherwise frees
// nodes the newer state shares (a pruning node then reads zero where an archive node reads the value).
func nodeOrderRule(c *Ctx) {
	if fn := c.Fn("trie/trienode", "NodeSet", "ForEachWithOrder"); fn != nil {
		n := 0
		for _, in := range findInstrs(fn, CallTo(`^sort\.Sort$`, "")) {
			if a := argPaths(callCommon(in)); len(a) == 1 && strings.HasPrefix(a[0], "call:sort.Reverse(") {
				n++
			}
		}
		c.Check("O", fnName(fn)+"/nodes are visited longest path first (children before parents)", n == 1, fn.Pos(), n, "")
		c.Precedes(fn, "sort the paths", CallTo(`^sort\.Sort$`, ""), "visit a node", func(in ssa.Instruction) bool {
			cc := callCommon(in)
			return cc != nil && strings.HasPrefix(calleeName(cc), "dyn:") && strings.Contains(calleeName(cc), "callback")
		})
	}
}

func c07Round3(c *Ctx) {
	nodeOrderRule(c)
	// every child of a branch is hashed under the embedding rule (force = false), in the sequential and in the parallel
	// branch alike: a forced child hash gives a root that depends on how many writes were batched
	if fn := c.Fn("trie", "hasher", "hashFullNodeChildren"); fn != nil {
		n, ok := 0, true
		allInstrs(fn, true, func(_ *ssa.Function, in ssa.Instruction) {
			if cc := callCommon(in); cc != nil && calleeNameNoPath(cc) == "(*trie.hasher).hash" && len(cc.Args) == 3 {
				n++
				ok = ok && pathOf(cc.Args[2]) == "const:false"
			}
		})
		c.Check("S", fnName(fn)+"/children are hashed without force in both branches", n == 2 && ok, fn.Pos(), n, "")
	}
	// a proof lists every node on the path, the node where the key diverges included (a proof of absence ends there)
	if fn := c.Fn("trie", "Trie", "Prove"); fn != nil {
		var appends []ssa.Instruction
		allInstrs(fn, false, func(_ *ssa.Function, in ssa.Instruction) {
			if cc := callCommon(in); cc != nil && calleeNameNoPath(cc) == "append" && len(cc.Args) == 2 && strings.HasSuffix(cc.Args[0].Type().String(), "/trie.node") && strings.HasPrefix(cc.Args[0].Type().String(), "[]") {
				appends = append(appends, in)
			}
		})
		bad := ""
		for _, in := range appends {
			for _, d := range domConds(in) {
				if strings.HasPrefix(d, "call:bytes.Equal(") || strings.HasPrefix(d, "!call:bytes.Equal(") {
					bad = d
				}
			}
		}
		c.Check("G", fnName(fn)+"/a node on the path is recorded whether or not the key continues below it", len(appends) >= 1 && bad == "", fn.Pos(), len(appends), "recording depends on "+bad)
	}
}

// createKeepsBalance (C09): an account created over an existing one keeps the funds already sent to the address, whatever
// else the previous object holds; the carry-over depends on nothing but the previous object existing.
func createKeepsBalance(c *Ctx) {
	fn := c.Fn("kai/state", "StateDB", "CreateAccount")
	if fn == nil {
		return
	}
	n, ok := 0, true
	for _, in := range findInstrs(fn, CallTo(`^\(\*kai/state\.stateObject\)\.setBalance$`, `createObject\(s, addr\)#0, call:\(\*kai/state\.StateDB\)\.createObject\(s, addr\)#1\.data\.Balance\)$`)) {
		n++
		for _, cnd := range domConds(in) {
			if !re(`^\(call:\(\*kai/state\.StateDB\)\.createObject\(s, addr\)#1 != nil\)=T$|^\(call:\(\*kai/state\.StateDB\)\.createObject\(s, addr\)#1 == nil\)=F$`).MatchString(cnd) {
				ok = false
			}
		}
	}
	c.Check("F", fnName(fn)+"/the previous object's balance is carried over whenever there is a previous object", n == 1 && ok, fn.Pos(), n, "")
}

func c10Round3(c *Ctx) {
	// SELFDESTRUCT inside a frame that later reverts leaves no trace: the journal entry records the account's flag and
	// balance as they were before the instruction marks and empties it (C08's journal rules, the part C10 depends on)
	if fn := c.Fn("kai/state", "StateDB", "Suicide"); fn != nil {
		c.Precedes(fn, "journal the previous flag and balance", CallTo(`^\(\*kai/state\.journal\)\.append$`, `suicideChange\)$`), "mark and empty the account",
			Or(CallTo(`^\(\*kai/state\.stateObject\)\.markSuicided$`, ""), StoreTo(`\.data\.Balance$`)))
	}
	// the end of a data window is computed from the clamped start: start+size on the raw operand wraps for offsets near
	// 2^64 and the slice expression panics inside CALLDATALOAD/CALLDATACOPY/CODECOPY/EXTCODECOPY
	if fn := c.Fn("kvm", "", "getData"); fn != nil && len(fn.Params) == 3 {
		n, ok := 0, true
		allInstrs(fn, false, func(_ *ssa.Function, in ssa.Instruction) {
			b, isB := in.(*ssa.BinOp)
			if !isB || b.Op != token.ADD {
				return
			}
			n++
			_, xPhi := b.X.(*ssa.Phi)
			_, yPhi := b.Y.(*ssa.Phi)
			ok = ok && (xPhi && b.Y == fn.Params[2] || yPhi && b.X == fn.Params[2])
		})
		c.Check("G", fnName(fn)+"/the window's end is the clamped start plus the size", n == 1 && ok, fn.Pos(), n, "")
	}
	// a log's data is a copy of the memory it was taken from (the frame goes on writing its memory)
	for _, fn := range c.P.ModFuncs {
		if fn.Parent() == nil || fn.Parent().Name() != "makeLog" || fn.Pkg == nil || !strings.HasSuffix(fn.Pkg.Pkg.Path(), "/kvm") {
			continue
		}
		c.Funcs[fnName(fn)] = true
		var seeds []ssa.Value
		for _, in := range findInstrs(fn, CallTo(`^\(\*kvm\.Memory\)\.GetPtr$`, "")) {
			if v, ok := in.(ssa.Value); ok {
				seeds = append(seeds, v)
			}
		}
		al := newAliasAn(c.P).forward(fn, seeds)
		bad := false
		for _, in := range findInstrs(fn, StoreTo(`^&alloc:(complit|new):types\.Log\.Data$`)) {
			if al[in.(*ssa.Store).Val] {
				bad = true
			}
		}
		nCopy := len(findInstrs(fn, CallTo(`^\(\*kvm\.Memory\)\.GetCopy$`, "")))
		c.Check("T", "kvm.makeLog/the logged data is a copy of the frame's memory", !bad && nCopy == 1 && len(seeds) == 0, fn.Pos(), nCopy+len(seeds), "")
	}
	// a frame's code and code hash are those of one and the same address (the jump-destination analysis is cached by hash)
	for _, name := range []string{"Call", "CallCode", "DelegateCall", "StaticCall"} {
		fn := c.Fn("kvm", "KVM", name)
		if fn == nil {
			continue
		}
		n, ok := 0, true
		for _, in := range findInstrs(fn, CallTo(`^\(\*kvm\.Contract\)\.SetCallCode$`, "")) {
			a := argPaths(callCommon(in))
			n++
			if len(a) != 4 {
				ok = false
				continue
			}
			h := re(`^call:iface:\(kvm\.StateDB\)\.GetCodeHash\(kvm\.StateDB, (.*)\)$`).FindStringSubmatch(a[2])
			ok = ok && h != nil && strings.NewReplacer("(", "", ")", "").Replace(a[1]) == "&"+strings.TrimPrefix(h[1], "*&") && (a[3] == "call:iface:(kvm.StateDB).GetCode(kvm.StateDB, "+h[1]+")" || strings.Contains(a[3], "GetCode(kvm.StateDB, addr)"))
		}
		c.Check("F", fnName(fn)+"/the frame's code, code hash and code address belong to one address", n == 1 && ok, fn.Pos(), n, "")
	}
}

func c16Round3(c *Ctx) {
	// an empty value decoded into a pointer marked rlp:"nil" makes the pointer nil, also when the destination is reused
	// and still holds the pointer of an earlier decode (the decoded value must equal what the bytes say)
	if fn := c.P.FuncByName("lib/rlp.makeNilPtrDecoder$1"); fn != nil && len(fn.Blocks) > 0 {
		c.Funcs["lib/rlp.makeNilPtrDecoder$1"] = true
		c.FollowedBy(fn, "consume the empty value", StoreTo(`^&s\.kind$`), "set the destination to the nil value",
			CallTo(`^\(reflect\.Value\)\.Set$`, `\(val, nilPtr\)$`), "return", AnyReturn())
	} else {
		c.Unres("anchor", "lib/rlp.makeNilPtrDecoder$1", "nil-pointer decoder closure not found")
	}
	// the slim account form drops the storage root only when it is the empty root, whatever the code
	if fn := c.Fn("types", "", "SlimAccountRLP"); fn != nil {
		n, ok := 0, true
		for _, in := range findInstrs(fn, StoreTo(`^&slim\.Root$|SlimAccount\.Root$`)) {
			n++
			dc := domConds(in)
			ok = ok && len(dc) == 1 && factMatches(dc[0], `^\(account\.Root != global:types\.EmptyRootHash\)=T$`)
		}
		c.Check("G", fnName(fn)+"/the storage root is kept unless it is the empty root (nothing else decides)", n == 1 && ok, fn.Pos(), n, "")
	}
	// an encoder buffer goes back to the pool only from the writer that took it from there
	if fn := c.Fn("lib/rlp", "EncoderBuffer", "Flush"); fn != nil {
		c.Guarded(fn, "return the buffer to the pool", CallTo(`^\(\*sync\.Pool\)\.Put$`, ""), G("this writer owns the buffer", True(`^w\.ownBuffer$`)))
	}
}

func c18Round3(c *Ctx) {
	// the gossip routines pick a random bit of an array whose size the peer chose; the random range is never empty
	// (RandIntn(0) panics, under the global generator's lock): a zero count is replaced or excluded on the way to the call
	if fn := c.Fn("lib/common", "BitArray", "PickRandom"); fn != nil {
		n := 0
		for _, in := range findInstrs(fn, CallTo(`^lib/common\.RandIntn$`, "")) {
			n++
			arg := callCommon(in).Args[0]
			for {
				cv, isC := arg.(*ssa.Convert)
				if !isC {
					break
				}
				arg = cv.X
			}
			ok := true
			dc := domConds(in)
			for _, pc := range phiCases(arg) {
				if k, isK := constIntVal(pc.Val); isK {
					ok = ok && k > 0
					continue
				}
				v := pathOf(pc.Val)
				have := false
				for _, cnd := range append(append([]string{}, dc...), pc.Conds...) {
					if cnd == "("+v+" == const:0)=F" || cnd == "("+v+" != const:0)=T" || cnd == "("+v+" > const:0)=T" || cnd == "("+v+" <= const:0)=F" || cnd == "("+v+" < const:1)=F" {
						have = true
					}
				}
				ok = ok && have
			}
			c.Check("G", fnName(fn)+"/"+clip(describeInstr(in), 60)+" has a non-empty range", ok, instrPos(in), 1, "")
		}
		c.Check("G", fnName(fn)+"/random picks found", n == 3, fn.Pos(), n, "")
	}
	// a peer is charged for a catch-up round when the round is created for it, not when its vote turns out to be valid
	if fn := c.Fn("consensus/types", "HeightVoteSet", "AddVote"); fn != nil {
		charge := func(in ssa.Instruction) bool {
			mu, ok := in.(*ssa.MapUpdate)
			return ok && pathOf(mu.Map) == "hvs.peerCatchupRounds"
		}
		c.FollowedBy(fn, "create a round for the peer", CallTo(`^\(\*consensus/types\.HeightVoteSet\)\.addRound$`, ""), "charge the peer's catch-up budget", charge, "adding the vote or returning", Or(AnyReturn(), CallTo(`^\(\*types\.VoteSet\)\.AddVote$`, "")))
		c.Guarded(fn, "create a round for the peer", CallTo(`^\(\*consensus/types\.HeightVoteSet\)\.addRound$`, ""), G("the peer has catch-up budget left", Cmp(`^call:len\(hvs\.peerCatchupRounds\[peerID\]\)$`, "<", `^const:2$`)))
	}
	// a bit array is sent as absent only when it has no words: an all-zero array of N bits is a value, and its receiver
	// rejects "absent" (or the sender dereferences nil)
	if fn := c.Fn("lib/common", "BitArray", "ToProto"); fn != nil {
		c.Guarded(fn, "encode as absent", ReturnWith(0, `^nil$`), G("nil or without words", IsNil(`^bA$`), Cmp(`^call:len\(bA\.Elems\)$`, "==", `^const:0$`)))
		n := len(findInstrs(fn, func(in ssa.Instruction) bool {
			cc := callCommon(in)
			return cc != nil && !strings.HasPrefix(calleeNameNoPath(cc), "len")
		}))
		c.Check("F", fnName(fn)+"/decides on length only (no call)", n == 0, fn.Pos(), n, "")
	}
}

func c06Round3(c *Ctx) {
	nodeOrderRule(c)
	c06Positional(c)
	// flattening a destruct into the parent layer removes the account's data AND its slots there (the layer answers a slot
	// from its own data before it looks at the destruct mark)
	if fn := c.Fn("kai/state/snapshot", "diffLayer", "flatten"); fn != nil {
		del := map[string]int{}
		for _, in := range findInstrs(fn, CallTo(`^delete$`, "")) {
			a := argPaths(callCommon(in))
			if len(a) == 2 && strings.Contains(a[1], "dl.destructSet") {
				del[a[0][strings.LastIndex(a[0], ".")+1:]]++
			}
		}
		c.Check("S", fnName(fn)+"/a flattened destruct drops the parent's account data and slots", del["accountData"] == 1 && del["storageData"] == 1, fn.Pos(), len(del), "")
	}
}

// the previous and the reported validators are related by address only: an element of one list is never picked by a
// position of the other (a report in another order would be taken for another change set)
// signerEqualRule: the sender cache of a transaction is keyed by the signer that derived the sender; two signers answer
// Equal only when they are of the same kind (and chain), or a sender derived under one rule set is served from the cache
// to a node validating under another (a node that saw the transaction in its pool and one that first meets it in the block
// then disagree on its sender).
func signerEqualRule(c *Ctx) {
	for _, t := range []string{"HomesteadSigner", "FrontierSigner", "ChainIDSigner"} {
		fn := c.Fn("types", t, "Equal")
		if fn == nil {
			continue
		}
		var okv ssa.Value
		for _, b := range fn.Blocks {
			for _, in := range b.Instrs {
				if ta, ok := in.(*ssa.TypeAssert); ok && ta.CommaOk && strings.HasSuffix(ta.AssertedType.String(), "types."+t) {
					for _, r := range *ta.Referrers() {
						if e, ok := r.(*ssa.Extract); ok && e.Index == 1 {
							okv = e
						}
					}
				}
			}
		}
		c.Check("F", fnName(fn)+"/asks whether the other signer is of its own kind", okv != nil, fn.Pos(), 1, "")
		if okv == nil {
			continue
		}
		// what is returned: that answer, or a value computed only where the answer was yes (false elsewhere)
		edge := map[ssa.Value]bool{}
		shape := true
		for _, in := range findInstrs(fn, AnyReturn()) {
			v := in.(*ssa.Return).Results[0]
			if v == okv {
				continue
			}
			ph, ok := v.(*ssa.Phi)
			if !ok {
				shape = false
				continue
			}
			for _, e := range ph.Edges {
				if k, ok := e.(*ssa.Const); ok && k.Value != nil && k.Value.String() == "false" {
					continue
				}
				if e == okv {
					continue
				}
				if _, ok := e.(ssa.Instruction); !ok {
					shape = false
					continue
				}
				edge[e] = true
			}
		}
		c.Check("F", fnName(fn)+"/answers with the kind test, or false where it failed", shape, fn.Pos(), 1, "")
		if len(edge) > 0 {
			c.Guarded(fn, "compare further (chain id)", func(in ssa.Instruction) bool { v, ok := in.(ssa.Value); return ok && edge[v] },
				G("the other signer is of the same kind", True(`^s2\.\(types\.`+t+`\)#1$`)))
		}
	}
}

// mapLoopsRunToTheEnd: the state's loops over its dirty sets visit every entry; a loop left early (a break) processes
// whichever entries the map happened to yield first, and the root then differs from run to run.
func mapLoopsRunToTheEnd(c *Ctx) {
	for _, name := range []string{"Finalise", "IntermediateRoot", "Commit"} {
		fn := c.Fn("kai/state", "StateDB", name)
		if fn == nil {
			continue
		}
		loops := mapLoops(fn)
		n := 0
		for _, l := range loops {
			if l.fn != fn {
				continue
			}
			n++
			hdr := l.rng.Block()
			for _, ref := range *l.rng.Referrers() {
				if nx, ok := ref.(*ssa.Next); ok {
					hdr = nx.Block()
				}
			}
			early := 0
			var at ssa.Instruction
			for b := range l.blocks {
				if b == hdr {
					continue
				}
				for _, s := range b.Succs {
					_, isRet := s.Instrs[len(s.Instrs)-1].(*ssa.Return)
					if isRet && (len(hdr.Succs) < 2 || s != hdr.Succs[1]) {
						continue // an error return out of the loop, not a break
					}
					if !l.blocks[s] && s != hdr {
						early++
						at = b.Instrs[len(b.Instrs)-1]
					}
				}
			}
			pos := fn.Pos()
			if at != nil {
				pos = instrPos(at)
			}
			c.Check("D", fnName(fn)+"/the loop over "+pathOf(l.rng.X)+" visits every entry (no early exit)", early == 0, pos, 1, "")
		}
		c.Check("D", fnName(fn)+"/loops over the dirty sets found", n >= 1, fn.Pos(), n, "")
	}
}

func c06Positional(c *Ctx) {
	fn := c.Fn("kai/state/cstate", "", "calculateValidatorSetUpdates")
	if fn == nil {
		return
	}
	n, bad := 0, ""
	allInstrs(fn, false, func(_ *ssa.Function, in ssa.Instruction) {
		ia, ok := in.(*ssa.IndexAddr)
		if !ok {
			return
		}
		list := pathOf(ia.X)
		if list != "lastVals" && list != "vals" {
			return
		}
		n++
		own := false
		for _, d := range domConds(in) {
			if strings.Contains(d, "< call:len("+list+"))=T") {
				own = true
			}
		}
		if !own {
			bad = list + " is indexed at " + c.P.Pos(in.Pos()) + " outside a loop over " + list
		}
	})
	c.Check("D", fnName(fn)+"/the two validator lists are never paired by position", n >= 2 && bad == "", fn.Pos(), n, bad)
}

func c19Round3(c *Ctx) {
	// a restarted pool knows how much pending evidence it reloaded (the proposer offers nothing from a pool of size 0)
	if fn := c.Fn("types/evidence", "", "NewPool"); fn != nil {
		n := 0
		for _, in := range findInstrs(fn, CallTo(`^sync/atomic\.StoreUint32$`, "")) {
			a := argPaths(callCommon(in))
			if len(a) == 2 && strings.HasSuffix(a[0], ".evidenceSize") && re(`^call:len\(call:\(\*types/evidence\.Pool\)\.listEvidence\(.*\)#0\)$`).MatchString(a[1]) {
				n++
			}
		}
		c.Check("F", fnName(fn)+"/the pool size is the number of pending items reloaded", n == 1, fn.Pos(), n, "")
	}
	// every item of a block's evidence list takes part in the duplicate scan, also the ones the pool already knows
	if fn := c.Fn("types/evidence", "Pool", "CheckEvidence"); fn != nil {
		c.FollowedBy(fn, "look at an item", CallTo(`^\(\*types/evidence\.Pool\)\.(fastCheck|isPending)$`, ""), "record its hash for the duplicate scan",
			StoreTo(`^&make:\[\]lib/common\.Hash\(call:len\(evList\)\)\[`), "the next item or the verdict", Or(IfOn(`< call:len\(evList\)\)$`), ReturnWith(0, `^nil$`)))
	}
}

func c15Round3(c *Ctx) {
	// one record, one Write: the group takes its lock per Write and rotates between Writes, a record written in two pieces
	// can be cut by a rotation (the next file then starts in the middle of a record)
	if fn := c.Fn("consensus", "WALEncoder", "Encode"); fn != nil {
		wr := CallTo(`^iface:\(io\.Writer\)\.Write$`, "")
		n := len(findInstrs(fn, wr))
		c.Check("O", fnName(fn)+"/a record is handed to the writer in one Write", n == 1, fn.Pos(), n, "")
		c.AtMostOncePerPath(fn, "Write", wr)
	}
	// open flags of the files the log lives in: the backup a repair reads from replaces an older backup (truncate), the
	// log file itself is only ever appended to
	flagRule := func(fn *ssa.Function, what string, must int64, desc string) {
		if fn == nil {
			return
		}
		n, ok := 0, true
		for _, in := range findInstrs(fn, CallTo(`^os\.OpenFile$`, "")) {
			n++
			k, isK := callCommon(in).Args[1].(*ssa.Const)
			ok = ok && isK && k.Value != nil && k.Int64()&must == must
		}
		c.Check("F", fnName(fn)+"/"+what, n == 1 && ok, fn.Pos(), n, desc)
	}
	flagRule(c.Fn("lib/os", "", "CopyFile"), "the destination is created or truncated", 0x40|0x200, "O_CREATE|O_TRUNC (linux values) must be among the open flags")
	flagRule(c.Fn("lib/autofile", "AutoFile", "openFile"), "the log file is opened for appending", 0x40|0x400, "O_CREATE|O_APPEND (linux values) must be among the open flags")
}

func c14Round3(c *Ctx) {
	// what a restart hands to consensus is the saved state as loaded (or the freshly made genesis state): nothing is
	// written into it on the way out
	if fn := c.Fn("kai/state/cstate", "dbStore", "LoadStateFromDBOrGenesisDoc"); fn != nil {
		ok, n := true, 0
		for _, in := range findInstrs(fn, ReturnWith(1, `^nil$`)) {
			n++
			for _, pcase := range phiCases(in.(*ssa.Return).Results[0]) {
				v := pathOf(pcase.Val)
				if v != "call:(*kai/state/cstate.dbStore).Load(s)" && v != "call:kai/state/cstate.MakeGenesisState(genesisDoc)#0" {
					ok = false
				}
			}
		}
		stores := 0
		allInstrs(fn, false, func(_ *ssa.Function, in ssa.Instruction) {
			if st, isSt := in.(*ssa.Store); isSt {
				if fa, isFa := st.Addr.(*ssa.FieldAddr); isFa && namedOf(fa.X.Type()) == "kai/state/cstate.LatestBlockState" {
					stores++
				}
			}
		})
		c.Check("F", fnName(fn)+"/returns the loaded state (or the new genesis state) untouched", ok && n == 1 && stores == 0, fn.Pos(), n+stores, "")
	}
}

func c20Round3(c *Ctx) {
	// a configured per-channel receive limit is kept: the default replaces it only when none was configured (else every
	// reactor's limit silently becomes the 21 MB default and oversized messages are delivered)
	if fn := c.Fn("lib/p2p/conn", "ChannelDescriptor", "FillDefaults"); fn != nil {
		for _, f := range []string{"SendQueueCapacity", "RecvBufferCapacity", "RecvMessageCapacity"} {
			c.Guarded(fn, "replace "+f+" by its default", StoreTo(`^&chDesc\.`+f+`$`), G("none configured ("+f+" == 0)", Cmp(`^chDesc\.`+f+`$`, "==", `^const:0$`)))
		}
		n := len(findInstrs(fn, StoreTo(`^&chDesc\.RecvMessageCapacity$`)))
		c.Check("G", fnName(fn)+"/default receive limit present", n == 1, fn.Pos(), n, "")
	}
	// the flush timer of a connection: a tick nobody was ready to take re-arms the timer; isSet stays true, so Set() will
	// not arm it again, and without the re-arm the bytes accepted by Send stay in the write buffer for good
	if fn := c.Fn("lib/timer", "ThrottleTimer", "fireRoutine"); fn != nil {
		reset := CallTo(`^\(\*time\.Timer\)\.Reset$`, "")
		ok, found := true, 0
		for _, b := range fn.Blocks {
			iff, isIf := b.Instrs[len(b.Instrs)-1].(*ssa.If)
			if !isIf || !re(`^\(select\[.*\]#0 == const:1\)$`).MatchString(pathOf(iff.Cond)) || len(b.Succs) != 2 {
				continue
			}
			found++
			seen := map[*ssa.BasicBlock]bool{}
			var walk func(x *ssa.BasicBlock)
			walk = func(x *ssa.BasicBlock) {
				if seen[x] {
					return
				}
				seen[x] = true
				for _, in := range x.Instrs {
					if reset(in) {
						return
					}
					if _, isRet := in.(*ssa.Return); isRet {
						ok = false
					}
				}
				for _, sx := range x.Succs {
					walk(sx)
				}
			}
			walk(b.Succs[1])
		}
		c.Check("O", fnName(fn)+"/a tick nobody took re-arms the timer before returning", found == 1 && ok, fn.Pos(), found, "")
	}
	// a graceful stop sends until nothing is pending
	if fn := c.Fn("lib/p2p/conn", "MConnection", "FlushStop"); fn != nil {
		inLoop := 0
		for _, in := range findInstrs(fn, CallTo(`^\(\*lib/p2p/conn\.MConnection\)\.sendSomePacketMsgs$`, "")) {
			if inCycle(in.Block()) {
				inLoop++
			}
		}
		c.Check("O", fnName(fn)+"/pending packets are sent in a loop that ends when nothing is left", inLoop >= 1, fn.Pos(), inLoop, "")
	}
}

func c17Round3(c *Ctx) {
	// an account is marked local before its earlier remote transactions are moved to the local set (the move looks the
	// senders up in that set), so a local sender's transactions are exempt from price eviction from then on
	if fn := c.Fn("mainchain/tx_pool", "TxPool", "add"); fn != nil {
		c.Precedes(fn, "mark the account local", CallTo(`^\(\*mainchain/tx_pool\.accountSet\)\.add$`, ""), "move its remote transactions to the local set", CallTo(`\)\.RemoteToLocals$`, ""))
	}
	// a batch reports one verdict per submission, in submission order: after a slot of the result is filled with a
	// verdict from the locked phase, the cursor moves past it (else the next verdict overwrites it and an invalid
	// transaction is reported as accepted)
	if fn := c.Fn("mainchain/tx_pool", "TxPool", "addTxs"); fn != nil {
		n, ok := 0, true
		for _, in := range findInstrs(fn, func(in ssa.Instruction) bool {
			st, isSt := in.(*ssa.Store)
			if !isSt {
				return false
			}
			ia, isIA := st.Addr.(*ssa.IndexAddr)
			if !isIA {
				return false
			}
			_, isPhi := ia.Index.(*ssa.Phi)
			return isPhi && strings.Contains(pathOf(st.Val), "addTxsLocked(")
		}) {
			n++
			idx := in.(*ssa.Store).Addr.(*ssa.IndexAddr).Index
			adv := false
			for _, r := range *idx.Referrers() {
				if b, isB := r.(*ssa.BinOp); isB && b.Op == token.ADD && b.X == idx && b.Block() == in.Block() {
					if k, isK := constIntVal(b.Y); isK && k == 1 {
						for _, rr := range *b.Referrers() {
							if _, isPhi := rr.(*ssa.Phi); isPhi {
								adv = true
							}
						}
					}
				}
			}
			ok = ok && adv
		}
		c.Check("F", fnName(fn)+"/the result cursor moves past each slot it fills", n == 1 && ok, fn.Pos(), n, "")
	}
	// the pending nonce is lowered for the account whose list was capped
	if fn := c.Fn("mainchain/tx_pool", "TxPool", "truncatePending"); fn != nil {
		n, ok := 0, true
		for _, in := range findInstrs(fn, CallTo(`^\(\*mainchain/tx_pool\.txNoncer\)\.setIfLower$`, "")) {
			n++
			a := argPaths(callCommon(in))
			// the account is the key under which the capped list was looked up in this iteration
			cond := false
			for _, in2 := range in.Block().Instrs {
				if cc := callCommon(in2); cc != nil && calleeNameNoPath(cc) == "(*mainchain/tx_pool.txList).Cap" {
					_ = cc
				}
			}
			allInstrs(fn, false, func(_ *ssa.Function, x ssa.Instruction) {
				if cc := callCommon(x); cc != nil && calleeNameNoPath(cc) == "(*mainchain/tx_pool.txList).Cap" && len(a) == 3 {
					if pathOf(cc.Args[0]) == "pool.pending["+a[1]+"]" && (x.Block() == in.Block() || x.Block().Dominates(in.Block())) {
						cond = true
					}
				}
			})
			ok = ok && cond
		}
		c.Check("F", fnName(fn)+"/the pending nonce is lowered for the account whose list was capped", n >= 2 && ok, fn.Pos(), n, "")
	}
}
