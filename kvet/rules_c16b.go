package main

func c16Canonical(c *Ctx) {}
func c16Limits(c *Ctx)    {}
func c16Ladders(c *Ctx)   {}
func c16Codecs(c *Ctx)    {}
