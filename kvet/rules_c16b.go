package main

// C16 (continued) — canonical-form rejections, input limits, exactly-one-value.

import (
	"fmt"
	"go/types"
	"reflect"
	"regexp"
	"sort"
	"strconv"
	"strings"

	"golang.org/x/tools/go/ssa"
)

const (
	kKind = `call:\(\*lib/rlp\.Stream\)\.Kind\(s\)#0`
	kSize = `call:\(\*lib/rlp\.Stream\)\.Kind\(s\)#1`
	kErr  = `call:\(\*lib/rlp\.Stream\)\.Kind\(s\)#2`
)

func c16Canonical(c *Ctx) {
	kindOK := G("Kind() returned no error", IsNil(`^`+kErr+`$`))
	// ---- integers -------------------------------------------------------------------------------------------
	if fn := c.Fn("lib/rlp", "Stream", "uint"); fn != nil {
		c.Guarded(fn, "accept a single-byte integer", func(in ssa.Instruction) bool {
			r, ok := in.(*ssa.Return)
			return ok && len(r.Results) == 2 && pathOf(r.Results[0]) == "s.byteval" && pathOf(r.Results[1]) == "nil"
		}, kindOK, G("kind is Byte", Cmp(`^`+kKind+`$`, "==", `^const:0$`)), G("the byte is not zero (zero is the empty string)", Cmp(`^s\.byteval$`, "!=", `^const:0$`)))
		ru := `call:\(\*lib/rlp\.Stream\)\.readUint\(s, ` + kSize + `\)`
		c.Guarded(fn, "accept a string-encoded integer", func(in ssa.Instruction) bool {
			r, ok := in.(*ssa.Return)
			return ok && len(r.Results) == 2 && strings.HasSuffix(pathOf(r.Results[0]), "#0") && strings.Contains(pathOf(r.Results[0]), ".readUint(") && pathOf(r.Results[1]) == "nil"
		}, kindOK, G("kind is String", Cmp(`^`+kKind+`$`, "==", `^const:1$`)),
			G("size within the integer width", Cmp(`^`+kSize+`$`, "<=", `^\(maxbits / const:8\)$`)),
			G("no leading zero (readUint did not report ErrCanonSize)", Cmp(`^`+ru+`#1$`, "!=", `^global:lib/rlp\.ErrCanonSize$`)),
			G("bytes read without error", IsNil(`^`+ru+`#1$`)),
			G("not a value below 128 wrapped as a string", False(`^phi\(\(`+ru+`#0 < const:128\)\|const:false\)$`)))
		// ... where that condition is `size > 0 && value < 128`
		for _, in := range findInstrs(fn, IfOn(`^phi\(\(`+ru+`#0 < const:128\)\|const:false\)$`)) {
			ok := true
			for _, pc := range phiCases(in.(*ssa.If).Cond) {
				switch pathOf(pc.Val) {
				case "const:false":
					ok = ok && hasCond(pc.Conds, `^\(`+kSize+` > const:0\)=F$`)
				default:
					ok = ok && hasCond(pc.Conds, `^\(`+kSize+` > const:0\)=T$`)
				}
			}
			c.Check("G", fnName(fn)+"/the wrapped-small-value test applies to every non-empty string", ok, instrPos(in), 1, "")
		}
		c.Guarded(fn, "report ErrCanonInt for a leading zero", ReturnWith(1, `^global:lib/rlp\.ErrCanonInt$`), G("zero byte, or readUint saw a leading zero", Cmp(`^s\.byteval$`, "==", `^const:0$`), Cmp(`^`+ru+`#1$`, "==", `^global:lib/rlp\.ErrCanonSize$`)))
		n := len(findInstrs(fn, ReturnWith(1, `^global:lib/rlp\.(ErrCanonInt|ErrCanonSize|errUintOverflow|ErrExpectedString)$`)))
		c.Check("G", fnName(fn)+"/rejections present (leading zero x2, wrapped small value, overflow, list)", n == 5, fn.Pos(), n, "")
	}
	if fn := c.Fn("lib/rlp", "Stream", "Bool"); fn != nil {
		u := `call:\(\*lib/rlp\.Stream\)\.uint\(s, const:8\)`
		c.GuardedReturnVal(fn, "return true", 0, `^const:true$`, G("uint(8) ok", IsNil(`^`+u+`#1$`)), G("value is 1", Cmp(`^`+u+`#0$`, "==", `^const:1$`)))
		c.Guarded(fn, "return false without error", func(in ssa.Instruction) bool {
			r, ok := in.(*ssa.Return)
			return ok && len(r.Results) == 2 && pathOf(r.Results[0]) == "const:false" && pathOf(r.Results[1]) == "nil"
		}, G("uint(8) ok", IsNil(`^`+u+`#1$`)), G("value is 0", Cmp(`^`+u+`#0$`, "==", `^const:0$`)))
	}
	if fn := c.Fn("lib/rlp", "", "SplitUint64"); fn != nil {
		ct := `call:lib/rlp\.SplitString\(b\)#0`
		c.Guarded(fn, "accept a one-byte integer", func(in ssa.Instruction) bool {
			r, ok := in.(*ssa.Return)
			return ok && len(r.Results) == 3 && re(`^`+ct+`\[const:0\]$`).MatchString(pathOf(r.Results[0]))
		}, G("split ok", IsNil(`^call:lib/rlp\.SplitString\(b\)#2$`)), G("not a zero byte", Cmp(`^`+ct+`\[const:0\]$`, "!=", `^const:0$`)))
		c.Guarded(fn, "accept a multi-byte integer", func(in ssa.Instruction) bool {
			r, ok := in.(*ssa.Return)
			return ok && len(r.Results) == 3 && strings.HasPrefix(pathOf(r.Results[0]), "call:lib/rlp.readSize(")
		}, G("split ok", IsNil(`^call:lib/rlp\.SplitString\(b\)#2$`)), G("at most 8 bytes", Cmp(`^call:len\(`+ct+`\)$`, "<=", `^const:8$`)), G("readSize ok (no leading zero)", IsNil(`^call:lib/rlp\.readSize\(.*\)#1$`)))
	}
	// ---- byte strings -------------------------------------------------------------------------------------
	wrapped := func(buf string) Guard {
		return G("not a single byte below 0x80 wrapped as a string", Cmp(`^`+kSize+`$`, "!=", `^const:1$`), Cmp(`^`+buf+`\[const:0\]$`, ">=", `^const:128$`))
	}
	if fn := c.Fn("lib/rlp", "Stream", "Bytes"); fn != nil {
		buf := `make:\[\]byte\(` + kSize + `\)`
		c.Guarded(fn, "return the string content", func(in ssa.Instruction) bool {
			r, ok := in.(*ssa.Return)
			return ok && len(r.Results) == 2 && strings.HasPrefix(pathOf(r.Results[0]), "make:[]byte(") && pathOf(r.Results[1]) == "nil"
		}, kindOK, G("kind is String", Cmp(`^`+kKind+`$`, "==", `^const:1$`)), G("content read without error", IsNil(`^call:\(\*lib/rlp\.Stream\)\.readFull\(s, `+buf+`\)$`)), wrapped(buf))
		c.Guarded(fn, "return the single byte", func(in ssa.Instruction) bool {
			r, ok := in.(*ssa.Return)
			return ok && len(r.Results) == 2 && strings.HasPrefix(pathOf(r.Results[0]), "slicelit[") && pathOf(r.Results[1]) == "nil"
		}, kindOK, G("kind is Byte", Cmp(`^`+kKind+`$`, "==", `^const:0$`)))
	}
	if fn := c.Fn("lib/rlp", "Stream", "ReadBytes"); fn != nil {
		c.Guarded(fn, "accept (return nil)", SuccessReturn(0, ""), kindOK,
			G("kind is Byte or String", Cmp(`^`+kKind+`$`, "==", `^const:0$`), Cmp(`^`+kKind+`$`, "==", `^const:1$`)),
			G("size matches the buffer", Cmp(`^call:len\(b\)$`, "==", `^const:1$`), Cmp(`^call:len\(b\)$`, "==", `^`+kSize+`$`)),
			G("not a wrapped single byte", Cmp(`^`+kKind+`$`, "==", `^const:0$`), Cmp(`^`+kSize+`$`, "!=", `^const:1$`), Cmp(`^b\[const:0\]$`, ">=", `^const:128$`)))
	}
	if fn := c.Fn("lib/rlp", "", "decodeByteArray"); fn != nil {
		sl := `call:lib/rlp\.byteArrayBytes\(val, call:\(reflect\.Value\)\.Len\(val\)\)`
		c.Guarded(fn, "accept (return nil)", SuccessReturn(0, ""), kindOK,
			G("kind is not List", Cmp(`^`+kKind+`$`, "!=", `^const:2$`), Cmp(`^`+kKind+`$`, "==", `^const:0$`), Cmp(`^`+kKind+`$`, "==", `^const:1$`)),
			// the last alternative of each guard is the switch's implicit default (kind outside Byte/String/List),
			// which readKind never produces (checked above: the kinds are the constants 0, 1, 2)
			G("array not longer than the input", Cmp(`^call:len\(`+sl+`\)$`, "<=", `^const:1$`), Cmp(`^call:len\(`+sl+`\)$`, "<=", `^`+kSize+`$`), Cmp(`^`+kKind+`$`, "!=", `^const:2$`)),
			G("array not shorter than the input", Cmp(`^call:len\(`+sl+`\)$`, "!=", `^const:0$`), Cmp(`^call:len\(`+sl+`\)$`, ">=", `^`+kSize+`$`), Cmp(`^`+kKind+`$`, "!=", `^const:2$`)),
			G("not a wrapped single byte", Cmp(`^`+kKind+`$`, "==", `^const:0$`), Cmp(`^`+kSize+`$`, "!=", `^const:1$`), Cmp(`^`+sl+`\[const:0\]$`, ">=", `^const:128$`), Cmp(`^`+kKind+`$`, "!=", `^const:2$`)))
	}
	// ---- big integers ---------------------------------------------------------------------------------------
	if fn := c.Fn("lib/rlp", "", "decodeBigInt"); fn != nil {
		small := `s\.uintbuf\[:` + kSize + `\]`
		c.Guarded(fn, "set the integer", CallTo(`^\(\*math/big\.Int\)\.SetBytes$`, ""), kindOK,
			G("kind is not List", Cmp(`^`+kKind+`$`, "!=", `^const:2$`)),
			G("no leading zero byte", Cmp(`^call:len\(phi\(`, "<=", `^const:0$`), Cmp(`^phi\(make:\[\]byte.*\[const:0\]$`, "!=", `^const:0$`)),
			G("not a wrapped single byte", Cmp(`^`+kKind+`$`, "==", `^const:0$`), Cmp(`^`+kSize+`$`, "==", `^const:0$`), Cmp(`^`+kSize+`$`, ">", `^const:32$`), Cmp(`^`+kSize+`$`, "!=", `^const:1$`), Cmp(`^`+small+`\[const:0\]$`, ">=", `^const:128$`)))
		// the value handed to SetBytes is the buffer that was checked
		for _, in := range findInstrs(fn, CallTo(`^\(\*math/big\.Int\)\.SetBytes$`, "")) {
			a := argPaths(callCommon(in))
			c.Check("F", fnName(fn)+"/the checked buffer is the one decoded", len(a) == 2 && strings.HasPrefix(a[1], "phi(make:[]byte("), instrPos(in), 1, clip(strings.Join(a, ", "), 200))
		}
	}
}

func c16Limits(c *Ctx) {
	// ---- Kind: the size is checked against the list and the input limit --------------------------------------
	if fn := c.Fn("lib/rlp", "Stream", "Kind"); fn != nil {
		ret := func(in ssa.Instruction) bool { _, ok := in.(*ssa.Return); return ok }
		errStore := func(e string) SinkSel {
			return func(in ssa.Instruction) bool {
				s, ok := in.(*ssa.Store)
				return ok && pathOf(s.Addr) == "&s.kinderr" && pathOf(s.Val) == "global:lib/rlp."+e
			}
		}
		c.AfterGuard(fn, G("size exceeds what is left of the enclosing list", Cmp(`^s\.size$`, ">", `^call:\(\*lib/rlp\.Stream\)\.listLimit\(s\)#1$`)), "record ErrElemTooLarge", errStore("ErrElemTooLarge"), "returning", ret)
		c.AfterGuard(fn, G("size exceeds the remaining input", Cmp(`^s\.size$`, ">", `^s\.remaining$`)), "record ErrValueTooLarge", errStore("ErrValueTooLarge"), "returning", ret)
		// the list test is made whenever the stream is inside a list, the input test whenever it is limited
		rk := CallTo(`^\(\*lib/rlp\.Stream\)\.readKind$`, "")
		c.Precedes(fn, "readKind", rk, "size tests", Or(IfOn(`^\(s\.size > `), errStore("ErrElemTooLarge"), errStore("ErrValueTooLarge")))
		for _, t := range []struct{ desc, cond, flag string }{
			{"inside a list the size is compared with the list remainder", `^\(s\.size > call:\(\*lib/rlp\.Stream\)\.listLimit\(s\)#1\)$`, `^call:\(\*lib/rlp\.Stream\)\.listLimit\(s\)#0$`},
			{"with an input limit the size is compared with the remaining input", `^\(s\.size > s\.remaining\)$`, `^s\.limited$`},
		} {
			// the comparison itself, wherever it is evaluated (an if condition, or an operand of && in a switch case)
			tests := findInstrs(fn, func(in ssa.Instruction) bool {
				b, ok := in.(*ssa.BinOp)
				return ok && re(t.cond).MatchString(pathOf(b))
			})
			ok := len(tests) == 1
			if ok {
				dc := domConds(tests[0])
				ok = hasCond(dc, `^\(s\.kinderr == nil\)=T$`) && hasCond(dc, t.flag[:len(t.flag)-1]+`=T$`)
				// and nothing else decides whether the test is made
				ok = ok && onlyConds(dc, `^\(s\.kinderr == nil\)=T$|^\(s\.kind >= const:0\)=F$|listLimit\(s\)#0=|^\(call:\(\*lib/rlp\.Stream\)\.listLimit\(s\)#1 == const:0\)=F$|^s\.limited=T$|^\(s\.size > call:\(\*lib/rlp\.Stream\)\.listLimit\(s\)#1\)=F$|^phi\(\(s\.size > call:\(\*lib/rlp\.Stream\)\.listLimit\(s\)#1\)\|const:false\)=F$`)
			}
			c.Check("G", fnName(fn)+"/"+t.desc, ok, fn.Pos(), len(tests), "")
		}
		c.Guarded(fn, "report end of list", ReturnWith(2, `^global:lib/rlp\.EOL$`), G("inside a list", True(`^call:\(\*lib/rlp\.Stream\)\.listLimit\(s\)#0$`)), G("nothing left in it", Cmp(`^call:\(\*lib/rlp\.Stream\)\.listLimit\(s\)#1$`, "==", `^const:0$`)))
	}
	// ---- willRead: counters are decreased only after the comparison ------------------------------------------
	if fn := c.Fn("lib/rlp", "Stream", "willRead"); fn != nil {
		c.Guarded(fn, "decrease the list remainder", StoreTo(`^&s\.stack\[`), G("n <= list remainder", Cmp(`^n$`, "<=", `^call:\(\*lib/rlp\.Stream\)\.listLimit\(s\)#1$`)))
		c.Guarded(fn, "decrease the remaining input", StoreTo(`^&s\.remaining$`), G("n <= remaining", Cmp(`^n$`, "<=", `^s\.remaining$`)))
		c.Guarded(fn, "allow the read (return nil)", SuccessReturn(0, ""),
			G("n fits the enclosing list", False(`^call:\(\*lib/rlp\.Stream\)\.listLimit\(s\)#0$`), Cmp(`^n$`, "<=", `^call:\(\*lib/rlp\.Stream\)\.listLimit\(s\)#1$`)),
			G("n fits the input limit", False(`^s\.limited$`), Cmp(`^n$`, "<=", `^s\.remaining$`)))
		for _, in := range findInstrs(fn, Or(StoreTo(`^&s\.stack\[`), StoreTo(`^&s\.remaining$`))) {
			s := in.(*ssa.Store)
			want := map[bool]string{true: "(s.remaining - n)", false: "(call:(*lib/rlp.Stream).listLimit(s)#1 - n)"}[pathOf(s.Addr) == "&s.remaining"]
			c.Check("F", fnName(fn)+"/"+pathOf(s.Addr)[1:]+" decreases by n", pathOf(s.Val) == want, instrPos(in), 1, describeInstr(in))
		}
	}
	for _, name := range []string{"readFull", "readByte"} {
		if fn := c.Fn("lib/rlp", "Stream", name); fn != nil {
			c.Precedes(fn, "willRead", CallTo(`^\(\*lib/rlp\.Stream\)\.willRead$`, ""), "reading from the underlying reader", CallTo(`^iface:\(.*\)\.(Read|ReadByte)$`, ""))
			c.Guarded(fn, "read from the underlying reader", CallTo(`^iface:\(.*\)\.(Read|ReadByte)$`, ""), G("willRead allowed it", IsNil(`^call:\(\*lib/rlp\.Stream\)\.willRead\(s, `)))
		}
	}
	if fn := c.Fn("lib/rlp", "Stream", "readFull"); fn != nil {
		for _, in := range findInstrs(fn, CallTo(`^\(\*lib/rlp\.Stream\)\.willRead$`, "")) {
			a := argPaths(callCommon(in))
			c.Check("F", fnName(fn)+"/accounts the whole buffer length", len(a) == 2 && a[1] == "call:len(buf)", instrPos(in), 1, describeInstr(in))
		}
	}
	// ---- List / ListEnd ------------------------------------------------------------------------------------------
	if fn := c.Fn("lib/rlp", "Stream", "List"); fn != nil {
		c.Guarded(fn, "enter the list", StoreTo(`^&s\.stack`), G("Kind() returned no error (size within limits)", IsNil(`^`+kErr+`$`)), G("kind is List", Cmp(`^`+kKind+`$`, "==", `^const:2$`)))
		for _, in := range findInstrs(fn, StoreTo(`^&s\.stack\[`)) {
			c.Check("F", fnName(fn)+"/the outer list gives up exactly the inner size", pathOf(in.(*ssa.Store).Val) == "(call:(*lib/rlp.Stream).listLimit(s)#1 - call:(*lib/rlp.Stream).Kind(s)#1)", instrPos(in), 1, describeInstr(in))
		}
		n := 0
		for _, in := range findInstrs(fn, StoreTo(`^&s\.stack$`)) {
			if strings.HasPrefix(pathOf(in.(*ssa.Store).Val), "call:append(s.stack, varargs[call:(*lib/rlp.Stream).Kind(s)#1]") {
				n++
			}
		}
		c.Check("F", fnName(fn)+"/pushes the list size", n == 1, fn.Pos(), n, "")
	}
	if fn := c.Fn("lib/rlp", "Stream", "ListEnd"); fn != nil {
		c.Guarded(fn, "leave the list", Or(StoreTo(`^&s\.stack$`), SuccessReturn(0, "")), G("inside a list", True(`^call:\(\*lib/rlp\.Stream\)\.listLimit\(s\)#0$`)),
			G("no unread element left", Cmp(`^call:\(\*lib/rlp\.Stream\)\.listLimit\(s\)#1$`, "<=", `^const:0$`), Cmp(`^call:\(\*lib/rlp\.Stream\)\.listLimit\(s\)#1$`, "==", `^const:0$`)))
	}
	// ---- exactly one value ----------------------------------------------------------------------------------------
	if fn := c.Fn("lib/rlp", "", "DecodeBytes"); fn != nil {
		c.Guarded(fn, "accept (return nil)", SuccessReturn(0, ""), G("value decoded", IsNil(`^call:\(\*lib/rlp\.Stream\)\.Decode\(`)), G("no byte left after the value", Cmp(`^call:\(\*bytes\.Reader\)\.Len\(call:bytes\.NewReader\(b\)\)$`, "<=", `^const:0$`), Cmp(`^call:\(\*bytes\.Reader\)\.Len\(call:bytes\.NewReader\(b\)\)$`, "==", `^const:0$`)))
		n := 0
		for _, in := range findInstrs(fn, CallTo(`^\(\*lib/rlp\.Stream\)\.Reset$`, "")) {
			if a := argPaths(callCommon(in)); len(a) == 3 && a[1] == "call:bytes.NewReader(b)" && a[2] == "call:len(b)" {
				n++
			}
		}
		c.Check("F", fnName(fn)+"/the input limit is the length of the input", n == 1, fn.Pos(), n, "")
	}
	if fn := c.Fn("lib/rlp", "", "decodeListArray"); fn != nil {
		c.Guarded(fn, "finish the array", CallTo(`^\(\*lib/rlp\.Stream\)\.ListEnd$`, ""), G("every element was present", Cmp(`^phi\(`, ">=", `^call:\(reflect\.Value\)\.Len\(val\)$`)))
		c.OnEveryPath(fn, "ListEnd (rejects extra elements)", CallTo(`^\(\*lib/rlp\.Stream\)\.ListEnd$`, ""), "a return other than an error exit", func(in ssa.Instruction) bool {
			r, ok := in.(*ssa.Return)
			return ok && strings.Contains(pathOf(r.Results[0]), "ListEnd")
		})
	}
	if fn := c.Fn("lib/rlp", "", "decodeListSlice"); fn != nil {
		c.OnEveryPath(fn, "ListEnd", CallTo(`^\(\*lib/rlp\.Stream\)\.ListEnd$`, ""), "a successful return", func(in ssa.Instruction) bool {
			r, ok := in.(*ssa.Return)
			return ok && strings.Contains(pathOf(r.Results[0]), "ListEnd")
		})
		n := 0
		for _, in := range findInstrs(fn, AnyReturn()) {
			p := pathOf(in.(*ssa.Return).Results[0])
			if p == "nil" {
				n++
			}
		}
		c.Check("O", fnName(fn)+"/no successful return bypasses ListEnd", n == 0, fn.Pos(), n, "")
	}
	if fn := c.P.FuncByName("lib/rlp.makeStructDecoder$1"); fn != nil && len(fn.Blocks) > 0 {
		c.Funcs["lib/rlp.makeStructDecoder$1"] = true
		n := 0
		for _, in := range findInstrs(fn, AnyReturn()) {
			p := pathOf(in.(*ssa.Return).Results[0])
			if p == "nil" {
				n++
			}
		}
		le := len(findInstrs(fn, CallTo(`^\(\*lib/rlp\.Stream\)\.ListEnd$`, "")))
		c.Check("O", "lib/rlp.makeStructDecoder$1/every successful return is the verdict of ListEnd (extra elements rejected)", n == 0 && le == 1, fn.Pos(), le, "")
		c.Guarded(fn, "zero the remaining fields and stop", CallTo(`^lib/rlp\.zeroFields$`, ""), G("end of list reached", Cmp(`^call:dyn:fields\[.*\]\.info\.decoder\(s, `, "==", `^global:lib/rlp\.EOL$`)), G("field is optional", True(`\.optional$`)))
	} else {
		c.Unres("anchor", "lib/rlp.makeStructDecoder$1", "struct decoder closure not found")
	}
	// ---- size-dependent allocations on the decode side ----------------------------------------------------------
	nAlloc := 0
	for _, f := range c.P.ModFuncs {
		if f.Pkg == nil || strings.TrimPrefix(f.Pkg.Pkg.Path(), modPath+"/") != "lib/rlp" || len(f.Blocks) == 0 {
			continue
		}
		pos := c.P.Pos(f.Pos())
		if !strings.HasPrefix(pos, "lib/rlp/decode.go") && !strings.HasPrefix(pos, "lib/rlp/raw.go") && !strings.HasPrefix(pos, "lib/rlp/iterator.go") {
			continue
		}
		f := f
		allInstrs(f, false, func(_ *ssa.Function, in ssa.Instruction) {
			var size ssa.Value
			switch v := in.(type) {
			case *ssa.MakeSlice:
				size = v.Cap
				if size == nil {
					size = v.Len
				}
				if _, isConst := v.Len.(*ssa.Const); isConst && v.Cap == v.Len {
					return
				}
			case *ssa.Call:
				if calleeNameNoPath(&v.Call) == "reflect.MakeSlice" && len(v.Call.Args) == 3 {
					size = v.Call.Args[2]
				}
			}
			if size == nil {
				return
			}
			if _, isConst := size.(*ssa.Const); isConst {
				return
			}
			nAlloc++
			sp := pathOf(size)
			key := fnName(f) + "/allocation of " + clip(sp, 80) + " bytes/elements is justified by the input"
			switch {
			case re(`^(\(call:lib/rlp\.headsize\(` + kSize + `\) \+ )?` + kSize + `\)?$`).MatchString(sp):
				// the size announced by the header: Kind() has compared it with the remaining input / list
				ok := hasCond(domConds(in), `^\(`+kErr+` != nil\)=F$`) || hasCond(domConds(in), `^\(`+kErr+` == nil\)=T$`)
				c.Check("Z", key, ok, instrPos(in), 1, "the size comes from Kind() but the allocation is not behind the test of Kind()'s error, which carries the input-limit verdict")
			case re(`^phi\((const:4\|)?\(call:\(reflect\.Value\)\.Cap\(val\) \+ \(call:\(reflect\.Value\)\.Cap\(val\) / const:2\)\)(\|const:4)?\)$`).MatchString(sp):
				c.OK("Z", key, instrPos(in), 1, "geometric growth while elements are actually decoded (never from an announced size)")
			default:
				c.Bad("Z", key, instrPos(in), 1, "allocation size "+sp+" on the decode side is neither the Kind()-checked size nor incremental growth")
			}
		})
	}
	// ---- explicit panics -----------------------------------------------------------------------------------------
	tabled := map[string]string{
		"(*lib/rlp.EncoderBuffer).Reset": "programming error on the encode side (resetting a derived buffer), not input-dependent",
		"lib/rlp.typeNilKind":            "unreachable default after a closed switch on the type cache's own kind values",
		"lib/rlp.rtypeToStructType":      "depends on the Go type being decoded into (reflect.Invalid), which the caller fixes, not on the input bytes",
	}
	nPanic := 0
	for _, f := range c.P.ModFuncs {
		if f.Pkg == nil || !strings.HasPrefix(strings.TrimPrefix(f.Pkg.Pkg.Path(), modPath+"/"), "lib/rlp") || strings.Contains(f.Pkg.Pkg.Path(), "rlpgen") || len(f.Blocks) == 0 {
			continue
		}
		f := f
		allInstrs(f, false, func(_ *ssa.Function, in ssa.Instruction) {
			if _, ok := in.(*ssa.Panic); !ok {
				return
			}
			nPanic++
			why, ok := tabled[fnName(rootFn(f))]
			c.Check("P", fnName(f)+"/explicit panic is not reachable with untrusted input", ok, instrPos(in), 1, "explicit panic in "+fnName(f)+": arbitrary input must yield an error, never a panic"+why)
		})
	}
	c.Check("P", "lib/rlp/explicit panics inventoried", nPanic >= 2, c.fnPos("lib/rlp.DecodeBytes"), nPanic, "")
	c.Check("Z", "lib/rlp decode side/size-dependent allocations inventoried", nAlloc >= 4, c.fnPos("lib/rlp.DecodeBytes"), nAlloc, "")
}

// ---- minimal big-endian integer ladders ---------------------------------------------------------------------------

// byteStores collects, for the blocks of one case body, the stores `dst[const:j] = src >> const:s`.
func byteStores(fn *ssa.Function, body *ssa.BasicBlock, dstRe, src string) (map[int]int, []string, *ssa.Return) {
	out := map[int]int{}
	var other []string
	var ret *ssa.Return
	r := re(dstRe)
	for _, b := range fn.Blocks {
		if b != body && !body.Dominates(b) {
			continue
		}
		for _, in := range b.Instrs {
			switch x := in.(type) {
			case *ssa.Store:
				m := r.FindStringSubmatch(pathOf(x.Addr))
				if m == nil {
					continue
				}
				j, _ := strconv.Atoi(m[1])
				v := pathOf(x.Val)
				switch {
				case v == src:
					out[j] = 0
				case strings.HasPrefix(v, "("+src+" >> const:") && strings.HasSuffix(v, ")"):
					sft, err := strconv.Atoi(v[len(src)+11 : len(v)-1])
					if err != nil {
						other = append(other, v)
					}
					out[j] = sft
				default:
					other = append(other, fmt.Sprintf("[%d]=%s", j, v))
				}
			case *ssa.Return:
				ret = x
			}
		}
	}
	return out, other, ret
}

func bigEndian(m map[int]int, first, k int) bool {
	if len(m) != k {
		return false
	}
	for j := 0; j < k; j++ {
		if s, ok := m[first+j]; !ok || s != 8*(k-1-j) {
			return false
		}
	}
	return true
}

func c16Ladders(c *Ctx) {
	if fn := c.Fn("lib/rlp", "", "putint"); fn != nil {
		thr, bodies := caseLadder(fn, `^i$`)
		ok := len(thr) == 7 && len(bodies) == 8
		for k := 1; ok && k <= 7; k++ {
			ok = thr[k-1] == int64(1)<<(8*uint(k))
		}
		c.Check("T", fnName(fn)+"/width k is chosen exactly for values below 2^(8k)", ok, fn.Pos(), len(thr), fmt.Sprint(thr))
		for k := 1; k <= len(bodies) && k <= 8; k++ {
			m, other, ret := byteStores(fn, bodies[k-1], `^&b\[const:(\d+)\]$`, "i")
			good := bigEndian(m, 0, k) && len(other) == 0 && ret != nil && pathOf(ret.Results[0]) == "const:"+strconv.Itoa(k)
			c.Check("T", fmt.Sprintf("%s/width %d writes the %d big-endian bytes of i and returns %d", fnName(fn), k, k, k), good, bodies[k-1].Instrs[0].Pos(), k, fmt.Sprint(m, other))
		}
	}
	if fn := c.Fn("lib/rlp", "", "AppendUint64"); fn != nil {
		thr, bodies := caseLadder(fn, `^i$`)
		ok := len(thr) == 8 && len(bodies) == 9 && thr[0] == 128
		for k := 1; ok && k <= 7; k++ {
			ok = thr[k] == int64(1)<<(8*uint(k))
		}
		c.Check("T", fnName(fn)+"/single byte below 128, then width k exactly for values below 2^(8k)", ok, fn.Pos(), len(thr), fmt.Sprint(thr))
		c.Guarded(fn, "zero is the empty string 0x80", func(in ssa.Instruction) bool {
			s, ok := in.(*ssa.Store)
			return ok && pathOf(s.Addr) == "&varargs[const:0]" && pathOf(s.Val) == "const:128"
		}, G("i == 0", Cmp(`^i$`, "==", `^const:0$`)))
		if len(bodies) == 9 {
			m, other, _ := byteStores(fn, bodies[0], `^&varargs\[const:(\d+)\]$`, "i")
			c.Check("T", fnName(fn)+"/a value below 128 is its own byte", len(m) == 1 && m[0] == 0 && len(other) == 0, bodies[0].Instrs[0].Pos(), 1, fmt.Sprint(m, other))
			c.Guarded(fn, "write the value as its own byte", func(in ssa.Instruction) bool {
				s, ok := in.(*ssa.Store)
				return ok && pathOf(s.Addr) == "&varargs[const:0]" && pathOf(s.Val) == "i"
			}, G("i != 0", Cmp(`^i$`, "!=", `^const:0$`)))
			for k := 1; k <= 8; k++ {
				m, other, _ := byteStores(fn, bodies[k], `^&varargs\[const:(\d+)\]$`, "i")
				tag := ""
				var rest []string
				for _, o := range other {
					if strings.HasPrefix(o, "[0]=const:") {
						tag = o[10:]
					} else {
						rest = append(rest, o)
					}
				}
				good := tag == strconv.Itoa(0x80+k) && bigEndian(m, 1, k) && len(rest) == 0
				c.Check("T", fmt.Sprintf("%s/width %d writes tag 0x%x and the %d big-endian bytes", fnName(fn), k, 0x80+k, k), good, bodies[k].Instrs[0].Pos(), k+1, fmt.Sprint("tag ", tag, " bytes ", m, rest))
			}
		}
	}
	if fn := c.Fn("lib/rlp", "", "readSize"); fn != nil {
		var phi ssa.Value
		for _, in := range findInstrs(fn, SuccessReturn(1, "")) {
			phi = in.(*ssa.Return).Results[0]
		}
		term := regexp.MustCompile(`b\[const:(\d+)\](?: << const:(\d+))?`)
		seen := map[int]bool{}
		for _, pc := range phiCases(phi) {
			v := pathOf(pc.Val)
			if v == "const:0" {
				continue
			}
			k := 0
			for _, cnd := range pc.Conds {
				if m := regexp.MustCompile(`^\(slen == const:(\d+)\)=T$`).FindStringSubmatch(cnd); m != nil {
					k, _ = strconv.Atoi(m[1])
				}
			}
			m := map[int]int{}
			for _, t := range term.FindAllStringSubmatch(v, -1) {
				j, _ := strconv.Atoi(t[1])
				sft := 0
				if t[2] != "" {
					sft, _ = strconv.Atoi(t[2])
				}
				m[j] = sft
			}
			seen[k] = true
			c.Check("T", fmt.Sprintf("%s/a %d-byte size is the big-endian value of its %d bytes", fnName(fn), k, k), k >= 1 && k <= 8 && bigEndian(m, 0, k) && strings.Count(v, "|") == k-1, fn.Pos(), k, clip(v, 200))
		}
		var ks []int
		for k := range seen {
			ks = append(ks, k)
		}
		sort.Ints(ks)
		c.Check("T", fnName(fn)+"/sizes of 1 to 8 bytes are handled", len(ks) == 8 && ks[0] == 1 && ks[7] == 8, fn.Pos(), len(ks), fmt.Sprint(ks))
	}
	if fn := c.Fn("lib/rlp", "", "intsize"); fn != nil {
		okIf := len(findInstrs(fn, IfOn(`^\(\(phi\(\(phi@t\d+ >> const:8\)\|i\) >> const:8\) == const:0\)$`))) == 1
		okRet := false
		for _, in := range findInstrs(fn, AnyReturn()) {
			okRet = re(`^phi\((\(phi@t\d+ \+ const:1\)\|const:1|const:1\|\(phi@t\d+ \+ const:1\))\)$`).MatchString(pathOf(in.(*ssa.Return).Results[0]))
		}
		c.Check("T", fnName(fn)+"/counts one byte per 8-bit shift until the value is exhausted, starting at 1", okIf && okRet, fn.Pos(), 2, "")
	}
	// the integer decoder's counterpart: 8 - size leading bytes stay zero
	if fn := c.Fn("lib/rlp", "Stream", "readUint"); fn != nil {
		n := len(findInstrs(fn, CallTo(`^\(\*lib/rlp\.Stream\)\.readFull$`, `s\.uintbuf\[:const:8\]\[\(const:8 - size\):\]\)$`)))
		z := len(findInstrs(fn, StoreTo(`^&s\.uintbuf\[:const:8\]\[`)))
		c.Check("T", fnName(fn)+"/a size-byte integer is right-aligned in a zeroed 8-byte big-endian buffer", n == 1 && z == 1, fn.Pos(), 2, "")
	}
}

// ---- stream encoders versus the struct their decoder reads ----------------------------------------------------------

func hasEncodeRLP(t types.Type) bool {
	for _, tt := range []types.Type{t, types.NewPointer(t)} {
		ms := types.NewMethodSet(tt)
		for i := 0; i < ms.Len(); i++ {
			if ms.At(i).Obj().Name() == "EncodeRLP" {
				return true
			}
		}
	}
	return false
}

// rlpShape: the token sequence the reflection-based codec reads/writes for a type.
func rlpShape(t types.Type, path string, top bool) []string {
	if p, ok := t.(*types.Pointer); ok {
		if n, ok := p.Elem().(*types.Named); ok && n.Obj().Pkg() != nil && n.Obj().Pkg().Path() == "math/big" && n.Obj().Name() == "Int" {
			return []string{"I:" + path}
		}
		return rlpShape(p.Elem(), path, top)
	}
	if n, ok := t.(*types.Named); ok {
		if n.Obj().Pkg() != nil && n.Obj().Pkg().Path() == "math/big" && n.Obj().Name() == "Int" {
			return []string{"I:" + path}
		}
		if !top && hasEncodeRLP(n) {
			return []string{"E:" + path}
		}
	}
	switch u := t.Underlying().(type) {
	case *types.Basic:
		switch {
		case u.Info()&types.IsUnsigned != 0:
			return []string{"U:" + path}
		case u.Info()&types.IsBoolean != 0:
			return []string{"Bool:" + path}
		case u.Info()&types.IsString != 0:
			return []string{"S:" + path}
		}
		return []string{"?" + u.String() + ":" + path}
	case *types.Slice:
		if b, ok := u.Elem().Underlying().(*types.Basic); ok && b.Kind() == types.Uint8 {
			return []string{"B:" + path}
		}
		return append(append([]string{"L("}, rlpShape(u.Elem(), path, false)...), ")")
	case *types.Array:
		if b, ok := u.Elem().Underlying().(*types.Basic); ok && b.Kind() == types.Uint8 {
			return []string{"B:" + path}
		}
		return append(append([]string{"L("}, rlpShape(u.Elem(), path, false)...), ")")
	case *types.Struct:
		out := []string{"L("}
		for i := 0; i < u.NumFields(); i++ {
			f := u.Field(i)
			if !f.Exported() {
				continue
			}
			tag := reflect.StructTag(u.Tag(i)).Get("rlp")
			if tag == "-" {
				continue
			}
			p := f.Name()
			if path != "" {
				p = path + "." + f.Name()
			}
			if tag != "" {
				out = append(out, "?tag("+tag+"):"+p)
				continue
			}
			out = append(out, rlpShape(f.Type(), p, false)...)
		}
		return append(out, ")")
	}
	return []string{"?" + t.String() + ":" + path}
}

// encoderTokens: the sequence of EncoderBuffer operations of a stream encoder, in source order.
func (c *Ctx) encoderTokens(fn *ssa.Function, recv string, alias map[string]string) []string {
	type tok struct {
		pos int
		s   string
	}
	var toks []tok
	fieldRe := regexp.MustCompile(`\b` + recv + `\.([A-Za-z_]\w*(?:\.[A-Za-z_]\w*)*)`)
	field := func(p string) string {
		for k, v := range alias {
			if strings.Contains(p, k) {
				return v
			}
		}
		if m := fieldRe.FindStringSubmatch(p); m != nil {
			return m[1]
		}
		return "?" + clip(p, 60)
	}
	allInstrs(fn, false, func(_ *ssa.Function, in ssa.Instruction) {
		cc := callCommon(in)
		if cc == nil {
			return
		}
		if _, isDefer := in.(*ssa.Defer); isDefer {
			return
		}
		name := calleeNameNoPath(cc)
		a := argPaths(cc)
		t := ""
		switch {
		case name == "(lib/rlp.EncoderBuffer).List":
			t = "L("
		case name == "(lib/rlp.EncoderBuffer).ListEnd":
			t = ")"
		case name == "(lib/rlp.EncoderBuffer).WriteUint64" && len(a) == 2:
			t = "U:" + field(a[1])
		case name == "(lib/rlp.EncoderBuffer).WriteBytes" && len(a) == 2:
			t = "B:" + field(a[1])
		case name == "(lib/rlp.EncoderBuffer).WriteBigInt" && len(a) == 2:
			t = "I:" + field(a[1])
		case name == "(lib/rlp.EncoderBuffer).WriteBool" && len(a) == 2:
			t = "Bool:" + field(a[1])
		case name == "(lib/rlp.EncoderBuffer).WriteString" && len(a) == 2:
			t = "S:" + field(a[1])
		case name == "lib/rlp.Encode" && len(a) == 2:
			t = "E:" + field(a[1])
		case strings.HasSuffix(name, ").EncodeRLP") && len(a) == 2:
			t = "E:" + field(a[0])
		default:
			return
		}
		toks = append(toks, tok{int(instrPos(in)), t})
	})
	sort.SliceStable(toks, func(i, j int) bool { return toks[i].pos < toks[j].pos })
	var out []string
	for _, t := range toks {
		out = append(out, t.s)
	}
	return out
}

func c16Codecs(c *Ctx) {
	for _, e := range []struct {
		enc, recv, typ string
		alias          map[string]string
		leafOnly       bool
	}{
		{"(*types.rlpLog).EncodeRLP", "obj", "rlpLog", nil, false},
		{"(*types.storageBlockInfo).EncodeRLP", "obj", "storageBlockInfo", nil, false},
		{"(*types.Header).EncodeRLP", "obj", "Header", nil, false},
		{"(*types.ReceiptForStorage).EncodeRLP", "r", "receiptStorageRLP", map[string]string{"statusEncoding(": "PostStateOrStatus"}, true},
	} {
		fn := c.P.FuncByName(e.enc)
		nt, _ := c.P.NamedStruct("types", e.typ)
		if fn == nil || len(fn.Blocks) == 0 || nt == nil {
			c.Unres("anchor", e.enc, "stream encoder or its struct type not found")
			continue
		}
		c.Funcs[e.enc] = true
		want := rlpShape(nt, "", true)
		got := c.encoderTokens(fn, e.recv, e.alias)
		if e.leafOnly {
			// hand-written: compare the leading field name only
			for i, w := range want {
				if j := strings.Index(w, "."); j > 0 {
					want[i] = w[:j]
				}
			}
			for i, g := range got {
				if j := strings.Index(g, "."); j > 0 {
					got[i] = g[:j]
				}
			}
		}
		d := ""
		for i := 0; i < len(want) || i < len(got); i++ {
			w, g := "<none>", "<none>"
			if i < len(want) {
				w = want[i]
			}
			if i < len(got) {
				g = got[i]
			}
			if w != g {
				d = fmt.Sprintf("position %d: the struct has %s, the encoder writes %s", i, w, g)
				break
			}
		}
		c.Check("S", e.enc+"/writes exactly the fields of types."+e.typ+" in order and kind", d == "", fn.Pos(), len(want), d+" — want "+strings.Join(want, " ")+" — got "+strings.Join(got, " "))
		for _, w := range want {
			if strings.HasPrefix(w, "?") {
				c.Bad("S", e.enc+"/field kinds of types."+e.typ+" are understood", fn.Pos(), 1, "unhandled field "+w)
			}
		}
	}
	// ---- wrapper codecs carry every consensus field both ways ----------------------------------------------------
	nonCons := func(fs ...string) map[string]string {
		m := map[string]string{}
		for _, f := range fs {
			m[f] = "not part of this encoding (derived or implementation field)"
		}
		return m
	}
	c.codecPair(codecSpec{Name: "Receipt (consensus)", Dom: "types.Receipt", Proto: "types.receiptRLP", Enc: "(*types.Receipt).EncodeRLP", Dec: "(*types.Receipt).DecodeRLP",
		DomSkip:   map[string]string{"PostState": "carried through statusEncoding/setStatus (checked below)", "Status": "carried through statusEncoding/setStatus (checked below)", "TxHash": "implementation field", "ContractAddress": "implementation field", "GasUsed": "implementation field", "BlockHash": "inclusion info", "BlockHeight": "inclusion info", "TransactionIndex": "inclusion info"},
		ProtoSkip: map[string]string{"PostStateOrStatus": "filled by statusEncoding, read by setStatus (checked below)"}})
	c.codecPair(codecSpec{Name: "Log (consensus)", Dom: "types.Log", Proto: "types.rlpLog", Enc: "(*types.Log).EncodeRLP", Dec: "(*types.Log).DecodeRLP",
		DomSkip: nonCons("BlockHeight", "TxHash", "TxIndex", "BlockHash", "Index", "Removed")})
	c.codecPair(codecSpec{Name: "BlockInfo", Dom: "types.BlockInfo", Proto: "types.storageBlockInfo", Enc: "(*types.BlockInfo).EncodeRLP", Dec: "(*types.BlockInfo).DecodeRLP",
		DomSkip: map[string]string{"size": "cache"}})
	c.codecPair(codecSpec{Name: "Account (slim)", Dom: "types.StateAccount", Proto: "types.SlimAccount", Enc: "types.SlimAccountRLP", Dec: "types.FullAccount"})
	// status encoding and its inverse
	if enc, dec := c.Fn("types", "Receipt", "EncodeRLP"), c.Fn("types", "Receipt", "DecodeRLP"); enc != nil && dec != nil {
		n := 0
		for _, in := range findInstrs(enc, StoreTo(`\.PostStateOrStatus$`)) {
			if pathOf(in.(*ssa.Store).Val) == "call:(*types.Receipt).statusEncoding(r)" {
				n++
			}
		}
		m := len(findInstrs(dec, CallTo(`^\(\*types\.Receipt\)\.setStatus$`, `\.PostStateOrStatus\)$`)))
		c.Check("S", "types.Receipt/status goes out through statusEncoding and comes back through setStatus", n == 1 && m == 1, enc.Pos(), 2, "")
		c.Guarded(dec, "accept the receipt", SuccessReturn(0, ""), G("stream decoded", IsNil(`^call:\(\*lib/rlp\.Stream\)\.Decode\(`)), G("status understood", IsNil(`^call:\(\*types\.Receipt\)\.setStatus\(`)))
	}
	if fn := c.Fn("types", "ReceiptForStorage", "DecodeRLP"); fn != nil {
		df := fieldFlows(fn, "types.receiptStorageRLP", "types.ReceiptForStorage")
		for f, g := range map[string]string{"CumulativeGasUsed": "CumulativeGasUsed", "Bloom": "Bloom", "TxHash": "TxHash", "ContractAddress": "ContractAddress", "GasUsed": "GasUsed", "Logs": "Logs"} {
			c.Check("S", fnName(fn)+"/restores "+f+" from the stored "+g, df[f][g] && len(df[f]) == 1, fn.Pos(), 1, setStr(df[f]))
		}
		c.Guarded(fn, "accept the receipt", SuccessReturn(0, ""), G("stream decoded", IsNil(`^call:\(\*lib/rlp\.Stream\)\.Decode\(`)), G("status understood", IsNil(`^call:\(\*types\.Receipt\)\.setStatus\(`)))
	}
	if set, get := c.Fn("types", "Receipt", "setStatus"), c.Fn("types", "Receipt", "statusEncoding"); set != nil && get != nil {
		c.Guarded(set, "mark failed", func(in ssa.Instruction) bool {
			s, ok := in.(*ssa.Store)
			return ok && pathOf(s.Addr) == "&r.Status" && strings.Contains(pathOf(s.Val), c.P.Const("types", "ReceiptStatusFailed"))
		}, G("bytes are the failed marker", True(`^call:bytes\.Equal\(postStateOrStatus, global:types\.receiptStatusFailedRLP\)$`)))
		c.Guarded(set, "mark successful", func(in ssa.Instruction) bool {
			s, ok := in.(*ssa.Store)
			return ok && pathOf(s.Addr) == "&r.Status" && strings.Contains(pathOf(s.Val), c.P.Const("types", "ReceiptStatusSuccessful"))
		}, G("bytes are the success marker", True(`^call:bytes\.Equal\(postStateOrStatus, global:types\.receiptStatusSuccessfulRLP\)$`)))
		c.Guarded(get, "encode failed", ReturnWith(0, `^global:types\.receiptStatusFailedRLP$`), G("status is failed", Cmp(`^r\.Status$`, "==", `^const:`+c.P.Const("types", "ReceiptStatusFailed")+`$`)), G("no post state", Cmp(`^call:len\(r\.PostState\)$`, "==", `^const:0$`)))
		c.Guarded(get, "encode successful", ReturnWith(0, `^global:types\.receiptStatusSuccessfulRLP$`), G("status is not failed", Cmp(`^r\.Status$`, "!=", `^const:`+c.P.Const("types", "ReceiptStatusFailed")+`$`)), G("no post state", Cmp(`^call:len\(r\.PostState\)$`, "==", `^const:0$`)))
	}
	// ---- transactions: codec and hash cover the same payload ----------------------------------------------------
	if enc, dec := c.Fn("types", "Transaction", "EncodeRLP"), c.Fn("types", "Transaction", "DecodeRLP"); enc != nil && dec != nil {
		ne := len(findInstrs(enc, CallTo(`^lib/rlp\.Encode$`, `Encode\(w, &tx\.data\)$`)))
		nd := len(findInstrs(dec, CallTo(`^\(\*lib/rlp\.Stream\)\.Decode$`, `Decode\(s, &tx\.data\)$`)))
		c.Check("S", "types.Transaction/EncodeRLP writes and DecodeRLP reads the same payload (tx.data)", ne == 1 && nd == 1, enc.Pos(), 2, "")
		c.Guarded(dec, "cache the size", CallTo(`^\(\*sync/atomic\.Value\)\.Store$`, `&tx\.size`), G("decoded without error", IsNil(`^call:\(\*lib/rlp\.Stream\)\.Decode\(s, &tx\.data\)$`)))
	}
	if fn := c.Fn("types", "Transaction", "Hash"); fn != nil {
		n := len(findInstrs(fn, CallTo(`^types\.rlpHash$`, `rlpHash\(tx\)$`)))
		c.Check("S", fnName(fn)+"/is the hash of the transaction's own RLP encoding", n == 1, fn.Pos(), n, "")
		c.Guarded(fn, "return the cached hash", func(in ssa.Instruction) bool {
			r, ok := in.(*ssa.Return)
			return ok && strings.Contains(pathOf(r.Results[0]), "Load(")
		}, G("a hash was cached", NotNil(`^call:\(\*sync/atomic\.Value\)\.Load\(&tx\.hash\)$`)))
	}
	// the hashed payload is written only while a transaction is being built or decoded (the hash is cached)
	c.OnlyWrittenIn("types", "Transaction", "data", 2, `^types\.(newTransaction|NewTransaction|NewContractCreation)$`, `^\(\*types\.Transaction\)\.(DecodeRLP|UnmarshalJSON|WithSignature)$`)
	if nt, st := c.P.NamedStruct("types", "txdata"); nt != nil {
		var skipped []string
		for i := 0; i < st.NumFields(); i++ {
			if reflect.StructTag(st.Tag(i)).Get("rlp") == "-" {
				skipped = append(skipped, st.Field(i).Name())
			}
		}
		c.Check("S", "types.txdata/only the JSON-only Hash field is left out of the encoding", len(skipped) == 1 && skipped[0] == "Hash", nt.Obj().Pos(), st.NumFields(), strings.Join(skipped, ","))
	}
}
