package main

// C10 (continued) — arithmetic, comparison, bitwise and shift instructions: which 256-bit operation is applied and in
// which operand order (the top of the stack is the first operand).

import (
	"fmt"
	"strings"

	"golang.org/x/tools/go/ssa"
)

type aluSpec struct {
	op     string   // op function
	method string   // uint256 method that computes the result
	recv   string   // role of the receiver
	args   []string // roles of the arguments
	comm   bool     // operand order irrelevant
}

func runC10ALU(c *Ctx) {
	specs := []aluSpec{
		{"opAdd", "Add", "peek", []string{"pop1", "peek"}, true},
		{"opMul", "Mul", "peek", []string{"pop1", "peek"}, true},
		{"opSub", "Sub", "peek", []string{"pop1", "peek"}, false},
		{"opDiv", "Div", "peek", []string{"pop1", "peek"}, false},
		{"opSdiv", "SDiv", "peek", []string{"pop1", "peek"}, false},
		{"opMod", "Mod", "peek", []string{"pop1", "peek"}, false},
		{"opSmod", "SMod", "peek", []string{"pop1", "peek"}, false},
		{"opExp", "Exp", "peek", []string{"pop1", "peek"}, false},
		{"opSignExtend", "ExtendSign", "peek", []string{"peek", "pop1"}, false},
		{"opNot", "Not", "peek", []string{"peek"}, false},
		{"opAnd", "And", "peek", []string{"pop1", "peek"}, true},
		{"opOr", "Or", "peek", []string{"pop1", "peek"}, true},
		{"opXor", "Xor", "peek", []string{"pop1", "peek"}, true},
		{"opByte", "Byte", "peek", []string{"pop1"}, false},
		{"opAddmod", "AddMod", "peek", []string{"pop1", "pop2", "peek"}, false},
		{"opMulmod", "MulMod", "peek", []string{"pop1", "pop2", "peek"}, false},
		{"opLt", "Lt", "pop1", []string{"peek"}, false},
		{"opGt", "Gt", "pop1", []string{"peek"}, false},
		{"opSlt", "Slt", "pop1", []string{"peek"}, false},
		{"opSgt", "Sgt", "pop1", []string{"peek"}, false},
		{"opEq", "Eq", "pop1", []string{"peek"}, true},
		{"opIszero", "IsZero", "peek", nil, false},
		{"opSHL", "Lsh", "peek", []string{"peek", "n(pop1)"}, false},
		{"opSHR", "Rsh", "peek", []string{"peek", "n(pop1)"}, false},
		{"opSAR", "SRsh", "peek", []string{"peek", "n(pop1)"}, false},
	}
	n := 0
	for _, sp := range specs {
		fn := c.Fn("kvm", "", sp.op)
		if fn == nil {
			continue
		}
		// roles: the k-th pop() (by position) and the peek()
		var pops []*ssa.Call
		var peek *ssa.Call
		allInstrs(fn, false, func(_ *ssa.Function, in ssa.Instruction) {
			cl, ok := in.(*ssa.Call)
			if !ok {
				return
			}
			switch calleeNameNoPath(&cl.Call) {
			case "(*kvm.Stack).pop":
				pops = append(pops, cl)
			case "(*kvm.Stack).peek":
				peek = cl
			}
		})
		for i := 0; i < len(pops); i++ {
			for j := i + 1; j < len(pops); j++ {
				if pops[j].Pos() < pops[i].Pos() {
					pops[i], pops[j] = pops[j], pops[i]
				}
			}
		}
		var role func(v ssa.Value, depth int) string
		role = func(v ssa.Value, depth int) string {
			if depth > 6 {
				return "?"
			}
			if peek != nil && v == ssa.Value(peek) {
				return "peek"
			}
			switch x := v.(type) {
			case *ssa.Alloc:
				// the variable holding a popped value
				for _, r := range *x.Referrers() {
					if st, ok := r.(*ssa.Store); ok && st.Addr == ssa.Value(x) {
						for k, p := range pops {
							if st.Val == ssa.Value(p) {
								return fmt.Sprintf("pop%d", k+1)
							}
						}
					}
				}
			case *ssa.Convert:
				return role(x.X, depth+1)
			case *ssa.Call:
				if calleeNameNoPath(&x.Call) == "(*github.com/holiman/uint256.Int).Uint64" && len(x.Call.Args) == 1 {
					return "n(" + role(x.Call.Args[0], depth+1) + ")"
				}
			case *ssa.Phi:
				for _, e := range x.Edges {
					if r := role(e, depth+1); r != "?" && !strings.HasPrefix(r, "const") {
						return r
					}
				}
			}
			return "?"
		}
		var calls []*ssa.Call
		allInstrs(fn, false, func(_ *ssa.Function, in ssa.Instruction) {
			if cl, ok := in.(*ssa.Call); ok && calleeNameNoPath(&cl.Call) == "(*github.com/holiman/uint256.Int)."+sp.method {
				calls = append(calls, cl)
			}
		})
		key := fmt.Sprintf("kvm.%s/computes %s(%s) on %s", sp.op, sp.method, strings.Join(sp.args, ", "), sp.recv)
		if len(calls) != 1 {
			c.Bad("T", key, fn.Pos(), len(calls), fmt.Sprintf("%d calls of uint256.%s", len(calls), sp.method))
			continue
		}
		n++
		cl := calls[0]
		got := []string{}
		for _, a := range cl.Call.Args {
			got = append(got, role(a, 0))
		}
		ok := len(got) == len(sp.args)+1 && got[0] == sp.recv
		if ok {
			rest := got[1:]
			same := strings.Join(rest, ",") == strings.Join(sp.args, ",")
			if !same && sp.comm && len(rest) == 2 {
				same = rest[0] == sp.args[1] && rest[1] == sp.args[0]
			}
			if !same && sp.comm && len(rest) == 1 && sp.recv != "peek" {
				same = true
			}
			ok = same
		}
		if !ok && sp.comm && len(got) == 2 && len(sp.args) == 1 {
			// x.Eq(y) or y.Eq(x)
			ok = (got[0] == "pop1" && got[1] == "peek") || (got[0] == "peek" && got[1] == "pop1")
		}
		c.Check("T", key, ok, cl.Pos(), 1, "operands are "+strings.Join(got, ", ")+": the first popped value is the instruction's first operand (a - b, a / b, a < b with a on top of the stack)")
	}
	c.Check("T", "kvm/arithmetic and logic instructions tabled", n >= 24, c.fnPos("kvm.opAdd"), n, "")
	// comparisons write 1 on true and 0 on false
	for _, name := range []string{"opLt", "opGt", "opSlt", "opSgt", "opEq", "opIszero"} {
		fn := c.P.Func("kvm", "", name)
		if fn == nil {
			continue
		}
		m := map[string]string{"opLt": "Lt", "opGt": "Gt", "opSlt": "Slt", "opSgt": "Sgt", "opEq": "Eq", "opIszero": "IsZero"}[name]
		t := `^call:\(\*github\.com/holiman/uint256\.Int\)\.` + m + `\(`
		c.Guarded(fn, "write 1", CallTo(`^\(\*github\.com/holiman/uint256\.Int\)\.SetOne$`, ""), G("the comparison holds", True(t)))
		c.Guarded(fn, "write 0", CallTo(`^\(\*github\.com/holiman/uint256\.Int\)\.Clear$`, ""), G("the comparison does not hold", False(t)))
	}
	// modulo zero is zero; shifts of 256 or more saturate
	if fn := c.P.Func("kvm", "", "opAddmod"); fn != nil {
		c.Guarded(fn, "compute the modular sum", CallTo(`^\(\*github\.com/holiman/uint256\.Int\)\.AddMod$`, ""), G("modulus not zero", False(`^call:\(\*github\.com/holiman/uint256\.Int\)\.IsZero\(`)))
	}
	for _, name := range []string{"opSHL", "opSHR"} {
		if fn := c.P.Func("kvm", "", name); fn != nil {
			lt := `^call:\(\*github\.com/holiman/uint256\.Int\)\.LtUint64\(.*, const:256\)$`
			c.Guarded(fn, "shift", CallTo(`^\(\*github\.com/holiman/uint256\.Int\)\.(Lsh|Rsh)$`, ""), G("shift below 256", True(lt)))
			c.Guarded(fn, "clear", CallTo(`^\(\*github\.com/holiman/uint256\.Int\)\.Clear$`, ""), G("shift 256 or more", False(lt)))
		}
	}
	if fn := c.P.Func("kvm", "", "opSAR"); fn != nil {
		gt := `^call:\(\*github\.com/holiman/uint256\.Int\)\.GtUint64\(.*, const:256\)$`
		c.Guarded(fn, "arithmetic shift", CallTo(`^\(\*github\.com/holiman/uint256\.Int\)\.SRsh$`, ""), G("shift at most 256", False(gt)))
		c.Guarded(fn, "saturate to 0", CallTo(`^\(\*github\.com/holiman/uint256\.Int\)\.Clear$`, ""), G("shift above 256", True(gt)), G("value not negative", Cmp(`^call:\(\*github\.com/holiman/uint256\.Int\)\.Sign\(`, ">=", `^const:0$`)))
		c.Guarded(fn, "saturate to all ones", CallTo(`^\(\*github\.com/holiman/uint256\.Int\)\.SetAllOne$`, ""), G("shift above 256", True(gt)), G("value negative", Cmp(`^call:\(\*github\.com/holiman/uint256\.Int\)\.Sign\(`, "<", `^const:0$`)))
	}
}
