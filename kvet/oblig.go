package main

// Obligations, verdicts, known findings and the evidence file.

import (
	"encoding/json"
	"fmt"
	"go/token"
	"os"
	"path/filepath"
	"sort"
	"strings"
	"time"

	"golang.org/x/tools/go/ssa"
)

type Verdict string

const (
	Discharged Verdict = "discharged"
	Violated   Verdict = "violated"
	Unresolved Verdict = "unresolved"
)

type Obligation struct {
	Key      string  `json:"key"`
	Rule     string  `json:"rule"`
	Verdict  Verdict `json:"verdict"`
	Site     string  `json:"site,omitempty"`
	Detail   string  `json:"detail,omitempty"`
	Advisory bool    `json:"advisory,omitempty"`
	Inspect  int     `json:"constructs_inspected"`
}

type Ctx struct {
	P        *Program
	Prop     string
	Tier     string
	Obs      []*Obligation
	keys     map[string]bool
	Funcs    map[string]bool // functions analysed
	Decided  []string        // clauses decided (explanation)
	NotDec   []string        // clauses not decided
	Advisory []string
	Floors   map[string]int // rule -> minimum number of obligations expected
	Extra    map[string]interface{}
	// RegistrationIsEvent: Precedes treats a `defer`/`go` statement matched by `first` as the event itself (its
	// registration), instead of ignoring it because the deferred call has not run yet.
	RegistrationIsEvent bool
	flips               []flipSite // comparisons relied on by discharged guard obligations (see sweep.go)
}

func newCtx(p *Program, prop, tier string) *Ctx {
	return &Ctx{P: p, Prop: prop, Tier: tier, keys: map[string]bool{}, Funcs: map[string]bool{}, Floors: map[string]int{}, Extra: map[string]interface{}{}}
}

func (c *Ctx) add(rule, key string, v Verdict, pos token.Pos, inspected int, detail string) *Obligation {
	full := c.Prop + "/" + rule + "/" + key
	if c.keys[full] {
		// keep keys unique and stable: append ordinal
		for i := 2; ; i++ {
			k := fmt.Sprintf("%s#%d", full, i)
			if !c.keys[k] {
				full = k
				break
			}
		}
	}
	c.keys[full] = true
	o := &Obligation{Key: full, Rule: rule, Verdict: v, Site: c.P.Pos(pos), Detail: detail, Inspect: inspected}
	c.Obs = append(c.Obs, o)
	return o
}

func (c *Ctx) OK(rule, key string, pos token.Pos, n int, detail string) {
	c.add(rule, key, Discharged, pos, n, detail)
}
func (c *Ctx) Bad(rule, key string, pos token.Pos, n int, detail string) {
	c.add(rule, key, Violated, pos, n, detail)
}
func (c *Ctx) Unres(rule, key string, detail string) {
	c.add(rule, key, Unresolved, token.NoPos, 0, detail)
}
func (c *Ctx) Check(rule, key string, ok bool, pos token.Pos, n int, detail string) {
	if ok {
		c.OK(rule, key, pos, n, detail)
	} else {
		c.Bad(rule, key, pos, n, detail)
	}
}

// Fn resolves an anchor function; a missing anchor becomes an unresolved obligation.
func (c *Ctx) Fn(pkg, recv, name string) *ssa.Function {
	f := c.P.Func(pkg, recv, name)
	label := pkg + "." + name
	if recv != "" {
		label = "(" + pkg + "." + recv + ")." + name
	}
	if f == nil || len(f.Blocks) == 0 {
		c.Unres("anchor", label, "anchor function not found in the loaded program (renamed, moved or excluded by build constraints)")
		return nil
	}
	c.Funcs[short(f.String())] = true
	return f
}

func fnName(f *ssa.Function) string {
	if f == nil {
		return "<nil>"
	}
	return short(f.String())
}

// ---------------------------------------------------------------------------------------------

type KnownFinding struct {
	Property string `json:"property"`
	Key      string `json:"key"`
	What     string `json:"what"`
	Status   string `json:"status"` // open | fixed
	Commit   string `json:"commit,omitempty"`
}

func loadKnown(path string) ([]KnownFinding, error) {
	b, err := os.ReadFile(path)
	if err != nil {
		if os.IsNotExist(err) {
			return nil, nil
		}
		return nil, err
	}
	var k struct {
		Findings []KnownFinding `json:"findings"`
	}
	if err := json.Unmarshal(b, &k); err != nil {
		return nil, err
	}
	return k.Findings, nil
}

// ---------------------------------------------------------------------------------------------

type Evidence struct {
	PropertyID  string                 `json:"property_id"`
	Tier        string                 `json:"tier"`
	Seed        int                    `json:"seed"`
	Level       string                 `json:"level"`
	Coverage    map[string]interface{} `json:"coverage"`
	Assumptions []string               `json:"assumptions"`
	WallS       float64                `json:"wall_s"`
	Violations  int                    `json:"violations"`
}

var commonAssumptions = []string{
	"go/types and go/ssa (golang.org/x/tools v0.29.0) model the source faithfully; VTA call graph over-approximates dynamic dispatch",
	"reflection-driven code (lib/rlp struct coding, generated *.pb.go marshalling) and third-party dependencies are not analysed and behave as documented",
	"build configuration: linux/amd64, default build tags unless listed under coverage.build_configs",
	"the rule decides the structural clause named in each obligation, not the run-time behaviour of the property as a whole (see coverage.explanation)",
}

// finish applies floors and known findings, writes evidence and violation files, prints the verdict lines.
// Returns the process exit code.
func (c *Ctx) finish(verifDir string, t0 time.Time, writeEvidence bool, extraCfg []string) int {
	// floors
	count := map[string]int{}
	for _, o := range c.Obs {
		if !o.Advisory {
			count[o.Rule]++
		}
	}
	var rules []string
	for r := range c.Floors {
		rules = append(rules, r)
	}
	sort.Strings(rules)
	for _, r := range rules {
		if count[r] < c.Floors[r] {
			c.Unres("floor", r, fmt.Sprintf("rule %s produced %d obligations, fewer than the %d confirmed by hand on the reference tree (anchors moved or rule no longer matches)", r, count[r], c.Floors[r]))
		}
	}
	known, err := loadKnown(filepath.Join(verifDir, "known_findings.json"))
	if err != nil {
		fmt.Fprintln(os.Stderr, "kvet: known_findings.json:", err)
		return 2
	}
	open := map[string]KnownFinding{}
	for _, k := range known {
		if k.Status == "open" && k.Property == c.Prop {
			open[k.Key] = k
		}
	}
	sort.SliceStable(c.Obs, func(i, j int) bool { return c.Obs[i].Key < c.Obs[j].Key })
	var viol, knownHit, adv []*Obligation
	discharged, nontrivial := 0, 0
	for _, o := range c.Obs {
		if o.Inspect > 0 {
			nontrivial++
		}
		switch {
		case o.Advisory:
			if o.Verdict != Discharged {
				adv = append(adv, o)
			} else {
				discharged++
			}
		case o.Verdict == Discharged:
			discharged++
		default:
			if k, ok := open[o.Key]; ok && o.Verdict == Violated {
				knownHit = append(knownHit, o)
				fmt.Printf("KNOWN-FINDING: property=%s %s [%s at %s]\n", c.Prop, k.What, o.Key, o.Site)
			} else {
				viol = append(viol, o)
			}
		}
	}
	vdir := filepath.Join(verifDir, "evidence", "violations")
	if writeEvidence {
		os.MkdirAll(vdir, 0o755)
		old, _ := filepath.Glob(filepath.Join(vdir, c.Prop+"-*.json"))
		for _, f := range old {
			os.Remove(f)
		}
	}
	for i, o := range viol {
		path := filepath.Join(vdir, fmt.Sprintf("%s-%d.json", c.Prop, i+1))
		if writeEvidence {
			b, _ := json.MarshalIndent(map[string]interface{}{"property": c.Prop, "obligation": o, "tier": c.Tier}, "", " ")
			os.WriteFile(path, b, 0o644)
		}
		fmt.Printf("VIOLATION property=%s replay=%s\n", c.Prop, path)
		fmt.Printf("  %s [%s] %s at %s\n    %s\n", o.Verdict, o.Rule, o.Key, o.Site, o.Detail)
	}
	for _, o := range adv {
		fmt.Printf("advisory: %s at %s: %s\n", o.Key, o.Site, o.Detail)
	}
	// evidence
	var samples []interface{}
	for _, o := range c.Obs {
		samples = append(samples, o)
	}
	var fns []string
	for f := range c.Funcs {
		fns = append(fns, f)
	}
	sort.Strings(fns)
	perRule := map[string]int{}
	for _, o := range c.Obs {
		perRule[o.Rule]++
	}
	expl := "DECIDED (structural necessary conditions, each obligation names the construct): " + strings.Join(c.Decided, "; ") +
		". NOT DECIDED by this check (run-time/value/history-level clauses of the property): " + strings.Join(c.NotDec, "; ") + "."
	cfgs := append([]string{"linux/amd64 default tags"}, extraCfg...)
	cov := map[string]interface{}{
		"explanation":                  expl,
		"obligations":                  len(c.Obs),
		"discharged":                   discharged,
		"known_findings_hit":           len(knownHit),
		"evaluations":                  len(c.Obs),
		"distinct_nontrivial":          nontrivial,
		"rule":                         "one obligation per (rule, function, construct); non-trivial = the obligation inspected at least one real construct (guard edge, sink, call site, field) of /repo's current source",
		"samples":                      samples,
		"obligations_per_rule":         perRule,
		"functions_analysed":           fns,
		"packages_loaded":              len(c.P.ByPath),
		"files_loaded":                 c.P.Files,
		"ignored_by_build_constraints": c.P.Ignored,
		"build_configs":                cfgs,
		"checker_cmd":                  "bin/kvet check -prop " + c.Prop + " -tier " + c.Tier,
		"trusted_base":                 []string{"Go toolchain (go/types)", "golang.org/x/tools v0.29.0 go/packages, go/ssa, callgraph/{cha,vta}", "kvet engine and its per-property anchor tables (/verif/kvet/rules_*.go)"},
		"exhaustive":                   false,
		"load_s":                       c.P.LoadS,
	}
	for k, v := range c.Extra {
		cov[k] = v
	}
	if len(adv) > 0 {
		var as []interface{}
		for _, o := range adv {
			as = append(as, o)
		}
		cov["advisory"] = as
	}
	cov["values_printed_under_frozen_names"] = c.P.Renamed
	cov["new_helpers_expanded"] = map[string]interface{}{"helpers": c.P.Inline.Helpers, "call_sites": c.P.Inline.Sites, "left_alone": c.P.Inline.Skipped, "abandoned": c.P.Inline.Fallback, "taken_as_renamed": c.P.Inline.Renamed}
	ev := Evidence{PropertyID: c.Prop, Tier: c.Tier, Seed: seedFromEnv(), Level: "other", Coverage: cov,
		Assumptions: commonAssumptions, WallS: time.Since(t0).Seconds(), Violations: len(viol)}
	if writeEvidence {
		b, _ := json.MarshalIndent(ev, "", " ")
		os.MkdirAll(filepath.Join(verifDir, "evidence"), 0o755)
		if err := os.WriteFile(filepath.Join(verifDir, "evidence", c.Prop+".json"), b, 0o644); err != nil {
			fmt.Fprintln(os.Stderr, "kvet: cannot write evidence:", err)
			return 2
		}
	}
	fmt.Printf("kvet %s tier=%s: %d obligations, %d discharged, %d known findings, %d violations/unresolved, %d advisory; %d functions; %.1fs\n",
		c.Prop, c.Tier, len(c.Obs), discharged, len(knownHit), len(viol), len(adv), len(fns), time.Since(t0).Seconds())
	if len(viol) > 0 {
		return 1
	}
	return 0
}

func seedFromEnv() int {
	var s int
	fmt.Sscan(os.Getenv("VERIF_SEED"), &s)
	return s
}
