package main

// Mutation sets: which struct fields a function changes, counting stores to the field, updates/deletes of a map held
// in the field, stores into a slice held in the field, and mutations made through callees (including callees that
// update a map they receive as receiver/argument).

import (
	"sort"
	"strings"

	"golang.org/x/tools/go/ssa"
)

type mutSite struct {
	Ref fieldRef
	In  ssa.Instruction // the instruction in the analysed function (a call, for mutations inside callees)
}

// fieldOfValue: v is the value (or address) of a struct field; returns the field.
func fieldOfValue(v ssa.Value) (fieldRef, bool) {
	for {
		switch x := v.(type) {
		case *ssa.UnOp:
			v = x.X
			continue
		case *ssa.ChangeType:
			v = x.X
			continue
		case *ssa.Convert:
			v = x.X
			continue
		case *ssa.Slice:
			v = x.X
			continue
		case *ssa.FieldAddr:
			if _, fresh := x.X.(*ssa.Alloc); fresh {
				return fieldRef{}, false
			}
			return fieldRef{namedOf(x.X.Type()), fieldName(x.X.Type(), x.Field)}, true
		case *ssa.Field:
			return fieldRef{namedOf(x.X.Type()), fieldName(x.X.Type(), x.Field)}, true
		case *ssa.IndexAddr:
			v = x.X
			continue
		case *ssa.Lookup:
			v = x.X
			continue
		}
		return fieldRef{}, false
	}
}

// paramMutated: indices of parameters (receiver first) whose referent map/slice the function updates.
var paramMutCache = map[*ssa.Function]map[int]bool{}

func paramMutated(f *ssa.Function, depth int) map[int]bool {
	if m, ok := paramMutCache[f]; ok {
		return m
	}
	out := map[int]bool{}
	paramMutCache[f] = out
	if len(f.Blocks) == 0 {
		return out
	}
	idx := map[ssa.Value]int{}
	for i, p := range f.Params {
		idx[p] = i
	}
	root := func(v ssa.Value) (int, bool) {
		for {
			switch x := v.(type) {
			case *ssa.ChangeType:
				v = x.X
				continue
			case *ssa.Lookup:
				v = x.X
				continue
			case *ssa.Slice:
				v = x.X
				continue
			case *ssa.IndexAddr:
				v = x.X
				continue
			case *ssa.UnOp:
				if _, isParam := idx[x.X]; !isParam {
					// load through something else
					return 0, false
				}
				v = x.X
				continue
			}
			i, ok := idx[v]
			return i, ok
		}
	}
	for _, b := range f.Blocks {
		for _, in := range b.Instrs {
			switch x := in.(type) {
			case *ssa.MapUpdate:
				if i, ok := root(x.Map); ok {
					out[i] = true
				}
			case *ssa.Store:
				if ia, ok := x.Addr.(*ssa.IndexAddr); ok {
					if i, ok := root(ia.X); ok {
						out[i] = true
					}
				}
			}
			if cc := callCommon(in); cc != nil {
				if calleeNameNoPath(cc) == "delete" && len(cc.Args) == 2 {
					if i, ok := root(cc.Args[0]); ok {
						out[i] = true
					}
				}
				if callee := cc.StaticCallee(); callee != nil && depth > 0 && callee.Pkg != nil && strings.HasPrefix(callee.Pkg.Pkg.Path(), modPath) {
					pm := paramMutated(callee, depth-1)
					for j, a := range cc.Args {
						if pm[j] {
							if i, ok := root(a); ok {
								out[i] = true
							}
						}
					}
				}
			}
		}
	}
	return out
}

// directMutations: mutations made by the instructions of f itself (callees summarised only for map/slice parameters).
func directMutations(f *ssa.Function) []mutSite {
	var out []mutSite
	allInstrs(f, true, func(_ *ssa.Function, in ssa.Instruction) {
		switch x := in.(type) {
		case *ssa.Store:
			switch a := x.Addr.(type) {
			case *ssa.FieldAddr:
				if _, fresh := a.X.(*ssa.Alloc); fresh {
					return
				}
				out = append(out, mutSite{fieldRef{namedOf(a.X.Type()), fieldName(a.X.Type(), a.Field)}, in})
			case *ssa.IndexAddr:
				if r, ok := fieldOfValue(a.X); ok {
					out = append(out, mutSite{r, in})
				}
			}
		case *ssa.MapUpdate:
			if r, ok := fieldOfValue(x.Map); ok {
				out = append(out, mutSite{r, in})
			}
		}
		if cc := callCommon(in); cc != nil {
			if calleeNameNoPath(cc) == "delete" && len(cc.Args) == 2 {
				if r, ok := fieldOfValue(cc.Args[0]); ok {
					out = append(out, mutSite{r, in})
				}
			}
			if callee := cc.StaticCallee(); callee != nil && callee.Pkg != nil && strings.HasPrefix(callee.Pkg.Pkg.Path(), modPath) {
				pm := paramMutated(callee, 2)
				for j, a := range cc.Args {
					if pm[j] {
						if r, ok := fieldOfValue(a); ok {
							out = append(out, mutSite{r, in})
						}
					}
				}
			}
		}
	})
	return out
}

var mutCache = map[*ssa.Function]map[fieldRef]bool{}

// mutationSet: fields mutated by f or its static module callees up to depth.
func mutationSet(f *ssa.Function, depth int) map[fieldRef]bool {
	if depth >= 3 {
		if m, ok := mutCache[f]; ok {
			return m
		}
	}
	out := map[fieldRef]bool{}
	seen := map[*ssa.Function]bool{}
	var visit func(g *ssa.Function, d int)
	visit = func(g *ssa.Function, d int) {
		if g == nil || seen[g] || len(g.Blocks) == 0 {
			return
		}
		seen[g] = true
		for _, m := range directMutations(g) {
			out[m.Ref] = true
		}
		if d == 0 {
			return
		}
		allInstrs(g, true, func(_ *ssa.Function, in ssa.Instruction) {
			if cc := callCommon(in); cc != nil {
				if callee := cc.StaticCallee(); callee != nil && callee.Pkg != nil && strings.HasPrefix(callee.Pkg.Pkg.Path(), modPath) {
					visit(callee, d-1)
				}
			}
		})
	}
	visit(f, depth)
	if depth >= 3 {
		mutCache[f] = out
	}
	return out
}

func refList(m map[fieldRef]bool) []string {
	var s []string
	for r := range m {
		s = append(s, r.String())
	}
	sort.Strings(s)
	return s
}
