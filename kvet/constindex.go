package main

// Rule Z (constant index) — a slice that arrives as a parameter (or as a field of one) is indexed or sliced with a
// constant only behind a branch that establishes a sufficient length. Arrays are checked by the compiler and are
// not in scope.

import (
	"fmt"
	"go/constant"
	"go/types"
	"strings"

	"golang.org/x/tools/go/ssa"
)

func constIntVal(v ssa.Value) (int64, bool) {
	c, ok := v.(*ssa.Const)
	if !ok || c.Value == nil || c.Value.Kind() != constant.Int {
		return 0, false
	}
	return constant.Int64Val(c.Value)
}

func isSlice(t types.Type) bool {
	_, ok := t.Underlying().(*types.Slice)
	return ok
}

// fromInput: v is a parameter, or a load of a field path rooted at a parameter.
func fromInput(v ssa.Value) bool {
	p := pathOf(v)
	if strings.ContainsAny(p, "(:") {
		return false
	}
	root := p
	if i := strings.IndexAny(p, ".["); i >= 0 {
		root = p[:i]
	}
	fn := (ssa.Value)(v).Parent()
	if fn == nil {
		return false
	}
	for _, prm := range fn.Params {
		if prm.Name() == root {
			return true
		}
	}
	return false
}

// ConstIndexGuarded checks every function of the given packages (repo-relative) whose short name matches fnRe.
func (c *Ctx) ConstIndexGuarded(pkgs []string, fnRe string, exceptions map[string]string) {
	n := 0
	for _, f := range c.P.ModFuncs {
		r := rootFn(f)
		if r.Pkg == nil {
			continue
		}
		p := strings.TrimPrefix(r.Pkg.Pkg.Path(), modPath+"/")
		in := false
		for _, want := range pkgs {
			if p == want {
				in = true
			}
		}
		if !in || !re(fnRe).MatchString(fnName(f)) {
			continue
		}
		for _, b := range f.Blocks {
			for _, ins := range b.Instrs {
				var base ssa.Value
				var need int64 = -1
				what := ""
				switch x := ins.(type) {
				case *ssa.IndexAddr:
					if k, ok := constIntVal(x.Index); ok && isSlice(x.X.Type()) {
						base, need, what = x.X, k+1, fmt.Sprintf("[%d]", k)
					}
				case *ssa.Index:
					if k, ok := constIntVal(x.Index); ok && isSlice(x.X.Type()) {
						base, need, what = x.X, k+1, fmt.Sprintf("[%d]", k)
					}
				case *ssa.Slice:
					if isSlice(x.X.Type()) {
						var m int64 = -1
						for _, bnd := range []ssa.Value{x.Low, x.High, x.Max} {
							if bnd != nil {
								if k, ok := constIntVal(bnd); ok && k > m {
									m = k
								}
							}
						}
						if m > 0 {
							base, need, what = x.X, m, fmt.Sprintf("[..%d]", m)
						}
					}
				}
				if base == nil || need <= 0 || !fromInput(base) {
					continue
				}
				n++
				bp := pathOf(base)
				key := fnName(f) + "/" + bp + what + " behind a length test"
				if why, ok := exceptions[fnName(f)+"/"+bp]; ok {
					c.OK("Z", key, ins.Pos(), 1, "tabled exception: "+why)
					continue
				}
				// edges that establish len(base) >= need
				rm := map[edge]bool{}
				var seen []string
				for _, bb := range f.Blocks {
					iff, ok := bb.Instrs[len(bb.Instrs)-1].(*ssa.If)
					if !ok {
						continue
					}
					bo, ok := iff.Cond.(*ssa.BinOp)
					if !ok || !isCmp(bo.Op) {
						continue
					}
					op := bo.Op.String()
					var lenSide, other ssa.Value = bo.X, bo.Y
					isLen := func(v ssa.Value) bool {
						cl, ok := v.(*ssa.Call)
						if !ok {
							return false
						}
						bi, ok := cl.Call.Value.(*ssa.Builtin)
						return ok && bi.Name() == "len" && pathOf(cl.Call.Args[0]) == bp
					}
					if !isLen(lenSide) {
						if !isLen(other) {
							continue
						}
						lenSide, other = other, lenSide
						op = flipOp[op]
					}
					N, ok := constIntVal(other)
					if !ok {
						continue
					}
					ensures := func(op string) bool {
						switch op {
						case "==", ">=":
							return N >= need
						case ">":
							return N >= need-1
						}
						return false
					}
					if ensures(op) {
						rm[edge{bb, bb.Succs[0]}] = true
						seen = append(seen, fmt.Sprintf("len %s %d at %s", op, N, c.P.Pos(instrPos(iff))))
					}
					if ensures(negOp[op]) {
						rm[edge{bb, bb.Succs[1]}] = true
						seen = append(seen, fmt.Sprintf("!(len %s %d) at %s", op, N, c.P.Pos(instrPos(iff))))
					}
				}
				w := &Walker{P: c.P, Removed: rm}
				hit, found := w.Reach(f, f.Blocks[0], 0, func(x ssa.Instruction) bool { return x == ins })
				if found || len(rm) == 0 {
					c.Bad("Z", key, ins.Pos(), 1+len(rm), fmt.Sprintf("%s%s at %s needs len(%s) >= %d, but no branch establishing that dominates it (length tests seen: %s); a shorter slice from an untrusted source panics here; path %s",
						bp, what, c.P.Pos(ins.Pos()), bp, need, strings.Join(seen, ", "), c.P.pathStr(hit.Path)))
				} else {
					c.OK("Z", key, ins.Pos(), 1+len(rm), strings.Join(seen, ", "))
				}
			}
		}
	}
	c.Extra["const_index_sites_checked"] = n
}
