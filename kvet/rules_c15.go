package main

// C15 — the consensus WAL returns exactly what was written and detects every corruption.

import (
	"fmt"
	"go/constant"
	"regexp"
	"sort"
	"strings"

	"golang.org/x/tools/go/ssa"
)

func init() {
	register("C15", []string{"consensus/wal.go", "consensus/msgs.go", "consensus/replay.go", "consensus/state.go", "lib/autofile/group.go", "lib/autofile/autofile.go"}, runC15)
}

// walFieldRules: every field of the wire form of a WAL record is written by the encoder and read by the decoder (a peer id
// dropped from a logged message comes back empty on replay, and the per-peer catch-up budget of the vote sets then rejects
// what the live run accepted). Shared by C15 and C05.
func walFieldRules(c *Ctx) {
	enc, dec := c.Fn("consensus", "", "WALToProto"), c.Fn("consensus", "", "WALFromProto")
	if enc == nil || dec == nil {
		return
	}
	written := map[string]map[string]bool{}
	allInstrs(enc, false, func(_ *ssa.Function, in ssa.Instruction) {
		st, ok := in.(*ssa.Store)
		if !ok {
			return
		}
		if fa, ok := st.Addr.(*ssa.FieldAddr); ok {
			t := namedOf(fa.X.Type())
			if strings.HasPrefix(t, "proto/kardiachain/consensus.") {
				if written[t] == nil {
					written[t] = map[string]bool{}
				}
				written[t][fieldName(fa.X.Type(), fa.Field)] = true
			}
		}
	})
	reads := c.Effects(dec, 0).Reads
	n := 0
	for _, t := range []string{"proto/kardiachain/consensus.MsgInfo", "proto/kardiachain/consensus.TimeoutInfo", "proto/kardiachain/consensus.EndHeight"} {
		for _, f := range c.namedFields(t) {
			n++
			short := t[strings.LastIndex(t, ".")+1:]
			c.Check("S", "WAL record "+short+"/encoder consensus.WALToProto writes "+f, written[t][f], enc.Pos(), 1, "")
			c.Check("S", "WAL record "+short+"/decoder consensus.WALFromProto reads "+f, reads[fieldRef{t, f}], dec.Pos(), 1, "")
		}
	}
	c.Check("S", "WAL record fields enumerated", n >= 7, enc.Pos(), n, "")
}

func runC15(c *Ctx) {
	c.Decided = []string{
		"decoding allocates only behind the size limit, unmarshals only behind a matching CRC, and every non-EOF failure is a corruption error; a clean EOF is possible only at a frame boundary",
		"encoder and decoder agree on CRC table, byte order, field offsets and the size limit; the encoder refuses oversized messages",
		"WAL and message codecs cover the same message kinds both ways and every field of each kind",
		"the end-height search reports found only for an end marker of exactly that height, skips corrupted entries only when asked, and takes its older-files shortcut only for a positive lower height (never for the bootstrap marker 0)",
		"repair copies decoded messages until the first error; replay ends normally only on EOF and returns every other decode error, so a corrupted tail reaches the repair path",
		"the group reader moves to the next file only on EOF of the current one, in increasing index order; rotation flushes, syncs, closes, then renames; every lock in the file layer is released on every path",
	}
	c.NotDec = []string{"that every bit flip is detected (CRC strength)", "exact reader position after a search", "races between rotation and concurrent readers"}
	c.Floors["G"] = 18
	c.Floors["S"] = 20
	c15Round3(c)

	maxSz := c.P.Const("consensus", "maxMsgSizeBytes")
	walDecodeRules(c)
	// ---- Encode / framing agreement ----------------------------------------------------------------------
	enc := c.Fn("consensus", "WALEncoder", "Encode")
	dec := c.P.Func("consensus", "WALDecoder", "Decode")
	if enc != nil {
		c.Guarded(enc, "write the frame", CallTo(`^iface:\(io\.Writer\)\.Write$`, ""), G("len(data) <= maxMsgSizeBytes", Cmp(`^call:len\(`, "<=", `^const:`+maxSz+`$`)))
		puts := findInstrs(enc, CallTo(`^\(encoding/binary\.bigEndian\)\.PutUint32$`, ""))
		var layout []string
		for _, p := range puts {
			a := argPaths(callCommon(p))
			if len(a) == 3 {
				layout = append(layout, a[1][strings.LastIndex(a[1], "[")+1:len(a[1])-1]+"="+map[bool]string{true: "crc", false: "len"}[strings.Contains(a[2], "crc32.Checksum")])
			}
		}
		sort.Strings(layout)
		c.Check("S", fnName(enc)+"/frame layout is crc at [0:4], length at [4:8], big endian", strings.Join(layout, ",") == "const:0:const:4=crc,const:4:const:8=len", enc.Pos(), len(puts), strings.Join(layout, ","))
		nc := len(findInstrs(enc, CallTo(`^hash/crc32\.Checksum$`, `global:consensus\.crc32c\)$`)))
		c.Check("S", fnName(enc)+"/CRC over the payload with the crc32c table", nc == 1, enc.Pos(), nc, "")
	}
	if dec != nil {
		// decoder reads crc first, then length, both big endian uint32
		var order []string
		allInstrs(dec, false, func(_ *ssa.Function, in ssa.Instruction) {
			if cc := callCommon(in); cc != nil && calleeNameNoPath(cc) == "(encoding/binary.bigEndian).Uint32" {
				order = append(order, "u32")
			}
			if cc := callCommon(in); cc != nil && calleeNameNoPath(cc) == "hash/crc32.Checksum" {
				order = append(order, "crc:"+map[bool]string{true: "crc32c", false: "?"}[strings.HasSuffix(callPath(cc), "global:consensus.crc32c)")])
			}
		})
		c.Check("S", fnName(dec)+"/reads two big-endian uint32 then checks crc32c", strings.Join(order, ",") == "u32,u32,crc:crc32c", dec.Pos(), len(order), strings.Join(order, ","))
		// the first u32 is compared with the checksum, the second bounds the allocation
		n4 := len(findInstrs(dec, CallTo(`^\(encoding/binary\.bigEndian\)\.Uint32$`, `makeslice\[:const:4\]\)$`)))
		c.Check("S", fnName(dec)+"/header fields are 4 bytes each", n4 == 2, dec.Pos(), n4, "")
	}
	// ---- message codecs: same kinds both ways ---------------------------------------------------------------
	c.kindsAgree("WAL message", "consensus.WALToProto", "consensus.WALFromProto", 4)
	c.kindsAgree("consensus message", "consensus.MsgToProto", "consensus.MsgFromProto", 9)
	walFieldRules(c)
	if fn := c.Fn("consensus", "", "WALFromProto"); fn != nil {
		c.Guarded(fn, "return a message", func(in ssa.Instruction) bool {
			r, ok := in.(*ssa.Return)
			return ok && pathOf(r.Results[0]) != "nil"
		}, G("msg != nil", NotNil(`^msg$`)))
	}
	// ---- SearchForEndHeight -------------------------------------------------------------------------------
	searchRules(c)
	// ---- repair / replay -------------------------------------------------------------------------------------
	replayRules(c)
	// ---- group reader / rotation ----------------------------------------------------------------------------
	if fn := c.Fn("lib/autofile", "GroupReader", "Read"); fn != nil {
		c.Guarded(fn, "open the next file", CallTo(`^\(\*lib/autofile\.GroupReader\)\.openFile$`, ""), G("current file returned EOF (or no file is open yet)", Cmp(`(#1|^err)$`, "==", `^global:io\.EOF$`), IsNil(`^gr\.curReader$`)))
		for _, in := range findInstrs(fn, CallTo(`^\(\*lib/autofile\.GroupReader\)\.openFile$`, "")) {
			a := argPaths(callCommon(in))
			c.Check("F", fnName(fn)+"/next file is curIndex+1 (or the current index when nothing is open)", len(a) == 2 && (a[1] == "(gr.curIndex + const:1)" || a[1] == "gr.curIndex"), instrPos(in), 1, describeInstr(in))
		}
	}
	// ---- Decode reads with plain Read and ignores the count: it is only correct on readers that fill the buffer or fail.
	// The group reader loops until the buffer is full (rule above), a regular file and an in-memory reader return short
	// only at the end; a buffered or network reader returns short at every buffer boundary and Decode would take the
	// unfilled tail for data (checksum mismatch on a sound record: repair then cuts the log there).
	nDec := 0
	for _, s := range c.CallSites(`^consensus\.NewWALDecoder$`) {
		cc := callCommon(s.Instr)
		if cc == nil || len(cc.Args) != 1 || strings.HasSuffix(c.P.Pos(instrPos(s.Instr)), "_test.go") {
			continue
		}
		nDec++
		typ := "unknown (not a conversion of a concrete reader at the call site)"
		if mi, ok := cc.Args[0].(*ssa.MakeInterface); ok {
			typ = short(mi.X.Type().String())
		}
		ok := typ == "*lib/autofile.GroupReader" || typ == "*os.File" || typ == "*bytes.Reader"
		c.Check("W", fnName(rootFn(s.Caller))+"/the WAL decoder built here reads from a reader that fills the buffer", ok, instrPos(s.Instr), 1, "reader type "+typ)
	}
	c.Check("W", "consensus.NewWALDecoder/decoder construction sites enumerated", nDec >= 2, c.fnPos("consensus.NewWALDecoder"), nDec, "")
	// ---- rolled files: the name the writer gives a rolled file is a name the reader's pattern recognises, with the whole
	// index captured (the format pads to three digits and grows beyond; a pattern that stops at three loses every file
	// from index 1000 on when the group is re-opened)
	if fn := c.Fn("lib/autofile", "", "filePathForIndex"); fn != nil {
		format := ""
		for _, in := range findInstrs(fn, CallTo(`^fmt\.Sprintf$`, "")) {
			if k, ok := callCommon(in).Args[0].(*ssa.Const); ok && k.Value != nil && k.Value.Kind() == constant.String {
				format = constant.StringVal(k.Value)
			}
		}
		var pats []string
		for _, f := range c.P.ModFuncs {
			if f.Pkg == nil || strings.TrimPrefix(f.Pkg.Pkg.Path(), modPath+"/") != "lib/autofile" {
				continue
			}
			allInstrs(f, false, func(_ *ssa.Function, in ssa.Instruction) {
				if cc := callCommon(in); cc != nil && calleeNameNoPath(cc) == "regexp.MustCompile" && len(cc.Args) == 1 {
					if k, ok := cc.Args[0].(*ssa.Const); ok && k.Value != nil && k.Value.Kind() == constant.String {
						pats = append(pats, constant.StringVal(k.Value))
					}
				}
			})
		}
		ok := len(pats) == 1 && strings.Contains(format, "%03d") && strings.HasPrefix(format, "%v.")
		why := fmt.Sprintf("format %q, patterns %q", format, pats)
		if ok {
			rx, err := regexp.Compile(pats[0])
			if err != nil {
				ok, why = false, why+": "+err.Error()
			} else {
				for _, idx := range []int{0, 7, 999, 1000, 1001, 12345, 1234567} {
					name := fmt.Sprintf(strings.Replace(format, "%v", "%s", 1), "wal", idx)
					m := rx.FindStringSubmatch(name)
					if len(m) != 2 || m[1] != name[len("wal."):] {
						ok, why = false, why+fmt.Sprintf(": the name %q written for index %d is not recognised with its whole index (%q)", name, idx, m)
						break
					}
				}
				if ok && (rx.MatchString("wal") || rx.MatchString("wal.12") || rx.MatchString("wal.bak")) {
					ok, why = false, why+": the pattern also accepts names the writer never produces for rolled files"
				}
			}
		}
		c.Check("T", "lib/autofile/rolled-file names: every name filePathForIndex writes is recognised by the reader's pattern with its whole index", ok, fn.Pos(), len(pats)+1, why)
	}
	if fn := c.Fn("lib/autofile", "Group", "RotateFile"); fn != nil {
		flush := CallTo(`^\(\*bufio\.Writer\)\.Flush$`, "")
		sync := CallTo(`^\(\*lib/autofile\.AutoFile\)\.Sync$`, "")
		cl := CallTo(`^\(\*lib/autofile\.AutoFile\)\.(closeFile|Close)$`, "")
		rn := CallTo(`^os\.Rename$`, "")
		c.Precedes(fn, "headBuf.Flush()", flush, "Head.Sync()", sync)
		c.Precedes(fn, "Head.Sync()", sync, "close the head file", cl)
		c.Precedes(fn, "close the head file", cl, "os.Rename", rn)
		c.Guarded(fn, "os.Rename", rn, G("Flush == nil", IsNil(`^call:\(\*bufio\.Writer\)\.Flush\(`)), G("Sync == nil", IsNil(`^call:\(\*lib/autofile\.AutoFile\)\.Sync\(`)))
		for _, in := range findInstrs(fn, rn) {
			a := argPaths(callCommon(in))
			c.Check("F", fnName(fn)+"/head is renamed to the next index", len(a) == 2 && a[0] == "g.Head.Path" && strings.Contains(a[1], "g.maxIndex"), instrPos(in), 1, describeInstr(in))
		}
		n := len(findInstrs(fn, StoreTo(`^&g\.maxIndex$`)))
		c.Check("O", fnName(fn)+"/maxIndex advances", n == 1, fn.Pos(), n, "")
	}
	c.LockPairing([]string{"lib/autofile", "consensus"}, map[string]string{})
	c.Floors["L1"] = 20
	// fsync chain (shared with C05)
	if fn := c.Fn("lib/autofile", "Group", "FlushAndSync"); fn != nil {
		c.Precedes(fn, "headBuf.Flush()", CallTo(`^\(\*bufio\.Writer\)\.Flush$`, ""), "Head.Sync()", CallTo(`^\(\*lib/autofile\.AutoFile\)\.Sync$`, ""))
	}
}

// kindsAgree: encoder's type switch and decoder's oneof switch handle the same number of kinds; every message struct
// built by the decoder has all its fields assigned.
func (c *Ctx) kindsAgree(label, encName, decName string, min int) {
	enc := c.P.FuncByName(encName)
	dec := c.P.FuncByName(decName)
	if enc == nil || dec == nil {
		c.Unres("S", label+" codecs", "functions not found")
		return
	}
	c.Funcs[encName], c.Funcs[decName] = true, true
	encKinds := map[string]bool{}
	allInstrs(enc, false, func(_ *ssa.Function, in ssa.Instruction) {
		if ta, ok := in.(*ssa.TypeAssert); ok && ta.CommaOk {
			encKinds[typeStr(ta.AssertedType)] = true
		}
	})
	decKinds := map[string]bool{}
	built := map[string]map[string]bool{}
	allInstrs(dec, false, func(_ *ssa.Function, in ssa.Instruction) {
		if ta, ok := in.(*ssa.TypeAssert); ok && ta.CommaOk {
			decKinds[typeStr(ta.AssertedType)] = true
		}
		if st, ok := in.(*ssa.Store); ok {
			if fa, ok := st.Addr.(*ssa.FieldAddr); ok {
				if a, ok := fa.X.(*ssa.Alloc); ok && a.Comment == "complit" {
					t := namedOf(a.Type())
					if strings.HasPrefix(t, "consensus.") {
						if built[t] == nil {
							built[t] = map[string]bool{}
						}
						built[t][fieldName(fa.X.Type(), fa.Field)] = true
					}
				}
			}
		}
	})
	c.Check("S", label+"/encoder and decoder handle the same number of kinds", len(encKinds) == len(decKinds) && len(encKinds) >= min, enc.Pos(), len(encKinds)+len(decKinds),
		fmt.Sprintf("encoder kinds=%d decoder kinds=%d (expected at least %d each): a kind handled on one side only is lost or rejected on the other", len(encKinds), len(decKinds), min))
	// every domain kind the encoder accepts is built by the decoder
	var ks []string
	for k := range encKinds {
		ks = append(ks, k)
	}
	sort.Strings(ks)
	for _, k := range ks {
		t := strings.TrimPrefix(k, "*")
		if !strings.HasPrefix(t, "consensus.") {
			continue
		}
		flds := c.namedFields(t)
		if len(flds) == 0 {
			continue
		}
		b := built[t]
		if b == nil {
			// built through a helper / returned directly (e.g. msgInfo): accept if the type is mentioned by the decoder at all
			mentioned := false
			allInstrs(dec, false, func(_ *ssa.Function, in ssa.Instruction) {
				if v, ok := in.(ssa.Value); ok && strings.Contains(typeStr(v.Type()), t) {
					mentioned = true
				}
			})
			c.Check("S", label+"/decoder rebuilds "+t, mentioned, dec.Pos(), 1, "kind "+t+" is encoded but never rebuilt by the decoder")
			continue
		}
		for _, f := range flds {
			c.Check("S", label+"/decoder restores "+t+"."+f, b[f], dec.Pos(), 1, "field "+f+" of "+t+" is not assigned by the decoder: the message read back differs from the one written")
		}
	}
}

// searchRules: BaseWAL.SearchForEndHeight (shared by C05 and C15).
func searchRules(c *Ctx) {
	// a reopened group knows its rotated files again: the search walks from the group's min to max index, which are
	// restored from the directory when the group is opened (else a restarted node searches the head file only)
	if og := c.Fn("lib/autofile", "", "OpenGroup"); og != nil {
		for _, f := range []string{"minIndex", "maxIndex"} {
			n := 0
			for _, in := range findInstrs(og, StoreTo(`lib/autofile\.Group\.`+f+`$|^&g\.`+f+`$`)) {
				if strings.Contains(pathOf(in.(*ssa.Store).Val), ".readGroupInfo(") {
					n++
				}
			}
			c.Check("F", fnName(og)+"/"+f+" is restored from the files found in the directory", n == 1, og.Pos(), n, "")
		}
	}
	fn := c.Fn("consensus", "BaseWAL", "SearchForEndHeight")
	if fn == nil {
		return
	}
	end := `call:\(\*consensus\.WALDecoder\)\.Decode\(.*\)#0\.Msg\.\(consensus\.EndHeightMessage\)`
	c.Guarded(fn, "return found = true", func(in ssa.Instruction) bool {
		st, ok := in.(*ssa.Store)
		if ok && pathOf(st.Val) == "const:true" && strings.HasPrefix(pathOf(st.Addr), "&found") {
			return true
		}
		r, isRet := in.(*ssa.Return)
		return isRet && len(r.Results) == 3 && pathOf(r.Results[1]) == "const:true"
	},
		G("message is an EndHeightMessage", True(`^`+end+`#1$`)),
		G("its height equals the wanted height", Cmp(`^`+end+`#0\.Height$`, "==", `^height$`)),
		G("decode error == nil (or a skipped corruption)", IsNil(`^call:\(\*consensus\.WALDecoder\)\.Decode\(.*\)#1$`)))
	// corrupted entries are skipped only when asked
	c.Guarded(fn, "skip a corrupted entry", func(in ssa.Instruction) bool {
		cc := callCommon(in)
		return cc != nil && strings.Contains(calleeNameNoPath(cc), "Logger).Error") && strings.Contains(callPath(cc), "Corrupted entry")
	}, G("options.IgnoreDataCorruptionErrors", True(`^options\.IgnoreDataCorruptionErrors$`)), G("IsDataCorruptionError(err)", True(`^call:consensus\.IsDataCorruptionError\(`)))
	// the shortcut that stops looking at older files
	last := `^phi\(.*\)$|lastHeightFound`
	isShortcut := func(in ssa.Instruction) bool {
		r, ok := in.(*ssa.Return)
		if !ok || len(r.Results) != 3 {
			// results may be spilled (named results): detect the `found=false, err=nil` store pattern instead
			return false
		}
		return pathOf(r.Results[1]) == "const:false" && pathOf(r.Results[2]) == "nil" && in.Block().Comment == "if.then"
	}
	_ = isShortcut
	g1 := G("lastHeightFound > 0 (never for the bootstrap #ENDHEIGHT 0)", Cmp(last, ">", `^const:0$`))
	g2 := G("lastHeightFound < height", Cmp(last, "<", `^height$`))
	s1, s2 := c.P.guardEdges(fn, g1), c.P.guardEdges(fn, g2)
	c.Check("G", fnName(fn)+"/older-files shortcut requires a positive last height", len(s1) == 1, fn.Pos(), len(s1),
		"the search may stop looking at older files only after it saw an end marker of a POSITIVE lower height; OnStart writes #ENDHEIGHT 0 into every empty head file, so a test that admits 0 makes the search give up right after a rotation and the unfinished height is never replayed")
	c.Check("G", fnName(fn)+"/older-files shortcut requires a lower last height", len(s2) == 1, fn.Pos(), len(s2), "")
	if len(s1) == 1 && len(s2) == 1 {
		// the second test is only reached through the first
		rm := map[edge]bool{s1[0].Pass: true}
		w := &Walker{P: c.P, Removed: rm}
		_, found := w.Reach(fn, fn.Blocks[0], 0, func(in ssa.Instruction) bool { return in == s2[0].If })
		c.Check("G", fnName(fn)+"/both shortcut tests are conjoined", !found, instrPos(s2[0].If), 2, "")
		// and the shortcut is only taken at EOF of a file
		rm2 := map[edge]bool{}
		for _, s := range c.P.guardEdges(fn, G("", Cmp(`Decode\(.*\)#1$`, "==", `^global:io\.EOF$`))) {
			rm2[s.Pass] = true
		}
		w2 := &Walker{P: c.P, Removed: rm2}
		_, found2 := w2.Reach(fn, fn.Blocks[0], 0, func(in ssa.Instruction) bool { return in == s1[0].If })
		c.Check("G", fnName(fn)+"/shortcut is evaluated only at the end of a file", len(rm2) > 0 && !found2, instrPos(s1[0].If), 2, "")
	}
	// files are searched from the newest to the oldest
	okDir := false
	allInstrs(fn, false, func(_ *ssa.Function, in ssa.Instruction) {
		if bo, ok := in.(*ssa.BinOp); ok && bo.Op.String() == "-" && isConstInt(bo.Y, 1) && strings.HasPrefix(pathOf(bo.X), "phi(") && strings.Contains(pathOf(bo.X), "MaxIndex") {
			okDir = true
		}
	})
	c.Check("F", fnName(fn)+"/searches from the newest file backwards", okDir, fn.Pos(), 1, "")
}

// replayRules: catch-up replay and repair (shared by C05 and C15).
func replayRules(c *Ctx) {
	if fn := c.Fn("consensus", "ConsensusState", "catchupReplay"); fn != nil {
		decErr := `call:\(\*consensus\.WALDecoder\)\.Decode\(.*\)#1`
		c.Guarded(fn, "finish the replay normally (return nil)", SuccessReturn(0, ""), G("decoder reached io.EOF", Cmp(`^`+decErr+`$`, "==", `^global:io\.EOF$`)))
		// every other decode error is returned
		g := G("decode error is nil or EOF", IsNil(`^`+decErr+`$`), Cmp(`^`+decErr+`$`, "==", `^global:io\.EOF$`))
		c.OnFailureTo(fn, g, "return the decode error", func(in ssa.Instruction) bool {
			r, ok := in.(*ssa.Return)
			if ok && len(r.Results) == 1 && pathOf(r.Results[0]) != "nil" {
				return true
			}
			st, isSt := in.(*ssa.Store)
			return isSt && pathOf(st.Val) != "nil" && SuccessReturn(0, `.`)(in)
		}, Or(CallTo(csT+`\.readReplayMessage$`, ""), SuccessReturn(0, "")))
	}
	if fn := c.Fn("consensus", "ConsensusState", "OnStart"); fn != nil {
		rep := CallTo(`^consensus\.repairWalFile$`, "")
		c.Guarded(fn, "repairWalFile", rep, G("catchupReplay failed with a data-corruption error", True(`^call:consensus\.IsDataCorruptionError\(call:`+csT+`\.catchupReplay\(`)), G("no repair attempted yet", False(`^phi\(.*\)$|repairAttempted`)))
		n := len(findInstrs(fn, rep))
		c.Check("O", fnName(fn)+"/a corrupted WAL is repaired once and the replay retried", n == 1, fn.Pos(), n, "")
		c.Precedes(fn, "back up the corrupted file", CallTo(`^lib/os\.CopyFile$`, ""), "repairWalFile", rep)
	}
	if fn := c.Fn("consensus", "", "repairWalFile"); fn != nil {
		encode := CallTo(`^\(\*consensus\.WALEncoder\)\.Encode$`, "")
		c.Guarded(fn, "copy a message (Encode)", encode, G("Decode error == nil", IsNil(`^call:\(\*consensus\.WALDecoder\)\.Decode\(.*\)#1$`)))
		for _, in := range findInstrs(fn, encode) {
			a := argPaths(callCommon(in))
			c.Check("F", fnName(fn)+"/re-encodes exactly the decoded message", len(a) == 2 && re(`^call:\(\*consensus\.WALDecoder\)\.Decode\(.*\)#0$`).MatchString(a[1]), instrPos(in), 1, describeInstr(in))
		}
		// the destination starts empty: os.Create, or OpenFile with O_TRUNC (the repair rewrites the file in place)
		trunc := len(findInstrs(fn, CallTo(`^os\.Create$`, `^os\.Create\(dst\)$`))) == 1
		for _, in := range findInstrs(fn, CallTo(`^os\.OpenFile$`, `^os\.OpenFile\(dst, `)) {
			if k, ok := constIntVal(callCommon(in).Args[1]); ok && k&0x200 != 0 { // O_TRUNC on linux
				trunc = true
			}
		}
		c.Check("F", fnName(fn)+"/the repaired file is truncated before the valid prefix is written", trunc, fn.Pos(), 1,
			"repairWalFile must create/truncate dst: OnStart repairs the WAL in place, so without truncation the corrupted tail survives behind the copied prefix")
		// after a decode error nothing more is decoded or copied (the repaired file is the longest valid prefix)
		g := G("Decode error == nil", IsNil(`^call:\(\*consensus\.WALDecoder\)\.Decode\(.*\)#1$`))
		rm := map[edge]bool{}
		for _, s := range c.P.guardEdges(fn, g) {
			rm[s.Pass] = true
		}
		decode := CallTo(`^\(\*consensus\.WALDecoder\)\.Decode$`, "")
		bad := ""
		for _, d := range findInstrs(fn, decode) {
			w := &Walker{P: c.P, Removed: rm}
			if hit, found := w.Reach(fn, d.Block(), instrIndex(d)+1, Or(encode, decode)); found {
				bad = describeInstr(hit.Instr) + " at " + c.P.Pos(instrPos(hit.Instr)) + " is reachable after a failed Decode"
			}
		}
		c.Check("O", fnName(fn)+"/repair stops at the first decode error", bad == "" && len(rm) > 0, fn.Pos(), len(rm)+1, bad)
	}
}

// walDecodeRules: what the frame decoder accepts and how it reports damage. Shared by C15 and C05 (a torn tail must
// surface as corruption so that start-up repairs the file before anything new is appended).
func walDecodeRules(c *Ctx) {
	maxSz := c.P.Const("consensus", "maxMsgSizeBytes")
	// ---- Decode ---------------------------------------------------------------------------------------
	if fn := c.Fn("consensus", "WALDecoder", "Decode"); fn != nil {
		length := `call:\(encoding/binary\.bigEndian\)\.Uint32\(.*\)`
		isDataMake := func(in ssa.Instruction) bool {
			m, ok := in.(*ssa.MakeSlice)
			return ok && !strings.HasPrefix(pathOf(m.Len), "const:")
		}
		c.Guarded(fn, "make([]byte, length)", isDataMake, G("length <= maxMsgSizeBytes", Cmp(`^`+length+`$`, "<=", `^const:`+maxSz+`$`)))
		c.Guarded(fn, "proto.Unmarshal / WALFromProto", Or(CallTo(`^github\.com/gogo/protobuf/proto\.Unmarshal$`, ""), CallTo(`^consensus\.WALFromProto$`, "")),
			G("crc32.Checksum(data, crc32c) == crc read from the frame", Cmp(`^call:hash/crc32\.Checksum\(.*, global:consensus\.crc32c\)$`, "==", `^`+length+`$`)),
			G("data read error == nil", IsNil(`^call:iface:\(io\.Reader\)\.Read\(dec\.rd, .*\)#1$`)))
		c.Guarded(fn, "return a message", func(in ssa.Instruction) bool {
			r, ok := in.(*ssa.Return)
			return ok && pathOf(r.Results[0]) != "nil"
		}, G("proto.Unmarshal == nil", IsNil(`^call:github\.com/gogo/protobuf/proto\.Unmarshal\(`)), G("WALFromProto error == nil", IsNil(`^call:consensus\.WALFromProto\(.*\)#1$`)))
		// each of the three reads (crc, length, data) has its own error test before a message can be returned
		nReads := 0
		allInstrs(fn, false, func(_ *ssa.Function, in ssa.Instruction) {
			cl, ok := in.(*ssa.Call)
			if !ok || calleeNameNoPath(&cl.Call) != "iface:(io.Reader).Read" {
				return
			}
			nReads++
			tested := false
			for _, b := range fn.Blocks {
				iff, ok := b.Instrs[len(b.Instrs)-1].(*ssa.If)
				if !ok {
					continue
				}
				bo, ok := iff.Cond.(*ssa.BinOp)
				if !ok {
					continue
				}
				ex, ok := bo.X.(*ssa.Extract)
				if !ok || ex.Tuple != ssa.Value(cl) || ex.Index != 1 {
					continue
				}
				// the message-returning exit must not be reachable through the error edge
				errEdge := edge{b, b.Succs[0]}
				if bo.Op.String() == "==" {
					errEdge = edge{b, b.Succs[1]}
				}
				rm := map[edge]bool{}
				for _, s2 := range b.Succs {
					if (edge{b, s2}) != errEdge {
						rm[edge{b, s2}] = true
					}
				}
				w := &Walker{P: c.P, Removed: rm}
				_, found := w.Reach(fn, b, len(b.Instrs)-1, func(x ssa.Instruction) bool {
					r, ok := x.(*ssa.Return)
					return ok && pathOf(r.Results[0]) != "nil"
				})
				if !found {
					tested = true
				}
			}
			c.Check("G", fmt.Sprintf("%s/read #%d (%s) is followed by its own error test before a message can be returned", fnName(fn), nReads, clip(pathOf(cl.Call.Args[0]), 40)), tested, cl.Pos(), 1, "")
		})
		c.Check("G", fnName(fn)+"/three reads per frame (crc, length, data)", nReads == 3, fn.Pos(), nReads, "")
		// failures: EOF only from the first read; everything else DataCorruptionError
		nEOF, nCorrupt, nOther := 0, 0, 0
		for _, in := range findInstrs(fn, AnyReturn()) {
			r := in.(*ssa.Return)
			if pathOf(r.Results[0]) != "nil" {
				continue
			}
			e := pathOf(r.Results[1])
			switch {
			case strings.Contains(e, "consensus.DataCorruptionError"):
				nCorrupt++
			case strings.HasPrefix(e, "call:iface:(io.Reader).Read(dec.rd,"):
				nEOF++
			default:
				nOther++
			}
		}
		c.Check("S", fnName(fn)+"/every failure but the first read's EOF is a DataCorruptionError", nEOF == 1 && nOther == 0 && nCorrupt >= 6, fn.Pos(), nEOF+nCorrupt+nOther, fmt.Sprintf("eof-returns=%d corruption-returns=%d other=%d", nEOF, nCorrupt, nOther))
		c.Guarded(fn, "return the raw read error (clean end of log)", func(in ssa.Instruction) bool {
			r, ok := in.(*ssa.Return)
			return ok && strings.HasPrefix(pathOf(r.Results[1]), "call:iface:(io.Reader).Read(dec.rd,")
		}, G("errors.Is(err, io.EOF)", True(`^call:errors\.Is\(call:iface:\(io\.Reader\)\.Read\(dec\.rd, .*\)#1, global:io\.EOF\)$`)))
	}
}
