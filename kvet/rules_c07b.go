package main

// C07 (continued) — shape rules, node codec, key encoding, proofs.

import (
	"fmt"
	"go/types"
	"strings"

	"golang.org/x/tools/go/ssa"
)

// nodeLits: the node composite literals of fn with the paths of the values stored into their fields.
type nodeLit struct {
	a      *ssa.Alloc
	typ    string
	fields map[string]string
}

func nodeLits(fn *ssa.Function) []nodeLit {
	var out []nodeLit
	allInstrs(fn, false, func(_ *ssa.Function, in ssa.Instruction) {
		a, ok := in.(*ssa.Alloc)
		if !ok || !a.Heap {
			return
		}
		t := namedOf(a.Type())
		if t != "trie.shortNode" && t != "trie.fullNode" {
			return
		}
		l := nodeLit{a, t[5:], map[string]string{}}
		for _, r := range *a.Referrers() {
			if fa, isFA := r.(*ssa.FieldAddr); isFA {
				for _, r2 := range *fa.Referrers() {
					if st, isSt := r2.(*ssa.Store); isSt && st.Addr == fa {
						l.fields[fieldName(fa.X.Type(), fa.Field)] = pathOf(st.Val)
					}
				}
			}
		}
		out = append(out, l)
	})
	return out
}

func c07Shape(c *Ctx) {
	sn := `n.(*trie.shortNode)#0`
	ml := `call:trie.prefixLen(key, ` + sn + `.Key)`
	if fn := c.Fn("trie", "Trie", "insert"); fn != nil {
		found := map[string]bool{}
		for _, l := range nodeLits(fn) {
			dc := domConds(l.a)
			switch {
			case l.typ == "shortNode" && l.fields["Key"] == sn+".Key":
				found["keep"] = true
				c.Check("G", fnName(fn)+"/the short node is kept (same key, new child) only when its whole key matches and the child changed",
					hasCond(dc, `^\(`+regexpQuote(ml)+` == call:len\(`+regexpQuote(sn)+`\.Key\)\)=T$`) && hasCond(dc, `#0=T$`) && hasCond(dc, `#2 != nil\)=F$`) && strings.HasPrefix(l.fields["Val"], "call:(*trie.Trie).insert(t, "+sn+".Val, "),
					l.a.Pos(), 1, strings.Join(dc, " ; "))
			case l.typ == "shortNode" && l.fields["Val"] == "&alloc:complit:trie.fullNode":
				found["ext"] = true
				c.Check("G", fnName(fn)+"/an extension above the new branch is created only for a non-empty common prefix, with exactly that prefix as key",
					hasCond(dc, `^\(`+regexpQuote(ml)+` == const:0\)=F$`) && l.fields["Key"] == "key[:"+ml+"]", l.a.Pos(), 1, l.fields["Key"]+" under "+strings.Join(dc, " ; "))
			case l.typ == "shortNode" && l.fields["Key"] == "key" && l.fields["Val"] == "value":
				found["leaf"] = true
				c.Check("G", fnName(fn)+"/a leaf with the remaining key is created only in an empty slot", hasCond(dc, `^\(n == nil\)=T$`), l.a.Pos(), 1, strings.Join(dc, " ; "))
			case l.typ == "fullNode":
				found["branch"] = true
				c.Check("G", fnName(fn)+"/a branch is created only where the key leaves the short node's key", hasCond(dc, `^\(`+regexpQuote(ml)+` == call:len\(`+regexpQuote(sn)+`\.Key\)\)=F$`), l.a.Pos(), 1, strings.Join(dc, " ; "))
			}
		}
		c.Check("G", fnName(fn)+"/the four node constructions are present", len(found) == 4, fn.Pos(), len(found), fmt.Sprint(found))
		// the two arms of the new branch
		arms := 0
		allInstrs(fn, false, func(_ *ssa.Function, in ssa.Instruction) {
			st, ok := in.(*ssa.Store)
			if !ok {
				return
			}
			a, v := pathOf(st.Addr), pathOf(st.Val)
			if a == "&alloc:complit:trie.fullNode.Children["+sn+".Key["+ml+"]]" && strings.HasPrefix(v, "call:(*trie.Trie).insert(t, nil, ") && strings.Contains(v, sn+".Key[("+ml+" + const:1):], "+sn+".Val)#1") {
				arms++
			}
			if a == "&alloc:complit:trie.fullNode.Children[key["+ml+"]]" && strings.HasPrefix(v, "call:(*trie.Trie).insert(t, nil, ") && strings.Contains(v, "key[("+ml+" + const:1):], value)#1") {
				arms++
			}
		})
		c.Check("F", fnName(fn)+"/the branch holds the old remainder under the old nibble and the new remainder under the new nibble", arms == 2, fn.Pos(), arms, "")
		c.Guarded(fn, "return the branch in place of the short node", ReturnWith(1, `^&alloc:complit:trie\.fullNode$`), G("no common prefix", Cmp("^"+regexpQuote(ml)+"$", "==", `^const:0$`)))
		// branch case: child replaced at key[0]
		n := 0
		allInstrs(fn, false, func(_ *ssa.Function, in ssa.Instruction) {
			if st, ok := in.(*ssa.Store); ok && pathOf(st.Addr) == "&call:(*trie.fullNode).copy(n.(*trie.fullNode)#0).Children[key[const:0]]" && strings.HasPrefix(pathOf(st.Val), "call:(*trie.Trie).insert(t, n.(*trie.fullNode)#0.Children[key[const:0]], ") && strings.HasSuffix(pathOf(st.Val), "key[const:1:], value)#1") {
				n++
			}
		})
		c.Check("F", fnName(fn)+"/a branch gets the updated child in the slot of the key's first nibble", n == 1, fn.Pos(), n, "")
		c.Guarded(fn, "replace a value", ReturnWith(1, `^value$`), G("key consumed, or empty slot", Cmp(`^call:len\(key\)$`, "==", `^const:0$`)))
	}
	if fn := c.Fn("trie", "Trie", "delete"); fn != nil {
		child := `call:(*trie.Trie).delete(t, ` + sn + `.Val, `
		found := map[string]bool{}
		for _, l := range nodeLits(fn) {
			dc := domConds(l.a)
			switch {
			case strings.HasPrefix(l.fields["Key"], "call:trie.concat("+sn+".Key, "):
				found["merge"] = true
				c.Check("G", fnName(fn)+"/a short-node child is merged into its parent (keys concatenated into a new slice, grandchild adopted)",
					hasCond(dc, `\.\(\*trie\.shortNode\)#1=T$`) && strings.Contains(l.fields["Key"], ".(*trie.shortNode)#0.Key") && strings.HasSuffix(l.fields["Val"], ".(*trie.shortNode)#0.Val"), l.a.Pos(), 1, clip(l.fields["Key"], 160))
			case l.fields["Key"] == sn+".Key":
				found["keep"] = true
				c.Check("G", fnName(fn)+"/the short node keeps a changed child only if that child is not itself a short node",
					hasCond(dc, `#1\.\(\*trie\.shortNode\)#1=F$`) && strings.HasPrefix(l.fields["Val"], child) && strings.HasSuffix(l.fields["Val"], "#1"), l.a.Pos(), 1, strings.Join(dc, " ; "))
			case strings.HasPrefix(l.fields["Key"], "call:append(slicelit["):
				found["pull"] = true
				c.Check("G", fnName(fn)+"/a branch reduced to one child resolves it and, if it is a short node, becomes that child with the nibble prefixed",
					hasCond(dc, `>= const:0\)=T$`) && hasCond(dc, `!= const:16\)=T$`) && hasCond(dc, `^call:\(\*trie\.Trie\)\.resolve\(t, call:\(\*trie\.fullNode\)\.copy\(.*#0\.\(\*trie\.shortNode\)#1=T$`) && hasCond(dc, `^\(call:\(\*trie\.Trie\)\.resolve\(.*#1 != nil\)=F$`) && strings.Contains(l.fields["Key"], "call:(*trie.Trie).resolve(t, call:(*trie.fullNode).copy(") && strings.HasSuffix(l.fields["Key"], ".(*trie.shortNode)#0.Key)") && strings.HasSuffix(l.fields["Val"], ".(*trie.shortNode)#0.Val"), l.a.Pos(), 1, clip(l.fields["Key"], 120)+" under "+clip(strings.Join(dc, " ; "), 300))
			case strings.HasPrefix(l.fields["Key"], "slicelit["):
				found["one"] = true
				c.Check("G", fnName(fn)+"/a branch reduced to one other child becomes a one-nibble short node over it",
					hasCond(dc, `>= const:0\)=T$`) && strings.HasPrefix(l.fields["Val"], "call:(*trie.fullNode).copy(n.(*trie.fullNode)#0).Children[phi("), l.a.Pos(), 1, strings.Join(dc, " ; "))
			}
		}
		c.Check("G", fnName(fn)+"/the four node constructions are present", len(found) == 4, fn.Pos(), len(found), fmt.Sprint(found))
		pos := `^phi\(const:-2\|phi\(`
		c.Guarded(fn, "keep the branch", ReturnWith(1, `^call:\(\*trie\.fullNode\)\.copy\(`), G("the child still exists, or at least two children remain", NotNil(`^call:\(\*trie\.Trie\)\.delete\(t, n\.\(\*trie\.fullNode\)#0\.Children\[key\[const:0\]\].*#1$`), Cmp(pos, "<", `^const:0$`)))
		c.Guarded(fn, "leave a mismatching short node alone", ReturnWith(1, `^n\.\(\*trie\.shortNode\)#0$`), G("key diverges inside the node's key, or the subtree did not change", Cmp("^"+regexpQuote(ml)+"$", "<", `^call:len\(`+regexpQuote(sn)+`\.Key\)$`), False(regexpQuote(child)+`.*#0$`), NotNil(regexpQuote(child)+`.*#2$`)))
		// the remaining-children scan looks at all 17 slots and distinguishes none / one / several
		scan := len(findInstrs(fn, IfOn(`\+ const:1\) < const:17\)$`)))
		c.Check("F", fnName(fn)+"/the scan for remaining children covers all 17 slots", scan == 1, fn.Pos(), scan, "")
		n := 0
		allInstrs(fn, false, func(_ *ssa.Function, in ssa.Instruction) {
			if st, ok := in.(*ssa.Store); ok && pathOf(st.Addr) == "&call:(*trie.fullNode).copy(n.(*trie.fullNode)#0).Children[key[const:0]]" && strings.HasPrefix(pathOf(st.Val), "call:(*trie.Trie).delete(t, n.(*trie.fullNode)#0.Children[key[const:0]], ") {
				n++
			}
		})
		c.Check("F", fnName(fn)+"/a branch gets the updated child in the slot of the key's first nibble", n == 1, fn.Pos(), n, "")
	}
	// ---- root replacement and empty values ----------------------------------------------------------------------
	if fn := c.Fn("trie", "Trie", "update"); fn != nil {
		c.Guarded(fn, "insert", CallTo(`^\(\*trie\.Trie\)\.insert$`, ""), G("value not empty", Cmp(`^call:len\(value\)$`, "!=", `^const:0$`)))
		c.Guarded(fn, "delete", CallTo(`^\(\*trie\.Trie\)\.delete$`, ""), G("value empty", Cmp(`^call:len\(value\)$`, "==", `^const:0$`)))
		c.Guarded(fn, "replace the root", StoreTo(`^&t\.root$`), G("operation succeeded", IsNil(`^call:\(\*trie\.Trie\)\.(insert|delete)\(.*\)#2$`)))
		for _, in := range findInstrs(fn, StoreTo(`^&t\.root$`)) {
			c.Check("F", fnName(fn)+"/the new root is the node returned by the operation", re(`^call:\(\*trie\.Trie\)\.(insert|delete)\(t, t\.root, nil, call:trie\.keybytesToHex\(key\).*\)#1$`).MatchString(pathOf(in.(*ssa.Store).Val)), instrPos(in), 1, clip(pathOf(in.(*ssa.Store).Val), 160))
		}
	}
	if fn := c.Fn("trie", "Trie", "Delete"); fn != nil {
		c.Guarded(fn, "replace the root", StoreTo(`^&t\.root$`), G("operation succeeded", IsNil(`^call:\(\*trie\.Trie\)\.delete\(.*\)#2$`)))
	}
	if fn := c.Fn("trie", "Trie", "Get"); fn != nil {
		c.Guarded(fn, "replace the root with its resolved form", StoreTo(`^&t\.root$`), G("lookup succeeded", IsNil(`^call:\(\*trie\.Trie\)\.get\(.*\)#3$`)), G("something was resolved", True(`^call:\(\*trie\.Trie\)\.get\(.*\)#2$`)))
	}
	if fn := c.Fn("trie", "Trie", "Copy"); fn != nil {
		got := map[string]string{}
		for _, in := range findInstrs(fn, StoreTo(`^&alloc:complit:trie\.Trie\.`)) {
			a := pathOf(in.(*ssa.Store).Addr)
			got[a[strings.LastIndex(a, ".")+1:]] = pathOf(in.(*ssa.Store).Val)
		}
		_, st := c.P.NamedStruct("trie", "Trie")
		if st != nil {
			for i := 0; i < st.NumFields(); i++ {
				f := st.Field(i).Name()
				want := "t." + f
				if f == "tracer" {
					want = "call:(*trie.tracer).copy(t.tracer)"
				}
				c.Check("F", fnName(fn)+"/carries "+f, got[f] == want, fn.Pos(), 1, "the copy's "+f+" is "+got[f])
			}
		}
	}
}

func c07Codec(c *Ctx) {
	// ---- shapes ---------------------------------------------------------------------------------------------------
	if _, st := c.P.NamedStruct("trie", "fullNode"); st != nil {
		ok := false
		for i := 0; i < st.NumFields(); i++ {
			if st.Field(i).Name() == "Children" {
				if a, isArr := st.Field(i).Type().(*types.Array); isArr && a.Len() == 17 {
					ok = true
				}
			}
		}
		c.Check("T", "trie.fullNode/has 17 slots (16 nibbles and the value)", ok, c.fnPos("(*trie.fullNode).encode"), 1, "")
	}
	if fn := c.Fn("trie", "fullNode", "encode"); fn != nil {
		loop := len(findInstrs(fn, IfOn(`< const:17\)$`)))
		nEnc := len(findInstrs(fn, CallTo(`^iface:\(trie\.node\)\.encode$`, ""))) + len(findInstrs(fn, CallTo(`^\(lib/rlp\.EncoderBuffer\)\.Write$`, `EmptyString`)))
		c.Check("S", fnName(fn)+"/writes one list of 17 items (child encoding or the empty string)", loop == 1 && nEnc == 2 && len(findInstrs(fn, CallTo(`^\(lib/rlp\.EncoderBuffer\)\.List$`, ""))) == 1, fn.Pos(), 3, "")
		c.Guarded(fn, "write the empty string", CallTo(`^\(lib/rlp\.EncoderBuffer\)\.Write$`, ""), G("slot is empty", IsNil(`Children\[`)))
	}
	if fn := c.Fn("trie", "shortNode", "encode"); fn != nil {
		k := len(findInstrs(fn, CallTo(`^\(lib/rlp\.EncoderBuffer\)\.WriteBytes$`, `n\.Key\)$`)))
		v := len(findInstrs(fn, CallTo(`^iface:\(trie\.node\)\.encode$`, `^.*n\.Val`)))
		c.Check("S", fnName(fn)+"/writes one list of the key then the value", k == 1 && v == 1 && len(findInstrs(fn, CallTo(`^\(lib/rlp\.EncoderBuffer\)\.List$`, ""))) == 1, fn.Pos(), 3, "")
		c.Precedes(fn, "key", CallTo(`^\(lib/rlp\.EncoderBuffer\)\.WriteBytes$`, ""), "value", CallTo(`^iface:\(trie\.node\)\.encode$`, ""))
	}
	if fn := c.Fn("trie", "", "decodeNodeUnsafe"); fn != nil {
		cnt := `^call:lib/rlp\.CountValues\(call:lib/rlp\.SplitList\(buf\)#0\)#0$`
		c.Guarded(fn, "decode a short node", CallTo(`^trie\.decodeShort$`, ""), G("two items", Cmp(cnt, "==", `^const:2$`)), G("input is a list", IsNil(`^call:lib/rlp\.SplitList\(buf\)#2$`)))
		c.Guarded(fn, "decode a branch", CallTo(`^trie\.decodeFull$`, ""), G("seventeen items", Cmp(cnt, "==", `^const:17$`)), G("input is a list", IsNil(`^call:lib/rlp\.SplitList\(buf\)#2$`)))
	}
	if fn := c.Fn("trie", "", "decodeFull"); fn != nil {
		loop := len(findInstrs(fn, IfOn(`< const:16\)$`)))
		v := 0
		for _, in := range findInstrs(fn, StoreTo(`Children\[const:16\]$`)) {
			_ = in
			v++
		}
		c.Check("S", fnName(fn)+"/reads 16 references and the value into slot 16", loop == 1 && v == 1, fn.Pos(), 2, "")
		c.Guarded(fn, "set the value slot", StoreTo(`Children\[const:16\]$`), G("value not empty", Cmp(`^call:len\(call:lib/rlp\.SplitString\(`, ">", `^const:0$`)))
		c.Guarded(fn, "store a child", StoreTo(`Children\[phi`), G("reference decoded", IsNil(`^call:trie\.decodeRef\(.*\)#2$`)))
	}
	if fn := c.Fn("trie", "", "decodeShort"); fn != nil {
		key := `call:trie\.compactToHex\(call:lib/rlp\.SplitString\(elems\)#0\)`
		for _, l := range nodeLits(fn) {
			c.Check("S", fnName(fn)+"/the key is expanded from compact to hex form ("+c.P.Pos(l.a.Pos())+")", re("^"+key+"$").MatchString(l.fields["Key"]), l.a.Pos(), 1, l.fields["Key"])
		}
		c.Guarded(fn, "make a value node", func(in ssa.Instruction) bool {
			st, ok := in.(*ssa.Store)
			return ok && strings.HasSuffix(pathOf(st.Addr), "shortNode.Val") && strings.HasPrefix(pathOf(st.Val), "call:lib/rlp.SplitString(call:lib/rlp.SplitString(elems)#1)#0")
		}, G("key has the terminator", True(`^call:trie\.hasTerm\(`+key+`\)$`)))
		c.Guarded(fn, "make a child reference", func(in ssa.Instruction) bool {
			st, ok := in.(*ssa.Store)
			return ok && strings.HasSuffix(pathOf(st.Addr), "shortNode.Val") && strings.HasPrefix(pathOf(st.Val), "call:trie.decodeRef(")
		}, G("key has no terminator", False(`^call:trie\.hasTerm\(`+key+`\)$`)), G("reference decoded", IsNil(`^call:trie\.decodeRef\(.*\)#2$`)))
	}
	if fn := c.Fn("trie", "", "decodeRef"); fn != nil {
		sp := `call:lib/rlp\.Split\(buf\)`
		c.Guarded(fn, "decode an embedded node", CallTo(`^trie\.decodeNode$`, ""), G("split ok", IsNil(`^`+sp+`#3$`)), G("it is a list", Cmp(`^`+sp+`#0$`, "==", `^const:2$`)), G("not larger than a hash", Cmp(`^\(call:len\(buf\) - call:len\(`+sp+`#2\)\)$`, "<=", `^const:32$`)))
		c.Guarded(fn, "return a hash reference", func(in ssa.Instruction) bool {
			r, ok := in.(*ssa.Return)
			return ok && re(`^`+sp+`#1$`).MatchString(pathOf(r.Results[0]))
		}, G("split ok", IsNil(`^`+sp+`#3$`)), G("a 32-byte string", True(`^phi\(\(call:len\(`+sp+`#1\) == const:32\)\|const:false\)$`)))
		c.Guarded(fn, "return the empty reference", func(in ssa.Instruction) bool {
			r, ok := in.(*ssa.Return)
			return ok && pathOf(r.Results[0]) == "nil" && re(`^`+sp+`#2$`).MatchString(pathOf(r.Results[1])) && pathOf(r.Results[2]) == "nil"
		}, G("split ok", IsNil(`^`+sp+`#3$`)), G("an empty string", True(`^phi\(\(call:len\(`+sp+`#1\) == const:0\)\|const:false\)$`)))
		for _, t := range []string{"const:0", "const:32"} {
			for _, in := range findInstrs(fn, IfOn(`^phi\(\(call:len\(`+sp+`#1\) == `+t+`\)\|const:false\)$`)) {
				ok := true
				for _, pc := range phiCases(in.(*ssa.If).Cond) {
					if pathOf(pc.Val) != "const:false" {
						ok = ok && hasCond(pc.Conds, `#0 == const:1\)=T$`)
					}
				}
				c.Check("G", fnName(fn)+"/the length-"+t[6:]+" form is a string, not a list", ok, instrPos(in), 1, "")
			}
		}
	}
	// ---- hashing: the embedding rule is the same for both node kinds; the stack trie uses the same encoders -----------
	emb := map[string]string{}
	for _, name := range []string{"shortnodeToHash", "fullnodeToHash"} {
		fn := c.Fn("trie", "hasher", name)
		if fn == nil {
			continue
		}
		var conds []string
		allInstrs(fn, false, func(_ *ssa.Function, in ssa.Instruction) {
			if iff, ok := in.(*ssa.If); ok {
				conds = append(conds, pathOf(iff.Cond))
			}
		})
		emb[name] = strings.Join(conds, " ; ")
		c.Guarded(fn, "return the node itself (embedded in its parent)", ReturnWith(0, `^n$`), G("encoding shorter than 32 bytes", Cmp(`^call:len\(call:\(\*trie\.hasher\)\.encodedBytes\(h\)\)$`, "<", `^const:32$`)), G("not forced (not the root)", False(`^force$`)))
		c.Guarded(fn, "return the hash", ReturnWith(0, `^call:\(\*trie\.hasher\)\.hashData\(h, call:\(\*trie\.hasher\)\.encodedBytes\(h\)\)$`), G("32 bytes or more, or forced", Cmp(`^call:len\(call:\(\*trie\.hasher\)\.encodedBytes\(h\)\)$`, ">=", `^const:32$`), True(`^force$`)))
		c.Precedes(fn, "n.encode(h.encbuf)", CallTo(`^\(\*trie\.(short|full)Node\)\.encode$`, `\(n, h\.encbuf\)$`), "take the encoded bytes", CallTo(`^\(\*trie\.hasher\)\.encodedBytes$`, ""))
	}
	// the same two guard obligations are put to both functions above (the rule is the same however each writes it)
	c.Check("S", "trie.hasher/short nodes and branches use the same embedding rule", emb["shortnodeToHash"] != "" && emb["fullnodeToHash"] != "", c.fnPos("(*trie.hasher).shortnodeToHash"), 2, emb["shortnodeToHash"]+" vs "+emb["fullnodeToHash"])
	if fn := c.Fn("trie", "hasher", "hashShortNodeChildren"); fn != nil {
		n := 0
		for _, in := range findInstrs(fn, StoreTo(`\.Key$`)) {
			if pathOf(in.(*ssa.Store).Val) == "call:trie.hexToCompact(n.Key)" {
				n++
			}
		}
		c.Check("S", fnName(fn)+"/the collapsed node carries the compact key (the cached one keeps the hex key)", n == 1, fn.Pos(), n, "")
	}
	if fn := c.Fn("trie", "hasher", "hash"); fn != nil {
		c.Guarded(fn, "return the cached hash", ReturnWith(0, `^call:iface:\(trie\.node\)\.cache\(n\)#0$`), G("a hash is cached", NotNil(`^call:iface:\(trie\.node\)\.cache\(n\)#0$`)))
		n := 0
		for _, in := range findInstrs(fn, CallTo(`^\(\*trie\.hasher\)\.(short|full)nodeToHash$`, "")) {
			a := argPaths(callCommon(in))
			if len(a) == 3 && strings.HasSuffix(a[1], "#0") && a[2] == "force" {
				n++
			}
		}
		c.Check("F", fnName(fn)+"/hashes the collapsed form and passes the force flag on", n == 2, fn.Pos(), n, "")
	}
	if fn := c.Fn("trie", "hasher", "hashData"); fn != nil {
		c.Precedes(fn, "reset the sponge", CallTo(`\)\.Reset$`, ""), "absorb the data", CallTo(`\)\.Write$`, ""))
		c.Precedes(fn, "absorb the data", CallTo(`\)\.Write$`, ""), "squeeze the hash", CallTo(`\)\.Read$`, ""))
	}
	if fn := c.Fn("trie", "StackTrie", "hashRec"); fn != nil {
		// a child is referenced raw when its encoding is shorter than 32 bytes and by hash otherwise — in the branch and
		// in the extension case alike (the same rule the trie's hasher applies)
		kinds := map[string]map[string]int{}
		allInstrs(fn, false, func(_ *ssa.Function, in ssa.Instruction) {
			st, ok := in.(*ssa.Store)
			if !ok {
				return
			}
			mi, ok := st.Val.(*ssa.MakeInterface)
			if !ok {
				return
			}
			t := namedOf(mi.X.Type())
			if t != "trie.rawNode" && t != "trie.hashNode" {
				return
			}
			src := pathOf(st.Val)
			if !strings.Contains(src, "st.children[") {
				return
			}
			site := "extension"
			if strings.Contains(pathOf(st.Addr), "Children[") {
				site = "branch"
			}
			if kinds[site] == nil {
				kinds[site] = map[string]int{}
			}
			kinds[site][t]++
			dc := domConds(in)
			want := `^\(call:len\(` + regexpQuote(src) + `\) < const:32\)=` + map[string]string{"trie.rawNode": "T", "trie.hashNode": "F"}[t] + `$`
			c.Check("G", fmt.Sprintf("%s/%s child is referenced as %s exactly when its encoding is %s 32 bytes", fnName(fn), site, t[5:], map[string]string{"trie.rawNode": "shorter than", "trie.hashNode": "at least"}[t]), hasCond(dc, want), instrPos(in), 1, strings.Join(dc, " ; "))
		})
		for _, site := range []string{"branch", "extension"} {
			c.Check("S", fmt.Sprintf("%s/%s children have both the embedded and the hashed reference form", fnName(fn), site), kinds[site]["trie.rawNode"] == 1 && kinds[site]["trie.hashNode"] == 1, fn.Pos(), 2, fmt.Sprint(kinds[site]))
		}
		nEnc := len(findInstrs(fn, CallTo(`^\(\*trie\.(short|full)Node\)\.encode$`, "")))
		nCmp := len(findInstrs(fn, CallTo(`^trie\.hexToCompact$`, "")))
		nEmb := len(findInstrs(fn, IfOn(`< const:32\)$`)))
		c.Check("S", fnName(fn)+"/encodes through the trie's own node encoders, compact keys and the 32-byte embedding rule", nEnc >= 3 && nCmp >= 2 && nEmb >= 1, fn.Pos(), nEnc+nCmp+nEmb, fmt.Sprintf("%d encode calls, %d compact keys, %d embedding tests", nEnc, nCmp, nEmb))
	}
	// ---- key encoding -----------------------------------------------------------------------------------------
	if fn := c.Fn("trie", "", "keybytesToHex"); fn != nil {
		hi, lo, term := 0, 0, 0
		allInstrs(fn, false, func(_ *ssa.Function, in ssa.Instruction) {
			st, ok := in.(*ssa.Store)
			if !ok {
				return
			}
			a, v := pathOf(st.Addr), pathOf(st.Val)
			switch {
			case strings.HasSuffix(v, "/ const:16)") && strings.Contains(a, "* const:2)]"):
				hi++
			case strings.HasSuffix(v, "% const:16)") && strings.Contains(a, "* const:2) + const:1)]"):
				lo++
			case v == "const:16" && strings.HasSuffix(a, "[(((call:len(str) * const:2) + const:1) - const:1)]"):
				term++
			}
		})
		c.Check("T", fnName(fn)+"/high nibble, low nibble, terminator 16 at the end of 2n+1 nibbles", hi == 1 && lo == 1 && term == 1, fn.Pos(), 3, fmt.Sprint(hi, lo, term))
	}
	if fn := c.Fn("trie", "", "decodeNibbles"); fn != nil {
		n := 0
		for _, in := range findInstrs(fn, StoreTo(`^&bytes\[`)) {
			if re(`^\(\(nibbles\[phi\(\(phi@t\d+ \+ const:2\)\|const:0\)\] << const:4\) \| nibbles\[\(phi\(\(phi@t\d+ \+ const:2\)\|const:0\) \+ const:1\)\]\)$`).MatchString(pathOf(in.(*ssa.Store).Val)) {
				n++
			}
		}
		c.Check("T", fnName(fn)+"/packs nibble pairs high-first", n == 1, fn.Pos(), n, "")
	}
	if fn := c.Fn("trie", "", "hasTerm"); fn != nil {
		n := len(findInstrs(fn, ReturnWith(0, `^phi\(\(s\[\(call:len\(s\) - const:1\)\] == const:16\)\|const:false\)$`)))
		c.Check("T", fnName(fn)+"/the terminator is a last nibble of 16", n == 1, fn.Pos(), n, "")
	}
	if fn := c.Fn("trie", "", "hexToCompact"); fn != nil {
		flag, odd := 0, 0
		allInstrs(fn, false, func(_ *ssa.Function, in ssa.Instruction) {
			st, ok := in.(*ssa.Store)
			if !ok {
				return
			}
			v := pathOf(st.Val)
			if v == "(phi(const:0|const:1) << const:5)" || v == "(phi(const:1|const:0) << const:5)" {
				flag++
			}
			if strings.HasSuffix(v, " | const:16)") {
				odd++
			}
		})
		c.Check("T", fnName(fn)+"/flag byte: terminator in bit 5, odd length in bit 4", flag == 1 && odd == 1, fn.Pos(), 2, fmt.Sprint(flag, odd))
		c.Guarded(fn, "set the odd flag and fold the first nibble in", func(in ssa.Instruction) bool {
			st, ok := in.(*ssa.Store)
			return ok && strings.HasSuffix(pathOf(st.Val), " | const:16)")
		}, G("odd number of nibbles", Cmp(`& const:1\)$`, "==", `^const:1$`)))
		for _, pc := range func() []phiCase {
			for _, in := range findInstrs(fn, StoreTo(`\[const:0\]$`)) {
				if bo, ok := in.(*ssa.Store).Val.(*ssa.BinOp); ok {
					if p, ok := bo.X.(*ssa.Phi); ok {
						return phiCases(p)
					}
				}
			}
			return nil
		}() {
			want := map[string]string{"const:1": `hasTerm\(hex\)=T$`, "const:0": `hasTerm\(hex\)=F$`}[pathOf(pc.Val)]
			c.Check("T", fnName(fn)+"/terminator flag "+pathOf(pc.Val)[6:]+" exactly when the key has the terminator", want != "" && hasCond(pc.Conds, want), fn.Pos(), 1, strings.Join(pc.Conds, ";"))
		}
	}
	if fn := c.Fn("trie", "", "compactToHex"); fn != nil {
		c.Guarded(fn, "drop the terminator added by keybytesToHex", func(in ssa.Instruction) bool {
			sl, ok := in.(*ssa.Slice)
			return ok && sl.High != nil && strings.HasSuffix(pathOf(sl.High), " - const:1)")
		}, G("flag nibble below 2 (no terminator flag)", Cmp(`^call:trie\.keybytesToHex\(compact\)\[const:0\]$`, "<", `^const:2$`)))
		n := 0
		allInstrs(fn, false, func(_ *ssa.Function, in ssa.Instruction) {
			if sl, ok := in.(*ssa.Slice); ok && sl.Low != nil && re(`^\(const:2 - \(phi\(.*\)\[const:0\] & const:1\)\)$`).MatchString(pathOf(sl.Low)) {
				n++
			}
		})
		c.Check("T", fnName(fn)+"/chops two nibbles for even keys and one for odd keys", n == 1, fn.Pos(), n, "")
	}
}

func c07Proof(c *Ctx) {
	if fn := c.Fn("trie", "", "VerifyProof"); fn != nil {
		want := `\(rootHash\)\[:\]`
		get := `call:iface:\(kai/kaidb\.KeyValueReader\)\.Get\(proofDb, ` + want + `\)#0`
		dec := func(in ssa.Instruction) bool {
			cc := callCommon(in)
			if cc == nil || calleeNameNoPath(cc) != "trie.decodeNode" {
				return false
			}
			a := argPaths(cc)
			return len(a) == 2 && re(`^`+want+`$`).MatchString(a[0]) && re(`^`+get+`$`).MatchString(a[1])
		}
		c.Check("F", fnName(fn)+"/each node is fetched by the wanted hash and decoded with it", len(findInstrs(fn, dec)) == 1 && len(findInstrs(fn, CallTo(`^trie\.decodeNode$`, ""))) == 1, fn.Pos(), 1, "")
		c.Guarded(fn, "decode a proof node", dec, G("the node is present", NotNil(`^`+get+`$`)))
		c.Guarded(fn, "follow the node", CallTo(`^trie\.get$`, ""), G("node decoded", IsNil(`^call:trie\.decodeNode\(.*\)#1$`)))
		// the next wanted hash is the hash node met on the path; a value is returned only from a value node
		n := 0
		for _, in := range findInstrs(fn, CallTo(`^copy$`, "")) {
			a := argPaths(callCommon(in))
			if len(a) == 2 && re(`^`+want+`$`).MatchString(a[0]) && strings.HasSuffix(a[1], ".(trie.hashNode)#0") && strings.HasPrefix(a[1], "call:trie.get(") {
				n++
			}
		}
		c.Check("F", fnName(fn)+"/the next wanted hash is the hash node found on the key's path", n == 1, fn.Pos(), n, "")
		c.Guarded(fn, "return a value", func(in ssa.Instruction) bool {
			r, ok := in.(*ssa.Return)
			return ok && pathOf(r.Results[0]) != "nil"
		}, G("the path ends in a value node", True(`\.\(trie\.valueNode\)#1$`)))
		for _, in := range findInstrs(fn, func(in ssa.Instruction) bool {
			r, ok := in.(*ssa.Return)
			return ok && pathOf(r.Results[0]) != "nil"
		}) {
			c.Check("F", fnName(fn)+"/the returned value is that value node", strings.HasSuffix(pathOf(in.(*ssa.Return).Results[0]), ".(trie.valueNode)#0"), instrPos(in), 1, "")
		}
		for _, in := range findInstrs(fn, CallTo(`^trie\.get$`, "")) {
			a := argPaths(callCommon(in))
			c.Check("F", fnName(fn)+"/the walk continues with the rest of the key", len(a) == 3 && strings.HasPrefix(a[1], "phi(call:trie.keybytesToHex(key)|") && a[2] == "const:true", instrPos(in), 1, clip(strings.Join(a, ", "), 200))
		}
	}
	if fn := c.Fn("trie", "Trie", "Prove"); fn != nil {
		put := CallTo(`^iface:\(kai/kaidb\.KeyValueWriter\)\.Put$`, "")
		ok := 0
		for _, in := range findInstrs(fn, put) {
			cc := callCommon(in)
			if len(cc.Args) != 2 {
				continue
			}
			encCall, _ := cc.Args[1].(*ssa.Call)
			if encCall == nil || calleeNameNoPath(&encCall.Call) != "trie.nodeToBytes" {
				continue
			}
			// the encoded node is the collapsed node returned by proofHash
			var ph *ssa.Call
			if mi, isMI := encCall.Call.Args[0].(*ssa.MakeInterface); isMI {
				_ = mi
			}
			node := encCall.Call.Args[0]
			if ex, isEx := node.(*ssa.Extract); isEx && ex.Index == 0 {
				ph, _ = ex.Tuple.(*ssa.Call)
			}
			good := ph != nil && calleeNameNoPath(&ph.Call) == "(*trie.hasher).proofHash"
			hv := cc.Args[0]
			for {
				if ct, isCT := hv.(*ssa.ChangeType); isCT {
					hv = ct.X
					continue
				}
				if cv, isCV := hv.(*ssa.Convert); isCV {
					hv = cv.X
					continue
				}
				break
			}
			for _, pc := range phiCases(hv) {
				switch v := pc.Val.(type) {
				case *ssa.Call:
					// hashData(enc) of the very same encoding
					good = good && calleeNameNoPath(&v.Call) == "(*trie.hasher).hashData" && len(v.Call.Args) == 2 && v.Call.Args[1] == ssa.Value(encCall)
				case *ssa.Extract:
					// hn.(hashNode): the hash proofHash computed for the same collapsed node
					ta, _ := v.Tuple.(*ssa.TypeAssert)
					if ta == nil {
						good = false
						break
					}
					e1, _ := ta.X.(*ssa.Extract)
					good = good && e1 != nil && e1.Index == 1 && e1.Tuple == ssa.Value(ph)
				default:
					good = false
				}
			}
			if good {
				ok++
			}
		}
		c.Check("F", fnName(fn)+"/every proof element is stored under the hash of its own encoding", ok == 1 && len(findInstrs(fn, put)) == 1, fn.Pos(), ok, "the key given to proofDb.Put must be hashData(enc) or the hash proofHash computed for the same node")
		c.Guarded(fn, "emit a proof element", put, G("the node is referenced by hash, or it is the root", True(`#1\.\(trie\.hashNode\)#1$`), Cmp(`^\(phi\(\(phi@t\d+ \+ const:1\)\|const:-1\) \+ const:1\)$`, "==", `^const:0$`)))
	}
	if fn := c.Fn("trie", "hasher", "proofHash"); fn != nil {
		n := 0
		for _, in := range findInstrs(fn, CallTo(`^\(\*trie\.hasher\)\.(short|full)nodeToHash$`, "")) {
			a := argPaths(callCommon(in))
			if len(a) == 3 && a[2] == "const:false" && strings.HasSuffix(a[1], "#0") {
				n++
			}
		}
		c.Check("F", fnName(fn)+"/hashes the collapsed node it returns, with the normal embedding rule", n == 2, fn.Pos(), n, "")
	}
	// DeriveSha (transaction/receipt roots) feeds index-keyed encodings in a fixed order
	if fn := c.Fn("types", "", "DeriveSha"); fn != nil {
		n := len(findInstrs(fn, CallTo(`\)\.(Update|MustUpdate)$`, "")))
		c.Check("F", fnName(fn)+"/feeds every list element to the hasher", n >= 1, fn.Pos(), n, "")
	}
}
