package main

import (
	"strings"

	"golang.org/x/tools/go/ssa"
)

// c07Committer: what Commit stores under a hash is the node that hash was computed from. The hasher computes the root
// over the in-memory nodes; the committer writes the blobs a reopened trie is rebuilt from. A slot or field the
// committer leaves out does not change the root it returns, only what a later reader finds under it.
func c07Committer(c *Ctx) {
	if fn := c.Fn("trie", "committer", "commitChildren"); fn != nil {
		// the loop over the child slots: an index loop to 16 or a range over the first 16 children
		loopTest := IfOn(`^\(.* < (const:16|call:len\(n\.Children\[:const:16\]\))\)$`)
		n := len(findInstrs(fn, loopTest))
		c.Check("F", fnName(fn)+"/walks the 16 child slots", n == 1, fn.Pos(), n, "")
		slotStore := func(in ssa.Instruction) bool {
			st, ok := in.(*ssa.Store)
			return ok && strings.HasPrefix(pathOf(st.Addr), "&children[") && pathOf(st.Addr) != "&children[const:16]"
		}
		c.AfterGuard(fn, G("child slot i is occupied", NotNil(`^n\.Children(\[:const:16\])?\[(phi\(|\(phi\().*\]$`)),
			"store children[i]", slotStore, "the next slot", loopTest)
		c.AfterGuard(fn, G("the branch carries a value (slot 16)", NotNil(`^n\.Children\[const:16\]$`)),
			"store children[16]", StoreTo(`^&children\[const:16\]$`), "return", AnyReturn())
		ok, seen := true, 0
		for _, in := range findInstrs(fn, StoreTo(`^&children\[`)) {
			st := in.(*ssa.Store)
			// a range over the first 16 children reads child i as n.Children[:16][i]
			a, v := pathOf(st.Addr), strings.ReplaceAll(pathOf(st.Val), "n.Children[:const:16][", "n.Children[")
			idx := a[len("&children[") : len(a)-1]
			seen++
			switch {
			case v == "n.Children["+idx+"].(trie.hashNode)#0":
			case idx != "const:16" && strings.HasPrefix(v, "call:(*trie.committer).commit(c, call:append(path, varargs["+idx+"]), n.Children["+idx+"])"):
			case idx == "const:16" && v == "n.Children[const:16]":
			default:
				ok = false
				c.Bad("F", fnName(fn)+"/slot i of the stored branch is child i (its hash, or the result of committing it under path+i)", instrPos(in), seen, describeInstr(in))
			}
		}
		if ok {
			c.Check("F", fnName(fn)+"/slot i of the stored branch is child i (its hash, or the result of committing it under path+i)", seen == 3, fn.Pos(), seen, "")
		}
		for _, in := range findInstrs(fn, AnyReturn()) {
			c.Check("F", fnName(fn)+"/returns the collected slots", pathOf(in.(*ssa.Return).Results[0]) == "children", instrPos(in), 1, describeInstr(in))
		}
	}
	if fn := c.Fn("trie", "committer", "commit"); fn != nil {
		c.Guarded(fn, "reuse the cached hash", ReturnWith(0, `^call:iface:\(trie\.node\)\.cache\(n\)#0$`),
			G("a hash is cached", NotNil(`^call:iface:\(trie\.node\)\.cache\(n\)#0$`)),
			G("the node is clean", False(`^call:iface:\(trie\.node\)\.cache\(n\)#1$`)))
		sn, fnn := `call:(*trie.shortNode).copy(n.(*trie.shortNode)#0)`, `call:(*trie.fullNode).copy(n.(*trie.fullNode)#0)`
		got := map[string][]string{}
		for _, in := range findInstrs(fn, StoreTo(`^&call:\(\*trie\.(short|full)Node\)\.copy\(`)) {
			st := in.(*ssa.Store)
			got[pathOf(st.Addr)] = append(got[pathOf(st.Addr)], pathOf(st.Val))
		}
		one := func(k, v string) bool { return len(got[k]) == 1 && got[k][0] == v }
		c.Check("F", fnName(fn)+"/stored short node: key in compact form of the node's key", one("&"+sn+".Key", "call:trie.hexToCompact(n.(*trie.shortNode)#0.Key)"), fn.Pos(), 1, strings.Join(got["&"+sn+".Key"], " | "))
		c.Check("F", fnName(fn)+"/stored short node: value replaced only by the committed child under path+key", one("&"+sn+".Val", "call:(*trie.committer).commit(c, call:append(path, n.(*trie.shortNode)#0.Key), n.(*trie.shortNode)#0.Val)"), fn.Pos(), 1, strings.Join(got["&"+sn+".Val"], " | "))
		c.Check("F", fnName(fn)+"/stored branch: children are commitChildren of this node", one("&"+fnn+".Children", "call:(*trie.committer).commitChildren(c, path, n.(*trie.fullNode)#0)"), fn.Pos(), 1, strings.Join(got["&"+fnn+".Children"], " | "))
		c.Check("F", fnName(fn)+"/no other field of the copies is rewritten", len(got) == 3, fn.Pos(), len(got), "")
		for _, x := range []string{sn, fnn} {
			n := 0
			for _, in := range findInstrs(fn, CallTo(`^\(\*trie\.committer\)\.store$`, "")) {
				if a := argPaths(callCommon(in)); len(a) == 3 && a[1] == "path" && a[2] == x {
					n++
				}
			}
			c.Check("F", fnName(fn)+"/stores the collapsed copy "+x[6:strings.Index(x, ")")+1]+" under the node's own path", n == 1, fn.Pos(), n, "")
		}
		c.Precedes(fn, "the key/children of the copy are set", StoreTo(`^&call:\(\*trie\.(short|full)Node\)\.copy\(.*\)\.(Key|Children)$`), "store the node", CallTo(`^\(\*trie\.committer\)\.store$`, ""))
	}
	if fn := c.Fn("trie", "committer", "store"); fn != nil {
		h := `call:iface:(trie.node).cache(n)#0`
		want := "(*trie/trienode.NodeSet).AddNode(c.nodes, path, call:trie/trienode.NewWithPrev(call:lib/common.BytesToHash(" + h + "), call:trie.nodeToBytes(n), c.tracer.accessList[path]))"
		n := 0
		for _, in := range findInstrs(fn, CallTo(`\.AddNode$`, "")) {
			if callPath(callCommon(in)) == want {
				n++
			}
		}
		c.Check("F", fnName(fn)+"/the blob recorded under the node's cached hash is the encoding of that node", n == 1, fn.Pos(), n, want)
		c.Guarded(fn, "return the node itself (embedded, nothing stored)", ReturnWith(0, `^n$`), G("no hash was computed for it", IsNil(`^call:iface:\(trie\.node\)\.cache\(n\)#0$`)))
		c.Guarded(fn, "return the hash", ReturnWith(0, `^call:iface:\(trie\.node\)\.cache\(n\)#0$`), G("a hash was computed", NotNil(`^call:iface:\(trie\.node\)\.cache\(n\)#0$`)))
		c.OnEveryPath(fn, "AddNode(path, hash, blob)", CallTo(`\.AddNode$`, `NewWithPrev\(call:lib/common\.BytesToHash`), "return the hash", ReturnWith(0, `^call:iface:\(trie\.node\)\.cache\(n\)#0$`))
	}
}
