package main

// C18 — no message from a peer can crash the node.

import (
	"fmt"
	"go/types"
	"sort"
	"strings"

	"golang.org/x/tools/go/ssa"
)

func init() {
	register("C18", []string{"consensus/manager.go", "consensus/msgs.go", "blockchain/reactor.go", "blockchain/msgs.go", "mainchain/tx_pool/reactor.go",
		"mainchain/tx_pool/msgs.go", "types/evidence/reactor.go", "lib/p2p/pex/pex_reactor.go", "lib/p2p/conn/connection.go", "lib/common/bit_array.go",
		"types/part_set.go", "types/vote.go"}, runC18)
}

// OnFailure (rule O): on the failing side of every branch testing guard g, every path to a return passes rel.
func (c *Ctx) OnFailure(fn *ssa.Function, g Guard, relDesc string, rel SinkSel) {
	if fn == nil {
		return
	}
	key := fnName(fn) + "/when '" + g.Desc + "' fails: " + relDesc + " before return"
	sites := c.P.guardEdges(fn, g)
	if len(sites) == 0 {
		c.Bad("O", key, fn.Pos(), 0, "guard not found")
		return
	}
	for _, s := range sites {
		b := s.Pass.from
		var fail *ssa.BasicBlock
		for _, succ := range b.Succs {
			if succ != s.Pass.to {
				fail = succ
			}
		}
		if fail == nil {
			continue
		}
		w := &Walker{P: c.P, Stop: func(in ssa.Instruction) bool { return rel(in) }, Removed: map[edge]bool{}}
		hit, found := w.Reach(fn, fail, 0, func(in ssa.Instruction) bool { _, ok := in.(*ssa.Return); return ok })
		if found {
			c.Bad("O", key, instrPos(hit.Instr), len(sites), fmt.Sprintf("return at %s reachable on the failing side without %s; path %s", c.P.Pos(instrPos(hit.Instr)), relDesc, c.P.pathStr(hit.Path)))
			return
		}
	}
	c.OK("O", key, instrPos(sites[0].If), len(sites), "")
}

// nilTolerant: the method's first action is `if recv == nil { return … }` (no panic on that branch).
func (c *Ctx) nilTolerant(fn *ssa.Function) bool {
	if fn == nil || len(fn.Blocks) == 0 || len(fn.Params) == 0 {
		return false
	}
	b := fn.Blocks[0]
	iff, ok := b.Instrs[len(b.Instrs)-1].(*ssa.If)
	if !ok {
		return false
	}
	recv := fn.Params[0].Name()
	m, passTrue := matchCond(IsNil(`^`+recv+`$`), iff.Cond)
	if !m {
		return false
	}
	// nothing but the test before the branch
	for _, in := range b.Instrs[:len(b.Instrs)-1] {
		switch in.(type) {
		case *ssa.BinOp, *ssa.Alloc, *ssa.Store, *ssa.DebugRef:
		default:
			return false
		}
	}
	nilBlock := b.Succs[1]
	if passTrue {
		nilBlock = b.Succs[0]
	}
	// the nil branch returns without touching the receiver and without a no-return call
	w := &Walker{P: c.P}
	_, found := w.Reach(fn, nilBlock, 0, func(in ssa.Instruction) bool { _, ok := in.(*ssa.Return); return ok })
	if !found {
		return false
	}
	// and it does so directly (single block)
	_, isRet := nilBlock.Instrs[len(nilBlock.Instrs)-1].(*ssa.Return)
	return isRet
}

func runC18(c *Ctx) {
	c.Decided = []string{
		"containment: the connection's receive routine starts with a deferred recover that stops only that connection; reactors are entered only from it",
		"every reactor uses a peer message only behind successful decoding (and validation where the reactor has one); the failing side stops/reports the peer before returning",
		"per-message validation is a complete checklist of the tabled bounds (bit-array sizes and representation invariant, part size, part count, vote type, block ids); the decoder ends in it",
		"per-packet reassembly appends only within the channel's receive capacity; the framing reader allocates only within its size limit",
		"methods of a possibly-nil last-commit vote set are called only if nil-tolerant or behind a nil test",
		"every Lock/RLock in the reactor, p2p and shared-utility packages is released on every non-panicking path",
	}
	c.NotDec = []string{"absence of every implicit run-time panic (index, nil, conversion) and of hangs in general", "allocation bounds inside generated protobuf unmarshalling (bounded by the packet/message caps)", "round-trip of well-formed messages beyond codec field coverage (C13/C15)"}
	c.Floors["G"] = 45
	c.Floors["L1"] = 60
	c18Round3(c)
	// a commit from a peer (block sync, a proposed block's last commit) is indexed slot by slot: the slot count is checked
	// against the set before any slot is used (C02)
	verifyCommitRules(c)

	frameLengthRule(c)
	// sanity panics behind a precondition: the caller establishes the precondition (a peer's catch-up vote may have
	// created the round already)
	if fn := c.Fn("consensus/types", "HeightVoteSet", "SetRound"); fn != nil {
		c.Guarded(fn, "create the round", CallTo(`^\(\*consensus/types\.HeightVoteSet\)\.addRound$`, ""), G("round not present yet (addRound panics on an existing round)", False(`^hvs\.roundVoteSets\[phi\(.*\)\]#1$`)))
		for _, in := range findInstrs(fn, CallTo(`^\(\*consensus/types\.HeightVoteSet\)\.addRound$`, "")) {
			// the round tested is the round created
			a := argPaths(callCommon(in))
			ok := false
			for _, d := range domConds(in) {
				if len(a) == 2 && d == "hvs.roundVoteSets["+a[1]+"]#1=F" {
					ok = true
				}
			}
			c.Check("G", fnName(fn)+"/the presence test is for the round being created", ok, instrPos(in), 1, "")
		}
	}
	if fn := c.Fn("consensus/types", "HeightVoteSet", "AddVote"); fn != nil {
		c.Guarded(fn, "create a catch-up round for the peer", CallTo(`^\(\*consensus/types\.HeightVoteSet\)\.addRound$`, ""), G("no vote set for that round yet", IsNil(`^call:\(\*consensus/types\.HeightVoteSet\)\.getVoteSet\(hvs, vote\.Round, vote\.Type\)$`)))
	}

	// ---- containment ------------------------------------------------------------------------------
	if fn := c.Fn("lib/p2p/conn", "MConnection", "recvRoutine"); fn != nil {
		first := ""
		for _, in := range fn.Blocks[0].Instrs {
			if cc := callCommon(in); cc != nil {
				if _, isDefer := in.(*ssa.Defer); isDefer {
					first = "defer " + calleeNameNoPath(cc)
				} else {
					first = calleeNameNoPath(cc)
				}
				break
			}
		}
		c.Check("O", fnName(fn)+"/first action is defer c._recover()", first == "defer (*lib/p2p/conn.MConnection)._recover", fn.Pos(), 1, "first call is: "+first)
		c.Guarded(fn, "channel.recvPacketMsg", CallTo(`^\(\*lib/p2p/conn\.Channel\)\.recvPacketMsg$`, ""),
			G("channel id known", True(`^c\.channelsIdx\[.*\]#1$`)),
			G("channel != nil", NotNil(`^c\.channelsIdx\[.*\]#0$`)),
			G("ReadMsg(&packet) == nil", IsNil(`^call:iface:\(lib/protoio\.Reader\)\.ReadMsg\(`)))
		c.Guarded(fn, "c.onReceive", func(in ssa.Instruction) bool {
			cc := callCommon(in)
			return cc != nil && strings.HasPrefix(calleeName(cc), "dyn:c.onReceive")
		},
			G("recvPacketMsg error == nil", IsNil(`^call:\(\*lib/p2p/conn\.Channel\)\.recvPacketMsg\(.*\)#1$`)),
			G("msgBytes != nil (complete message)", NotNil(`^call:\(\*lib/p2p/conn\.Channel\)\.recvPacketMsg\(.*\)#0$`)))
	}
	if fn := c.Fn("lib/p2p/conn", "MConnection", "_recover"); fn != nil {
		c.Guarded(fn, "stopForError", CallTo(`^\(\*lib/p2p/conn\.MConnection\)\.stopForError$`, ""), G("recover() != nil", NotNil(`^call:recover\(\)$`)))
		n := len(findInstrs(fn, CallTo(`^recover$`, "")))
		c.Check("O", fnName(fn)+"/calls recover()", n == 1, fn.Pos(), n, "")
	}
	if fn := c.Fn("lib/p2p/conn", "Channel", "recvPacketMsg"); fn != nil {
		c.Guarded(fn, "append to ch.recving", StoreTo(`^&ch\.recving$`),
			G("len(recving)+len(packet.Data) <= RecvMessageCapacity", Cmp(`^ch\.desc\.RecvMessageCapacity$`, ">=", `^\(call:len\(ch\.recving\) \+ call:len\(packet\.Data\)\)$`)))
	}
	if fn := c.Fn("lib/protoio", "varintReader", "ReadMsg"); fn != nil {
		isMake := func(in ssa.Instruction) bool { _, ok := in.(*ssa.MakeSlice); return ok }
		c.Guarded(fn, "make([]byte, length)", isMake,
			G("length <= maxSize", Cmp(`^call:encoding/binary\.ReadUvarint\(.*\)#0$`, "<=", `^r\.maxSize$`)),
			G("length >= 0", Cmp(`^call:encoding/binary\.ReadUvarint\(.*\)#0$`, ">=", `^const:0$`)),
			G("ReadUvarint error == nil", IsNil(`^call:encoding/binary\.ReadUvarint\(.*\)#1$`)))
	}
	if fn := c.Fn("lib/p2p/conn", "ChannelDescriptor", "FillDefaults"); fn != nil {
		n := len(findInstrs(fn, StoreTo(`RecvMessageCapacity$`)))
		c.Check("T", fnName(fn)+"/a zero RecvMessageCapacity gets the default", n >= 1, fn.Pos(), n, "")
		c.OnlyCalledFrom("channels are created with FillDefaults", `^\(lib/p2p/conn\.ChannelDescriptor\)\.FillDefaults$`, 1, `^lib/p2p/conn\.(newChannel|NewMConnectionWithConfig)$`)
	}

	// a block part with an out-of-range index or a proof for another slot is rejected (imported from C13)
	addPartRules(c)

	// ---- reactors: decode -> validate -> use ---------------------------------------------------------
	stop := CallTo(`^\(\*lib/p2p\.Switch\)\.StopPeerForError$`, "")
	if fn := c.Fn("consensus", "ConsensusManager", "Receive"); fn != nil {
		dec := G("decodeMsg error == nil", IsNil(`^call:consensus\.decodeMsg\(msgBytes\)#1$`))
		val := G("msg.ValidateBasic() == nil", IsNil(`^call:iface:\(consensus\.Message\)\.ValidateBasic\(call:consensus\.decodeMsg\(msgBytes\)#0\)$`))
		uses := func(in ssa.Instruction) bool {
			switch x := in.(type) {
			case *ssa.TypeAssert:
				return strings.HasPrefix(pathOf(x.X), "call:consensus.decodeMsg(msgBytes)#0")
			case *ssa.Send:
				return true
			}
			return false
		}
		c.Guarded(fn, "uses of the decoded message (type switches, queue sends)", uses, dec, val,
			G("reactor is running", True(`^call:\(\*lib/service\.BaseService\)\.IsRunning\(`)))
		c.OnFailure(fn, dec, "StopPeerForError", stop)
		c.OnFailure(fn, val, "StopPeerForError", stop)
	}
	if fn := c.Fn("consensus", "", "decodeMsg"); fn != nil {
		c.Guarded(fn, "MsgFromProto", CallTo(`^consensus\.MsgFromProto$`, ""), G("proto.Unmarshal == nil", IsNil(`^call:github\.com/gogo/protobuf/proto\.Unmarshal\(`)))
	}
	if fn := c.Fn("consensus", "", "MsgFromProto"); fn != nil {
		c.Guarded(fn, "return pb, nil", SuccessReturn(1, ""),
			G("msg != nil", NotNil(`^msg$`)),
			G("pb.ValidateBasic() == nil", IsNil(`^call:iface:\(consensus\.Message\)\.ValidateBasic\(`)))
		for _, d := range []string{"PartSetHeaderFromProto", "ProposalFromProto", "PartFromProto", "VoteFromProto", "BlockIDFromProto"} {
			calls := findInstrs(fn, CallTo(`^types\.`+d+`$`, ""))
			if len(calls) == 0 {
				c.Bad("G", fnName(fn)+"/uses "+d, fn.Pos(), 0, "decoder "+d+" no longer used")
				continue
			}
			for i, cl := range calls {
				// every use of result #0 is behind error == nil
				res := cl.(*ssa.Call)
				errNil := G(d+" error == nil", IsNil(`^`+strings.ReplaceAll(strings.ReplaceAll(regexpQuote(pathOf(res)), `\(`, `\(`), `\)`, `\)`)+`#1$`))
				usesOf := func(in ssa.Instruction) bool {
					var ops []*ssa.Value
					for _, op := range in.Operands(ops) {
						if op != nil && *op != nil {
							if ex, ok := (*op).(*ssa.Extract); ok && ex.Tuple == res && ex.Index == 0 {
								if _, isStore := in.(*ssa.Store); isStore {
									return true
								}
								if _, isUn := in.(*ssa.UnOp); isUn {
									return true
								}
							}
						}
					}
					return false
				}
				if len(findInstrs(fn, usesOf)) == 0 {
					continue
				}
				_ = i
				c.Guarded(fn, "use of "+d+" result", usesOf, errNil)
			}
		}
	}
	if fn := c.Fn("blockchain", "BlockchainReactor", "Receive"); fn != nil {
		dec := G("DecodeMsg error == nil", IsNil(`^call:blockchain\.DecodeMsg\(msgBytes\)#1$`))
		val := G("ValidateMsg(msg) == nil", IsNil(`^call:blockchain\.ValidateMsg\(call:blockchain\.DecodeMsg\(msgBytes\)#0\)$`))
		uses := func(in ssa.Instruction) bool {
			switch x := in.(type) {
			case *ssa.TypeAssert:
				return strings.HasPrefix(pathOf(x.X), "call:blockchain.DecodeMsg(msgBytes)#0")
			case *ssa.Send:
				return true
			}
			return false
		}
		c.Guarded(fn, "uses of the decoded message", uses, dec, val)
		rep := CallTo(`^iface:\(lib/behaviour\.Reporter\)\.Report$`, "")
		c.OnFailure(fn, dec, "behaviour report", rep)
		c.OnFailure(fn, val, "behaviour report", rep)
	}
	if fn := c.Fn("blockchain", "", "ValidateMsg"); fn != nil {
		c.Guarded(fn, "return nil", SuccessReturn(0, ""), G("pb != nil", NotNil(`^pb$`)))
		n := len(findInstrs(fn, CallTo(`^types\.BlockFromProto$`, `BlockFromProto\(.*\.Block, call:trie\.NewStackTrie\(nil\)\)`)))
		c.Check("G", fnName(fn)+"/a block response is decoded and validated", n == 1, fn.Pos(), n, "ValidateMsg must run the validating block decoder on BlockResponse (the reactor relies on it)")
	}
	if fn := c.Fn("mainchain/tx_pool", "Reactor", "Receive"); fn != nil {
		dec := G("decodeMsg error == nil", IsNil(`^call:mainchain/tx_pool\.decodeMsg\(msgBytes\)#1$`))
		uses := func(in ssa.Instruction) bool {
			x, ok := in.(*ssa.TypeAssert)
			return ok && strings.HasPrefix(pathOf(x.X), "call:mainchain/tx_pool.decodeMsg(msgBytes)#0")
		}
		c.Guarded(fn, "uses of the decoded message", uses, dec, G("peer is known", NotNil(`^call:\(\*mainchain/tx_pool\.peerSet\)\.Peer\(`)))
		c.OnFailure(fn, dec, "StopPeerForError", stop)
	}
	if fn := c.Fn("types/evidence", "Reactor", "Receive"); fn != nil {
		dec := G("decodeMsg error == nil", IsNil(`^call:types/evidence\.decodeMsg\(msgBytes\)#1$`))
		c.Guarded(fn, "evpool.AddEvidence", CallTo(`\)\.AddEvidence$`, ""), dec)
		c.OnFailure(fn, dec, "StopPeerForError", stop)
	}
	if fn := c.Fn("types/evidence", "", "decodeMsg"); fn != nil {
		n := len(findInstrs(fn, CallTo(`^iface:\(types\.Evidence\)\.ValidateBasic$`, "")))
		c.Check("G", fnName(fn)+"/validates every decoded evidence", n >= 1, fn.Pos(), n, "")
		c.Guarded(fn, "return evis, nil", SuccessReturn(1, ""), G("Unmarshal == nil", IsNil(`Unmarshal\(`)))
	}
	if fn := c.Fn("lib/p2p/pex", "Reactor", "Receive"); fn != nil {
		dec := G("decodeMsg error == nil", IsNil(`^call:lib/p2p/pex\.decodeMsg\(msgBytes\)#1$`))
		uses := func(in ssa.Instruction) bool {
			x, ok := in.(*ssa.TypeAssert)
			return ok && strings.HasPrefix(pathOf(x.X), "call:lib/p2p/pex.decodeMsg(msgBytes)#0")
		}
		c.Guarded(fn, "uses of the decoded message", uses, dec)
		c.OnFailure(fn, dec, "StopPeerForError", stop)
		c.Guarded(fn, "ReceiveAddrs", CallTo(`^\(\*lib/p2p/pex\.Reactor\)\.ReceiveAddrs$`, ""), G("NetAddressesFromProto error == nil", IsNil(`^call:lib/p2p\.NetAddressesFromProto\(.*\)#1$`)))
	}

	// ---- message validation checklists -----------------------------------------------------------------
	maxParts := c.P.Const("types", "MaxBlockPartsCount")
	maxVotes := c.P.Const("types", "MaxVotesCount")
	bitsOK := func(f string) Guard {
		return G(f+".ValidateBasic() == nil (representation invariant)", IsNil(`^call:\(\*lib/common\.BitArray\)\.ValidateBasic\(m\.`+f+`\)$`))
	}
	size := func(f string) string { return `^call:\(\*lib/common\.BitArray\)\.Size\(m\.` + f + `\)$` }
	typeOK := G("vote type valid", True(`^call:types\.IsVoteTypeValid\(m\.Type\)$`))
	bidOK := G("BlockID.ValidateBasic() == nil", IsNil(`^call:\(types\.BlockID\)\.ValidateBasic\(m\.BlockID\)$`))
	type chk struct {
		recv   string
		guards []Guard
	}
	for _, k := range []chk{
		{"NewValidBlockMessage", []Guard{
			G("BlockPartsHeader.ValidateBasic() == nil", IsNil(`^call:\(types\.PartSetHeader\)\.ValidateBasic\(m\.BlockPartsHeader\)$`)),
			G("BlockParts.Size() != 0", Cmp(size("BlockParts"), "!=", `^const:0$`)),
			G("BlockParts.Size() == BlockPartsHeader.Total", Cmp(size("BlockParts"), "==", `^m\.BlockPartsHeader\.Total$`)),
			G("BlockParts.Size() <= MaxBlockPartsCount", Cmp(size("BlockParts"), "<=", `^const:`+maxParts+`$`)),
			bitsOK("BlockParts")}},
		{"ProposalPOLMessage", []Guard{
			G("ProposalPOL.Size() != 0", Cmp(size("ProposalPOL"), "!=", `^const:0$`)),
			G("ProposalPOL.Size() <= MaxVotesCount", Cmp(size("ProposalPOL"), "<=", `^const:`+maxVotes+`$`)),
			bitsOK("ProposalPOL")}},
		{"VoteSetBitsMessage", []Guard{typeOK, bidOK,
			G("Votes.Size() <= MaxVotesCount", Cmp(size("Votes"), "<=", `^const:`+maxVotes+`$`)),
			bitsOK("Votes")}},
		{"VoteSetMaj23Message", []Guard{typeOK, bidOK}},
		{"HasVoteMessage", []Guard{typeOK}},
		{"NewRoundStepMessage", []Guard{G("Step.IsValid()", True(`^call:\(consensus/types\.RoundStepType\)\.IsValid\(m\.Step\)$`))}},
		{"BlockPartMessage", []Guard{G("Part.ValidateBasic() == nil", IsNil(`^call:\(\*types\.Part\)\.ValidateBasic\(m\.Part\)$`))}},
		{"ProposalMessage", []Guard{
			G("Proposal.ValidateBasic() == nil", IsNil(`^call:\(\*types\.Proposal\)\.ValidateBasic\(m\.Proposal\)$`)),
			G("POLBlockID.PartsHeader.Total <= MaxBlockPartsCount", Cmp(`^m\.Proposal\.POLBlockID\.PartsHeader\.Total$`, "<=", `^const:`+maxParts+`$`))}},
	} {
		if fn := c.Fn("consensus", k.recv, "ValidateBasic"); fn != nil {
			c.Guarded(fn, "return nil", SuccessReturn(0, ""), k.guards...)
		}
	}
	if fn := c.Fn("consensus", "VoteMessage", "ValidateBasic"); fn != nil {
		ok := false
		for _, in := range findInstrs(fn, AnyReturn()) {
			ok = pathOf(in.(*ssa.Return).Results[0]) == "call:(*types.Vote).ValidateBasic(m.Vote)"
		}
		c.Check("G", fnName(fn)+"/is Vote.ValidateBasic()", ok, fn.Pos(), 1, "")
	}
	if fn := c.Fn("types", "Vote", "ValidateBasic"); fn != nil {
		c.Guarded(fn, "return nil", SuccessReturn(0, ""),
			G("type valid", True(`^call:types\.IsVoteTypeValid\(vote\.Type\)$`)),
			G("BlockID.ValidateBasic() == nil", IsNil(`^call:\(types\.BlockID\)\.ValidateBasic\(vote\.BlockID\)$`)),
			G("signature present", Cmp(`^call:len\(vote\.Signature\)$`, "!=", `^const:0$`)))
	}
	// every consensus message field of type *BitArray is validated by its message
	c.bitArrayFields()
	if fn := c.Fn("lib/common", "BitArray", "ValidateBasic"); fn != nil {
		c.Guarded(fn, "return nil for a non-nil array", func(in ssa.Instruction) bool {
			return SuccessReturn(0, "")(in) && in.Block() != fn.Blocks[0].Succs[0]
		}, G("len(Elems) == ceil(Bits/64)", Cmp(`^call:len\(bA\.Elems\)$`, "==", `^phi\(\(\(bA\.Bits / const:64\) \+ const:1\)\|\(bA\.Bits / const:64\)\)$`)))
	}
	c.OnlyWrittenIn("lib/common", "BitArray", "Bits", 1, `^lib/common\.NewBitArray$`, `^\(\*lib/common\.BitArray\)\.(FromProto|UnmarshalJSON|copy|copyBits|Copy)$`)
	c.OnlyWrittenIn("lib/common", "BitArray", "Elems", 1, `^lib/common\.NewBitArray$`, `^\(\*lib/common\.BitArray\)\.(FromProto|UnmarshalJSON|copy|copyBits|Copy|setIndex|Sub|Or|And|Not|not|and|sub|Update)$`)
	c.OnlyCalledFrom("BitArray.FromProto only from the consensus message decoder", `^\(\*lib/common\.BitArray\)\.FromProto$`, 3, `^consensus\.MsgFromProto$`)

	// ---- constant indexing of input slices (signatures, keys, frames) ----------------------------------------
	// scope: the signature / key handling every peer-supplied vote, proposal and commit signature goes through
	c.ConstIndexGuarded([]string{"lib/crypto"}, `.`, map[string]string{})
	c.Floors["Z"] = 1

	// ---- possibly-nil last commit ------------------------------------------------------------------------
	c.lastCommitNil()

	// ---- lock pairing -----------------------------------------------------------------------------------
	ex := map[string]string{}
	if r := c.Fn("blockchain", "BlockchainReactor", "Receive"); r != nil {
		// conditional exception: the early return after a second BlockFromProto failure is infeasible only while
		// ValidateMsg (which ran the same deterministic decoder on the same message) dominates the switch
		val := G("ValidateMsg(msg) == nil", IsNil(`^call:blockchain\.ValidateMsg\(`))
		sites := c.P.guardEdges(r, val)
		rm := map[edge]bool{}
		for _, s := range sites {
			rm[s.Pass] = true
		}
		w := &Walker{P: c.P, Removed: rm}
		_, found := w.Reach(r, r.Blocks[0], 0, CallTo(lockRe, ""))
		vm := c.P.Func("blockchain", "", "ValidateMsg")
		validatesBlock := vm != nil && len(findInstrs(vm, CallTo(`^types\.BlockFromProto$`, ""))) == 1
		if len(sites) > 0 && !found && validatesBlock {
			ex["(*blockchain.BlockchainReactor).Receive/r.mtx.RWMutex.RLock"] = "the only unlocking-free return follows a BlockFromProto error that ValidateMsg has already excluded for the same message (deterministic decoder); infeasible, no witness exists"
		}
	}
	ex["(*lib/flowrate.Monitor).waitNextSample/m.mu.Mutex.Lock"] = "helper called with m.mu held (Limit/IO take it and defer the release); it drops the lock only around time.Sleep and re-takes it, returning locked by contract"
	c.LockPairing([]string{"consensus", "consensus/types", "blockchain", "mainchain/tx_pool", "types/evidence", "lib/p2p", "lib/p2p/conn", "lib/p2p/pex", "lib/p2p/trust",
		"lib/common", "lib/clist", "types", "lib/behaviour", "lib/cmap", "lib/flowrate", "lib/events", "lib/pubsub"}, ex)
}

func regexpQuote(s string) string {
	var b strings.Builder
	for _, r := range s {
		if strings.ContainsRune(`\.+*?()|[]{}^$`, r) {
			b.WriteByte('\\')
		}
		b.WriteRune(r)
	}
	return b.String()
}

// bitArrayFields: each *cmn.BitArray field of a consensus wire message is checked by that message's ValidateBasic.
func (c *Ctx) bitArrayFields() {
	pk := c.P.ByPath[modPath+"/consensus"]
	if pk == nil {
		return
	}
	var names []string
	for _, n := range pk.Types.Scope().Names() {
		names = append(names, n)
	}
	sort.Strings(names)
	found := 0
	for _, n := range names {
		tn, ok := pk.Types.Scope().Lookup(n).(*types.TypeName)
		if !ok || !strings.HasSuffix(n, "Message") {
			continue
		}
		st, ok := tn.Type().Underlying().(*types.Struct)
		if !ok {
			continue
		}
		for i := 0; i < st.NumFields(); i++ {
			f := st.Field(i)
			if namedOf(f.Type()) != "lib/common.BitArray" {
				continue
			}
			found++
			fn := c.P.Func("consensus", n, "ValidateBasic")
			ok := false
			if fn != nil {
				ok = len(findInstrs(fn, CallTo(`^\(\*lib/common\.BitArray\)\.ValidateBasic$`, `ValidateBasic\(m\.`+f.Name()+`\)`))) == 1
			}
			c.Check("G", "consensus."+n+"."+f.Name()+" (bit array from the wire) has its representation invariant validated", ok, f.Pos(), 1,
				"BitArray.FromProto takes Bits and Elems independently from the wire; without BitArray.ValidateBasic in "+n+".ValidateBasic an inconsistent array reaches Sub/Or/SetIndex in gossip routines that have no recover")
		}
	}
	if found < 3 {
		c.Unres("G", "consensus messages with bit-array fields", fmt.Sprintf("found %d, expected at least 3", found))
	}
}

// lastCommitNil: cs.LastCommit holds a typed nil at the initial height; callers must tolerate that.
func (c *Ctx) lastCommitNil() {
	n := 0
	exceptions := map[string]string{
		"(*consensus.ConsensusState).tryAddVote/(*types.VoteSet).MakeCommit": "on the branch VoteA.Height != InitialHeight, where updateToState stored a real set",
	}
	for _, f := range c.P.ModFuncs {
		r := rootFn(f)
		if r.Pkg == nil || !strings.HasSuffix(r.Pkg.Pkg.Path(), "/consensus") {
			continue
		}
		for _, b := range f.Blocks {
			for _, in := range b.Instrs {
				call, ok := in.(*ssa.Call)
				if !ok || len(call.Call.Args) == 0 {
					continue
				}
				callee := call.Call.StaticCallee()
				if callee == nil || !strings.HasPrefix(fnName(callee), "(*types.VoteSet).") {
					continue
				}
				recv := pathOf(call.Call.Args[0])
				if !strings.HasSuffix(recv, ".LastCommit") {
					continue
				}
				n++
				key := fnName(f) + "/" + fnName(callee) + " on possibly-nil " + recv
				if c.nilTolerant(callee) {
					c.OK("G", key, call.Pos(), 1, "callee returns early on a nil receiver")
					continue
				}
				if why, ok := exceptions[fnName(f)+"/"+fnName(callee)]; ok {
					// the exception holds only while the branch condition is there
					g := G("VoteA.Height != InitialHeight", Cmp(`VoteA\.Height$`, "!=", `InitialHeight$`))
					sites := c.P.guardEdges(f, g)
					rm := map[edge]bool{}
					for _, s := range sites {
						rm[s.Pass] = true
					}
					w := &Walker{P: c.P, Removed: rm}
					_, found := w.Reach(f, f.Blocks[0], 0, func(x ssa.Instruction) bool { return x == in })
					c.Check("G", key, len(sites) > 0 && !found, call.Pos(), 1, "tabled exception ("+why+") requires the call to stay behind that test")
					continue
				}
				g := G(recv+" != nil", NotNil(`^`+regexpQuote(recv)+`$`))
				// a nil-tolerant boolean query of the same receiver that is false on nil also establishes non-nil
				for _, q := range []string{"HasTwoThirdsMajority", "HasTwoThirdsAny"} {
					if c.nilTolerant(c.P.Func("types", "VoteSet", q)) {
						g.Alts = append(g.Alts, True(`^call:\(\*types\.VoteSet\)\.`+q+`\(`+regexpQuote(recv)+`\)$`))
					}
				}
				sites := c.P.guardEdges(f, g)
				rm := map[edge]bool{}
				for _, s := range sites {
					rm[s.Pass] = true
				}
				w := &Walker{P: c.P, Removed: rm}
				_, found := w.Reach(f, f.Blocks[0], 0, func(x ssa.Instruction) bool { return x == in })
				c.Check("G", key, len(sites) > 0 && !found, call.Pos(), 1,
					fmt.Sprintf("%s panics on a nil receiver and %s is a typed nil at the initial height; the call at %s is not behind a nil test", fnName(callee), recv, c.P.Pos(call.Pos())))
			}
		}
	}
	if n < 4 {
		c.Unres("G", "calls on cs.LastCommit", fmt.Sprintf("found %d, expected at least 4", n))
	}
}
