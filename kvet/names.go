package main

import (
	_ "embed"
	"encoding/json"
	"fmt"
	"go/ast"
	"go/types"
	"sort"
	"strings"

	"golang.org/x/tools/go/packages"
	"golang.org/x/tools/go/ssa"
)

// Access paths print parameters, receivers, captured variables and address-taken locals by their source names, and the
// rules' patterns are written against the names of the pinned tree. A consistent rename is not a change of behaviour, so
// the names of the pinned tree are frozen in names.json (kvet freeze-names) and a value whose position and type are
// unchanged is printed under its frozen name. Functions whose signature or local-variable type sequence changed keep
// their current names (the rule then sees the code as it is).
type frozenFn struct {
	Params []string `json:"p,omitempty"` // "name type"
	Free   []string `json:"f,omitempty"`
	Locals []string `json:"l,omitempty"`
	Getter []string `json:"g,omitempty"` // trivial accessors the function calls (paths.go, getterKeep)
	Sig    string   `json:"s,omitempty"` // receiver, parameter and result types (rename detection)
}

// renamedFuncs: function of the current tree -> the function of the pinned tree it is taken to be (same package or
// receiver, same signature, the old name gone and exactly one new name that fits). Names print as in the pinned tree
// (short), anchors resolve through it (Program.Func), and the function is not treated as a new helper.
var renamedFuncs = map[string]string{}

func sigOf(sig *types.Signature) string {
	var parts []string
	if r := sig.Recv(); r != nil {
		parts = append(parts, "recv "+r.Type().String())
	}
	for i := 0; i < sig.Params().Len(); i++ {
		parts = append(parts, sig.Params().At(i).Type().String())
	}
	parts = append(parts, "->")
	for i := 0; i < sig.Results().Len(); i++ {
		parts = append(parts, sig.Results().At(i).Type().String())
	}
	if sig.Variadic() {
		parts = append(parts, "...")
	}
	return strings.Join(parts, ";")
}

// scopeOf: "(*pkg.T)" for methods, "pkg" for functions — what a rename keeps.
func scopeOf(full string) string {
	if i := strings.LastIndex(full, "."); i >= 0 {
		return full[:i]
	}
	return full
}

func detectRenames(pkgs []*packages.Package, frozen map[string]frozenFn) map[string]string {
	cur := map[string]string{} // full name -> signature
	for _, pk := range pkgs {
		if !strings.HasPrefix(pk.PkgPath, modPath) || pk.TypesInfo == nil {
			continue
		}
		for _, f := range pk.Syntax {
			if strings.HasSuffix(pk.Fset.Position(f.Pos()).Filename, "_test.go") {
				continue
			}
			for _, d := range f.Decls {
				if fd, ok := d.(*ast.FuncDecl); ok && fd.Name.Name != "init" && fd.Name.Name != "_" {
					if obj, ok := pk.TypesInfo.Defs[fd.Name].(*types.Func); ok {
						cur[obj.FullName()] = sigOf(obj.Type().(*types.Signature))
					}
				}
			}
		}
	}
	// only packages that are loaded can lose a function
	loaded := map[string]bool{}
	for _, pk := range pkgs {
		loaded[pk.PkgPath] = true
	}
	pkgOf := func(full string) string {
		s := strings.TrimLeft(scopeOf(full), "(*")
		if i := strings.LastIndex(s, "."); i >= 0 && strings.Contains(full, ")") {
			s = s[:i]
		}
		return strings.TrimRight(s, ")")
	}
	type key struct{ scope, sig string }
	gone, fresh := map[key][]string{}, map[key][]string{}
	for name, fz := range frozen {
		if _, ok := cur[name]; !ok && fz.Sig != "" && loaded[pkgOf(name)] && !strings.Contains(name, "$") {
			k := key{scopeOf(name), fz.Sig}
			gone[k] = append(gone[k], name)
		}
	}
	for name, sig := range cur {
		if _, ok := frozen[name]; !ok {
			k := key{scopeOf(name), sig}
			fresh[k] = append(fresh[k], name)
		}
	}
	out := map[string]string{}
	for k, g := range gone {
		if f := fresh[k]; len(g) == 1 && len(f) == 1 {
			out[f[0]] = g[0]
		}
	}
	return out
}

//go:embed names.json
var frozenNamesJSON []byte

var canonName = map[ssa.Value]string{}

func namedAllocs(f *ssa.Function) []*ssa.Alloc {
	var out []*ssa.Alloc
	for _, a := range f.Locals {
		if isNamedAlloc(a) {
			out = append(out, a)
		}
	}
	for _, b := range f.Blocks {
		for _, in := range b.Instrs {
			if a, ok := in.(*ssa.Alloc); ok && a.Heap && isNamedAlloc(a) {
				out = append(out, a)
			}
		}
	}
	return out
}

func isNamedAlloc(a *ssa.Alloc) bool {
	c := a.Comment
	if c == "" || c == "complit" || c == "varargs" || c == "slicelit" || c == "makeslice" || c == "makemap" || c == "makechan" || strings.HasPrefix(c, "new") || strings.ContainsAny(c, " .()[]") {
		return false
	}
	return true
}

func snapshotNames(f *ssa.Function) frozenFn {
	var fz frozenFn
	for _, p := range f.Params {
		fz.Params = append(fz.Params, p.Name()+" "+p.Type().String())
	}
	for _, v := range f.FreeVars {
		fz.Free = append(fz.Free, v.Name()+" "+v.Type().String())
	}
	for _, a := range namedAllocs(f) {
		fz.Locals = append(fz.Locals, a.Comment+" "+a.Type().String())
	}
	seen := map[string]bool{}
	for _, b := range f.Blocks {
		for _, in := range b.Instrs {
			if c, ok := in.(*ssa.Call); ok {
				if g := c.Call.StaticCallee(); g != nil && !seen[g.String()] && trivialGetter(g) != nil {
					seen[g.String()] = true
					fz.Getter = append(fz.Getter, g.String())
				}
			}
		}
	}
	sort.Strings(fz.Getter)
	fz.Sig = sigOf(f.Signature)
	return fz
}

func freezeNames(p *Program) map[string]frozenFn {
	out := map[string]frozenFn{}
	for _, f := range p.ModFuncs {
		if f.Synthetic != "" {
			continue
		}
		fz := snapshotNames(f)
		if _, dup := out[f.String()]; dup {
			continue
		}
		out[f.String()] = fz
	}
	// every declared function, whether or not SSA considers it reachable (the list also says which functions exist in
	// the pinned tree, see inline.go)
	for _, pk := range p.Pkgs {
		if !strings.HasPrefix(pk.PkgPath, modPath) || pk.TypesInfo == nil {
			continue
		}
		for _, f := range pk.Syntax {
			for _, d := range f.Decls {
				if fd, ok := d.(*ast.FuncDecl); ok {
					if obj, ok := pk.TypesInfo.Defs[fd.Name].(*types.Func); ok {
						if _, have := out[obj.FullName()]; !have {
							out[obj.FullName()] = frozenFn{}
						}
					}
				}
			}
		}
	}
	return out
}

func splitNT(s string) (string, string) {
	i := strings.Index(s, " ")
	if i < 0 {
		return s, ""
	}
	return s[:i], s[i+1:]
}

// sameTypes: equal length and equal type at every position.
func sameTypes(a, b []string) bool {
	if len(a) != len(b) {
		return false
	}
	for i := range a {
		_, ta := splitNT(a[i])
		_, tb := splitNT(b[i])
		if ta != tb {
			return false
		}
	}
	return true
}

// applyFrozenNames fills canonName for the loaded program; returns how many values print under a frozen name.
var frozenCache map[string]frozenFn

func frozenNames() (map[string]frozenFn, error) {
	if frozenCache != nil {
		return frozenCache, nil
	}
	var frozen map[string]frozenFn
	if err := json.Unmarshal(frozenNamesJSON, &frozen); err != nil {
		return nil, err
	}
	if len(frozen) < 1000 {
		return nil, fmt.Errorf("names.json lists only %d functions", len(frozen))
	}
	frozenCache = frozen
	return frozen, nil
}

func applyFrozenNames(p *Program) (int, error) {
	frozen, err := frozenNames()
	if err != nil {
		return 0, err
	}
	n := 0
	for _, f := range p.ModFuncs {
		fz, ok := frozen[f.String()]
		if !ok || f.Synthetic != "" {
			continue
		}
		keep := map[string]bool{}
		for _, g := range fz.Getter {
			keep[g] = true
		}
		getterKeep[f] = keep
		cur := snapshotNames(f)
		if sameTypes(cur.Params, fz.Params) {
			for i, prm := range f.Params {
				if want, _ := splitNT(fz.Params[i]); want != prm.Name() {
					canonName[prm] = want
					n++
				}
			}
		}
		if sameTypes(cur.Free, fz.Free) {
			for i, v := range f.FreeVars {
				if want, _ := splitNT(fz.Free[i]); want != v.Name() {
					canonName[v] = want
					n++
				}
			}
		}
		if sameTypes(cur.Locals, fz.Locals) {
			for i, a := range namedAllocs(f) {
				if want, _ := splitNT(fz.Locals[i]); want != a.Comment {
					canonName[a] = want
					n++
				}
			}
		}
	}
	return n, nil
}

func nameOf(v ssa.Value, cur string) string {
	if s, ok := canonName[v]; ok {
		return s
	}
	return cur
}
