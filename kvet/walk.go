package main

// Instruction-level reachability queries over the SSA control-flow graph.

import (
	"fmt"
	"go/constant"
	"go/token"
	"go/types"
	"regexp"
	"sort"
	"strings"

	"golang.org/x/tools/go/ssa"
)

type edge struct{ from, to *ssa.BasicBlock }

// noReturnBase: callees outside the module (no bodies loaded) that never return.
var noReturnBase = map[string]bool{
	"os.Exit": true, "runtime.Goexit": true, "log.Fatal": true, "log.Fatalf": true, "log.Fatalln": true,
	"log.Panic": true, "log.Panicf": true, "log.Panicln": true,
	"iface:(lib/log.Logger).Crit": true,
}

// NoReturn reports whether a module function can never return normally (all paths end in panic / exit).
func (p *Program) NoReturn(fn *ssa.Function) bool {
	if p.noRet == nil {
		p.noRet = map[*ssa.Function]bool{}
		// fixpoint: start with nothing, grow.
		for changed := true; changed; {
			changed = false
			for _, f := range p.ModFuncs {
				if p.noRet[f] || len(f.Blocks) == 0 {
					continue
				}
				if f.Recover != nil {
					continue
				}
				w := &Walker{P: p}
				if _, found := w.Reach(f, f.Blocks[0], 0, func(in ssa.Instruction) bool { _, ok := in.(*ssa.Return); return ok }); !found {
					p.noRet[f] = true
					changed = true
				}
			}
		}
	}
	return p.noRet[fn]
}

func (p *Program) callNoReturn(cc *ssa.CallCommon) bool {
	n := calleeNameNoPath(cc)
	if noReturnBase[n] {
		return true
	}
	if f := cc.StaticCallee(); f != nil && p.noRet != nil {
		return p.noRet[f]
	}
	return false
}

func calleeNameNoPath(c *ssa.CallCommon) string {
	if c.IsInvoke() {
		return "iface:" + short(c.Method.FullName())
	}
	if f := c.StaticCallee(); f != nil {
		return short(f.String())
	}
	if b, ok := c.Value.(*ssa.Builtin); ok {
		return b.Name()
	}
	return "dyn"
}

// Walker explores forward from a program point.
type Walker struct {
	P       *Program
	Removed map[edge]bool                 // CFG edges that may not be taken
	Stop    func(in ssa.Instruction) bool // instructions that block the path (path ends, not a hit)
	NoPanic bool                          // if set, do NOT treat no-return calls as path ends
	// TargetAt, if set, replaces the target predicate and also receives the predecessor block through which
	// the instruction's block was entered on this path (nil at the start), to resolve phis edge-sensitively.
	TargetAt func(in ssa.Instruction, path []*ssa.BasicBlock) bool
	// StartFacts seeds the path facts (see phiNilFacts) when the walk starts in the middle of a path.
	StartFacts string
}

// resolvePhi resolves v along a block path (path ends with the block that uses v): while v is a phi of a block on
// the path, it is replaced by the incoming value for the edge the path took into that block.
func resolvePhi(v ssa.Value, path []*ssa.BasicBlock) ssa.Value {
	for n := 0; n < 8; n++ {
		phi, ok := v.(*ssa.Phi)
		if !ok {
			return v
		}
		// last occurrence of the phi's block on the path
		idx := -1
		for i := len(path) - 1; i >= 0; i-- {
			if path[i] == phi.Block() {
				idx = i
				break
			}
		}
		if idx <= 0 {
			return v
		}
		pred := path[idx-1]
		found := false
		for i, p := range phi.Block().Preds {
			if p == pred && i < len(phi.Edges) {
				v = phi.Edges[i]
				found = true
				break
			}
		}
		if !found {
			return v
		}
		path = path[:idx]
	}
	return v
}

type Hit struct {
	Instr ssa.Instruction
	Path  []*ssa.BasicBlock
}

// Reach walks from (start, idx) forward; returns the first instruction satisfying target on some path.
// Paths end at Stop instructions, at panics and at calls to functions that never return.
func (w *Walker) Reach(fn *ssa.Function, start *ssa.BasicBlock, idx int, target func(ssa.Instruction) bool) (Hit, bool) {
	type item struct {
		b     *ssa.BasicBlock
		i     int
		prev  *pathNode
		pred  *ssa.BasicBlock
		facts string
	}
	type skey struct {
		b, pred *ssa.BasicBlock
		facts   string
	}
	seen := map[skey]bool{}
	corr := correlatedConds(fn)
	stack := []item{{start, idx, nil, nil, w.StartFacts}}
	first := true
	for len(stack) > 0 {
		it := stack[len(stack)-1]
		stack = stack[:len(stack)-1]
		phiC := ownPhiCond(it.b)
		if !first || it.i == 0 {
			k := skey{it.b, nil, it.facts}
			if phiC != nil || (w.TargetAt != nil && hasPhi(it.b)) {
				k.pred = it.pred
			}
			if seen[k] {
				continue
			}
			seen[k] = true
		}
		first = false
		node := &pathNode{it.b, it.prev}
		blocked := false
		for i := it.i; i < len(it.b.Instrs); i++ {
			in := it.b.Instrs[i]
			if (w.TargetAt != nil && w.TargetAt(in, node.list())) || (w.TargetAt == nil && target(in)) {
				return Hit{in, node.list()}, true
			}
			if w.Stop != nil && w.Stop(in) {
				blocked = true
				break
			}
			if !w.NoPanic {
				if _, ok := in.(*ssa.Panic); ok {
					blocked = true
					break
				}
				if c, ok := in.(*ssa.Call); ok && w.P != nil && w.P.callNoReturn(&c.Call) {
					blocked = true
					break
				}
			}
		}
		if blocked {
			continue
		}
		succs := it.b.Succs
		if phiC != nil && it.pred != nil && len(succs) == 2 {
			// edge-sensitive: a condition that is a phi of this block with a constant incoming value on the
			// edge we came through decides the branch (short-circuit && / || lowering)
			for pi, pb := range it.b.Preds {
				if pb == it.pred && pi < len(phiC.Edges) {
					if k, ok := phiC.Edges[pi].(*ssa.Const); ok && k.Value != nil && k.Value.Kind() == constant.Bool {
						if constant.BoolVal(k.Value) {
							succs = succs[:1]
						} else {
							succs = succs[1:2]
						}
					}
					break
				}
			}
		}
		var cc *corrCond
		if len(it.b.Succs) == 2 && len(it.b.Instrs) > 0 {
			if iff, ok := it.b.Instrs[len(it.b.Instrs)-1].(*ssa.If); ok {
				cc = corr[iff]
			}
		}
		if dec, known := phiNilDecision(it.b, it.facts); known && len(succs) == 2 {
			if dec {
				succs = succs[:1]
			} else {
				succs = succs[1:2]
			}
		}
		for _, s := range succs {
			if w.Removed[edge{it.b, s}] {
				continue
			}
			facts := phiNilFacts(nilTestFacts(it.facts, it.b, s), it.b, s)
			if cc != nil {
				// truth of the canonical condition on this edge
				truth := (s == it.b.Succs[0]) != cc.neg
				if it.b.Succs[0] == it.b.Succs[1] {
					truth = true
				}
				known, val := factLookup(facts, cc.key)
				if known && val != truth && it.b.Succs[0] != it.b.Succs[1] {
					continue // contradicts an earlier test of the same stable condition on this path
				}
				if !known {
					facts = factAdd(facts, cc.key, truth)
				}
			}
			stack = append(stack, item{s, 0, node, it.b, facts})
		}
	}
	return Hit{}, false
}

type pathNode struct {
	b    *ssa.BasicBlock
	prev *pathNode
}

func (n *pathNode) list() []*ssa.BasicBlock {
	var out []*ssa.BasicBlock
	for x := n; x != nil; x = x.prev {
		out = append([]*ssa.BasicBlock{x.b}, out...)
	}
	return out
}

func instrIndex(in ssa.Instruction) int {
	for i, x := range in.Block().Instrs {
		if x == in {
			return i
		}
	}
	return -1
}

// pathStr renders a block path with the position of each block's first positioned instruction.
func (p *Program) pathStr(path []*ssa.BasicBlock) string {
	var parts []string
	for _, b := range path {
		pos := token.NoPos
		for _, in := range b.Instrs {
			if in.Pos().IsValid() {
				pos = in.Pos()
				break
			}
		}
		s := p.Pos(pos)
		if i := strings.LastIndex(s, ":"); i >= 0 {
			s = "L" + s[i+1:]
		}
		parts = append(parts, s)
		if len(parts) > 14 {
			parts = append(parts, "…")
			break
		}
	}
	return strings.Join(parts, "→")
}

// instrPos returns a usable position for an instruction (If has none: use its condition's).
func instrPos(in ssa.Instruction) token.Pos {
	if in == nil {
		return token.NoPos
	}
	if in.Pos().IsValid() {
		return in.Pos()
	}
	switch x := in.(type) {
	case *ssa.If:
		if v, ok := x.Cond.(ssa.Instruction); ok {
			return instrPos(v)
		}
	case *ssa.Return:
		for _, r := range x.Results {
			if v, ok := r.(ssa.Instruction); ok && v.Pos().IsValid() {
				return v.Pos()
			}
		}
	}
	// fall back: nearest earlier positioned instruction in the block
	b := in.Block()
	if b != nil {
		idx := instrIndex(in)
		for i := idx; i >= 0; i-- {
			if b.Instrs[i].Pos().IsValid() {
				return b.Instrs[i].Pos()
			}
		}
		for _, x := range b.Instrs {
			if x.Pos().IsValid() {
				return x.Pos()
			}
		}
	}
	return token.NoPos
}

// allInstrs iterates over the instructions of fn (optionally with anonymous functions).
func allInstrs(fn *ssa.Function, withAnon bool, f func(fn *ssa.Function, in ssa.Instruction)) {
	if fn == nil {
		return
	}
	for _, b := range fn.Blocks {
		for _, in := range b.Instrs {
			f(fn, in)
		}
	}
	if withAnon {
		for _, a := range fn.AnonFuncs {
			allInstrs(a, true, f)
		}
	}
}

func callCommon(in ssa.Instruction) *ssa.CallCommon {
	switch x := in.(type) {
	case *ssa.Call:
		return &x.Call
	case *ssa.Defer:
		return &x.Call
	case *ssa.Go:
		return &x.Call
	}
	return nil
}

// ownPhiCond returns the phi that is the block's own branch condition, if any.
func ownPhiCond(b *ssa.BasicBlock) *ssa.Phi {
	if len(b.Instrs) == 0 {
		return nil
	}
	iff, ok := b.Instrs[len(b.Instrs)-1].(*ssa.If)
	if !ok {
		return nil
	}
	if phi, ok := iff.Cond.(*ssa.Phi); ok && phi.Block() == b {
		return phi
	}
	return nil
}

// ---- correlated conditions --------------------------------------------------------------------------
// A condition over parameters and fields that contains no call and is not assigned in the function, and that is
// tested by two or more branches, has the same truth value at each test on one path. The walker prunes paths
// that take contradictory edges (the classic `if x == nil && a {…} else if x != nil && b {…}` idiom).

type corrCond struct {
	key string
	neg bool // the If's condition is the negation of the canonical key
}

var corrCache = map[*ssa.Function]map[*ssa.If]*corrCond{}

func canonCond(v ssa.Value) (string, bool, bool) {
	neg := false
	for {
		if u, ok := v.(*ssa.UnOp); ok && u.Op == token.NOT {
			v = u.X
			neg = !neg
			continue
		}
		break
	}
	if b, ok := v.(*ssa.BinOp); ok && isCmp(b.Op) {
		x, y := pathOf(b.X), pathOf(b.Y)
		if !purePath(x) || !purePath(y) {
			return "", false, false
		}
		switch b.Op {
		case token.EQL:
			return x + " == " + y, neg, true
		case token.NEQ:
			return x + " == " + y, !neg, true
		case token.LSS:
			return x + " < " + y, neg, true
		case token.GEQ:
			return x + " < " + y, !neg, true
		case token.GTR:
			return x + " > " + y, neg, true
		case token.LEQ:
			return x + " > " + y, !neg, true
		}
	}
	if _, ok := v.(*ssa.Phi); ok {
		return "", false, false
	}
	if p := pathOf(v); purePath(p) {
		return p, neg, true
	}
	return "", false, false
}

var purePathRe = regexp.MustCompile(`^(nil|const:[^()\[\]]*|[A-Za-z_][\w]*(\.[A-Za-z_]\w*|\[[A-Za-z_][\w.]*\])*)$`)

// purePath: a parameter/field access path (optionally indexed by another such path), nil or a constant — a value
// whose identity the path string really determines (no calls, iterators, channel operations, phis or allocations).
func purePath(p string) bool { return purePathRe.MatchString(p) }

func correlatedConds(fn *ssa.Function) map[*ssa.If]*corrCond {
	if m, ok := corrCache[fn]; ok {
		return m
	}
	var stores []string
	for _, b := range fn.Blocks {
		for _, in := range b.Instrs {
			switch st := in.(type) {
			case *ssa.Store:
				stores = append(stores, deref(pathOf(st.Addr)))
			case *ssa.MapUpdate:
				stores = append(stores, pathOf(st.Map))
			}
		}
	}
	byKey := map[string][]*ssa.If{}
	info := map[*ssa.If]*corrCond{}
	for _, b := range fn.Blocks {
		if len(b.Instrs) == 0 {
			continue
		}
		iff, ok := b.Instrs[len(b.Instrs)-1].(*ssa.If)
		if !ok {
			continue
		}
		key, neg, ok := canonCond(iff.Cond)
		if !ok {
			// the very same SSA value tested again: it has one dynamic value per execution of its defining
			// block, so outside loops two tests of it on one path agree
			v, n := iff.Cond, false
			for {
				if u, isNot := v.(*ssa.UnOp); isNot && u.Op == token.NOT {
					v, n = u.X, !n
					continue
				}
				break
			}
			if in, isInstr := v.(ssa.Instruction); isInstr {
				if _, isPhi := v.(*ssa.Phi); !isPhi && in.Block() != nil && !inCycle(in.Block()) {
					k := fmt.Sprintf("id:%p", v)
					info[iff] = &corrCond{k, n}
					byKey[k] = append(byKey[k], iff)
				}
			}
			continue
		}
		if strings.Contains(key, "call:") || strings.Contains(key, "phi") || strings.Contains(key, "<-") || strings.Contains(key, "alloc:") || strings.Contains(key, "…") {
			continue
		}
		stable := true
		for _, s := range stores {
			if s != "" && strings.Contains(key, s) {
				stable = false
				break
			}
		}
		if !stable {
			continue
		}
		info[iff] = &corrCond{key, neg}
		byKey[key] = append(byKey[key], iff)
	}
	out := map[*ssa.If]*corrCond{}
	for k, ifs := range byKey {
		if len(ifs) >= 2 {
			for _, i := range ifs {
				out[i] = info[i]
			}
		}
		_ = k
	}
	corrCache[fn] = out
	return out
}

// ---- nil-ness of error phis ------------------------------------------------------------------------------
// A phi that merges an error value records, per path, whether the incoming value is the literal nil or a
// package-level error variable (non-nil by construction: errors.New / fmt.Errorf at package init). A later
// `phi == nil` / `phi != nil` test on the same path is then decided. The fact is part of the walker's state key.

func nilClass(v ssa.Value) (isNil, known bool) {
	switch x := v.(type) {
	case *ssa.Const:
		if x.Value == nil {
			return true, true
		}
	case *ssa.UnOp:
		if x.Op == token.MUL {
			if g, ok := x.X.(*ssa.Global); ok && (strings.HasPrefix(g.Name(), "Err") || strings.HasPrefix(g.Name(), "err")) {
				return false, true
			}
		}
	case *ssa.MakeInterface:
		return false, true
	case *ssa.Call:
		// constructors of errors never return nil; a module function all of whose returns are non-nil does not either
		if f := x.Call.StaticCallee(); f != nil && neverNil(f, 0) {
			return false, true
		}
	}
	return false, false
}

var neverNilBase = map[string]bool{"fmt.Errorf": true, "errors.New": true, "github.com/pkg/errors.New": true, "github.com/pkg/errors.Errorf": true}
var neverNilCache = map[*ssa.Function]int{} // 0 unknown, 1 yes, 2 no, 3 in progress

// neverNil: the function has a single result and every return hands out a value known to be non-nil.
func neverNil(f *ssa.Function, depth int) bool {
	if neverNilBase[f.String()] {
		return true
	}
	switch neverNilCache[f] {
	case 1:
		return true
	case 2, 3:
		return false
	}
	if depth > 4 || len(f.Blocks) == 0 || f.Signature.Results().Len() != 1 {
		neverNilCache[f] = 2
		return false
	}
	neverNilCache[f] = 3
	ok, any := true, false
	for _, b := range f.Blocks {
		for _, in := range b.Instrs {
			r, isRet := in.(*ssa.Return)
			if !isRet {
				continue
			}
			any = true
			isNil, known := nilClass(r.Results[0])
			if !known || isNil {
				ok = false
			}
		}
	}
	if ok && any {
		neverNilCache[f] = 1
		return true
	}
	neverNilCache[f] = 2
	return false
}

// nilTestFacts: taking an edge of `v == nil` / `v != nil` tells the path whether v is nil, for values that flow into a
// phi of the function (the result variable of an expanded helper, a named result): the phi then inherits the fact.
var phiInputs = map[*ssa.Function]map[ssa.Value]bool{}

func nilTestFacts(facts string, from, to *ssa.BasicBlock) string {
	if len(from.Instrs) == 0 || len(from.Succs) != 2 || from.Succs[0] == from.Succs[1] {
		return facts
	}
	iff, ok := from.Instrs[len(from.Instrs)-1].(*ssa.If)
	if !ok {
		return facts
	}
	bo, ok := iff.Cond.(*ssa.BinOp)
	if !ok || (bo.Op != token.EQL && bo.Op != token.NEQ) {
		return facts
	}
	var v ssa.Value
	if k, ok := bo.Y.(*ssa.Const); ok && k.Value == nil {
		v = bo.X
	} else if k, ok := bo.X.(*ssa.Const); ok && k.Value == nil {
		v = bo.Y
	}
	if v == nil {
		return facts
	}
	fn := from.Parent()
	ins, ok := phiInputs[fn]
	if !ok {
		ins = map[ssa.Value]bool{}
		for _, b := range fn.Blocks {
			for _, in := range b.Instrs {
				if phi, ok := in.(*ssa.Phi); ok {
					for _, e := range phi.Edges {
						if _, isConst := e.(*ssa.Const); !isConst {
							ins[e] = true
						}
					}
				}
			}
		}
		phiInputs[fn] = ins
	}
	if !ins[v] {
		return facts
	}
	if in, isInstr := v.(ssa.Instruction); isInstr && in.Block() != nil && inCycle(in.Block()) {
		return facts // one static value, many dynamic ones
	}
	isNil := (to == from.Succs[0]) == (bo.Op == token.EQL)
	key := fmt.Sprintf("nilv:%p", v)
	return factAdd(factDel(facts, key), key, isNil)
}

func phiNilFacts(facts string, from, to *ssa.BasicBlock) string {
	idx := -1
	for i, p := range to.Preds {
		if p == from {
			idx = i
			break
		}
	}
	if idx < 0 {
		return facts
	}
	for _, in := range to.Instrs {
		phi, ok := in.(*ssa.Phi)
		if !ok {
			break
		}
		switch phi.Type().Underlying().(type) {
		case *types.Interface, *types.Pointer:
		default:
			continue
		}
		if idx >= len(phi.Edges) {
			continue
		}
		key := fmt.Sprintf("nil:%p", phi)
		isNil, known := nilClass(phi.Edges[idx])
		if !known {
			// the incoming value was tested against nil earlier on this path, or is itself a phi with a known fact
			if kn, v := factLookup(facts, fmt.Sprintf("nilv:%p", phi.Edges[idx])); kn {
				isNil, known = v, true
			} else if q, isPhi := phi.Edges[idx].(*ssa.Phi); isPhi {
				if kn, v := factLookup(facts, fmt.Sprintf("nil:%p", q)); kn {
					isNil, known = v, true
				}
			}
		}
		facts = factDel(facts, key)
		if known {
			facts = factAdd(facts, key, isNil)
		}
	}
	return facts
}

// phiNilDecision: the block ends in `phi == nil` / `phi != nil` and the path knows the phi's nil-ness.
func phiNilDecision(b *ssa.BasicBlock, facts string) (takeTrue, known bool) {
	if len(b.Instrs) == 0 || facts == "" {
		return false, false
	}
	iff, ok := b.Instrs[len(b.Instrs)-1].(*ssa.If)
	if !ok {
		return false, false
	}
	bo, ok := iff.Cond.(*ssa.BinOp)
	if !ok || (bo.Op != token.EQL && bo.Op != token.NEQ) {
		return false, false
	}
	var tested ssa.Value
	if k, ok := bo.Y.(*ssa.Const); ok && k.Value == nil {
		tested = bo.X
	} else if k, ok := bo.X.(*ssa.Const); ok && k.Value == nil {
		tested = bo.Y
	}
	if tested == nil {
		return false, false
	}
	// a named result kept in a cell: the value tested is what the nearest preceding store of this block put there
	if ld, ok := tested.(*ssa.UnOp); ok && ld.Op == token.MUL {
		if cell, ok := ld.X.(*ssa.Alloc); ok && ld.Block() == b {
			var last ssa.Value
			for _, in := range b.Instrs {
				if in == ssa.Instruction(ld) {
					break
				}
				if st, ok := in.(*ssa.Store); ok && st.Addr == cell {
					last = st.Val
				}
			}
			if last != nil {
				tested = last
			}
		}
	}
	if phi, ok := tested.(*ssa.Phi); ok {
		if kn, isNil := factLookup(facts, fmt.Sprintf("nil:%p", phi)); kn {
			return isNil == (bo.Op == token.EQL), true
		}
		return false, false
	}
	if _, isLoad := tested.(*ssa.UnOp); !isLoad {
		if isNil, known := nilClass(tested); known && tested != bo.X && tested != bo.Y {
			return isNil == (bo.Op == token.EQL), true
		}
	}
	return false, false
}

func factDel(facts, key string) string {
	if !strings.Contains(facts, "\x00"+key+"\x01") {
		return facts
	}
	var keep []string
	for _, p := range strings.Split(facts, "\x02") {
		if !strings.HasPrefix(p, "\x00"+key+"\x01") {
			keep = append(keep, p)
		}
	}
	return strings.Join(keep, "\x02")
}

// inCycle: the block can reach itself.
func inCycle(b *ssa.BasicBlock) bool {
	seen := map[*ssa.BasicBlock]bool{}
	stack := append([]*ssa.BasicBlock{}, b.Succs...)
	for len(stack) > 0 {
		x := stack[len(stack)-1]
		stack = stack[:len(stack)-1]
		if x == b {
			return true
		}
		if seen[x] {
			continue
		}
		seen[x] = true
		stack = append(stack, x.Succs...)
	}
	return false
}

func factLookup(facts, key string) (known, val bool) {
	if i := strings.Index(facts, "\x00"+key+"\x01"); i >= 0 {
		return true, facts[i+len(key)+2] == 'T'
	}
	return false, false
}

func factAdd(facts, key string, val bool) string {
	v := "F"
	if val {
		v = "T"
	}
	parts := strings.Split(facts, "\x02")
	parts = append(parts, "\x00"+key+"\x01"+v)
	sort.Strings(parts)
	return strings.Join(parts, "\x02")
}

func hasPhi(b *ssa.BasicBlock) bool {
	if len(b.Instrs) == 0 {
		return false
	}
	_, ok := b.Instrs[0].(*ssa.Phi)
	return ok
}
