package main

// Loading of /repo's current working tree into a type-checked, SSA-built program.

import (
	"encoding/json"
	"fmt"
	"go/ast"
	"go/token"
	"go/types"
	"os"
	"path/filepath"
	"regexp"
	"sort"
	"strconv"
	"strings"
	"time"

	"golang.org/x/tools/go/callgraph"
	"golang.org/x/tools/go/callgraph/cha"
	"golang.org/x/tools/go/callgraph/vta"
	"golang.org/x/tools/go/packages"
	"golang.org/x/tools/go/ssa"
	"golang.org/x/tools/go/ssa/ssautil"
)

const modPath = "github.com/kardiachain/go-kardia"

// Program is everything a rule may look at.
type Program struct {
	Root     string
	Tags     string
	Fset     *token.FileSet
	Pkgs     []*packages.Package
	ByPath   map[string]*packages.Package
	SSA      *ssa.Program
	SSAPkgs  map[string]*ssa.Package
	AllFuncs map[*ssa.Function]bool
	Renamed  int             // values printed under their frozen (pinned-tree) name, see names.go
	ModFuncs []*ssa.Function // functions (incl. anonymous) declared in module packages, sorted by name
	cg       *callgraph.Graph
	noRet    map[*ssa.Function]bool
	Inline   inlineReport // helpers expanded before analysis (inline.go)
	Ignored  []string     // files ignored by build constraints in module packages
	LoadS    float64
	Files    int
}

type LoadOpts struct {
	Root     string
	Tags     string
	Env      []string
	Overlay  map[string][]byte
	Deps     bool // LoadAllSyntax
	NoInline bool
	Pattern  []string
}

func loadOverlayFile(path string) (map[string][]byte, error) {
	// format: {"Replace": {"/repo/x.go": "/path/to/replacement.go"}} (same as go build -overlay)
	b, err := os.ReadFile(path)
	if err != nil {
		return nil, err
	}
	var o struct{ Replace map[string]string }
	if err := json.Unmarshal(b, &o); err != nil {
		return nil, err
	}
	out := map[string][]byte{}
	for k, v := range o.Replace {
		c, err := os.ReadFile(v)
		if err != nil {
			return nil, err
		}
		out[k] = c
	}
	return out, nil
}

func Load(o LoadOpts) (*Program, error) {
	t0 := time.Now()
	mode := packages.LoadSyntax
	if o.Deps {
		mode = packages.LoadAllSyntax
	}
	env := append(os.Environ(), "GOFLAGS=-mod=mod", "GOPROXY=off", "GOSUMDB=off", "GOWORK=off", "GOTOOLCHAIN=local")
	env = append(env, o.Env...)
	cfg := &packages.Config{Mode: mode, Dir: o.Root, Env: env, Tests: false, Overlay: o.Overlay}
	if o.Tags != "" {
		cfg.BuildFlags = []string{"-tags=" + o.Tags}
	}
	pat := o.Pattern
	if len(pat) == 0 {
		pat = []string{"./..."}
	}
	p := &Program{Root: o.Root, Tags: o.Tags, ByPath: map[string]*packages.Package{}, SSAPkgs: map[string]*ssa.Package{}}
	loadOnce := func(ov map[string][]byte) ([]*packages.Package, int, error) {
		c2 := *cfg
		c2.Overlay = ov
		pkgs, err := packages.Load(&c2, pat...)
		if err != nil {
			return nil, 0, fmt.Errorf("packages.Load: %w", err)
		}
		var errs []string
		n := 0
		packages.Visit(pkgs, nil, func(pk *packages.Package) {
			if strings.HasPrefix(pk.PkgPath, modPath) {
				for _, e := range pk.Errors {
					errs = append(errs, pk.PkgPath+": "+e.Error())
				}
			}
		})
		for _, pk := range pkgs {
			if strings.HasPrefix(pk.PkgPath, modPath) {
				n++
			}
		}
		if len(errs) > 0 {
			sort.Strings(errs)
			if len(errs) > 10 {
				errs = errs[:10]
			}
			return nil, 0, fmt.Errorf("type/load errors in module packages:\n  %s", strings.Join(errs, "\n  "))
		}
		return pkgs, n, nil
	}
	pkgs, n, err := loadOnce(o.Overlay)
	if err != nil {
		return nil, err
	}
	// helpers that do not exist in the pinned tree are expanded at their call sites (inline.go); a rewritten tree that
	// does not load is abandoned
	if frozen, ferr := frozenNames(); ferr == nil && !o.NoInline {
		for k := range renamedFuncs {
			delete(renamedFuncs, k)
		}
		for n, old := range detectRenames(pkgs, frozen) {
			renamedFuncs[n] = old
			p.Inline.Renamed = append(p.Inline.Renamed, short(old)+" is now "+n[strings.LastIndex(n, ".")+1:])
		}
		sort.Strings(p.Inline.Renamed)
		ov := map[string][]byte{}
		for k, v := range o.Overlay {
			ov[k] = v
		}
		for round := 0; round < 3; round++ {
			add, rep := inlineNewHelpers(pkgs, frozen, ov, round)
			p.Inline.Skipped = append(p.Inline.Skipped, rep.Skipped...)
			if rep.Fallback != "" {
				p.Inline.Fallback = rep.Fallback
			}
			if len(add) == 0 {
				break
			}
			ov2 := map[string][]byte{}
			for k, v := range ov {
				ov2[k] = v
			}
			for k, v := range add {
				ov2[k] = v
			}
			pk2, n2, err2 := loadOnce(ov2)
			if err2 != nil && strings.Contains(err2.Error(), "imported and not used") {
				// removing a fully expanded helper can leave an import of its file unused: keep the import for its effects only
				if fixed := blankUnusedImports(ov2, err2.Error()); fixed {
					pk2, n2, err2 = loadOnce(ov2)
				}
			}
			if err2 != nil {
				p.Inline.Fallback = "the tree with helpers expanded does not load: " + clip(err2.Error(), 600)
				if os.Getenv("KVET_INLINE_DEBUG") != "" {
					for k, v := range add {
						os.WriteFile("/tmp/kvet-inline-"+strings.ReplaceAll(rel(o.Root, k), "/", "_"), v, 0o644)
					}
				}
				break
			}
			pkgs, n, ov = pk2, n2, ov2
			p.Inline.Helpers = append(p.Inline.Helpers, rep.Helpers...)
			p.Inline.Sites += rep.Sites
			if p.Inline.LineMap == nil {
				p.Inline.LineMap = map[string][]int{}
			}
			for f, lm := range rep.LineMap {
				if prev, ok := p.Inline.LineMap[f]; ok {
					// compose: new line -> line of previous round -> original line
					for i, l := range lm {
						if l-1 < len(prev) && l >= 1 {
							lm[i] = prev[l-1]
						}
					}
				}
				p.Inline.LineMap[f] = lm
			}
		}
	}
	if os.Getenv("KVET_INLINE_DEBUG") != "" {
		fmt.Fprintf(os.Stderr, "inline: helpers=%v sites=%d fallback=%q\n  left alone: %s\n", p.Inline.Helpers, p.Inline.Sites, p.Inline.Fallback, strings.Join(p.Inline.Skipped, "\n  "))
	}
	for _, pk := range pkgs {
		if !strings.HasPrefix(pk.PkgPath, modPath) {
			continue
		}
		p.ByPath[pk.PkgPath] = pk
		p.Files += len(pk.CompiledGoFiles)
		for _, f := range pk.IgnoredFiles {
			if strings.HasSuffix(f, ".go") && !strings.HasSuffix(f, "_test.go") {
				p.Ignored = append(p.Ignored, rel(o.Root, f))
			}
		}
	}
	if len(pat) == 1 && pat[0] == "./..." && n < 130 {
		return nil, fmt.Errorf("only %d module packages loaded (expected >= 130)", n)
	}
	if n == 0 {
		return nil, fmt.Errorf("no module packages loaded")
	}
	p.Pkgs = pkgs
	if len(pkgs) > 0 {
		p.Fset = pkgs[0].Fset
	}
	var prog *ssa.Program
	if o.Deps {
		prog, _ = ssautil.AllPackages(pkgs, ssa.InstantiateGenerics)
	} else {
		// module packages from source, dependencies from type information only
		prog, _ = ssautil.Packages(pkgs, ssa.InstantiateGenerics)
	}
	prog.Build()
	p.SSA = prog
	for _, sp := range prog.AllPackages() {
		if sp != nil && sp.Pkg != nil {
			p.SSAPkgs[sp.Pkg.Path()] = sp
		}
	}
	p.AllFuncs = ssautil.AllFunctions(prog)
	for f := range p.AllFuncs {
		if f.Pkg != nil && f.Pkg.Pkg != nil && strings.HasPrefix(f.Pkg.Pkg.Path(), modPath) && f.Blocks != nil {
			p.ModFuncs = append(p.ModFuncs, f)
		} else if f.Pkg == nil && f.Blocks != nil {
			// wrappers/instantiations: attribute by origin
			if o := f.Origin(); o != nil && o.Pkg != nil && strings.HasPrefix(o.Pkg.Pkg.Path(), modPath) {
				p.ModFuncs = append(p.ModFuncs, f)
			}
		}
	}
	sort.Slice(p.ModFuncs, func(i, j int) bool {
		a, b := p.ModFuncs[i], p.ModFuncs[j]
		if a.String() != b.String() {
			return a.String() < b.String()
		}
		return a.Pos() < b.Pos()
	})
	if p.Renamed, err = applyFrozenNames(p); err != nil {
		return nil, fmt.Errorf("names.json: %w", err)
	}
	p.LoadS = time.Since(t0).Seconds()
	return p, nil
}

func rel(root, f string) string {
	if r, err := filepath.Rel(root, f); err == nil && !strings.HasPrefix(r, "..") {
		return r
	}
	return f
}

// CallGraph builds (once) the VTA call graph seeded with CHA.
func (p *Program) CallGraph() *callgraph.Graph {
	if p.cg == nil {
		p.cg = vta.CallGraph(p.AllFuncs, cha.CallGraph(p.SSA))
	}
	return p.cg
}

// Pos renders a position relative to the repo root.
func (p *Program) Pos(pos token.Pos) string {
	if !pos.IsValid() {
		return "?"
	}
	ps := p.Fset.Position(pos)
	if lm, ok := p.Inline.LineMap[ps.Filename]; ok && ps.Line >= 1 && ps.Line <= len(lm) {
		// the file was analysed with helpers expanded: report the line of the source as written
		return fmt.Sprintf("%s:%d", rel(p.Root, ps.Filename), lm[ps.Line-1])
	}
	return fmt.Sprintf("%s:%d", rel(p.Root, ps.Filename), ps.Line)
}

// short strips the module path from a qualified name.
func short(s string) string {
	for n, old := range renamedFuncs {
		if strings.Contains(s, n) {
			s = strings.ReplaceAll(s, n, old)
		}
	}
	s = strings.ReplaceAll(s, modPath+"/", "")
	return strings.ReplaceAll(s, modPath, "go-kardia")
}

// Func resolves "pkg", "Recv" (may be ""), "name" to the SSA function, nil if absent.
func (p *Program) Func(pkg, recv, name string) *ssa.Function {
	if f := p.func0(pkg, recv, name); f != nil {
		return f
	}
	// the function may have been renamed (names.go): look it up under its current name
	full := modPath + "/" + pkg
	if pkg == "" {
		full = modPath
	}
	for n, old := range renamedFuncs {
		if old == full+"."+name || old == "(*"+full+"."+recv+")."+name || old == "("+full+"."+recv+")."+name {
			return p.func0(pkg, recv, n[strings.LastIndex(n, ".")+1:])
		}
	}
	return nil
}

func (p *Program) func0(pkg, recv, name string) *ssa.Function {
	sp := p.SSAPkgs[modPath+"/"+pkg]
	if pkg == "" {
		sp = p.SSAPkgs[modPath]
	}
	if sp == nil {
		return nil
	}
	if recv == "" {
		return sp.Func(name)
	}
	t := sp.Type(recv)
	if t == nil {
		return nil
	}
	for _, typ := range []types.Type{t.Type(), types.NewPointer(t.Type())} {
		ms := p.SSA.MethodSets.MethodSet(typ)
		for i := 0; i < ms.Len(); i++ {
			if ms.At(i).Obj().Name() == name && ms.At(i).Obj().Pkg() == sp.Pkg {
				if fn := p.SSA.MethodValue(ms.At(i)); fn != nil {
					// unwrap promoted-method wrappers only if declared on this type
					return fn
				}
			}
		}
	}
	return nil
}

// FuncByName resolves a short qualified name as printed by short(fn.String()),
// e.g. "(*consensus.ConsensusState).enterPrecommit" or "types.NewBlock".
func (p *Program) FuncByName(name string) *ssa.Function {
	for _, f := range p.ModFuncs {
		if short(f.String()) == name {
			return f
		}
	}
	return nil
}

// Const returns the exact string of a package-level constant, "" if absent.
func (p *Program) Const(pkg, name string) string {
	pk := p.ByPath[modPath+"/"+pkg]
	if pk == nil || pk.Types == nil {
		return ""
	}
	if c, ok := pk.Types.Scope().Lookup(name).(*types.Const); ok {
		return c.Val().ExactString()
	}
	return ""
}

// NamedStruct returns the struct type of a named type in a module package.
func (p *Program) NamedStruct(pkg, name string) (*types.Named, *types.Struct) {
	pk := p.ByPath[modPath+"/"+pkg]
	if pk == nil || pk.Types == nil {
		return nil, nil
	}
	tn, ok := pk.Types.Scope().Lookup(name).(*types.TypeName)
	if !ok {
		return nil, nil
	}
	nt, ok := tn.Type().(*types.Named)
	if !ok {
		return nil, nil
	}
	st, _ := nt.Underlying().(*types.Struct)
	return nt, st
}

// FileAST returns the parsed file for a repo-relative path.
func (p *Program) FileAST(relpath string) (*ast.File, *packages.Package) {
	want := filepath.Join(p.Root, relpath)
	for _, pk := range p.ByPath {
		for i, f := range pk.CompiledGoFiles {
			if f == want && i < len(pk.Syntax) {
				return pk.Syntax[i], pk
			}
		}
	}
	return nil, nil
}

// HasFile reports whether a repo-relative file is compiled into some loaded module package.
func (p *Program) HasFile(relpath string) bool {
	f, _ := p.FileAST(relpath)
	return f != nil
}

// MethodsOf lists the source-declared methods (value and pointer receivers) of a named type in a module package.
func (p *Program) MethodsOf(pkg, recv string) []*ssa.Function {
	var out []*ssa.Function
	pre1, pre2 := "("+pkg+"."+recv+").", "(*"+pkg+"."+recv+")."
	for _, f := range p.ModFuncs {
		s := short(f.String())
		if (strings.HasPrefix(s, pre1) || strings.HasPrefix(s, pre2)) && f.Parent() == nil && f.Synthetic == "" {
			out = append(out, f)
		}
	}
	sort.Slice(out, func(i, j int) bool { return out[i].Name() < out[j].Name() })
	return out
}

// Global returns a package-level variable of a module package.
func (p *Program) Global(pkg, name string) *ssa.Global {
	sp := p.SSAPkgs[modPath+"/"+pkg]
	if sp == nil {
		return nil
	}
	g, _ := sp.Members[name].(*ssa.Global)
	return g
}

// blankUnusedImports rewrites `"p" imported and not used` imports of overlay files to blank imports.
func blankUnusedImports(ov map[string][]byte, errText string) bool {
	re := regexp.MustCompile(`(?m)(/[^\s:]+\.go):(\d+):\d+: "[^"]+" imported (?:as \S+ )?and not used`)
	fixed := false
	for _, m := range re.FindAllStringSubmatch(errText, -1) {
		src, ok := ov[m[1]]
		if !ok {
			continue
		}
		ln, _ := strconv.Atoi(m[2])
		lines := strings.Split(string(src), "\n")
		if ln < 1 || ln > len(lines) {
			continue
		}
		l := lines[ln-1]
		i := strings.Index(l, `"`)
		if i < 0 {
			continue
		}
		head := strings.TrimSpace(l[:i])
		switch {
		case head == "" || head == "import":
			lines[ln-1] = l[:i] + "_ " + l[i:]
		default: // named import: replace the name
			j := strings.LastIndex(l[:i], head[strings.LastIndex(head, " ")+1:])
			lines[ln-1] = l[:j] + "_ " + l[i:]
		}
		ov[m[1]] = []byte(strings.Join(lines, "\n"))
		fixed = true
	}
	return fixed
}
