package main

// Rule primitives shared by the per-property rule files.

import (
	"fmt"
	"go/constant"
	"go/token"
	"go/types"
	"sort"
	"strings"

	"golang.org/x/tools/go/ssa"
)

// Guarded (rule G): every instruction selected by sel in fn is reachable from the entry only through the
// passing edge of each guard. One obligation per guard.
func (c *Ctx) Guarded(fn *ssa.Function, sinkDesc string, sel SinkSel, guards ...Guard) {
	if fn == nil {
		return
	}
	sinks := findInstrs(fn, sel)
	for _, g := range guards {
		key := fnName(fn) + "/" + sinkDesc + " <= " + g.Desc
		if len(sinks) == 0 {
			c.Unres("G", key, "no sink matching '"+sinkDesc+"' found in "+fnName(fn)+" (anchor moved?)")
			continue
		}
		sites := c.P.guardEdges(fn, g)
		if len(sites) == 0 {
			c.Bad("G", key, instrPos(sinks[0]), len(sinks), fmt.Sprintf("guard '%s' not found in %s: no branch tests it with the required polarity; sink %s is therefore unguarded", g.Desc, fnName(fn), describeInstr(sinks[0])))
			continue
		}
		rm := map[edge]bool{}
		var gd []string
		for _, s := range sites {
			rm[s.Pass] = true
			gd = append(gd, s.Desc)
		}
		w := &Walker{P: c.P, Removed: rm}
		isSink := map[ssa.Instruction]bool{}
		for _, s := range sinks {
			isSink[s] = true
		}
		hit, found := w.Reach(fn, fn.Blocks[0], 0, func(in ssa.Instruction) bool { return isSink[in] })
		if found {
			c.Bad("G", key, instrPos(hit.Instr), len(sinks)+len(sites), fmt.Sprintf("sink %s at %s is reachable without passing guard '%s' (guards seen: %s); path %s",
				describeInstr(hit.Instr), c.P.Pos(instrPos(hit.Instr)), g.Desc, strings.Join(gd, " | "), c.P.pathStr(hit.Path)))
		} else {
			c.OK("G", key, instrPos(sinks[0]), len(sinks)+len(sites), fmt.Sprintf("%d sink(s) only through: %s", len(sinks), strings.Join(gd, " | ")))
			c.recordFlipSites(key, sites)
		}
	}
}

// GuardedUnless (rule G): like Guarded, but a path that passes an instruction selected by unless is fine without the
// guards ("enter the step of round r only when the node is in round r — or has just been moved there").
func (c *Ctx) GuardedUnless(fn *ssa.Function, sinkDesc string, sel SinkSel, unlessDesc string, unless SinkSel, guards ...Guard) {
	if fn == nil {
		return
	}
	sinks := findInstrs(fn, sel)
	for _, g := range guards {
		key := fnName(fn) + "/" + sinkDesc + " <= " + g.Desc + ", or after " + unlessDesc
		if len(sinks) == 0 {
			c.Unres("G", key, "no sink matching '"+sinkDesc+"' found in "+fnName(fn)+" (anchor moved?)")
			continue
		}
		sites := c.P.guardEdges(fn, g)
		rm := map[edge]bool{}
		var gd []string
		for _, s := range sites {
			rm[s.Pass] = true
			gd = append(gd, s.Desc)
		}
		isSink := map[ssa.Instruction]bool{}
		for _, s := range sinks {
			isSink[s] = true
		}
		w := &Walker{P: c.P, Removed: rm, Stop: unless}
		hit, found := w.Reach(fn, fn.Blocks[0], 0, func(in ssa.Instruction) bool { return isSink[in] })
		if found {
			c.Bad("G", key, instrPos(hit.Instr), len(sinks)+len(sites), fmt.Sprintf("sink %s at %s is reachable without passing guard '%s' and without %s (guards seen: %s); path %s",
				describeInstr(hit.Instr), c.P.Pos(instrPos(hit.Instr)), g.Desc, unlessDesc, strings.Join(gd, " | "), c.P.pathStr(hit.Path)))
		} else {
			c.OK("G", key, instrPos(sinks[0]), len(sinks)+len(sites), fmt.Sprintf("%d sink(s) only through: %s, or after %s", len(sinks), strings.Join(gd, " | "), unlessDesc))
			c.recordFlipSites(key, sites)
		}
	}
}

// GuardedBetween (rule G): on every path that starts right after an instruction selected by from and reaches one selected
// by sink without passing one selected by stop, each guard has been passed. Used for loops: "from receiving a request,
// the loop head is reached again without having armed the timer only when the request was tested to be stale".
func (c *Ctx) GuardedBetween(fn *ssa.Function, desc string, from, stop, sink SinkSel, guards ...Guard) {
	if fn == nil {
		return
	}
	starts := findInstrs(fn, from)
	sinks := findInstrs(fn, sink)
	for _, g := range guards {
		key := fnName(fn) + "/" + desc + " <= " + g.Desc
		if len(starts) == 0 || len(sinks) == 0 || len(findInstrs(fn, stop)) == 0 {
			c.Unres("G", key, "start, stop or end of '"+desc+"' not found in "+fnName(fn)+" (anchor moved?)")
			continue
		}
		sites := c.P.guardEdges(fn, g)
		if len(sites) == 0 {
			c.Bad("G", key, instrPos(starts[0]), len(starts), fmt.Sprintf("guard '%s' not found in %s: no branch tests it with the required polarity", g.Desc, fnName(fn)))
			continue
		}
		rm := map[edge]bool{}
		var gd []string
		for _, s := range sites {
			rm[s.Pass] = true
			gd = append(gd, s.Desc)
		}
		isSink := map[ssa.Instruction]bool{}
		for _, s := range sinks {
			isSink[s] = true
		}
		bad := false
		for _, st := range starts {
			idx := 0
			for i, in := range st.Block().Instrs {
				if in == st {
					idx = i + 1
				}
			}
			w := &Walker{P: c.P, Removed: rm, Stop: stop}
			hit, found := w.Reach(fn, st.Block(), idx, func(in ssa.Instruction) bool { return isSink[in] })
			if found {
				bad = true
				c.Bad("G", key, instrPos(st), len(starts)+len(sites), fmt.Sprintf("from %s the point %s is reached without %s and without passing guard '%s' (guards seen: %s); path %s",
					describeInstr(st), describeInstr(hit.Instr), "the stop step", g.Desc, strings.Join(gd, " | "), c.P.pathStr(hit.Path)))
				break
			}
		}
		if !bad {
			c.OK("G", key, instrPos(starts[0]), len(starts)+len(sites), "only through: "+strings.Join(gd, " | "))
			c.recordFlipSites(key, sites)
		}
	}
}

// Precedes (rule O): on every path from the entry of fn to an instruction selected by then, an instruction
// selected by first occurs before it.
func (c *Ctx) Precedes(fn *ssa.Function, firstDesc string, first SinkSel, thenDesc string, then SinkSel) {
	if fn == nil {
		return
	}
	key := fnName(fn) + "/" + firstDesc + " precedes " + thenDesc
	thens := findInstrs(fn, then)
	firsts := findInstrs(fn, first)
	if len(thens) == 0 {
		c.Unres("O", key, "no instruction matching '"+thenDesc+"' in "+fnName(fn))
		return
	}
	if len(firsts) == 0 {
		c.Bad("O", key, instrPos(thens[0]), len(thens), "no '"+firstDesc+"' in "+fnName(fn)+" at all; '"+thenDesc+"' at "+c.P.Pos(instrPos(thens[0]))+" is not preceded by it")
		return
	}
	// a deferred or spawned `first` has not happened yet where it is registered
	happened := func(in ssa.Instruction) bool {
		switch in.(type) {
		case *ssa.Defer, *ssa.Go:
			if !c.RegistrationIsEvent && callCommon(in) != nil && !then(in) {
				return false
			}
		}
		return first(in)
	}
	w := &Walker{P: c.P, Stop: happened}
	hit, found := w.Reach(fn, fn.Blocks[0], 0, func(in ssa.Instruction) bool { return !happened(in) && then(in) })
	if found {
		c.Bad("O", key, instrPos(hit.Instr), len(thens)+len(firsts), fmt.Sprintf("%s at %s reachable without a preceding %s; path %s", describeInstr(hit.Instr), c.P.Pos(instrPos(hit.Instr)), firstDesc, c.P.pathStr(hit.Path)))
		return
	}
	c.OK("O", key, instrPos(thens[0]), len(thens)+len(firsts), fmt.Sprintf("%d '%s' site(s) each preceded by '%s' (%d site(s))", len(thens), thenDesc, firstDesc, len(firsts)))
}

// FollowedBy (rule O): after every instruction selected by from, every path to an exit selected by exit passes
// an instruction selected by rel (a `defer rel` counts from where it is registered).
func (c *Ctx) FollowedBy(fn *ssa.Function, fromDesc string, from SinkSel, relDesc string, rel SinkSel, exitDesc string, exit SinkSel) {
	if fn == nil {
		return
	}
	key := fnName(fn) + "/" + fromDesc + " followed by " + relDesc + " before " + exitDesc
	froms := findInstrs(fn, from)
	if len(froms) == 0 {
		c.Unres("O", key, "no instruction matching '"+fromDesc+"' in "+fnName(fn))
		return
	}
	for _, f := range froms {
		w := &Walker{P: c.P, Stop: func(in ssa.Instruction) bool { return rel(in) }}
		hit, found := w.Reach(fn, f.Block(), instrIndex(f)+1, func(in ssa.Instruction) bool { return !rel(in) && exit(in) })
		if found {
			c.Bad("O", key, instrPos(hit.Instr), len(froms), fmt.Sprintf("after %s at %s the exit %s at %s is reachable without %s; path %s",
				describeInstr(f), c.P.Pos(instrPos(f)), describeInstr(hit.Instr), c.P.Pos(instrPos(hit.Instr)), relDesc, c.P.pathStr(hit.Path)))
			return
		}
	}
	c.OK("O", key, instrPos(froms[0]), len(froms), fmt.Sprintf("%d '%s' site(s), each followed by '%s' on every path to %s", len(froms), fromDesc, relDesc, exitDesc))
}

// OnEveryPath (rule O): every path from entry to a (non-panicking) exit selected by exit passes sel.
func (c *Ctx) OnEveryPath(fn *ssa.Function, desc string, sel SinkSel, exitDesc string, exit SinkSel) {
	if fn == nil {
		return
	}
	key := fnName(fn) + "/" + desc + " on every path to " + exitDesc
	n := len(findInstrs(fn, sel))
	if n == 0 {
		c.Bad("O", key, fn.Pos(), 0, "no '"+desc+"' in "+fnName(fn))
		return
	}
	w := &Walker{P: c.P, Stop: func(in ssa.Instruction) bool { return sel(in) }}
	hit, found := w.Reach(fn, fn.Blocks[0], 0, func(in ssa.Instruction) bool { return !sel(in) && exit(in) })
	if found {
		c.Bad("O", key, instrPos(hit.Instr), n, fmt.Sprintf("exit %s at %s reachable without %s; path %s", describeInstr(hit.Instr), c.P.Pos(instrPos(hit.Instr)), desc, c.P.pathStr(hit.Path)))
		return
	}
	c.OK("O", key, fn.Pos(), n, fmt.Sprintf("%d '%s' site(s) cover every path to %s", n, desc, exitDesc))
}

// AtMostOncePerPath (rule O): no path executes two instructions selected by sel.
func (c *Ctx) AtMostOncePerPath(fn *ssa.Function, desc string, sel SinkSel) {
	if fn == nil {
		return
	}
	key := fnName(fn) + "/at most one " + desc + " per path"
	sites := findInstrs(fn, sel)
	if len(sites) == 0 {
		c.Unres("O", key, "no '"+desc+"' in "+fnName(fn))
		return
	}
	for _, s := range sites {
		w := &Walker{P: c.P}
		hit, found := w.Reach(fn, s.Block(), instrIndex(s)+1, sel)
		if found {
			c.Bad("O", key, instrPos(hit.Instr), len(sites), fmt.Sprintf("%s at %s can be followed by a second one at %s; path %s", desc, c.P.Pos(instrPos(s)), c.P.Pos(instrPos(hit.Instr)), c.P.pathStr(hit.Path)))
			return
		}
	}
	c.OK("O", key, instrPos(sites[0]), len(sites), fmt.Sprintf("%d site(s), pairwise on disjoint paths", len(sites)))
}

// ---------------------------------------------------------------------------------------------
// who may call / who may write

type callSite struct {
	Caller *ssa.Function
	Instr  ssa.Instruction
}

// CallSites returns every call/defer/go in module functions whose resolved callee name matches calleeRe
// (static callees and interface methods by their qualified names), plus uses of the function as a value.
func (c *Ctx) CallSites(calleeRe string) []callSite {
	r := re(calleeRe)
	var out []callSite
	for _, f := range c.P.ModFuncs {
		if f.Synthetic != "" && !strings.Contains(f.Synthetic, "func literal") && f.Parent() == nil && strings.HasPrefix(f.Synthetic, "wrapper") {
			continue
		}
		for _, b := range f.Blocks {
			for _, in := range b.Instrs {
				if cc := callCommon(in); cc != nil {
					if r.MatchString(calleeNameNoPath(cc)) {
						out = append(out, callSite{f, in})
						continue
					}
				}
				// function used as a value (method value, callback registration)
				var ops []*ssa.Value
				for _, op := range in.Operands(ops) {
					if op == nil || *op == nil {
						continue
					}
					switch v := (*op).(type) {
					case *ssa.Function:
						if cc := callCommon(in); cc != nil && cc.Value == v {
							continue
						}
						if r.MatchString(short(v.String())) {
							out = append(out, callSite{f, in})
						}
					case *ssa.MakeClosure:
						_ = v
					}
				}
				if mc, ok := in.(*ssa.MakeClosure); ok {
					if fn, ok := mc.Fn.(*ssa.Function); ok && fn.Synthetic != "" && strings.HasPrefix(fn.Synthetic, "bound method wrapper") {
						name := strings.TrimSuffix(short(fn.String()), "$bound")
						if r.MatchString(name) {
							out = append(out, callSite{f, in})
						}
					}
				}
			}
		}
	}
	return out
}

func rootFn(f *ssa.Function) *ssa.Function {
	for f.Parent() != nil {
		f = f.Parent()
	}
	return f
}

// OnlyCalledFrom (rule W): all call sites of the callee lie in functions (closures attributed to their
// enclosing function) whose short name matches one of allowed (regexps).
func (c *Ctx) OnlyCalledFrom(key, calleeRe string, minSites int, allowed ...string) []callSite {
	sites := c.CallSites(calleeRe)
	k := key
	if len(sites) < minSites {
		c.Unres("W", k, fmt.Sprintf("found %d call sites of %s, expected at least %d", len(sites), calleeRe, minSites))
		return sites
	}
	var bad []string
	var pos token.Pos
	callers := map[string]int{}
	for _, s := range sites {
		n := fnName(rootFn(s.Caller))
		callers[n]++
		ok := false
		for _, a := range allowed {
			if re(a).MatchString(n) {
				ok = true
				break
			}
		}
		if !ok {
			bad = append(bad, n+" at "+c.P.Pos(instrPos(s.Instr)))
			if pos == token.NoPos {
				pos = instrPos(s.Instr)
			}
		}
	}
	var cl []string
	for n, k := range callers {
		cl = append(cl, fmt.Sprintf("%s×%d", n, k))
	}
	sort.Strings(cl)
	if len(bad) > 0 {
		sort.Strings(bad)
		c.Bad("W", k, pos, len(sites), "callee "+calleeRe+" is called outside the allowed set: "+strings.Join(bad, "; "))
	} else {
		p := token.NoPos
		if len(sites) > 0 {
			p = instrPos(sites[0].Instr)
		}
		c.OK("W", k, p, len(sites), "callers: "+strings.Join(cl, ", "))
	}
	return sites
}

// FieldWriters returns the functions that store to field `field` of named struct pkg.typ anywhere in the module
// (direct stores through FieldAddr; for map/slice-typed fields also MapUpdate / element stores on the loaded field).
func (c *Ctx) FieldWriters(pkg, typ, field string) []callSite {
	nt, st := c.P.NamedStruct(pkg, typ)
	if nt == nil || st == nil {
		return nil
	}
	idx := -1
	for i := 0; i < st.NumFields(); i++ {
		if st.Field(i).Name() == field {
			idx = i
		}
	}
	if idx < 0 {
		return nil
	}
	isField := func(v ssa.Value) bool {
		fa, ok := v.(*ssa.FieldAddr)
		if !ok || fa.Field != idx {
			return false
		}
		return types.Identical(deptr(fa.X.Type()), nt)
	}
	var out []callSite
	for _, f := range c.P.ModFuncs {
		for _, b := range f.Blocks {
			for _, in := range b.Instrs {
				switch x := in.(type) {
				case *ssa.Store:
					if isField(x.Addr) {
						out = append(out, callSite{f, in})
					} else if ia, ok := x.Addr.(*ssa.IndexAddr); ok {
						if ld, ok := ia.X.(*ssa.UnOp); ok && ld.Op == token.MUL && isField(ld.X) {
							out = append(out, callSite{f, in})
						}
					}
				case *ssa.MapUpdate:
					if ld, ok := x.Map.(*ssa.UnOp); ok && ld.Op == token.MUL && isField(ld.X) {
						out = append(out, callSite{f, in})
					}
				}
			}
		}
	}
	return out
}

// OnlyWrittenIn (rule W): every store to the field lies in an allowed function.
func (c *Ctx) OnlyWrittenIn(pkg, typ, field string, minSites int, allowed ...string) {
	key := pkg + "." + typ + "." + field + " written only in allowed functions"
	if nt, _ := c.P.NamedStruct(pkg, typ); nt == nil {
		c.Unres("W", key, "type not found")
		return
	}
	sites := c.FieldWriters(pkg, typ, field)
	if len(sites) < minSites {
		c.Unres("W", key, fmt.Sprintf("found %d stores, expected at least %d", len(sites), minSites))
		return
	}
	var bad []string
	var pos token.Pos
	writers := map[string]int{}
	for _, s := range sites {
		n := fnName(rootFn(s.Caller))
		writers[n]++
		ok := false
		for _, a := range allowed {
			if re(a).MatchString(n) {
				ok = true
			}
		}
		if !ok {
			bad = append(bad, n+" at "+c.P.Pos(instrPos(s.Instr)))
			if pos == token.NoPos {
				pos = instrPos(s.Instr)
			}
		}
	}
	var wl []string
	for n, k := range writers {
		wl = append(wl, fmt.Sprintf("%s×%d", n, k))
	}
	sort.Strings(wl)
	if len(bad) > 0 {
		sort.Strings(bad)
		c.Bad("W", key, pos, len(sites), "field is written outside the allowed set: "+strings.Join(bad, "; "))
		return
	}
	p := token.NoPos
	if len(sites) > 0 {
		p = instrPos(sites[0].Instr)
	}
	c.OK("W", key, p, len(sites), "writers: "+strings.Join(wl, ", "))
}

// ---------------------------------------------------------------------------------------------
// field reads / writes of a function (rule E/F, direct + through module callees up to a depth)

type fieldRef struct {
	Type  string
	Field string
}

func (r fieldRef) String() string { return r.Type + "." + r.Field }

type effects struct {
	Reads  map[fieldRef]bool
	Writes map[fieldRef]bool
}

func namedOf(t types.Type) string {
	t = deptr(t)
	if n, ok := t.(*types.Named); ok {
		if n.Obj().Pkg() != nil {
			return short(n.Obj().Pkg().Path()) + "." + n.Obj().Name()
		}
		return n.Obj().Name()
	}
	return ""
}

// Effects computes read/write field sets of fn, following static module callees up to depth.
func (c *Ctx) Effects(fn *ssa.Function, depth int) effects {
	e := effects{map[fieldRef]bool{}, map[fieldRef]bool{}}
	seen := map[*ssa.Function]bool{}
	var visit func(f *ssa.Function, d int)
	visit = func(f *ssa.Function, d int) {
		if f == nil || seen[f] || len(f.Blocks) == 0 {
			return
		}
		seen[f] = true
		for _, b := range f.Blocks {
			for _, in := range b.Instrs {
				switch x := in.(type) {
				case *ssa.FieldAddr:
					ref := fieldRef{namedOf(x.X.Type()), fieldName(x.X.Type(), x.Field)}
					wrote, read := false, false
					for _, r := range *x.Referrers() {
						if st, ok := r.(*ssa.Store); ok && st.Addr == x {
							wrote = true
						} else {
							read = true
						}
					}
					if wrote {
						e.Writes[ref] = true
					}
					if read {
						e.Reads[ref] = true
					}
				case *ssa.Field:
					e.Reads[fieldRef{namedOf(x.X.Type()), fieldName(x.X.Type(), x.Field)}] = true
				}
				if cc := callCommon(in); cc != nil && d > 0 {
					if callee := cc.StaticCallee(); callee != nil && callee.Pkg != nil && strings.HasPrefix(callee.Pkg.Pkg.Path(), modPath) {
						visit(callee, d-1)
					}
				}
				if mc, ok := in.(*ssa.MakeClosure); ok {
					if af, ok := mc.Fn.(*ssa.Function); ok {
						visit(af, d)
					}
				}
			}
		}
	}
	visit(fn, depth)
	return e
}

// structFields lists the field names of a named struct.
func (c *Ctx) structFields(pkg, typ string) []string {
	_, st := c.P.NamedStruct(pkg, typ)
	if st == nil {
		return nil
	}
	var out []string
	for i := 0; i < st.NumFields(); i++ {
		out = append(out, st.Field(i).Name())
	}
	return out
}

// CoversFields (rule F): fn (with callees to depth) reads / writes every field of the struct except the
// listed exceptions.
func (c *Ctx) CoversFields(fn *ssa.Function, mode string, pkg, typ string, depth int, except map[string]string) {
	if fn == nil {
		return
	}
	fields := c.structFields(pkg, typ)
	if fields == nil {
		c.Unres("F", fnName(fn)+"/"+mode+" "+pkg+"."+typ, "struct not found")
		return
	}
	e := c.Effects(fn, depth)
	set := e.Reads
	if mode == "writes" {
		set = e.Writes
	}
	tname := pkg + "." + typ
	for _, f := range fields {
		if strings.HasPrefix(f, "XXX_") {
			continue
		}
		key := fnName(fn) + "/" + mode + " " + tname + "." + f
		if why, ok := except[f]; ok {
			_ = why
			continue
		}
		if set[fieldRef{tname, f}] {
			c.OK("F", key, fn.Pos(), 1, "")
		} else {
			c.Bad("F", key, fn.Pos(), 1, fmt.Sprintf("%s never %s field %s of %s (directly or through module callees to depth %d): the field is not covered", fnName(fn), mode, f, tname, depth))
		}
	}
}

// derivesFrom: backward def-use slice from v (within one function, through phis, conversions, arithmetic, call
// arguments and loads of single-store allocs) contains a value whose access path matches pathRe.
func derivesFrom(v ssa.Value, pathRe string) bool {
	r := re(pathRe)
	seen := map[ssa.Value]bool{}
	var walk func(v ssa.Value, d int) bool
	walk = func(v ssa.Value, d int) bool {
		if v == nil || seen[v] || d > 40 {
			return false
		}
		seen[v] = true
		if r.MatchString(pathOf(v)) {
			return true
		}
		switch x := v.(type) {
		case *ssa.Alloc:
			for _, ref := range *x.Referrers() {
				if st, ok := ref.(*ssa.Store); ok && st.Addr == x {
					if walk(st.Val, d+1) {
						return true
					}
				}
				// stores into fields / elements of the alloc
				if fa, ok := ref.(*ssa.FieldAddr); ok {
					for _, r2 := range *fa.Referrers() {
						if st, ok := r2.(*ssa.Store); ok && st.Addr == fa && walk(st.Val, d+1) {
							return true
						}
					}
				}
				if ia, ok := ref.(*ssa.IndexAddr); ok {
					for _, r2 := range *ia.Referrers() {
						if st, ok := r2.(*ssa.Store); ok && st.Addr == ia && walk(st.Val, d+1) {
							return true
						}
					}
				}
			}
			return false
		}
		if in, ok := v.(ssa.Instruction); ok {
			var ops []*ssa.Value
			for _, op := range in.Operands(ops) {
				if op != nil && *op != nil && walk(*op, d+1) {
					return true
				}
			}
		}
		return false
	}
	return walk(v, 0)
}

// GuardedReturnVal (rule G): a return whose i-th result may be the value matching valRe (a constant matching it,
// or any non-constant value; phis are resolved along the incoming edge) is reachable only through each guard.
func (c *Ctx) GuardedReturnVal(fn *ssa.Function, desc string, i int, valRe string, guards ...Guard) {
	if fn == nil {
		return
	}
	for _, g := range guards {
		g := g
		may := func(in ssa.Instruction, path []*ssa.BasicBlock) bool {
			r, ok := in.(*ssa.Return)
			if !ok || i >= len(r.Results) {
				return false
			}
			v := resolvePhi(r.Results[i], path)
			if k, ok := v.(*ssa.Const); ok {
				return re(valRe).MatchString(pathOf(k))
			}
			// returning the truth value of one of the guard's own alternatives is being guarded by it
			for _, alt := range g.Alts {
				if m, pt := matchCond(alt, v); m && pt {
					return false
				}
			}
			return true
		}
		key := fnName(fn) + "/" + desc + " <= " + g.Desc
		sites := c.P.guardEdges(fn, g)
		if len(sites) == 0 {
			c.Bad("G", key, fn.Pos(), 0, fmt.Sprintf("guard '%s' not found in %s", g.Desc, fnName(fn)))
			continue
		}
		rm := map[edge]bool{}
		var gd []string
		for _, s := range sites {
			rm[s.Pass] = true
			gd = append(gd, s.Desc)
		}
		w := &Walker{P: c.P, Removed: rm, TargetAt: may}
		hit, found := w.Reach(fn, fn.Blocks[0], 0, nil)
		if found {
			c.Bad("G", key, instrPos(hit.Instr), len(sites)+1, fmt.Sprintf("%s at %s is reachable without passing guard '%s' (guards seen: %s); path %s", describeInstr(hit.Instr), c.P.Pos(instrPos(hit.Instr)), g.Desc, strings.Join(gd, " | "), c.P.pathStr(hit.Path)))
		} else {
			c.OK("G", key, fn.Pos(), len(sites)+1, "only through: "+strings.Join(gd, " | "))
		}
	}
}

// AfterGuard: on every path that leaves through the passing edge of the guard, `must` is executed before any
// `before` instruction is reached (a protective step that has to precede a destructive one).
func (c *Ctx) AfterGuard(fn *ssa.Function, g Guard, mustDesc string, must SinkSel, beforeDesc string, before SinkSel) {
	key := fnName(fn) + "/" + mustDesc + " after " + g.Desc + " and before " + beforeDesc
	sites := c.P.guardEdges(fn, g)
	if len(sites) == 0 {
		c.Bad("O", key, fn.Pos(), 0, "guard `"+g.Desc+"` not found in "+fnName(fn))
		return
	}
	if len(findInstrs(fn, must)) == 0 {
		c.Bad("O", key, fn.Pos(), 0, mustDesc+": no such step in "+fnName(fn))
		return
	}
	if len(findInstrs(fn, before)) == 0 {
		c.Unres("O", key, beforeDesc+": no such step in "+fnName(fn))
		return
	}
	for _, s := range sites {
		w := &Walker{P: c.P, Stop: must}
		hit, found := w.Reach(fn, s.Pass.to, 0, before)
		if found {
			c.Bad("O", key, instrPos(hit.Instr), len(sites), fmt.Sprintf("%s is reached from %s without %s (path %s)", describeInstr(hit.Instr), s.Desc, mustDesc, c.P.pathStr(hit.Path)))
			return
		}
	}
	c.OK("O", key, fn.Pos(), len(sites), "")
}

// domConds lists the branch conditions that dominate an instruction, as "cond=T" / "cond=F".
func domConds(in ssa.Instruction) []string {
	var out []string
	b0 := in.Block()
	for d := b0.Idom(); d != nil; d = d.Idom() {
		if len(d.Instrs) == 0 {
			continue
		}
		iff, ok := d.Instrs[len(d.Instrs)-1].(*ssa.If)
		if !ok || len(d.Succs) != 2 || d.Succs[0] == d.Succs[1] {
			continue
		}
		for i, s := range d.Succs {
			if len(s.Preds) == 1 && s.Dominates(b0) {
				out = append(out, pathOf(iff.Cond)+"="+map[int]string{0: "T", 1: "F"}[i])
				out = append(out, shortCircuitConds(iff.Cond, i == 0)...)
			}
		}
	}
	return out
}

// condSpellings: the fact "cond evaluated to truth" in every equivalent spelling of a comparison — as written, negated
// operator with the opposite outcome, and both again with the operands mirrored — so that a rule's pattern matches
// whichever way the source writes the test (`if err != nil { return }` and `if err == nil { ... }` state the same fact
// about the code that follows). The spelling as written comes first.
func condSpellings(cond ssa.Value, truth bool) []string {
	tf := func(b bool) string {
		if b {
			return "T"
		}
		return "F"
	}
	out := []string{pathOf(cond) + "=" + tf(truth)}
	if u, ok := cond.(*ssa.UnOp); ok && u.Op == token.NOT {
		out = append(out, condSpellings(u.X, !truth)...)
		return out
	}
	bo, ok := cond.(*ssa.BinOp)
	if !ok {
		return out
	}
	neg := map[token.Token]token.Token{token.EQL: token.NEQ, token.NEQ: token.EQL, token.LSS: token.GEQ, token.GEQ: token.LSS, token.GTR: token.LEQ, token.LEQ: token.GTR}
	mir := map[token.Token]token.Token{token.EQL: token.EQL, token.NEQ: token.NEQ, token.LSS: token.GTR, token.GTR: token.LSS, token.LEQ: token.GEQ, token.GEQ: token.LEQ}
	if _, cmp := neg[bo.Op]; !cmp {
		return out
	}
	l, r := pathOf(bo.X), pathOf(bo.Y)
	sp := func(a string, op token.Token, b string, t bool) string {
		return "(" + a + " " + op.String() + " " + b + ")=" + tf(t)
	}
	for _, s := range []string{sp(l, neg[bo.Op], r, !truth), sp(r, mir[bo.Op], l, truth), sp(r, neg[mir[bo.Op]], l, !truth)} {
		dup := false
		for _, o := range out {
			if o == s {
				dup = true
			}
		}
		if !dup {
			out = append(out, s)
		}
	}
	return out
}

// shortCircuitConds: a condition that is the value of `a && b` (a phi of the constant false and b) being true means b was
// evaluated and true, under the conditions of its edge (a among them); dually for `a || b` being false. An if statement
// lowers && to branches, a switch case or an assignment lowers it to such a phi: both must read the same.
func shortCircuitConds(cond ssa.Value, truth bool) []string {
	phi, ok := cond.(*ssa.Phi)
	if !ok {
		return nil
	}
	k := -1
	for i, e := range phi.Edges {
		if c, ok := e.(*ssa.Const); ok && c.Value != nil && c.Value.Kind() == constant.Bool {
			if constant.BoolVal(c.Value) == truth {
				return nil // a constant edge with the observed outcome: nothing known about the others
			}
			continue
		}
		if k >= 0 {
			return nil
		}
		k = i
	}
	if k < 0 || k >= len(phi.Block().Preds) {
		return nil
	}
	tf := "F"
	if truth {
		tf = "T"
	}
	out := []string{pathOf(phi.Edges[k]) + "=" + tf}
	out = append(out, shortCircuitConds(phi.Edges[k], truth)...)
	return append(out, edgeConds(phi.Block().Preds[k], phi.Block())...)
}

// edgeConds lists the branch conditions known to hold when control flows along pred -> succ: those dominating pred
// plus pred's own branch decision.
func edgeConds(pred, succ *ssa.BasicBlock) []string {
	var out []string
	if len(pred.Instrs) > 0 {
		out = domConds(pred.Instrs[len(pred.Instrs)-1])
		if iff, ok := pred.Instrs[len(pred.Instrs)-1].(*ssa.If); ok && len(pred.Succs) == 2 && pred.Succs[0] != pred.Succs[1] {
			if pred.Succs[0] == succ {
				out = append(out, pathOf(iff.Cond)+"=T")
				out = append(out, shortCircuitConds(iff.Cond, true)...)
			} else if pred.Succs[1] == succ {
				out = append(out, pathOf(iff.Cond)+"=F")
				out = append(out, shortCircuitConds(iff.Cond, false)...)
			}
		}
	}
	return out
}

type phiCase struct {
	Val   ssa.Value
	Conds []string
}

// phiCases flattens a (possibly nested) phi into its incoming values, each with the conditions of its edge.
func phiCases(v ssa.Value) []phiCase {
	phi, ok := v.(*ssa.Phi)
	if !ok {
		return []phiCase{{v, nil}}
	}
	var out []phiCase
	seen := map[*ssa.Phi]bool{}
	var rec func(p *ssa.Phi, extra []string)
	rec = func(p *ssa.Phi, extra []string) {
		if seen[p] {
			return
		}
		seen[p] = true
		for i, e := range p.Edges {
			if i >= len(p.Block().Preds) {
				continue
			}
			conds := append(append([]string{}, extra...), edgeConds(p.Block().Preds[i], p.Block())...)
			if q, ok := e.(*ssa.Phi); ok {
				rec(q, conds)
				continue
			}
			out = append(out, phiCase{e, conds})
		}
	}
	rec(phi, nil)
	return out
}

func hasCond(conds []string, pattern string) bool {
	r := re(pattern)
	for _, c := range conds {
		if r.MatchString(c) {
			return true
		}
	}
	// the same facts in their equivalent spellings (negated operator with the opposite outcome, mirrored operands, a
	// leading `!`): `if err != nil { return }` and `if err == nil {…}` state the same about the code that follows
	for _, c := range conds {
		for _, s := range factSpellings(c) {
			if r.MatchString(s) {
				return true
			}
		}
	}
	return false
}

// factMatches: the pattern matches the fact in one of its spellings.
func factMatches(fact, pattern string) bool {
	r := re(pattern)
	if r.MatchString(fact) {
		return true
	}
	for _, s := range factSpellings(fact) {
		if r.MatchString(s) {
			return true
		}
	}
	return false
}

// factIs: the fact is want, in any of its spellings.
func factIs(fact, want string) bool {
	if fact == want {
		return true
	}
	for _, s := range factSpellings(fact) {
		if s == want {
			return true
		}
	}
	return false
}

// onlyConds: every fact matches the pattern in one of its spellings.
func onlyConds(conds []string, pattern string) bool {
	r := re(pattern)
	for _, c := range conds {
		ok := r.MatchString(c)
		for _, s := range factSpellings(c) {
			ok = ok || r.MatchString(s)
		}
		if !ok {
			return false
		}
	}
	return true
}

// factSpellings parses a fact "(L op R)=T" / "!X=F" and returns its other spellings.
func factSpellings(fact string) []string {
	if len(fact) < 3 || fact[len(fact)-2] != '=' {
		return nil
	}
	body, tv := fact[:len(fact)-2], fact[len(fact)-1]
	other := map[byte]string{'T': "F", 'F': "T"}[tv]
	if other == "" {
		return nil
	}
	if strings.HasPrefix(body, "!") {
		return append([]string{body[1:] + "=" + other}, factSpellings(body[1:]+"="+other)...)
	}
	if !strings.HasPrefix(body, "(") || !strings.HasSuffix(body, ")") {
		return nil
	}
	inner := body[1 : len(body)-1]
	depth := 0
	neg := map[string]string{"==": "!=", "!=": "==", "<": ">=", ">=": "<", ">": "<=", "<=": ">"}
	mir := map[string]string{"==": "==", "!=": "!=", "<": ">", ">": "<", "<=": ">=", ">=": "<="}
	for i := 0; i < len(inner); i++ {
		switch inner[i] {
		case '(', '[', '{':
			depth++
		case ')', ']', '}':
			depth--
		case ' ':
			if depth != 0 {
				continue
			}
			for _, op := range []string{"==", "!=", "<=", ">=", "<", ">"} {
				if strings.HasPrefix(inner[i+1:], op+" ") {
					l, r := inner[:i], inner[i+len(op)+2:]
					same := string(tv)
					return []string{
						"(" + l + " " + neg[op] + " " + r + ")=" + other,
						"(" + r + " " + mir[op] + " " + l + ")=" + same,
						"(" + r + " " + neg[mir[op]] + " " + l + ")=" + other,
					}
				}
			}
		}
	}
	return nil
}

// caseLadder follows a switch lowered to a chain of `tag < K` tests: it returns the thresholds in order and the
// body block of every case; the last body is the default case.
func caseLadder(fn *ssa.Function, tagRe string) (thr []int64, bodies []*ssa.BasicBlock) {
	r := re(tagRe)
	var start *ssa.BasicBlock
	for _, b := range fn.Blocks {
		if len(b.Instrs) == 0 {
			continue
		}
		if iff, ok := b.Instrs[len(b.Instrs)-1].(*ssa.If); ok {
			if bo, ok := iff.Cond.(*ssa.BinOp); ok && bo.Op == token.LSS && r.MatchString(pathOf(bo.X)) {
				if _, ok := bo.Y.(*ssa.Const); ok {
					start = b
					break
				}
			}
		}
	}
	for b := start; b != nil; {
		iff, ok := b.Instrs[len(b.Instrs)-1].(*ssa.If)
		if !ok {
			bodies = append(bodies, b)
			break
		}
		bo, ok := iff.Cond.(*ssa.BinOp)
		if !ok || bo.Op != token.LSS || !r.MatchString(pathOf(bo.X)) {
			bodies = append(bodies, b)
			break
		}
		k, ok := bo.Y.(*ssa.Const)
		if !ok {
			bodies = append(bodies, b)
			break
		}
		thr = append(thr, k.Int64())
		bodies = append(bodies, b.Succs[0])
		b = b.Succs[1]
	}
	return
}
