package main

// C20 — peer connections are authenticated, tamper-evident, ordered and exactly-once.

import (
	"strings"

	"golang.org/x/tools/go/ssa"
)

func init() {
	register("C20", []string{"lib/p2p/conn/secret_connection.go", "lib/p2p/conn/connection.go", "lib/p2p/transport.go", "lib/p2p/key.go", "lib/protoio/io.go"}, runC20)
}

func runC20(c *Ctx) {
	c.Decided = []string{
		"handshake: the remote key is recorded and the connection returned only behind a valid signature of the transcript challenge by that key; the challenge is extracted after both ephemeral keys and the DH secret entered the transcript; the local signature is over the same challenge; send/receive keys swap with the key order",
		"nonce discipline: every sealed frame is followed by a nonce increment before the next seal and before the frame is written; a received frame advances the nonce and releases plaintext only behind successful authentication; the nonce cannot wrap",
		"frame parsing slices only within the data size limit; exactly one sealed frame is read per frame; send and receive state is touched only under its mutex, held across the whole seal+write / read+open sequence",
		"multiplexing: reassembly appends only within the channel capacity and starts a fresh buffer after a complete message; the reactor is called only for complete messages; a packet ends a message iff the remainder fits and consumes exactly the bytes it carries; receive and send buffers are owned by their routines; sending requires a running connection and a known channel",
	}
	c.NotDec = []string{"exactly-once / in-order delivery for all interleavings (schedule-quantified)", "security of ChaCha20-Poly1305, X25519, HKDF and Merlin (trusted)", "behaviour of the underlying net.Conn"}
	c.Floors["G"] = 14
	c.Floors["O"] = 8
	c20Round3(c)

	// ---- handshake -----------------------------------------------------------------------------------
	if fn := c.Fn("lib/p2p/conn", "", "MakeSecretConnection"); fn != nil {
		auth := `call:lib/p2p/conn\.shareAuthSignature\(&alloc:complit:lib/p2p/conn\.SecretConnection, locPrivKey\.PublicKey, call:lib/p2p/conn\.signChallenge\(&challenge, locPrivKey\)#0\)#0`
		ver := True(`^call:lib/crypto\.VerifySignature\(call:lib/crypto\.PubkeyToAddress\(` + auth + `\.Key\), challenge\[:\], ` + auth + `\.Sig\)$`)
		c.Guarded(fn, "record the remote key / return the connection", Or(StoreTo(`\.remPubKey$`), SuccessReturn(1, "")),
			G("the remote key's signature over the challenge verifies", ver),
			G("shareAuthSignature error == nil", IsNil(`^`+strings.TrimSuffix(auth, "#0")+`#1$`)),
			G("signChallenge error == nil", IsNil(`^call:lib/p2p/conn\.signChallenge\(&challenge, locPrivKey\)#1$`)),
			G("computeDHSecret error == nil", IsNil(`^call:lib/p2p/conn\.computeDHSecret\(.*\)#1$`)),
			G("shareEphPubKey error == nil", IsNil(`^call:lib/p2p/conn\.shareEphPubKey\(conn, .*\)#1$`)))
		for _, in := range findInstrs(fn, StoreTo(`\.remPubKey$`)) {
			c.Check("F", fnName(fn)+"/the recorded key is the one whose signature was verified", re(`^`+auth+`\.Key$`).MatchString(pathOf(in.(*ssa.Store).Val)), instrPos(in), 1, clip(pathOf(in.(*ssa.Store).Val), 200))
		}
		app := CallTo(`^\(\*github\.com/gtank/merlin\.Transcript\)\.AppendMessage$`, "")
		ext := CallTo(`^\(\*github\.com/gtank/merlin\.Transcript\)\.ExtractBytes$`, "")
		var labels []string
		for _, in := range findInstrs(fn, app) {
			a := argPaths(callCommon(in))
			if len(a) == 3 {
				labels = append(labels, strings.TrimPrefix(a[1], "global:lib/p2p/conn.")+"<-"+clip(a[2], 60))
			}
		}
		okT := len(labels) == 3 && strings.HasPrefix(labels[0], "labelEphemeralLowerPublicKey<-call:lib/p2p/conn.sort32(") && strings.HasPrefix(labels[1], "labelEphemeralUpperPublicKey<-call:lib/p2p/conn.sort32(") && strings.HasPrefix(labels[2], "labelDHSecret<-call:lib/p2p/conn.computeDHSecret(")
		c.Check("F", fnName(fn)+"/transcript absorbs low key, high key, DH secret", okT, fn.Pos(), len(labels), strings.Join(labels, " | "))
		// all three appends precede the extraction
		for _, a := range findInstrs(fn, app) {
			ok := true
			for _, e := range findInstrs(fn, ext) {
				if !instrBefore(a, e) {
					ok = false
				}
			}
			c.Check("O", fnName(fn)+"/transcript message precedes the challenge extraction", ok, instrPos(a), 1, describeInstr(a))
		}
		n := len(findInstrs(fn, CallTo(`^copy$`, `^copy\(challenge\[:\], call:\(\*github\.com/gtank/merlin\.Transcript\)\.ExtractBytes\(`)))
		c.Check("F", fnName(fn)+"/challenge is the transcript output", n == 1, fn.Pos(), n, "")
		for _, in := range findInstrs(fn, CallTo(`^lib/p2p/conn\.computeDHSecret$`, "")) {
			a := argPaths(callCommon(in))
			c.Check("F", fnName(fn)+"/DH over the remote ephemeral public and the local ephemeral private key", len(a) == 2 && strings.HasSuffix(a[0], "shareEphPubKey(conn, call:lib/p2p/conn.genEphKeys()#0)#0") && a[1] == "call:lib/p2p/conn.genEphKeys()#1", instrPos(in), 1, describeInstr(in))
		}
		var recvA, sendA string
		for _, in := range findInstrs(fn, StoreTo(`\.(recvAead|sendAead)$`)) {
			st := in.(*ssa.Store)
			if strings.HasSuffix(pathOf(st.Addr), "recvAead") {
				recvA = pathOf(st.Val)
			} else {
				sendA = pathOf(st.Val)
			}
		}
		c.Check("F", fnName(fn)+"/receive cipher uses the receive secret (#0), send cipher the send secret (#1)", strings.Contains(recvA, ")#0[:])#0") && strings.Contains(sendA, ")#1[:])#0") && strings.Contains(recvA, "deriveSecrets("), fn.Pos(), 2, clip(recvA, 120)+" / "+clip(sendA, 120))
		for _, in := range findInstrs(fn, CallTo(`^lib/p2p/conn\.deriveSecrets$`, "")) {
			a := argPaths(callCommon(in))
			c.Check("F", fnName(fn)+"/key direction follows the ephemeral key order", len(a) == 2 && strings.HasPrefix(a[1], "call:bytes.Equal(call:lib/p2p/conn.genEphKeys()#0[:], call:lib/p2p/conn.sort32("), instrPos(in), 1, clip(a[1], 160))
		}
	}
	if fn := c.Fn("lib/p2p/conn", "", "deriveSecrets"); fn != nil {
		// by SSA identity: results (recv, send); true branch: recv<-low, send<-high; false branch: send<-low, recv<-high
		var recv, send ssa.Value
		for _, in := range findInstrs(fn, AnyReturn()) {
			r := in.(*ssa.Return)
			if len(r.Results) == 2 {
				recv, send = r.Results[0], r.Results[1]
			}
		}
		type cp struct {
			dst  string
			low  bool
			then bool
		}
		var cps []cp
		var thenB *ssa.BasicBlock
		for _, b := range fn.Blocks {
			if iff, ok := b.Instrs[len(b.Instrs)-1].(*ssa.If); ok && pathOf(iff.Cond) == "locIsLeast" {
				thenB = b.Succs[0]
			}
		}
		allInstrs(fn, false, func(_ *ssa.Function, in ssa.Instruction) {
			cc := callCommon(in)
			if cc == nil || calleeNameNoPath(cc) != "copy" || len(cc.Args) != 2 {
				return
			}
			ds, ok1 := cc.Args[0].(*ssa.Slice)
			ss, ok2 := cc.Args[1].(*ssa.Slice)
			if !ok1 || !ok2 {
				return
			}
			d := "?"
			if ds.X == recv {
				d = "recv"
			} else if ds.X == send {
				d = "send"
			}
			lowK, _ := constIntVal(ss.Low)
			cps = append(cps, cp{d, ss.Low == nil || lowK == 0, in.Block() == thenB})
		})
		ok := len(cps) == 4 && recv != nil && send != nil && recv != send
		for _, x := range cps {
			want := "send"
			if x.then == x.low {
				want = "recv"
			}
			if x.dst != want {
				ok = false
			}
		}
		c.Check("F", fnName(fn)+"/the two halves of the key material swap between receive and send with locIsLeast", ok, fn.Pos(), len(cps), "with the same assignment on both sides the peers would encrypt and decrypt with mismatched keys, or both directions would share one key and nonce sequence")
	}
	if fn := c.Fn("lib/p2p/conn", "", "signChallenge"); fn != nil {
		n := len(findInstrs(fn, CallTo(`^lib/crypto\.Sign$`, `^lib/crypto\.Sign\(challenge\[:\], locPrivKey\)$`)))
		c.Check("F", fnName(fn)+"/signs the challenge with the long-term key", n == 1, fn.Pos(), n, "")
	}
	if fn := c.Fn("lib/crypto", "", "VerifySignature"); fn != nil {
		c.GuardedReturnVal(fn, "return true", 0, `^const:true$`, G("a key was recovered", NotNil(`^call:lib/crypto\.SigToPub\(hash, signature\)#0$`)))
		ok := false
		for _, in := range findInstrs(fn, AnyReturn()) {
			if pathOf(in.(*ssa.Return).Results[0]) == "(addr == call:lib/crypto.PubkeyToAddress(*call:lib/crypto.SigToPub(hash, signature)#0))" {
				ok = true
			}
		}
		c.Check("F", fnName(fn)+"/verdict is addr == PubkeyToAddress(recovered key)", ok, fn.Pos(), 1, "")
	}
	c.ConstIndexGuarded([]string{"lib/crypto"}, `.`, map[string]string{})

	// ---- nonce discipline ------------------------------------------------------------------------------
	if w := c.Fn("lib/p2p/conn", "SecretConnection", "Write"); w != nil {
		for _, fn := range w.AnonFuncs {
			seal := CallTo(`^iface:\(crypto/cipher\.AEAD\)\.Seal$`, "")
			if len(findInstrs(fn, seal)) == 0 {
				continue
			}
			c.Funcs[fnName(fn)] = true
			incr := CallTo(`^lib/p2p/conn\.incrNonce$`, `incrNonce\(sc\.sendNonce\)$`)
			wr := CallTo(`^iface:\(io\.Writer\)\.Write$`, "")
			c.FollowedBy(fn, "Seal", seal, "incrNonce(sendNonce)", incr, "the frame write / return", Or(wr, AnyReturn()))
			c.AtMostOncePerPath(fn, "Seal", seal)
			c.AtMostOncePerPath(fn, "incrNonce(sendNonce)", incr)
			c.Precedes(fn, "Seal", seal, "incrNonce(sendNonce)", incr)
			for _, in := range findInstrs(fn, seal) {
				a := argPaths(callCommon(in))
				c.Check("F", fnName(fn)+"/seals with the send cipher and the send nonce", len(a) == 5 && a[0] == "sc.sendAead" && a[2] == "sc.sendNonce[:]", instrPos(in), 1, describeInstr(in))
			}
			for _, in := range findInstrs(fn, wr) {
				a := argPaths(callCommon(in))
				sealed := ""
				for _, s := range findInstrs(fn, seal) {
					sa := argPaths(callCommon(s))
					sealed = strings.TrimSuffix(sa[1], "[:const:0]")
				}
				c.Check("F", fnName(fn)+"/writes exactly the sealed frame", len(a) == 2 && a[0] == "sc.conn" && a[1] == sealed, instrPos(in), 1, describeInstr(in))
			}
			// the chunk never exceeds the frame's data size
			c.Check("G", fnName(fn)+"/chunks are capped at dataMaxSize", len(findInstrs(fn, func(in ssa.Instruction) bool {
				iff, ok := in.(*ssa.If)
				if !ok {
					return false
				}
				m, _ := matchCond(Cmp(`^call:len\(data\)$`, ">", `^const:\d+$`), iff.Cond)
				return m
			})) == 1, fn.Pos(), 1, "")
		}
		c.CriticalSection(w, `^&sc\.sendMtx`, "the whole seal+increment+write loop", func(in ssa.Instruction) bool {
			cc := callCommon(in)
			return cc != nil && strings.HasPrefix(calleeName(cc), "(*lib/p2p/conn.SecretConnection).Write$")
		})
	}
	if fn := c.Fn("lib/p2p/conn", "SecretConnection", "Read"); fn != nil {
		open := `call:iface:\(crypto/cipher\.AEAD\)\.Open\(sc\.recvAead, .*, sc\.recvNonce\[:\], .*, nil\)`
		incr := CallTo(`^lib/p2p/conn\.incrNonce$`, `incrNonce\(sc\.recvNonce\)$`)
		isFrameCopy := func(in ssa.Instruction) bool {
			cc := callCommon(in)
			return cc != nil && calleeNameNoPath(cc) == "copy" && strings.Contains(callPath(cc), "go-buffer-pool.Get(")
		}
		c.Guarded(fn, "advance the receive nonce / hand out frame bytes", Or(incr, isFrameCopy),
			G("AEAD Open error == nil", IsNil(`^`+open+`#1$`)),
			G("io.ReadFull(sealed frame) error == nil", IsNil(`^call:io\.ReadFull\(sc\.conn, .*\)#1$`)))
		frameLengthRule(c)
		c.AtMostOncePerPath(fn, "incrNonce(recvNonce)", incr)
		c.FollowedBy(fn, "successful Open", func(in ssa.Instruction) bool {
			iff, ok := in.(*ssa.If)
			if !ok {
				return false
			}
			m, _ := matchCond(IsNil(`^`+open+`#1$`), iff.Cond)
			return m
		}, "incrNonce(recvNonce) (or the decryption-error return)", Or(incr, func(in ssa.Instruction) bool {
			r, ok := in.(*ssa.Return)
			return ok && in.Block().Comment == "if.then" && len(r.Results) == 2
		}), "return", AnyReturn())
		// the caller's buffer is filled from offset 0 by either the left-over or the frame, never by both: a second copy
		// overwrites bytes the first delivered and the count returned covers only one of them
		intoData := func(in ssa.Instruction) bool {
			cc := callCommon(in)
			return cc != nil && calleeNameNoPath(cc) == "copy" && len(cc.Args) == 2 && re(`^data(\[|$)`).MatchString(pathOf(cc.Args[0]))
		}
		c.AtMostOncePerPath(fn, "copy into the caller's buffer", intoData)
		nd := len(findInstrs(fn, intoData))
		c.Check("O", fnName(fn)+"/two delivery sites (left-over, fresh frame)", nd == 2, fn.Pos(), nd, "")
		n := len(findInstrs(fn, CallTo(`^io\.ReadFull$`, "")))
		c.Check("O", fnName(fn)+"/reads exactly one sealed frame per call", n == 1, fn.Pos(), n, "")
		c.CriticalSection(fn, `^&sc\.recvMtx`, "buffer test, frame read, open and nonce increment", Or(incr, isFrameCopy, StoreTo(`^&sc\.recvBuffer$`), CallTo(`^io\.ReadFull$`, "")))
		// leftover goes to a fresh buffer
		for _, in := range findInstrs(fn, StoreTo(`^&sc\.recvBuffer$`)) {
			v := pathOf(in.(*ssa.Store).Val)
			c.Check("F", fnName(fn)+"/receive buffer is a fresh slice or its own tail", strings.HasPrefix(v, "make:[]byte(") || v == "sc.recvBuffer[n:]" || strings.HasPrefix(v, "sc.recvBuffer[call:copy("), instrPos(in), 1, clip(v, 120))
		}
	}
	if fn := c.Fn("lib/p2p/conn", "", "incrNonce"); fn != nil {
		c.Guarded(fn, "store the incremented counter", CallTo(`^\(encoding/binary\.littleEndian\)\.PutUint64$`, ""), G("counter != MaxUint64 (no wrap)", Cmp(`^call:\(encoding/binary\.littleEndian\)\.Uint64\(`, "!=", `^const:18446744073709551615$`)))
		for _, in := range findInstrs(fn, CallTo(`^\(encoding/binary\.littleEndian\)\.PutUint64$`, "")) {
			a := argPaths(callCommon(in))
			c.Check("F", fnName(fn)+"/counter grows by one in place", len(a) == 3 && strings.HasSuffix(a[2], " + const:1)") && strings.HasPrefix(a[1], "nonce[const:4:"), instrPos(in), 1, describeInstr(in))
		}
	}
	c.OnlyWrittenIn("lib/p2p/conn", "SecretConnection", "recvBuffer", 1, `^\(\*lib/p2p/conn\.SecretConnection\)\.Read$`, `^lib/p2p/conn\.MakeSecretConnection$`)
	c.OnlyCalledFrom("incrNonce only from Read and Write", `^lib/p2p/conn\.incrNonce$`, 2, `^\(\*lib/p2p/conn\.SecretConnection\)\.(Read|Write)$`)

	// ---- MConnection ---------------------------------------------------------------------------------------
	if fn := c.Fn("lib/p2p/conn", "Channel", "recvPacketMsg"); fn != nil {
		c.Guarded(fn, "append to ch.recving", func(in ssa.Instruction) bool {
			st, ok := in.(*ssa.Store)
			return ok && pathOf(st.Addr) == "&ch.recving" && strings.HasPrefix(pathOf(st.Val), "call:append(")
		}, G("len(recving)+len(packet.Data) <= RecvMessageCapacity", Cmp(`^ch\.desc\.RecvMessageCapacity$`, ">=", `^\(call:len\(ch\.recving\) \+ call:len\(packet\.Data\)\)$`)))
		fresh := func(in ssa.Instruction) bool {
			st, ok := in.(*ssa.Store)
			return ok && pathOf(st.Addr) == "&ch.recving" && strings.HasPrefix(pathOf(st.Val), "make:[]byte(")
		}
		c.Guarded(fn, "start a fresh receive buffer / return the message", Or(fresh, func(in ssa.Instruction) bool {
			r, ok := in.(*ssa.Return)
			return ok && pathOf(r.Results[0]) != "nil"
		}), G("packet.EOF", True(`^packet\.EOF$`)))
		c.FollowedBy(fn, "complete message taken (EOF)", func(in ssa.Instruction) bool {
			iff, ok := in.(*ssa.If)
			return ok && pathOf(iff.Cond) == "packet.EOF"
		}, "fresh buffer (or incomplete return)", Or(fresh, ReturnWith(0, `^nil$`)), "return", AnyReturn())
	}
	if fn := c.Fn("lib/p2p/conn", "Channel", "nextPacketMsg"); fn != nil {
		var eofT, eofF, data, rest string
		for _, in := range findInstrs(fn, StoreTo(`^&packet\.(EOF|Data)$|^&ch\.sending$`)) {
			st := in.(*ssa.Store)
			a, v := pathOf(st.Addr), pathOf(st.Val)
			switch {
			case a == "&packet.EOF" && v == "const:true":
				eofT = in.Block().Comment
			case a == "&packet.EOF" && v == "const:false":
				eofF = in.Block().Comment
			case a == "&packet.Data":
				data = v
			case a == "&ch.sending" && v != "nil":
				rest = v
			}
		}
		min := `call:lib/math.MinInt(ch.maxPacketMsgPayloadSize, call:len(ch.sending))`
		c.Check("F", fnName(fn)+"/packet carries the first min(max, len) bytes", data == "ch.sending[:"+min+"]", fn.Pos(), 1, data)
		c.Check("F", fnName(fn)+"/sending advances by exactly the bytes taken", rest == "ch.sending["+min+":]", fn.Pos(), 1, rest)
		c.Check("F", fnName(fn)+"/EOF set on the fitting branch, cleared on the other", eofT == "if.then" && eofF == "if.else", fn.Pos(), 2, eofT+"/"+eofF)
		c.Guarded(fn, "EOF = true", func(in ssa.Instruction) bool {
			st, ok := in.(*ssa.Store)
			return ok && pathOf(st.Addr) == "&packet.EOF" && pathOf(st.Val) == "const:true"
		}, G("remainder fits into one packet", Cmp(`^call:len\(ch\.sending\)$`, "<=", `^ch\.maxPacketMsgPayloadSize$`)))
	}
	c.OnlyWrittenIn("lib/p2p/conn", "Channel", "recving", 1, `^\(\*lib/p2p/conn\.Channel\)\.recvPacketMsg$`, `^lib/p2p/conn\.newChannel$`)
	c.OnlyWrittenIn("lib/p2p/conn", "Channel", "sending", 1, `^\(\*lib/p2p/conn\.Channel\)\.(nextPacketMsg|isSendPending)$`, `^lib/p2p/conn\.newChannel$`)
	c.OnlyCalledFrom("recvPacketMsg only from recvRoutine", `^\(\*lib/p2p/conn\.Channel\)\.recvPacketMsg$`, 1, `^\(\*lib/p2p/conn\.MConnection\)\.recvRoutine$`)
	c.OnlyCalledFrom("nextPacketMsg only from the send path", `^\(\*lib/p2p/conn\.Channel\)\.nextPacketMsg$`, 1, `^\(\*lib/p2p/conn\.Channel\)\.writePacketMsgTo$`)
	c.OnlyCalledFrom("writePacketMsgTo only from sendPacketMsg", `^\(\*lib/p2p/conn\.Channel\)\.writePacketMsgTo$`, 1, `^\(\*lib/p2p/conn\.MConnection\)\.sendPacketMsg$`)
	c.OnlyCalledFrom("sendPacketMsg only from the send routine", `^\(\*lib/p2p/conn\.MConnection\)\.sendPacketMsg$`, 1, `^\(\*lib/p2p/conn\.MConnection\)\.(sendSomePacketMsgs|sendRoutine)$`)
	if fn := c.Fn("lib/p2p/conn", "MConnection", "recvRoutine"); fn != nil {
		c.Guarded(fn, "c.onReceive", func(in ssa.Instruction) bool {
			cc := callCommon(in)
			return cc != nil && strings.HasPrefix(calleeName(cc), "dyn:c.onReceive")
		},
			G("recvPacketMsg error == nil", IsNil(`^call:\(\*lib/p2p/conn\.Channel\)\.recvPacketMsg\(.*\)#1$`)),
			G("msgBytes != nil (complete message)", NotNil(`^call:\(\*lib/p2p/conn\.Channel\)\.recvPacketMsg\(.*\)#0$`)),
			G("channel known", True(`^c\.channelsIdx\[.*\]#1$`)))
		for _, in := range findInstrs(fn, func(in ssa.Instruction) bool {
			cc := callCommon(in)
			return cc != nil && strings.HasPrefix(calleeName(cc), "dyn:c.onReceive")
		}) {
			a := argPaths(callCommon(in))
			c.Check("F", fnName(fn)+"/delivers the reassembled bytes to the packet's channel", len(a) == 2 && strings.Contains(a[0], "ChannelID") && strings.HasSuffix(a[1], "#0"), instrPos(in), 1, describeInstr(in))
		}
	}
	for _, name := range []string{"Send", "TrySend"} {
		if fn := c.Fn("lib/p2p/conn", "MConnection", name); fn != nil {
			c.Guarded(fn, "queue the bytes on the channel", CallTo(`^\(\*lib/p2p/conn\.Channel\)\.(sendBytes|trySendBytes)$`, ""),
				G("connection is running", True(`^call:\(\*lib/service\.BaseService\)\.IsRunning\(`)),
				G("channel id known", True(`^c\.channelsIdx\[chID\]#1$`)))
		}
	}
	if fn := c.Fn("lib/p2p/conn", "Channel", "sendBytes"); fn != nil {
		n := 0
		allInstrs(fn, false, func(_ *ssa.Function, in ssa.Instruction) {
			if s, ok := in.(*ssa.Select); ok && strings.Contains(pathOf(s), "send:ch.sendQueue") {
				n++
			}
			if s, ok := in.(*ssa.Send); ok && pathOf(s.Chan) == "ch.sendQueue" {
				n++
			}
		})
		c.Check("F", fnName(fn)+"/messages go through the FIFO send queue", n == 1, fn.Pos(), n, "")
	}
	c.LockPairing([]string{"lib/p2p/conn"}, map[string]string{})
}

// frameLengthRule: the plaintext of a frame is sliced by the length the peer wrote only after that length was
// compared with the data size limit — directly, not through an addition that can wrap. Shared by C20 and C18 (the
// read runs before the peer is authenticated).
func frameLengthRule(c *Ctx) {
	fn := c.Fn("lib/p2p/conn", "SecretConnection", "Read")
	if fn == nil {
		return
	}
	isFrameCopy := func(in ssa.Instruction) bool {
		cc := callCommon(in)
		return cc != nil && calleeNameNoPath(cc) == "copy" && strings.Contains(callPath(cc), "go-buffer-pool.Get(")
	}
	c.Guarded(fn, "slice the frame by the wire length", isFrameCopy, G("chunkLength <= dataMaxSize", Cmp(`^call:\(encoding/binary\.littleEndian\)\.Uint32\(`, "<=", `^const:\d+$`)))
}
