package main

// C10 (continued) — slices of code, call data and return data taken with bounds that come from the stack.

import (
	"fmt"
	"go/token"
	"strings"

	"golang.org/x/tools/go/ssa"
)

// boundedByLen: every value the bound can take is the length itself or was compared against it on its edge.
func boundedByLen(v ssa.Value, lenPath string, at ssa.Instruction) (bool, string) {
	okCond := func(val string, conds []string) bool {
		q := regexpQuote(val)
		l := regexpQuote(lenPath)
		return hasCond(conds, `^\(`+q+` > `+l+`\)=F$`) || hasCond(conds, `^\(`+l+` < `+q+`\)=F$`) || hasCond(conds, `^\(`+q+` <= `+l+`\)=T$`) || hasCond(conds, `^\(`+l+` >= `+q+`\)=T$`) || hasCond(conds, `^\(`+q+` < `+l+`\)=T$`) || hasCond(conds, `^\(`+l+` > `+q+`\)=T$`)
	}
	dom := domConds(at)
	for _, pc := range phiCases(v) {
		val := pathOf(pc.Val)
		if val == lenPath {
			continue
		}
		if okCond(val, pc.Conds) || okCond(val, dom) {
			continue
		}
		return false, val + " under [" + strings.Join(pc.Conds, " ; ") + "]"
	}
	return true, ""
}

func runC10Slices(c *Ctx) {
	// clamp idiom: getData and PUSHn
	for _, f := range []struct{ name, base string }{{"kvm.getData", "data"}, {"kvm.makePush$1", "callContext.Contract.Code"}} {
		fn := c.P.FuncByName(f.name)
		if fn == nil || len(fn.Blocks) == 0 {
			c.Unres("anchor", f.name, "anchor function not found")
			continue
		}
		c.Funcs[f.name] = true
		n := 0
		allInstrs(fn, false, func(_ *ssa.Function, in ssa.Instruction) {
			sl, ok := in.(*ssa.Slice)
			if !ok || pathOf(sl.X) != f.base {
				return
			}
			n++
			lenPath := "call:len(" + f.base + ")"
			for name, b := range map[string]ssa.Value{"low": sl.Low, "high": sl.High} {
				if b == nil {
					c.Bad("Z", f.name+"/slice "+name+" bound of "+f.base+" never exceeds its length", sl.Pos(), 1, "bound omitted")
					continue
				}
				ok, why := boundedByLen(b, lenPath, in)
				c.Check("Z", f.name+"/slice "+name+" bound of "+f.base+" never exceeds its length", ok, sl.Pos(), 1, "may take the value "+why+" without a comparison against "+lenPath+": an index from the stack / program counter past the end panics")
			}
		})
		c.Check("Z", f.name+"/slices "+f.base+" once", n == 1, fn.Pos(), n, "")
	}
	// RETURNDATACOPY: offset and offset+length are 256-bit values; both must fit 64 bits without wrapping and the
	// end must lie inside the return data
	fn := c.Fn("kvm", "", "opReturnDataCopy")
	if fn == nil {
		return
	}
	var sl *ssa.Slice
	allInstrs(fn, false, func(_ *ssa.Function, in ssa.Instruction) {
		if s, ok := in.(*ssa.Slice); ok && pathOf(s.X) == "kvm.interpreter.returnData" {
			sl = s
		}
	})
	key := fnName(fn) + "/returnData[offset:end]: "
	if sl == nil || sl.Low == nil || sl.High == nil {
		c.Bad("Z", key+"slice found", fn.Pos(), 0, "no two-bound slice of kvm.interpreter.returnData")
		return
	}
	// a bound is the 64-bit value of a 256-bit integer whose overflow flag is tested, slice on the no-overflow side
	checked := func(b ssa.Value) (*ssa.Call, bool) {
		ex, ok := b.(*ssa.Extract)
		if !ok || ex.Index != 0 {
			return nil, false
		}
		call, ok := ex.Tuple.(*ssa.Call)
		if !ok || calleeNameNoPath(&call.Call) != "(*github.com/holiman/uint256.Int).Uint64WithOverflow" {
			return nil, false
		}
		for _, blk := range fn.Blocks {
			iff, ok := blk.Instrs[len(blk.Instrs)-1].(*ssa.If)
			if !ok {
				continue
			}
			if e2, ok := iff.Cond.(*ssa.Extract); ok && e2.Tuple == ex.Tuple && e2.Index == 1 {
				// the slice must not be reachable through the overflow edge
				w := &Walker{P: c.P, Removed: map[edge]bool{{blk, blk.Succs[1]}: true}}
				if _, found := w.Reach(fn, fn.Blocks[0], 0, func(x ssa.Instruction) bool { return x == ssa.Instruction(sl) }); !found {
					return call, true
				}
			}
		}
		return call, false
	}
	lowCall, lowOK := checked(sl.Low)
	c.Check("Z", key+"the offset fits 64 bits (overflow flag tested)", lowOK, sl.Pos(), 1, "low bound "+pathOf(sl.Low)+" is not the checked 64-bit value of the 256-bit offset")
	highCall, highOK := checked(sl.High)
	c.Check("Z", key+"the end fits 64 bits (overflow flag tested)", highOK, sl.Pos(), 1, "high bound "+clip(pathOf(sl.High), 160)+" is not the checked 64-bit value of a 256-bit sum: a 64-bit addition of offset and length wraps for offsets near 2^64")
	if highCall != nil && lowCall != nil {
		// the end is offset + length computed in 256 bits
		sum := false
		allInstrs(fn, false, func(_ *ssa.Function, in ssa.Instruction) {
			cl, ok := in.(*ssa.Call)
			if !ok || calleeNameNoPath(&cl.Call) != "(*github.com/holiman/uint256.Int).Add" || len(cl.Call.Args) != 3 {
				return
			}
			if cl.Call.Args[0] == highCall.Call.Args[0] && (cl.Call.Args[1] == lowCall.Call.Args[0] || cl.Call.Args[2] == lowCall.Call.Args[0]) {
				sum = true
			}
		})
		c.Check("Z", key+"the end is offset + length added in 256 bits", sum, sl.Pos(), 1, "")
	}
	// end <= len(returnData)
	inside := false
	for _, blk := range fn.Blocks {
		iff, ok := blk.Instrs[len(blk.Instrs)-1].(*ssa.If)
		if !ok {
			continue
		}
		bo, ok := iff.Cond.(*ssa.BinOp)
		if !ok {
			continue
		}
		isLen := func(v ssa.Value) bool { return pathOf(v) == "call:len(kvm.interpreter.returnData)" }
		var pass *ssa.BasicBlock
		switch {
		case bo.Op == token.LSS && isLen(bo.X) && bo.Y == sl.High, bo.Op == token.GTR && bo.X == sl.High && isLen(bo.Y):
			pass = blk.Succs[1]
		case bo.Op == token.GEQ && isLen(bo.X) && bo.Y == sl.High, bo.Op == token.LEQ && bo.X == sl.High && isLen(bo.Y):
			pass = blk.Succs[0]
		}
		if pass == nil {
			continue
		}
		w := &Walker{P: c.P, Removed: map[edge]bool{{blk, pass}: true}}
		if _, found := w.Reach(fn, fn.Blocks[0], 0, func(x ssa.Instruction) bool { return x == ssa.Instruction(sl) }); !found {
			inside = true
		}
	}
	c.Check("Z", key+"the end lies inside the return data", inside, sl.Pos(), 1, fmt.Sprintf("no test of %s against len(returnData) guards the slice", clip(pathOf(sl.High), 120)))
}
