package main

// C14 — consensus state survives a save/load round trip unchanged.

import (
	"fmt"
	"go/ast"
	"go/token"
	"go/types"
	"sort"
	"strings"

	"golang.org/x/tools/go/ssa"
)

func init() {
	register("C14", []string{"kai/state/cstate/store.go", "kai/state/cstate/state.go", "kai/rawdb/accessors_cstate.go", "kai/rawdb/schema.go", "types/validator_set.go", "types/validator.go"}, runC14)
}

const ksT = "proto/kardiachain/state."

var c14Codecs = []codecSpec{
	{Name: "ValidatorSet", Dom: "types.ValidatorSet", Proto: kp + "ValidatorSet", Enc: "(*types.ValidatorSet).ToProto", Dec: "types.ValidatorSetFromProto", Validates: `ValidateBasic\(`},
	{Name: "Validator", Dom: "types.Validator", Proto: kp + "Validator", Enc: "(*types.Validator).ToProto", Dec: "types.ValidatorFromProto",
		DomSkip: map[string]string{"Name": "staking display field, not consensus state", "StakedAmount": "staking display field", "CommissionRate": "staking display field", "MaxRate": "staking display field", "MaxChangeRate": "staking display field", "Delegators": "staking display field", "SmcAddress": "staking display field", "Role": "staking display field", "Status": "staking display field", "Jailed": "staking display field", "DelegationShares": "staking display field", "AccumulatedCommission": "staking display field", "UpdateTime": "staking display field", "MissedBlocks": "staking display field", "SigningInfo": "staking display field"}},
}

func runC14(c *Ctx) {
	c.Decided = []string{
		"every field of the consensus state is assigned by the loader from a record the saver (or the block store) writes; the three validator sets are loaded from the records named by the like-named hash fields and saved/identified from the like-named sets (no cross-wiring)",
		"the validator-set and validator codecs cover every field both ways, including proposer priority, proposer and total power",
		"content-addressed records: the key function of a record covers every field the record stores (open finding: validator-set records are keyed by a membership hash but store priorities and the proposer)",
		"each record kind is read, written and deleted under one key function, and key prefixes are pairwise distinct",
		"the validator set returned for a height is the one named by that height's LastValidators hash",
	}
	c.NotDec = []string{"pruning safety over arbitrary ranges and membership histories (needs database contents)", "value equality of loaded and saved state over histories", "collision freedom of the truncated consensus-params key (params never change in this tree; advisory)"}
	c.Floors["S"] = 30
	c.Floors["F"] = 14
	c14Round3(c)

	// ---- load covers every field ----------------------------------------------------------------------
	load := c.Fn("kai/state/cstate", "", "loadStateAtHeight")
	sfp := c.Fn("kai/state/cstate", "", "StateFromProto")
	if load != nil && sfp != nil {
		written := map[string]bool{}
		for _, fn := range []*ssa.Function{load, sfp} {
			allInstrs(fn, false, func(_ *ssa.Function, in ssa.Instruction) {
				if st, ok := in.(*ssa.Store); ok {
					if fa, ok := st.Addr.(*ssa.FieldAddr); ok && namedOf(fa.X.Type()) == "kai/state/cstate.LatestBlockState" {
						written[fieldName(fa.X.Type(), fa.Field)] = true
					}
				}
			})
		}
		for _, f := range c.namedFields("kai/state/cstate.LatestBlockState") {
			c.Check("F", "kai/state/cstate.loadStateAtHeight/restores LatestBlockState."+f, written[f], load.Pos(), 1, "field "+f+" is never assigned while loading: the loaded state differs from the saved one in this field")
		}
		// name agreement: each set comes from the record under the like-named hash
		rec := func(h string) string {
			return `^call:types\.ValidatorSetFromProto\(call:kai/rawdb\.ReadConsensusValidatorsInfo\(db, call:lib/common\.BytesToHash\(call:kai/rawdb\.ReadConsensusStateHeight\(db, height\)\.` + h + `\)\)\.ValidatorSet\)#0$`
		}
		got := map[string]string{}
		for _, in := range findInstrs(load, StoreTo(`^&call:kai/state/cstate\.StateFromProto\(.*\)#0\.`)) {
			st := in.(*ssa.Store)
			f := pathOf(st.Addr)
			got[f[strings.LastIndex(f, ".")+1:]] = pathOf(st.Val)
		}
		_ = rec
		meta := `call:kai/rawdb\.ReadBlockMeta\(db, height\)`
		for f, w := range map[string]string{"LastBlockHeight": `^` + meta + `\.Header\.Height$`, "LastBlockID": `^` + meta + `\.BlockID$`, "LastBlockTime": `^` + meta + `\.Header\.Time$`,
			"AppHash": `^call:kai/rawdb\.ReadAppHash\(db, height\)$`, "LastHeightValidatorsChanged": `NextValidatorsInfoHash\)\)\.LastHeightChanged$`,
			"ConsensusParams": `ConsensusParamsInfoHash\)\)\.ConsensusParams$`, "LastHeightConsensusParamsChanged": `ConsensusParamsInfoHash\)\)\.LastHeightChanged$`} {
			c.Check("F", fnName(load)+"/"+f+" comes from the right record", re(w).MatchString(got[f]), load.Pos(), 1, f+" = "+clip(got[f], 200))
		}
		c.Guarded(load, "use of the block meta", StoreTo(`\.LastBlock(Height|ID|Time)$`), G("block meta exists", NotNil(`^`+meta+`$`)), G("state record exists", NotNil(`^call:kai/rawdb\.ReadConsensusStateHeight\(db, height\)$`)))
	}
	// ---- the loader skips the last validators exactly at the genesis record -------------------------------------
	if load != nil {
		st := findInstrs(load, StoreTo(`#0\.LastValidators$`))
		c.Check("F", fnName(load)+"/one assignment of LastValidators", len(st) == 1, load.Pos(), len(st), "")
		for _, in := range st {
			var other []string
			n := 0
			for _, dc := range domConds(in) {
				switch {
				case factMatches(dc, `#0\.LastBlockHeight (> const:0|!= const:0|>= const:1)\)=T$`):
					n++
				case re(`(== nil\)=F|!= nil\)=F|!= nil\)=T|== nil\)=T)$`).MatchString(dc): // record-missing / decode-error exits
				case re(`\.InitialHeight == const:0\)=`).MatchString(dc):
				default:
					other = append(other, dc)
				}
			}
			c.Check("G", fnName(load)+"/LastValidators is restored for every height above genesis (skipped only when LastBlockHeight == 0)", n == 1 && len(other) == 0, instrPos(in), 1,
				"conditions on the assignment: "+clip(strings.Join(domConds(in), " ; "), 400)+" — the saver records LastValidatorsInfoHash for every height, and the state at every height > 0 has a last validator set; any other skip condition loses it on reload")
		}
	}
	// ---- fields the loader re-derives from the block store agree with what the genesis state held when it was saved ----
	if mk := c.Fn("kai/state/cstate", "", "MakeGenesisState"); mk != nil && load != nil {
		set := map[string]string{}
		for _, in := range findInstrs(mk, StoreTo(`complit:kai/state/cstate\.LatestBlockState\.(LastBlockID|AppHash)$`)) {
			a := pathOf(in.(*ssa.Store).Addr)
			set[a[strings.LastIndex(a, ".")+1:]] = pathOf(in.(*ssa.Store).Val)
		}
		for _, f := range []string{"LastBlockID", "AppHash"} {
			v, isSet := set[f]
			zeroAtGenesis := !isSet || strings.HasPrefix(v, "alloc:complit:types.BlockID") || v == "nil" || strings.Contains(v, "const:")
			guarded := true
			for _, in := range findInstrs(load, StoreTo(`#0\.`+f+`$`)) {
				dc := domConds(in)
				if !(hasCond(dc, `^\(height (> const:0|!= const:0|>= const:1)\)=T$`) || hasCond(dc, `#0\.LastBlockHeight (> const:0|!= const:0|>= const:1)\)=T$`) || hasCond(dc, `\.Header\.Height (> const:0|!= const:0|>= const:1)\)=T$`)) {
					guarded = false
				}
			}
			// the genesis state is saved with a zero value: loading the genesis record must not replace it by the genesis
			// block's value (and the other way round)
			c.Check("F", fnName(load)+"/"+f+" of the genesis state is the same after a restart as on the first start", zeroAtGenesis == guarded, load.Pos(), 2,
				fmt.Sprintf("MakeGenesisState leaves %s %s, the loader %s it from the block store at height 0 (a genesis block with a real id and application root is stored there): a node restarted before the first block holds another state than a node that was not, and rejects its block 1", f,
					map[bool]string{true: "zero", false: "set (" + clip(v, 60) + ")"}[zeroAtGenesis], map[bool]string{true: "does not take", false: "takes"}[guarded]))
		}
	}
	// ---- ToProto: like-named hashes ---------------------------------------------------------------------
	if fn := c.Fn("kai/state/cstate", "LatestBlockState", "ToProto"); fn != nil {
		got := map[string][]string{}
		for _, in := range findInstrs(fn, StoreTo(`InfoHash$`)) {
			st := in.(*ssa.Store)
			f := pathOf(st.Addr)
			got[f[strings.LastIndex(f, ".")+1:]] = append(got[f[strings.LastIndex(f, ".")+1:]], pathOf(st.Val))
		}
		for f, set := range map[string]string{"LastValidatorsInfoHash": "LastValidators", "ValidatorsInfoHash": "Validators", "NextValidatorsInfoHash": "NextValidators"} {
			ok := false
			for _, v := range got[f] {
				if v == "call:(lib/common.Hash).Bytes(call:(*types.ValidatorSet).Hash(state."+set+"))" {
					ok = true
				}
			}
			c.Check("F", fnName(fn)+"/"+f+" identifies state."+set, ok, fn.Pos(), 1, strings.Join(got[f], " | "))
		}
	}
	// ---- saveState: like-named records ---------------------------------------------------------------------
	if fn := c.Fn("kai/state/cstate", "", "saveState"); fn != nil {
		got := map[string]string{}
		for _, in := range findInstrs(fn, StoreTo(`InfoHash$`)) {
			st := in.(*ssa.Store)
			f := pathOf(st.Addr)
			got[f[strings.LastIndex(f, ".")+1:]] = pathOf(st.Val)
		}
		for f, set := range map[string]string{"LastValidatorsInfoHash": "LastValidators", "ValidatorsInfoHash": "Validators", "NextValidatorsInfoHash": "NextValidators"} {
			ok := re(`^call:\(lib/common\.Hash\)\.Bytes\(call:kai/state/cstate\.saveValidatorsInfo\(call:iface:\(kai/kaidb\.Batcher\)\.NewBatch\(db\), state\.LastHeightValidatorsChanged, state\.` + set + `\)\)$`).MatchString(got[f])
			c.Check("F", fnName(fn)+"/"+f+" is the key of the saved state."+set+" record", ok, fn.Pos(), 1, clip(got[f], 200))
		}
		okP := re(`^call:\(lib/common\.Hash\)\.Bytes\(call:kai/state/cstate\.saveConsensusParamsInfo\(call:iface:\(kai/kaidb\.Batcher\)\.NewBatch\(db\), state\.LastHeightConsensusParamsChanged, state\.ConsensusParams\)\)$`).MatchString(got["ConsensusParamsInfoHash"])
		c.Check("F", fnName(fn)+"/ConsensusParamsInfoHash is the key of the saved consensus-params record", okP, fn.Pos(), 1, "the per-height record names the params record by "+clip(got["ConsensusParamsInfoHash"], 160)+"; the loader looks the record up under this hash, so it must be the key saveConsensusParamsInfo wrote under (ToProto's own hash covers the params only)")
		nextSetSavedRule(c)
		c.OnEveryPath(fn, "save the consensus params", CallTo(`^kai/state/cstate\.saveConsensusParamsInfo$`, ""), "return", AnyReturn())
		c.OnEveryPath(fn, "write the per-height state record", CallTo(`^kai/rawdb\.WriteConsensusStateHeight$`, ""), "return", AnyReturn())
		for _, in := range findInstrs(fn, CallTo(`^kai/rawdb\.WriteConsensusStateHeight$`, "")) {
			a := argPaths(callCommon(in))
			c.Check("F", fnName(fn)+"/state record is keyed by LastBlockHeight", len(a) == 3 && a[1] == "state.LastBlockHeight", instrPos(in), 1, describeInstr(in))
		}
		c.Guarded(fn, "save last/current sets", CallTo(`^kai/state/cstate\.saveValidatorsInfo$`, `state\.(LastValidators|Validators)\)$`), G("genesis state (LastBlockHeight == 0)", Cmp(`^state\.LastBlockHeight$`, "==", `^const:0$`)))
	}
	// ---- saveState is one atomic batch --------------------------------------------------------------------------
	c.atomicBatch([]batchFn{{"kai/state/cstate", "", "saveState"}})
	// ---- pruning keeps every record the surviving states name ---------------------------------------------------
	if fn := c.Fn("kai/state/cstate", "dbStore", "PruneState"); fn != nil {
		delInfo := CallTo(`^kai/rawdb\.DeleteConsensusValidatorsInfo$`, "")
		for _, in := range findInstrs(fn, delInfo) {
			a := argPaths(callCommon(in))
			c.Check("F", fnName(fn)+"/only records collected in the prune set are deleted", len(a) == 2 && re(`^next\(range\(make:map\[lib/common\.Hash\]struct\{\}\)\)#1$`).MatchString(a[1]), instrPos(in), 1, describeInstr(in))
		}
		for _, keep := range []struct{ name, h string }{{"the first kept state (height `to`)", "to"}, {"the genesis state", "const:0"}} {
			rec := `call:kai/rawdb.ReadConsensusStateHeight(s.db, ` + keep.h + `)`
			for _, f := range []string{"LastValidatorsInfoHash", "ValidatorsInfoHash", "NextValidatorsInfoHash"} {
				want := "call:lib/common.BytesToHash(" + rec + "." + f + ")"
				must := func(in ssa.Instruction) bool {
					cc := callCommon(in)
					if cc == nil || calleeNameNoPath(cc) != "delete" {
						return false
					}
					a := argPaths(cc)
					return len(a) == 2 && strings.HasPrefix(a[0], "make:map[lib/common.Hash]") && a[1] == want
				}
				c.AfterGuard(fn, G(keep.name+" exists", NotNil("^"+regexpQuote(rec)+"$")), "take "+f+" of "+keep.name+" out of the prune set", must, "deleting validators-info records", delInfo)
			}
		}
		delState := CallTo(`^kai/rawdb\.DeleteConsensusStateHeight$`, "")
		c.Guarded(fn, "delete a state record", delState, G("height below `to` (the first kept state)", Cmp(`^phi\(`, "<", `^to$`)))
		for _, in := range findInstrs(fn, delState) {
			a := argPaths(callCommon(in))
			c.Check("F", fnName(fn)+"/the genesis state record is never pruned (from is raised to 1)", len(a) == 2 && strings.Contains(a[1], "phi(const:1|from)"), instrPos(in), 1, describeInstr(in))
		}
	}
	// ---- content-address key coverage ---------------------------------------------------------------------
	if fn := c.Fn("kai/state/cstate", "", "saveValidatorsInfo"); fn != nil {
		hashFn := c.P.Func("types", "ValidatorSet", "Hash")
		encFn := c.P.Func("types", "ValidatorSet", "ToProto")
		ok := len(findInstrs(fn, CallTo(`^kai/rawdb\.WriteConsensusValidatorsInfo$`, `WriteConsensusValidatorsInfo\(db, phi\(.*call:\(\*types\.ValidatorSet\)\.Hash\(valSet\).*\), `))) == 1
		c.Check("F", fnName(fn)+"/record key is valSet.Hash()", ok, fn.Pos(), 1, "")
		if hashFn != nil && encFn != nil {
			k := c.Effects(hashFn, 3).Reads
			v := c.Effects(encFn, 3).Reads
			var refs []fieldRef
			for r := range v {
				if r.Type == "types.ValidatorSet" || r.Type == "types.Validator" {
					refs = append(refs, r)
				}
			}
			sort.Slice(refs, func(i, j int) bool { return refs[i].String() < refs[j].String() })
			for _, r := range refs {
				if r.String() == "types.ValidatorSet.totalVotingPower" {
					continue // a cache of the sum of the voting powers, which the key covers
				}
				c.Check("E", fnName(fn)+"/record key (ValidatorSet.Hash) covers stored field "+r.String(), k[r], fn.Pos(), 1,
					"the validators-info record stores "+r.String()+" (ValidatorSet.ToProto) but is keyed by ValidatorSet.Hash(), which does not read it: sets that differ only in this field (the same members at different heights, e.g. Validators and NextValidators) share ONE record, so the loaded set carries another set's value")
			}
		}
	}
	if fn := c.Fn("kai/state/cstate", "", "saveConsensusParamsInfo"); fn != nil {
		n := len(findInstrs(fn, CallTo(`^lib/common\.BytesToHash$`, "")))
		o := c.add("E", fnName(fn)+"/record key is a hash of the record", map[bool]Verdict{true: Violated, false: Discharged}[n > 0], fn.Pos(), 1,
			"the key is common.BytesToHash(marshalled record), i.e. its last 32 bytes, not a hash: records differing only earlier collide (advisory: consensus params never change in this tree, so no two records exist)")
		o.Advisory = true
		// the same (truncating) key derivation on the save and the identify side
		tp := c.P.Func("kai/state/cstate", "LatestBlockState", "ToProto")
		if tp != nil {
			n2 := len(findInstrs(tp, CallTo(`^lib/common\.BytesToHash$`, "")))
			c.Check("S", "consensus-params key derivation agrees between ToProto and saveConsensusParamsInfo", n2 == 1 && n == 1, fn.Pos(), 2, "")
		}
	}
	// ---- LoadValidators -----------------------------------------------------------------------------------
	if fn := c.Fn("kai/state/cstate", "dbStore", "LoadValidators"); fn != nil {
		n := len(findInstrs(fn, CallTo(`^kai/rawdb\.ReadConsensusValidatorsInfo$`, `BytesToHash\(call:kai/rawdb\.ReadConsensusStateHeight\(s\.db, height\)\.LastValidatorsInfoHash\)`)))
		c.Check("F", fnName(fn)+"/returns the set named by LastValidatorsInfoHash of that height's record", n == 1, fn.Pos(), n, "the validators entitled to sign height h are the LastValidators of the state saved at h")
		c.Guarded(fn, "use the state record", CallTo(`^kai/rawdb\.ReadConsensusValidatorsInfo$`, ""), G("state record exists", NotNil(`^call:kai/rawdb\.ReadConsensusStateHeight\(s\.db, height\)$`)))
		c.Guarded(fn, "decode the set", CallTo(`^types\.ValidatorSetFromProto$`, ""), G("validators record exists", NotNil(`^call:kai/rawdb\.ReadConsensusValidatorsInfo\(`)))
	}
	// ---- codecs ---------------------------------------------------------------------------------------------
	for _, sp := range c14Codecs {
		c.codecPair(sp)
	}
	if fn := c.Fn("types", "ValidatorSet", "Copy"); fn != nil {
		got := map[string]bool{}
		for _, in := range findInstrs(fn, StoreTo(`^&alloc:complit:types\.ValidatorSet\.`)) {
			f := pathOf(in.(*ssa.Store).Addr)
			got[f[strings.LastIndex(f, ".")+1:]] = true
		}
		for _, f := range c.namedFields("types.ValidatorSet") {
			c.Check("F", fnName(fn)+"/copies "+f, got[f], fn.Pos(), 1, "")
		}
	}
	if fn := c.Fn("kai/state/cstate", "LatestBlockState", "Copy"); fn != nil {
		got := map[string]bool{}
		for _, in := range findInstrs(fn, StoreTo(`^&alloc:complit:kai/state/cstate\.LatestBlockState\.`)) {
			f := pathOf(in.(*ssa.Store).Addr)
			got[f[strings.LastIndex(f, ".")+1:]] = true
		}
		for _, f := range c.namedFields("kai/state/cstate.LatestBlockState") {
			if f == "LastHeightConsensusParamsChanged" && !got[f] {
				o := c.add("F", fnName(fn)+"/copies "+f, Violated, fn.Pos(), 1, "Copy drops LastHeightConsensusParamsChanged (advisory: updateState never carries it either, so the saved and the loaded value are both 0)")
				o.Advisory = true
				continue
			}
			c.Check("F", fnName(fn)+"/copies "+f, got[f], fn.Pos(), 1, "a state copy that drops "+f+" is what gets applied and saved")
		}
	}
	// ---- rawdb: one key function per kind, distinct prefixes ---------------------------------------------------
	c.rawdbKeys()
	c.rawdbKeyWidths()
	validatorSetRoles(c)
}

// rawdbKeyWidths: a database key carries each numeric parameter of its key function in full width, through the schema's
// fixed-width big-endian encoders — a key that keeps only part of an index makes two records share one key (part i and
// part i+256 of a block). Narrowing conversions are tabled. Shared by C14 (state records) and C13 (block parts).
func (c *Ctx) rawdbKeyWidths() {
	allowed := map[string]int{ // function.parameter -> narrowest width its value may be converted to
		"blockPartKey.index": 32, // encodeIndex(uint32): a block has at most MaxBlockPartsCount (1601) parts
		"bloomBitsKey.bit":   16, // bloom bit index < 2048 (as upstream)
	}
	n := 0
	for _, fn := range c.P.ModFuncs {
		if fn.Pkg == nil || strings.TrimPrefix(fn.Pkg.Pkg.Path(), modPath+"/") != "kai/rawdb" || fn.Parent() != nil || len(fn.Blocks) == 0 {
			continue
		}
		name := fn.Name()
		if !(strings.HasSuffix(name, "Key") && name[0] >= 'a' && name[0] <= 'z') || fn.Signature.Results().Len() != 1 {
			continue
		}
		c.Funcs[fnName(fn)] = true
		for _, prm := range fn.Params {
			bt, ok := prm.Type().Underlying().(*types.Basic)
			if !ok || bt.Info()&types.IsInteger == 0 {
				continue
			}
			n++
			key := name + "." + nameOf(prm, prm.Name())
			minW, encoded := 64, false
			var visit func(v ssa.Value, depth int)
			visit = func(v ssa.Value, depth int) {
				if depth > 4 || v.Referrers() == nil {
					return
				}
				for _, r := range *v.Referrers() {
					switch x := r.(type) {
					case *ssa.Convert:
						if t, ok := x.Type().Underlying().(*types.Basic); ok && t.Info()&types.IsInteger != 0 {
							w := 64
							switch t.Kind() {
							case types.Int8, types.Uint8:
								w = 8
							case types.Int16, types.Uint16:
								w = 16
							case types.Int32, types.Uint32:
								w = 32
							}
							if w < minW {
								minW = w
							}
						}
						visit(x, depth+1)
					case *ssa.Call:
						if re(`^kai/rawdb\.(encodeBlockHeight|encodeIndex)$|^\(encoding/binary\.bigEndian\)\.PutUint(16|32|64)$`).MatchString(calleeNameNoPath(&x.Call)) {
							encoded = true
						}
					case *ssa.BinOp, *ssa.Phi:
						visit(r.(ssa.Value), depth+1)
					}
				}
			}
			visit(prm, 0)
			want := 64
			if w, ok := allowed[key]; ok {
				want = w
			}
			c.Check("T", "kai/rawdb."+key+"/the key carries the parameter in full width through a fixed-width big-endian encoder", encoded && minW >= want, fn.Pos(), 1,
				fmt.Sprintf("narrowest conversion %d bits (allowed %d), encoder reached: %v", minW, want, encoded))
		}
	}
	c.Check("T", "kai/rawdb/numeric key parameters enumerated", n >= 12, token.NoPos, n, "")
}

// rawdbKeys: Read/Write/Delete of one record kind use one key function; key prefixes are pairwise distinct constants.
func (c *Ctx) rawdbKeys() {
	kinds := []string{"ConsensusStateHeight", "ConsensusParamsInfo", "ConsensusValidatorsInfo", "AppHash", "BlockMeta", "CanonicalHash", "HeadBlockHash", "Commit", "SeenCommit", "BlockPart", "BlockInfo"}
	for _, k := range kinds {
		keyFns := map[string][]string{}
		for _, op := range []string{"Read", "Write", "Delete", "Has", "write"} {
			fn := c.P.Func("kai/rawdb", "", op+k)
			if fn == nil {
				continue
			}
			c.Funcs[fnName(fn)] = true
			var kf []string
			allInstrs(fn, false, func(_ *ssa.Function, in ssa.Instruction) {
				cc := callCommon(in)
				if cc == nil || !re(`\)\.(Get|Put|Delete|Has)$`).MatchString(calleeNameNoPath(cc)) {
					return
				}
				a := argPaths(cc)
				if len(a) < 2 {
					return
				}
				key := a[1]
				if i := strings.Index(key, "("); i > 0 {
					key = key[:i]
				}
				kf = append(kf, key)
			})
			if len(kf) > 0 {
				keyFns[op] = kf
			}
		}
		if len(keyFns) < 2 {
			continue
		}
		all := map[string]bool{}
		var desc []string
		for op, kf := range keyFns {
			for _, x := range kf {
				all[x] = true
			}
			desc = append(desc, op+":"+strings.Join(kf, ","))
		}
		sort.Strings(desc)
		c.Check("S", "kai/rawdb "+k+"/read, write and delete use one key function", len(all) == 1, c.fnPos("kai/rawdb.Read"+k), len(keyFns), strings.Join(desc, " "))
	}
	// prefixes
	f, _ := c.P.FileAST("kai/rawdb/schema.go")
	if f == nil {
		c.Unres("T", "kai/rawdb key prefixes", "schema.go not loaded")
		return
	}
	vals := map[string]string{}
	ast.Inspect(f, func(n ast.Node) bool {
		vs, ok := n.(*ast.ValueSpec)
		if !ok {
			return true
		}
		for i, name := range vs.Names {
			if i >= len(vs.Values) || !(strings.HasSuffix(name.Name, "Prefix") || strings.HasSuffix(name.Name, "Key")) {
				continue
			}
			if call, ok := vs.Values[i].(*ast.CallExpr); ok && len(call.Args) == 1 {
				if bl, ok := call.Args[0].(*ast.BasicLit); ok {
					vals[name.Name] = bl.Value
				}
			}
		}
		return true
	})
	byVal := map[string][]string{}
	for n, v := range vals {
		byVal[v] = append(byVal[v], n)
	}
	var dups []string
	for v, ns := range byVal {
		if len(ns) > 1 {
			sort.Strings(ns)
			dups = append(dups, v+"="+strings.Join(ns, ","))
		}
	}
	sort.Strings(dups)
	c.Check("T", "kai/rawdb key prefixes are pairwise distinct", len(dups) == 0 && len(vals) >= 30, f.Pos(), len(vals), fmt.Sprintf("%d prefixes; duplicates: %s", len(vals), strings.Join(dups, "; ")))
}

// nextSetSavedRule (shared by C14 and C12): every save of the state writes the next validator set's record, priorities
// included; a restarted node reads its rotation from it.
func nextSetSavedRule(c *Ctx) {
	if fn := c.Fn("kai/state/cstate", "", "saveState"); fn != nil {
		next := CallTo(`^kai/state/cstate\.saveValidatorsInfo$`, `state\.NextValidators\)$`)
		c.OnEveryPath(fn, "save the next validator set", next, "return", AnyReturn())
	}
}
