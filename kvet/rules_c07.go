package main

// C07 — the Merkle Patricia trie is an authenticated map with a canonical root (structural clauses).

import (
	"fmt"
	"strings"

	"golang.org/x/tools/go/ssa"
)

func init() {
	register("C07", []string{"trie/trie.go", "trie/hasher.go", "trie/committer.go", "trie/node.go", "trie/node_enc.go", "trie/encoding.go", "trie/proof.go", "trie/stacktrie.go", "trie/secure_trie.go", "types/hashing.go"}, runC07)
}

// nodeStoreBase: a store into a field of a trie node; returns the node value stored into and the field.
func nodeStoreBase(in ssa.Instruction) (ssa.Value, string, bool) {
	st, ok := in.(*ssa.Store)
	if !ok {
		return nil, "", false
	}
	addr := st.Addr
	suffix := ""
	for {
		switch a := addr.(type) {
		case *ssa.IndexAddr:
			addr = a.X
			suffix = "[i]" + suffix
			continue
		case *ssa.FieldAddr:
			t := namedOf(a.X.Type())
			f := fieldName(a.X.Type(), a.Field)
			if t == "trie.fullNode" || t == "trie.shortNode" {
				return a.X, t[5:] + "." + f + suffix, true
			}
			addr = a.X
			suffix = "." + f + suffix
			continue
		}
		return nil, "", false
	}
}

// ownedNode: the node value is created in this function (composite literal / new) or is the result of copy().
func ownedNode(v ssa.Value, seen map[ssa.Value]bool) bool {
	if seen[v] {
		return true
	}
	seen[v] = true
	switch x := v.(type) {
	case *ssa.Alloc:
		return true
	case *ssa.Call:
		n := calleeNameNoPath(&x.Call)
		return n == "(*trie.fullNode).copy" || n == "(*trie.shortNode).copy"
	case *ssa.Phi:
		for _, e := range x.Edges {
			if !ownedNode(e, seen) {
				return false
			}
		}
		return true
	case *ssa.UnOp:
		// load of a local cell: every value stored into the cell is owned
		cell, ok := x.X.(*ssa.Alloc)
		if !ok {
			return false
		}
		n := 0
		for _, r := range *cell.Referrers() {
			if st, ok := r.(*ssa.Store); ok && st.Addr == cell {
				n++
				if !ownedNode(st.Val, seen) {
					return false
				}
			}
		}
		return n > 0
	}
	return false
}

func runC07(c *Ctx) {
	c.Decided = []string{
		"copy-on-write: every store into a trie node targets a node created in the same function or a copy() of the shared one; insert/delete give every node they create or copy a fresh dirty flag (no stale cached hash); keys are never extended in place",
		"shape rules on insert and delete: unchanged subtrees are returned as they were, a short node is never given a short-node child by delete, a one-child branch is collapsed, a branch at offset 0 replaces the short node, empty values delete",
		"the trie root is replaced only after the operation succeeded; Copy covers every field",
		"node codec agreement: 17-item branch / 2-item short node with compact keys on both sides, reference forms (empty, 32-byte hash, embedded list below 32 bytes), embedding rule identical for both node kinds and the stack trie hashes through the same encoders",
		"compact/hex key encoding tables (terminator and odd flags, nibble order)",
		"proofs: Prove stores every element under the hash of its encoding; VerifyProof follows only the hash it wants and decodes the node with that hash",
	}
	c.NotDec = []string{"get-after-update semantics and order independence of the root over all operation histories", "equality with an independent implementation and with the stack trie for all data", "reopen-from-database content equality", "that no tampered proof verifies (VerifyProof trusts a hash-keyed proof database; only the in-repo writer is checked)"}
	c.Floors["W"] = 30
	c.Floors["G"] = 20
	c07Round3(c)

	// ---- ownership of stores into nodes -----------------------------------------------------------------------
	tabled := map[string]string{
		"trie.proofToPath":                      "builds the throw-away trie that VerifyRangeProof assembles from the proof; its nodes are not shared with any live trie",
		"trie.unset":                            "range-proof helper on the throw-away proof trie",
		"trie.unsetInternal":                    "range-proof helper on the throw-away proof trie",
		"(*trie.hasher).hash":                   "stores the computed hash into the `cached` copy returned by hash{Short,Full}NodeChildren (checked to be copies below)",
		"(*trie.hasher).hashFullNodeChildren$1": "closure of hashFullNodeChildren writing the two copies made by its parent",
	}
	nStores := 0
	for _, f := range c.P.ModFuncs {
		if f.Pkg == nil || strings.TrimPrefix(f.Pkg.Pkg.Path(), modPath+"/") != "trie" || len(f.Blocks) == 0 {
			continue
		}
		f := f
		per := map[string]int{}
		allInstrs(f, false, func(_ *ssa.Function, in ssa.Instruction) {
			b, fld, ok := nodeStoreBase(in)
			if !ok {
				return
			}
			nStores++
			per[fld]++
			key := fmt.Sprintf("%s/store into %s targets a node owned by this call", fnName(f), fld)
			if per[fld] > 1 {
				key += fmt.Sprintf(" #%d", per[fld])
			}
			if why, ok := tabled[fnName(f)]; ok {
				c.OK("W", key, instrPos(in), 1, "tabled: "+why)
				return
			}
			c.Check("W", key, ownedNode(b, map[ssa.Value]bool{}), instrPos(in), 1, "the node written is "+clip(pathOf(b), 120)+", which may be shared with another trie, an earlier root or the hash cache: the change shows through them")
		})
	}
	c.Check("W", "trie/stores into node fields inventoried", nStores >= 70, c.fnPos("(*trie.Trie).insert"), nStores, "")
	for _, name := range []string{"hashShortNodeChildren", "hashFullNodeChildren"} {
		if fn := c.Fn("trie", "hasher", name); fn != nil {
			ok := true
			for _, in := range findInstrs(fn, AnyReturn()) {
				for _, r := range in.(*ssa.Return).Results {
					if !ownedNode(r, map[ssa.Value]bool{}) {
						ok = false
					}
				}
			}
			nc := len(findInstrs(fn, CallTo(`^\(\*trie\.(full|short)Node\)\.copy$`, "")))
			c.Check("W", fnName(fn)+"/returns two separate copies of the node", ok && nc == 2, fn.Pos(), nc, "")
		}
	}
	for _, name := range []string{"fullNode", "shortNode"} {
		if fn := c.Fn("trie", name, "copy"); fn != nil {
			ok := false
			for _, in := range findInstrs(fn, AnyReturn()) {
				if a, isAlloc := in.(*ssa.Return).Results[0].(*ssa.Alloc); isAlloc && a.Heap {
					ok = true
				}
			}
			c.Check("W", fnName(fn)+"/returns a new node holding a copy of the fields", ok, fn.Pos(), 1, "")
		}
	}
	// ---- fresh flags in insert/delete ------------------------------------------------------------------------
	if fn := c.Fn("trie", "Trie", "newFlag"); fn != nil {
		n := 0
		for _, in := range findInstrs(fn, StoreTo(`\.dirty$`)) {
			if pathOf(in.(*ssa.Store).Val) == "const:true" {
				n++
			}
		}
		h := len(findInstrs(fn, StoreTo(`\.hash$`)))
		c.Check("F", fnName(fn)+"/new flags are dirty and carry no cached hash", n == 1 && h == 0, fn.Pos(), n, "")
	}
	for _, name := range []string{"insert", "delete"} {
		fn := c.Fn("trie", "Trie", name)
		if fn == nil {
			continue
		}
		newFlag := func(v ssa.Value) bool { return pathOf(v) == "call:(*trie.Trie).newFlag(t)" }
		// composite literals
		nLit := 0
		allInstrs(fn, false, func(_ *ssa.Function, in ssa.Instruction) {
			a, ok := in.(*ssa.Alloc)
			if !ok || !a.Heap {
				return
			}
			t := namedOf(a.Type())
			if t != "trie.shortNode" && t != "trie.fullNode" {
				return
			}
			nLit++
			ok = false
			for _, r := range *a.Referrers() {
				if fa, isFA := r.(*ssa.FieldAddr); isFA && fieldName(fa.X.Type(), fa.Field) == "flags" {
					for _, r2 := range *fa.Referrers() {
						if st, isSt := r2.(*ssa.Store); isSt && st.Addr == fa && newFlag(st.Val) {
							ok = true
						}
					}
				}
			}
			c.Check("F", fmt.Sprintf("%s/new %s at %s gets fresh dirty flags", fnName(fn), t[5:], c.P.Pos(a.Pos())), ok, a.Pos(), 1, "a node created without t.newFlag() keeps a zero flag: it is not marked dirty and Commit skips it")
		})
		c.Check("F", fnName(fn)+"/node literals inventoried", nLit >= 4, fn.Pos(), nLit, "")
		// copies
		cp := CallTo(`^\(\*trie\.(full|short)Node\)\.copy$`, "")
		c.FollowedBy(fn, "n.copy()", cp, "n.flags = t.newFlag()", func(in ssa.Instruction) bool {
			st, ok := in.(*ssa.Store)
			return ok && strings.HasSuffix(pathOf(st.Addr), ".flags") && newFlag(st.Val)
		}, "return", AnyReturn())
		// unchanged subtrees come back as they were
		bad := ""
		for _, in := range findInstrs(fn, ReturnWith(0, `^const:false$`)) {
			r := in.(*ssa.Return)
			p := pathOf(r.Results[1])
			if !(p == "nil" || re(`^n\.\(\*trie\.(short|full)Node\)#0$`).MatchString(p) || strings.HasPrefix(p, "call:(*trie.Trie).resolveAndTrack(")) {
				bad = describeInstr(in)
			}
		}
		c.Check("F", fnName(fn)+"/a subtree reported unchanged is returned as it was (or in its resolved form)", bad == "", fn.Pos(), 1, bad)
	}
	// keys are never extended in place
	nApp := 0
	for _, f := range c.P.ModFuncs {
		if f.Pkg == nil || strings.TrimPrefix(f.Pkg.Pkg.Path(), modPath+"/") != "trie" || len(f.Blocks) == 0 {
			continue
		}
		f := f
		allInstrs(f, false, func(_ *ssa.Function, in ssa.Instruction) {
			cc := callCommon(in)
			if cc == nil || calleeNameNoPath(cc) != "append" || len(cc.Args) == 0 {
				return
			}
			nApp++
			if r, ok := fieldOfValue(cc.Args[0]); ok && r.String() == "trie.shortNode.Key" {
				c.Bad("W", fnName(f)+"/node keys are never extended in place", instrPos(in), 1, describeInstr(in)+": append may write into the backing array shared with other nodes")
			}
		})
	}
	c.Check("W", "trie/node keys are never extended in place", true, c.fnPos("trie.concat"), nApp, fmt.Sprintf("%d append calls inspected", nApp))
	if fn := c.Fn("trie", "", "concat"); fn != nil {
		n := len(findInstrs(fn, ReturnWith(0, `^make:\[\]byte\(`)))
		c.Check("W", fnName(fn)+"/always returns a new slice", n == 1, fn.Pos(), n, "")
	}
	c07Shape(c)
	c07Codec(c)
	c07Proof(c)
	c07Committer(c)
}
