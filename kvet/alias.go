package main

import (
	"go/token"
	"go/types"
	"sort"
	"strings"

	"golang.org/x/tools/go/ssa"
)

// aliasAn tracks which values may share the backing array of a given byte slice: through re-slicing, phis, type
// changes, local variables, append's first operand, and calls whose result may be (a slice of) one of their
// parameters (summaries computed over static callees and, for interface calls, over every module method of that
// name whose receiver implements the interface). Copies (copy, append onto another slice, conversions to string,
// any callee that does not return its parameter) end the flow. Flows through heap fields are not followed.
type aliasAn struct {
	p    *Program
	summ map[*ssa.Function]map[int]map[int]aliasRes
	busy map[*ssa.Function]bool
}

// aliasRes qualifies "result i may be parameter k": NilErrOnly says that on every return where it is, the function's
// error result (index ErrIdx) is nil — so a caller that knows the error to be non-nil knows the result is not the
// parameter (go-ethereum's form of the return-data repair copies only on the err == nil / reverted branch).
type aliasRes struct {
	NilErrOnly bool
	ErrIdx     int
}

func newAliasAn(p *Program) *aliasAn {
	return &aliasAn{p: p, summ: map[*ssa.Function]map[int]map[int]aliasRes{}, busy: map[*ssa.Function]bool{}}
}

// callees of a call: the static callee, or the module methods that can stand behind an interface call.
func (a *aliasAn) callees(cc *ssa.CallCommon) []*ssa.Function {
	if f := cc.StaticCallee(); f != nil {
		return []*ssa.Function{f}
	}
	if !cc.IsInvoke() {
		return nil
	}
	iface, _ := cc.Value.Type().Underlying().(*types.Interface)
	if iface == nil {
		return nil
	}
	var out []*ssa.Function
	for _, f := range a.p.ModFuncs {
		if f.Name() != cc.Method.Name() || f.Signature.Recv() == nil || f.Parent() != nil || f.Synthetic != "" {
			continue
		}
		if types.Implements(f.Signature.Recv().Type(), iface) {
			out = append(out, f)
		}
	}
	sort.Slice(out, func(i, j int) bool { return out[i].String() < out[j].String() })
	return out
}

// paramResults: the result indexes of fn that may alias its pi-th parameter (receiver counted as parameter 0).
func (a *aliasAn) paramResults(fn *ssa.Function, pi int) map[int]aliasRes {
	if len(fn.Blocks) == 0 || pi >= len(fn.Params) {
		return nil
	}
	if m, ok := a.summ[fn]; ok {
		if r, ok := m[pi]; ok {
			return r
		}
	} else {
		a.summ[fn] = map[int]map[int]aliasRes{}
	}
	if a.busy[fn] {
		return nil // recursion: the outer computation covers the non-recursive paths
	}
	a.busy[fn] = true
	res := map[int]aliasRes{}
	set := a.forward(fn, []ssa.Value{fn.Params[pi]})
	errIdx := -1
	if rs := fn.Signature.Results(); rs.Len() > 0 && rs.At(rs.Len()-1).Type().String() == "error" {
		errIdx = rs.Len() - 1
	}
	for _, b := range fn.Blocks {
		for _, in := range b.Instrs {
			if r, ok := in.(*ssa.Return); ok {
				for i, x := range r.Results {
					if !set[x] {
						continue
					}
					ok := errIdx >= 0 && i != errIdx && a.pairOK(x, r.Results[errIdx], set, map[ssa.Value]bool{})
					if prev, seen := res[i]; seen {
						ok = ok && prev.NilErrOnly
					}
					res[i] = aliasRes{NilErrOnly: ok, ErrIdx: errIdx}
				}
			}
		}
	}
	a.busy[fn] = false
	a.summ[fn][pi] = res
	return res
}

// pairOK: whenever v is one of the aliased values, e (the error returned or tested together with it) is nil.
func (a *aliasAn) pairOK(v, e ssa.Value, set map[ssa.Value]bool, seen map[ssa.Value]bool) bool {
	if !set[v] {
		return true
	}
	if c, ok := e.(*ssa.Const); ok && c.IsNil() {
		return true
	}
	if seen[v] {
		return true
	}
	seen[v] = true
	switch x := v.(type) {
	case *ssa.Extract:
		e2, ok := e.(*ssa.Extract)
		if !ok || e2.Tuple != x.Tuple {
			return false
		}
		call, ok := x.Tuple.(*ssa.Call)
		return ok && a.callNilErrOnly(call, x.Index, e2.Index, set)
	case *ssa.Phi:
		p2, ok := e.(*ssa.Phi)
		if !ok || p2.Block() != x.Block() {
			return false
		}
		for k := range x.Edges {
			if !a.pairOK(x.Edges[k], p2.Edges[k], set, seen) {
				return false
			}
		}
		return true
	case *ssa.UnOp:
		// named results kept in cells (functions with defers): the pair of cells is kept consistent store by store
		e2, ok := e.(*ssa.UnOp)
		if !ok || x.Op != token.MUL || e2.Op != token.MUL {
			return false
		}
		c1, ok1 := x.X.(*ssa.Alloc)
		c2, ok2 := e2.X.(*ssa.Alloc)
		return ok1 && ok2 && a.cellPairOK(c1, c2, set, seen)
	}
	return false
}

// cellPairOK: the value cell and the error cell of a function are written so that "the value cell holds an aliased
// value" implies "the error cell holds nil": an aliased value is stored only together with (same block) an error that
// pairOK accepts, and the error cell is otherwise only set to nil or to itself. Closures may read the cells.
func (a *aliasAn) cellPairOK(vc, ec *ssa.Alloc, set map[ssa.Value]bool, seen map[ssa.Value]bool) bool {
	type st struct{ v, e ssa.Value }
	per := map[*ssa.BasicBlock]*st{}
	collect := func(cell *ssa.Alloc, isErr bool) bool {
		refs := cell.Referrers()
		if refs == nil {
			return true
		}
		for _, u := range *refs {
			switch x := u.(type) {
			case *ssa.Store:
				if x.Addr != cell {
					return false // the cell's address is stored somewhere
				}
				s := per[x.Block()]
				if s == nil {
					s = &st{}
					per[x.Block()] = s
				}
				if isErr {
					s.e = x.Val
				} else {
					s.v = x.Val
				}
			case *ssa.UnOp:
			case *ssa.MakeClosure:
				fn, _ := x.Fn.(*ssa.Function)
				if fn == nil {
					return false
				}
				for i, b := range x.Bindings {
					if b != cell {
						continue
					}
					if r := fn.FreeVars[i].Referrers(); r != nil {
						for _, fu := range *r {
							if ld, ok := fu.(*ssa.UnOp); !ok || ld.Op != token.MUL {
								return false // the closure may write the cell
							}
						}
					}
				}
			case *ssa.DebugRef:
			default:
				return false
			}
		}
		return true
	}
	if !collect(vc, false) || !collect(ec, true) {
		return false
	}
	selfLoad := func(v ssa.Value, cell *ssa.Alloc) bool {
		ld, ok := v.(*ssa.UnOp)
		return ok && ld.Op == token.MUL && ld.X == cell
	}
	isNil := func(v ssa.Value) bool { c, ok := v.(*ssa.Const); return ok && c.IsNil() }
	for _, s := range per {
		switch {
		case s.v != nil && set[s.v] && !selfLoad(s.v, vc):
			if s.e == nil || !a.pairOK(s.v, s.e, set, seen) {
				return false
			}
		case s.v == nil || selfLoad(s.v, vc):
			if s.e != nil && !isNil(s.e) && !selfLoad(s.e, ec) {
				return false
			}
		}
	}
	return true
}

// callNilErrOnly: every way result ri of the call can be one of its aliased arguments comes with a nil result ei.
func (a *aliasAn) callNilErrOnly(call *ssa.Call, ri, ei int, set map[ssa.Value]bool) bool {
	cc := call.Common()
	if _, ok := cc.Value.(*ssa.Builtin); ok {
		return false
	}
	var args []ssa.Value
	if cc.IsInvoke() {
		args = append(args, cc.Value)
	}
	args = append(args, cc.Args...)
	for k, arg := range args {
		if !set[arg] {
			continue
		}
		for _, cal := range a.callees(cc) {
			if r, ok := a.paramResults(cal, k)[ri]; ok && !(r.NilErrOnly && r.ErrIdx == ei) {
				return false
			}
		}
	}
	return true
}

// knownNonNil: on every path into block b the value e was tested and found non-nil (b is dominated by the failing
// side of `e == nil` or the passing side of `e != nil`).
func knownNonNil(e ssa.Value, b *ssa.BasicBlock) bool {
	for d := b; d != nil; d = d.Idom() {
		if len(d.Preds) != 1 {
			continue
		}
		p := d.Preds[0]
		iff, ok := p.Instrs[len(p.Instrs)-1].(*ssa.If)
		if !ok || len(p.Succs) != 2 || p.Succs[0] == p.Succs[1] {
			continue
		}
		bo, ok := iff.Cond.(*ssa.BinOp)
		if !ok {
			continue
		}
		isNil := func(v ssa.Value) bool { c, ok := v.(*ssa.Const); return ok && c.IsNil() }
		if !((bo.X == e && isNil(bo.Y)) || (bo.Y == e && isNil(bo.X))) {
			continue
		}
		if (bo.Op == token.EQL && p.Succs[1] == d) || (bo.Op == token.NEQ && p.Succs[0] == d) {
			return true
		}
	}
	return false
}

// infeasibleEdge: v flows into a phi along the edge from pred, but v can only be an aliased argument of its call when
// that call's error is nil, and on this edge the error is known to be non-nil.
func (a *aliasAn) infeasibleEdge(v ssa.Value, pred *ssa.BasicBlock, set map[ssa.Value]bool) bool {
	ex, ok := v.(*ssa.Extract)
	if !ok {
		return false
	}
	call, ok := ex.Tuple.(*ssa.Call)
	if !ok {
		return false
	}
	refs := call.Referrers()
	if refs == nil {
		return false
	}
	for _, u := range *refs {
		e, ok := u.(*ssa.Extract)
		if !ok || e.Index == ex.Index || e.Type().String() != "error" {
			continue
		}
		if a.callNilErrOnly(call, ex.Index, e.Index, set) && knownNonNil(e, pred) {
			return true
		}
	}
	return false
}

// forward returns every value of fn that may share its backing array with one of the seeds.
func (a *aliasAn) forward(fn *ssa.Function, seeds []ssa.Value) map[ssa.Value]bool {
	set := map[ssa.Value]bool{}
	var work []ssa.Value
	add := func(v ssa.Value) {
		if v != nil && !set[v] {
			set[v] = true
			work = append(work, v)
		}
	}
	for _, s := range seeds {
		add(s)
	}
	for len(work) > 0 {
		v := work[len(work)-1]
		work = work[:len(work)-1]
		refs := v.Referrers()
		if refs == nil {
			continue
		}
		for _, in := range *refs {
			switch x := in.(type) {
			case *ssa.Slice:
				if x.X == v {
					add(x)
				}
			case *ssa.Phi:
				for k, e := range x.Edges {
					if e == v && !a.infeasibleEdge(v, x.Block().Preds[k], set) {
						add(x)
						break
					}
				}
			case *ssa.ChangeType:
				add(x)
			case *ssa.Store:
				if al, ok := x.Addr.(*ssa.Alloc); ok && x.Val == v {
					if r := al.Referrers(); r != nil {
						for _, u := range *r {
							if ld, ok := u.(*ssa.UnOp); ok && ld.X == al {
								add(ld)
							}
						}
					}
				}
			case *ssa.Extract:
				// reached only when the tuple itself was added (see the call case)
			case ssa.CallInstruction:
				cc := x.Common()
				val := x.Value()
				if val == nil {
					continue
				}
				if b, ok := cc.Value.(*ssa.Builtin); ok {
					if b.Name() == "append" && len(cc.Args) > 0 && cc.Args[0] == v {
						add(val)
					}
					continue
				}
				var args []ssa.Value
				if cc.IsInvoke() {
					args = append(args, cc.Value)
				}
				args = append(args, cc.Args...)
				for k, arg := range args {
					if arg != v {
						continue
					}
					for _, cal := range a.callees(cc) {
						for ri := range a.paramResults(cal, k) {
							if _, tuple := val.Type().(*types.Tuple); tuple {
								if r := val.Referrers(); r != nil {
									for _, u := range *r {
										if ex, ok := u.(*ssa.Extract); ok && ex.Index == ri {
											add(ex)
										}
									}
								}
							} else if ri == 0 {
								add(val)
							}
						}
					}
				}
			}
		}
	}
	return set
}

// describeChain names, for diagnostics, the callees through which parameter pi of fn can come back as a result.
func (a *aliasAn) describeChain(fn *ssa.Function, pi int, depth int) string {
	if depth > 6 || len(fn.Blocks) == 0 {
		return ""
	}
	set := a.forward(fn, []ssa.Value{fn.Params[pi]})
	for _, b := range fn.Blocks {
		for _, in := range b.Instrs {
			ci, ok := in.(ssa.CallInstruction)
			if !ok || ci.Value() == nil {
				continue
			}
			cc := ci.Common()
			var args []ssa.Value
			if cc.IsInvoke() {
				args = append(args, cc.Value)
			}
			args = append(args, cc.Args...)
			for k, arg := range args {
				if !set[arg] {
					continue
				}
				for _, cal := range a.callees(cc) {
					if len(a.paramResults(cal, k)) > 0 {
						s := fnName(cal)
						if t := a.describeChain(cal, k, depth+1); t != "" {
							s += " -> " + t
						}
						return s
					}
				}
			}
		}
	}
	for _, b := range fn.Blocks {
		for _, in := range b.Instrs {
			if r, ok := in.(*ssa.Return); ok {
				for _, x := range r.Results {
					if set[x] {
						return "returns " + strings.TrimSpace(pathOf(x))
					}
				}
			}
		}
	}
	return ""
}

// aliasWhy names the first call in fn through which an aliased argument comes back as (part of) the result.
func aliasWhy(a *aliasAn, fn *ssa.Function, set map[ssa.Value]bool) string {
	for _, b := range fn.Blocks {
		for _, in := range b.Instrs {
			ci, ok := in.(ssa.CallInstruction)
			if !ok || ci.Value() == nil {
				continue
			}
			cc := ci.Common()
			var args []ssa.Value
			if cc.IsInvoke() {
				args = append(args, cc.Value)
			}
			args = append(args, cc.Args...)
			for k, arg := range args {
				if !set[arg] {
					continue
				}
				for _, cal := range a.callees(cc) {
					if len(a.paramResults(cal, k)) > 0 {
						s := "via " + fnName(cal)
						if t := a.describeChain(cal, k, 0); t != "" {
							s += " -> " + t
						}
						return s
					}
				}
			}
		}
	}
	return "directly"
}
