package main

import (
	"go/types"
	"sort"
	"strings"

	"golang.org/x/tools/go/ssa"
)

// aliasAn tracks which values may share the backing array of a given byte slice: through re-slicing, phis, type
// changes, local variables, append's first operand, and calls whose result may be (a slice of) one of their
// parameters (summaries computed over static callees and, for interface calls, over every module method of that
// name whose receiver implements the interface). Copies (copy, append onto another slice, conversions to string,
// any callee that does not return its parameter) end the flow. Flows through heap fields are not followed.
type aliasAn struct {
	p    *Program
	summ map[*ssa.Function]map[int]map[int]bool
	busy map[*ssa.Function]bool
}

func newAliasAn(p *Program) *aliasAn {
	return &aliasAn{p: p, summ: map[*ssa.Function]map[int]map[int]bool{}, busy: map[*ssa.Function]bool{}}
}

// callees of a call: the static callee, or the module methods that can stand behind an interface call.
func (a *aliasAn) callees(cc *ssa.CallCommon) []*ssa.Function {
	if f := cc.StaticCallee(); f != nil {
		return []*ssa.Function{f}
	}
	if !cc.IsInvoke() {
		return nil
	}
	iface, _ := cc.Value.Type().Underlying().(*types.Interface)
	if iface == nil {
		return nil
	}
	var out []*ssa.Function
	for _, f := range a.p.ModFuncs {
		if f.Name() != cc.Method.Name() || f.Signature.Recv() == nil || f.Parent() != nil || f.Synthetic != "" {
			continue
		}
		if types.Implements(f.Signature.Recv().Type(), iface) {
			out = append(out, f)
		}
	}
	sort.Slice(out, func(i, j int) bool { return out[i].String() < out[j].String() })
	return out
}

// paramResults: the result indexes of fn that may alias its pi-th parameter (receiver counted as parameter 0).
func (a *aliasAn) paramResults(fn *ssa.Function, pi int) map[int]bool {
	if len(fn.Blocks) == 0 || pi >= len(fn.Params) {
		return nil
	}
	if m, ok := a.summ[fn]; ok {
		if r, ok := m[pi]; ok {
			return r
		}
	} else {
		a.summ[fn] = map[int]map[int]bool{}
	}
	if a.busy[fn] {
		return nil // recursion: the outer computation covers the non-recursive paths
	}
	a.busy[fn] = true
	res := map[int]bool{}
	set := a.forward(fn, []ssa.Value{fn.Params[pi]})
	for _, b := range fn.Blocks {
		for _, in := range b.Instrs {
			if r, ok := in.(*ssa.Return); ok {
				for i, x := range r.Results {
					if set[x] {
						res[i] = true
					}
				}
			}
		}
	}
	a.busy[fn] = false
	a.summ[fn][pi] = res
	return res
}

// forward returns every value of fn that may share its backing array with one of the seeds.
func (a *aliasAn) forward(fn *ssa.Function, seeds []ssa.Value) map[ssa.Value]bool {
	set := map[ssa.Value]bool{}
	var work []ssa.Value
	add := func(v ssa.Value) {
		if v != nil && !set[v] {
			set[v] = true
			work = append(work, v)
		}
	}
	for _, s := range seeds {
		add(s)
	}
	for len(work) > 0 {
		v := work[len(work)-1]
		work = work[:len(work)-1]
		refs := v.Referrers()
		if refs == nil {
			continue
		}
		for _, in := range *refs {
			switch x := in.(type) {
			case *ssa.Slice:
				if x.X == v {
					add(x)
				}
			case *ssa.Phi:
				add(x)
			case *ssa.ChangeType:
				add(x)
			case *ssa.Store:
				if al, ok := x.Addr.(*ssa.Alloc); ok && x.Val == v {
					if r := al.Referrers(); r != nil {
						for _, u := range *r {
							if ld, ok := u.(*ssa.UnOp); ok && ld.X == al {
								add(ld)
							}
						}
					}
				}
			case *ssa.Extract:
				// reached only when the tuple itself was added (see the call case)
			case ssa.CallInstruction:
				cc := x.Common()
				val := x.Value()
				if val == nil {
					continue
				}
				if b, ok := cc.Value.(*ssa.Builtin); ok {
					if b.Name() == "append" && len(cc.Args) > 0 && cc.Args[0] == v {
						add(val)
					}
					continue
				}
				var args []ssa.Value
				if cc.IsInvoke() {
					args = append(args, cc.Value)
				}
				args = append(args, cc.Args...)
				for k, arg := range args {
					if arg != v {
						continue
					}
					for _, cal := range a.callees(cc) {
						for ri := range a.paramResults(cal, k) {
							if _, tuple := val.Type().(*types.Tuple); tuple {
								if r := val.Referrers(); r != nil {
									for _, u := range *r {
										if ex, ok := u.(*ssa.Extract); ok && ex.Index == ri {
											add(ex)
										}
									}
								}
							} else if ri == 0 {
								add(val)
							}
						}
					}
				}
			}
		}
	}
	return set
}

// describeChain names, for diagnostics, the callees through which parameter pi of fn can come back as a result.
func (a *aliasAn) describeChain(fn *ssa.Function, pi int, depth int) string {
	if depth > 6 || len(fn.Blocks) == 0 {
		return ""
	}
	set := a.forward(fn, []ssa.Value{fn.Params[pi]})
	for _, b := range fn.Blocks {
		for _, in := range b.Instrs {
			ci, ok := in.(ssa.CallInstruction)
			if !ok || ci.Value() == nil {
				continue
			}
			cc := ci.Common()
			var args []ssa.Value
			if cc.IsInvoke() {
				args = append(args, cc.Value)
			}
			args = append(args, cc.Args...)
			for k, arg := range args {
				if !set[arg] {
					continue
				}
				for _, cal := range a.callees(cc) {
					if len(a.paramResults(cal, k)) > 0 {
						s := fnName(cal)
						if t := a.describeChain(cal, k, depth+1); t != "" {
							s += " -> " + t
						}
						return s
					}
				}
			}
		}
	}
	for _, b := range fn.Blocks {
		for _, in := range b.Instrs {
			if r, ok := in.(*ssa.Return); ok {
				for _, x := range r.Results {
					if set[x] {
						return "returns " + strings.TrimSpace(pathOf(x))
					}
				}
			}
		}
	}
	return ""
}

// aliasWhy names the first call in fn through which an aliased argument comes back as (part of) the result.
func aliasWhy(a *aliasAn, fn *ssa.Function, set map[ssa.Value]bool) string {
	for _, b := range fn.Blocks {
		for _, in := range b.Instrs {
			ci, ok := in.(ssa.CallInstruction)
			if !ok || ci.Value() == nil {
				continue
			}
			cc := ci.Common()
			var args []ssa.Value
			if cc.IsInvoke() {
				args = append(args, cc.Value)
			}
			args = append(args, cc.Args...)
			for k, arg := range args {
				if !set[arg] {
					continue
				}
				for _, cal := range a.callees(cc) {
					if len(a.paramResults(cal, k)) > 0 {
						s := "via " + fnName(cal)
						if t := a.describeChain(cal, k, 0); t != "" {
							s += " -> " + t
						}
						return s
					}
				}
			}
		}
	}
	return "directly"
}
