package main

// C08 (continued) — reading committed state back through the snapshot layers: lookup order inside a diff layer, bloom
// coverage, read-through cache keys of the disk layer, and the keys diffToDisk flushes under.

import (
	"fmt"
	"strings"

	"golang.org/x/tools/go/ssa"
)

func c08Snapshot(c *Ctx) {
	stale := `^call:\(\*kai/state/snapshot\.diffLayer\)\.Stale\(dl\)$`
	retMatching := func(i int, pat string) SinkSel {
		return func(in ssa.Instruction) bool {
			r, ok := in.(*ssa.Return)
			return ok && i < len(r.Results) && re(pat).MatchString(pathOf(r.Results[i]))
		}
	}
	// ---- lookup order inside one diff layer: own data, then own destruct mark, then the parent -------------------------
	if fn := c.Fn("kai/state/snapshot", "diffLayer", "accountRLP"); fn != nil {
		own := `^dl\.accountData\[hash\]#1$`
		des := `^dl\.destructSet\[hash\]#1$`
		c.Guarded(fn, "return the layer's own account data", retMatching(0, `^dl\.accountData\[hash\]#0$`), G("layer not stale", False(stale)), G("account present in this layer", True(own)))
		c.Guarded(fn, "report the account as deleted", func(in ssa.Instruction) bool {
			r, ok := in.(*ssa.Return)
			return ok && len(r.Results) == 2 && pathOf(r.Results[0]) == "nil" && pathOf(r.Results[1]) == "nil"
		}, G("layer not stale", False(stale)), G("no data for it in this layer (a re-created account wins over its destruct mark)", False(own)), G("destructed in this layer", True(des)))
		c.Guarded(fn, "ask the parent layer", Or(CallTo(`^\(\*kai/state/snapshot\.diffLayer\)\.accountRLP$`, ""), CallTo(`^iface:\(kai/state/snapshot\.Snapshot\)\.AccountRLP$`, "")),
			G("layer not stale", False(stale)), G("not in this layer's data", False(own)), G("not destructed in this layer", False(des)))
		for _, in := range findInstrs(fn, CallTo(`^\(\*kai/state/snapshot\.diffLayer\)\.accountRLP$`, "")) {
			a := argPaths(callCommon(in))
			c.Check("F", fnName(fn)+"/the parent is asked for the same account", len(a) == 3 && a[1] == "hash", instrPos(in), 1, strings.Join(a, ", "))
		}
	}
	if fn := c.Fn("kai/state/snapshot", "diffLayer", "storage"); fn != nil {
		acc := `^dl\.storageData\[accountHash\]#1$`
		slot := `^dl\.storageData\[accountHash\]#0\[storageHash\]#1$`
		des := `^dl\.destructSet\[accountHash\]#1$`
		c.Guarded(fn, "return the layer's own slot", retMatching(0, `^dl\.storageData\[accountHash\]#0\[storageHash\]#0$`), G("layer not stale", False(stale)), G("account has slots here", True(acc)), G("slot present", True(slot)))
		c.Guarded(fn, "report the slot as empty because the account was destructed", func(in ssa.Instruction) bool {
			r, ok := in.(*ssa.Return)
			return ok && len(r.Results) == 2 && pathOf(r.Results[0]) == "nil" && pathOf(r.Results[1]) == "nil"
		}, G("layer not stale", False(stale)), G("slot not written in this layer (a slot written after re-creation wins)", False(acc), False(slot)), G("account destructed in this layer", True(des)))
		c.Guarded(fn, "ask the parent layer", Or(CallTo(`^\(\*kai/state/snapshot\.diffLayer\)\.storage$`, ""), CallTo(`^iface:\(kai/state/snapshot\.Snapshot\)\.Storage$`, "")),
			G("layer not stale", False(stale)), G("slot not in this layer", False(acc), False(slot)), G("account not destructed in this layer", False(des)))
		for _, in := range findInstrs(fn, CallTo(`^\(\*kai/state/snapshot\.diffLayer\)\.storage$`, "")) {
			a := argPaths(callCommon(in))
			c.Check("F", fnName(fn)+"/the parent is asked for the same slot of the same account", len(a) == 4 && a[1] == "accountHash" && a[2] == "storageHash", instrPos(in), 1, strings.Join(a, ", "))
		}
	}
	// ---- the bloom filter may only send a read past the diff layers when no layer can hold the item -------------------------
	if fn := c.Fn("kai/state/snapshot", "diffLayer", "rebloom"); fn != nil {
		want := map[string]string{"dl.destructSet": "destructBloomHasher", "dl.accountData": "accountBloomHasher", "dl.storageData": "storageBloomHasher"}
		got := map[string]bool{}
		for _, l := range mapLoops(fn) {
			ranged := pathOf(l.rng.X)
			for b := range l.blocks {
				for _, in := range b.Instrs {
					cc := callCommon(in)
					if cc == nil || calleeNameNoPath(cc) != "(*github.com/holiman/bloomfilter/v2.Filter).Add" || len(cc.Args) != 2 {
						continue
					}
					t := ""
					if mi, ok := cc.Args[1].(*ssa.MakeInterface); ok {
						t = namedOf(mi.X.Type())
					}
					for m, h := range want {
						if strings.HasPrefix(ranged, m) && strings.HasSuffix(t, "."+h) {
							got[m] = true
						}
					}
				}
			}
		}
		for m, h := range want {
			c.Check("S", fnName(fn)+"/every key of "+m+" is added to the bloom filter with "+h, got[m], fn.Pos(), 1, "an item missing from the filter is read from the disk layer although a diff layer overrides it")
		}
	}
	for _, t := range []struct{ name, own string }{{"AccountRLP", "accountBloomHasher"}, {"Storage", "storageBloomHasher"}} {
		fn := c.Fn("kai/state/snapshot", "diffLayer", t.name)
		if fn == nil {
			continue
		}
		kinds := map[string]bool{}
		for _, in := range findInstrs(fn, CallTo(`^\(\*github\.com/holiman/bloomfilter/v2\.Filter\)\.Contains$`, "")) {
			if mi, ok := callCommon(in).Args[1].(*ssa.MakeInterface); ok {
				n := namedOf(mi.X.Type())
				kinds[n[strings.LastIndex(n, ".")+1:]] = true
			}
		}
		c.Check("S", fnName(fn)+"/the filter is asked for the item itself and for a destruct mark of its account", kinds[t.own] && kinds["destructBloomHasher"] && len(kinds) == 2, fn.Pos(), len(kinds), setStr(kinds))
		c.Guarded(fn, "bypass the diff layers", CallTo(`^\(\*kai/state/snapshot\.diskLayer\)\.(AccountRLP|Storage)$`, ""), G("layer not stale", False(stale)), G("both filter lookups missed", False(`^phi\(call:\(\*github\.com/holiman/bloomfilter/v2\.Filter\)\.Contains\(`)))
		c.Guarded(fn, "search the diff layers", CallTo(`^\(\*kai/state/snapshot\.diffLayer\)\.(accountRLP|storage)$`, ""), G("layer not stale", False(stale)))
	}
	if fn := c.Fn("kai/state/snapshot", "", "newDiffLayer"); fn != nil {
		ok := 0
		for _, in := range findInstrs(fn, StoreTo(`complit:kai/state/snapshot\.diffLayer\.(destructSet|accountData|storageData|parent|root)$`)) {
			a := pathOf(in.(*ssa.Store).Addr)
			want := map[string]string{"destructSet": "destructs", "accountData": "accounts", "storageData": "storage", "parent": "parent", "root": "root"}[a[strings.LastIndex(a, ".")+1:]]
			if pathOf(in.(*ssa.Store).Val) == want {
				ok++
			}
		}
		c.Check("F", fnName(fn)+"/the layer holds exactly the destructs, accounts and storage it was given, on the given parent and root", ok == 5, fn.Pos(), ok, "")
		c.OnEveryPath(fn, "build the bloom filter", CallTo(`^\(\*kai/state/snapshot\.diffLayer\)\.rebloom$`, ""), "return", AnyReturn())
	}
	// ---- disk layer: read-through cache under the key the flush uses ------------------------------------------------------
	keyOf := map[string]string{}
	for _, t := range []struct{ name, key, read string }{
		{"AccountRLP", `^\(hash\)\[:\]$`, `^call:kai/rawdb\.ReadAccountSnapshot\(dl\.diskdb, hash\)$`},
		{"Storage", `^call:append\(\(accountHash\)\[:\], \(storageHash\)\[:\]\)$`, `^call:kai/rawdb\.ReadStorageSnapshot\(dl\.diskdb, accountHash, storageHash\)$`},
	} {
		fn := c.Fn("kai/state/snapshot", "diskLayer", t.name)
		if fn == nil {
			continue
		}
		var getK, setK, setV string
		for _, in := range findInstrs(fn, CallTo(`\)\.HasGet$`, "")) {
			a := argPaths(callCommon(in))
			getK = a[len(a)-1]
		}
		for _, in := range findInstrs(fn, CallTo(`\)\.Set$`, "")) {
			a := argPaths(callCommon(in))
			if len(a) >= 3 {
				setK, setV = a[len(a)-2], a[len(a)-1]
			}
		}
		keyOf[t.name] = setK
		c.Check("S", fnName(fn)+"/the clean cache is read and filled under one key, with what the database returned", getK != "" && getK == setK && re(t.key).MatchString(getK) && re(t.read).MatchString(setV), fn.Pos(), 2, fmt.Sprintf("get %s, set %s = %s", getK, setK, clip(setV, 100)))
		c.Guarded(fn, "serve data", func(in ssa.Instruction) bool {
			r, ok := in.(*ssa.Return)
			return ok && len(r.Results) == 2 && pathOf(r.Results[1]) == "nil"
		}, G("layer not stale", False(`^dl\.stale$`)), G("covered by the generator", IsNil(`^dl\.genMarker$`), Cmp(`^call:bytes\.Compare\(`, "<=", `^const:0$`)))
	}
	if fn := c.Fn("kai/state/snapshot", "", "diffToDisk"); fn != nil {
		var keys []string
		for _, in := range findInstrs(fn, CallTo(`^\(\*github\.com/VictoriaMetrics/fastcache\.Cache\)\.Set$`, "")) {
			a := argPaths(callCommon(in))
			if len(a) >= 3 {
				keys = append(keys, a[len(a)-2])
			}
		}
		acc, sto := 0, 0
		for _, k := range keys {
			switch {
			case re(`^\(next\(range\(bottom\.(accountData|destructSet)\)\)#1\)\[:\]$`).MatchString(k):
				acc++
			case re(`^call:append\(\(next\(range\(bottom\.storageData\)\)#1\)\[:\], \(next\(range\(next\(range\(bottom\.storageData\)\)#2\)\)#1\)\[:\]\)$`).MatchString(k):
				sto++
			}
		}
		c.Check("S", fnName(fn)+"/flushed accounts and slots refresh the clean cache under the keys the disk layer reads with", acc >= 2 && sto == 2 && acc+sto == len(keys), fn.Pos(), len(keys), strings.Join(keys, " | "))
		c.Precedes(fn, "mark the old disk layer stale", StoreTo(`\(\*kai/state/snapshot\.diskLayer\)\.stale$`), "writing the flushed data", CallTo(`^kai/rawdb\.(WriteAccountSnapshot|WriteStorageSnapshot|DeleteAccountSnapshot)$`, ""))
		// slots of a destructed account are dropped from the clean cache under the cache's key: the database key of the
		// iterator without its one-byte table prefix (a delete under the full key never matches and the stale slot stays)
		nd, okd := 0, true
		for _, in := range findInstrs(fn, CallTo(`^\(\*github\.com/VictoriaMetrics/fastcache\.Cache\)\.Del$`, "")) {
			nd++
			a := argPaths(callCommon(in))
			okd = okd && len(a) == 2 && re(`^call:iface:\(kai/kaidb\.Iterator\)\.Key\(.*\)\[const:1:\]$`).MatchString(a[1])
		}
		c.Check("S", fnName(fn)+"/a destructed account's slots leave the clean cache under the prefix-less key", nd == 1 && okd, fn.Pos(), nd, "")
	}
	nodeOrderRule(c)
}

// snapshotFallbackRules (shared by C08 read-back and C06 configuration independence): a value is cached and returned as
// committed only when the tier it came from answered — a failed snapshot read (layer stale, generator not there yet)
// must fall through to the trie, otherwise a node with snapshots reads zero where a node without reads the value.
func snapshotFallbackRules(c *Ctx) {
	if fn := c.Fn("kai/state", "stateObject", "GetCommittedState"); fn != nil {
		c.Guarded(fn, "cache the value as committed", func(in ssa.Instruction) bool {
			mu, ok := in.(*ssa.MapUpdate)
			return ok && pathOf(mu.Map) == "s.originStorage"
		}, G("the snapshot read succeeded, or the trie answered", IsNil(`^(phi\()?call:iface:\(kai/state/snapshot\.Snapshot\)\.Storage\(.*#1(\|nil\))?$`), IsNil(`^call:iface:\(kai/state\.Trie\)\.GetStorage\(.*#1$`)))
	}
	if fn := c.Fn("kai/state", "StateDB", "getDeletedStateObject"); fn != nil {
		c.Guarded(fn, "install the loaded account", CallTo(`^\(\*kai/state\.StateDB\)\.setStateObject$`, ""),
			G("the snapshot answered with an account, or the trie answered", NotNil(`^phi\(&alloc:complit:types\.StateAccount\|nil\)$`), IsNil(`^call:iface:\(kai/state\.Trie\)\.GetAccount\(.*#1$`)))
	}
}

// c08ReadPath: the order in which the state consults its tiers when reading committed data.
func c08ReadPath(c *Ctx) {
	// a slot written to the trie becomes the slot's origin value: the no-change test of the next flush compares against
	// it, and a later write back to the old value would otherwise be skipped (the root then depends on the history)
	if fn := c.Fn("kai/state", "stateObject", "updateTrie"); fn != nil {
		origin := func(in ssa.Instruction) bool {
			mu, ok := in.(*ssa.MapUpdate)
			return ok && pathOf(mu.Map) == "s.originStorage"
		}
		c.Precedes(fn, "remember the value as the slot's origin", origin, "write the slot to the trie", CallTo(`^iface:\(kai/state\.Trie\)\.(UpdateStorage|DeleteStorage)$`, ""))
	}
	if fn := c.Fn("kai/state", "stateObject", "GetCommittedState"); fn != nil {
		pend := `^s\.pendingStorage\[key\]#1$`
		orig := `^s\.originStorage\[key\]#1$`
		destr := `^s\.db\.stateObjectsDestruct\[s\.address\]#1$`
		snapRead := CallTo(`^iface:\(kai/state/snapshot\.Snapshot\)\.Storage$`, "")
		trieRead := CallTo(`^iface:\(kai/state\.Trie\)\.GetStorage$`, "")
		c.Guarded(fn, "consult the snapshot or the trie", Or(snapRead, trieRead),
			G("no pending write of this slot", False(pend)), G("not cached as committed", False(orig)),
			G("account not destructed in this block (its old storage must not shine through)", False(destr)))
		c.Guarded(fn, "read the snapshot", snapRead, G("snapshots enabled", NotNil(`^s\.db\.snap$`)))
		c.Guarded(fn, "read the trie", trieRead, G("no snapshot, or the snapshot read failed", IsNil(`^s\.db\.snap$`), NotNil(`^phi\(call:iface:\(kai/state/snapshot\.Snapshot\)\.Storage\(.*#1\|nil\)$`)))
		for _, in := range findInstrs(fn, snapRead) {
			a := argPaths(callCommon(in))
			c.Check("F", fnName(fn)+"/the snapshot is asked for this account's hash and the hash of the slot key", len(a) == 3 && a[1] == "s.addrHash" && a[2] == "call:lib/crypto.Keccak256Hash(varargs[call:(lib/common.Hash).Bytes(key)])", instrPos(in), 1, strings.Join(a, ", "))
		}
		for _, in := range findInstrs(fn, trieRead) {
			a := argPaths(callCommon(in))
			c.Check("F", fnName(fn)+"/the trie is asked for this account's address and the slot key", len(a) == 3 && a[1] == "s.address" && a[2] == "call:(lib/common.Hash).Bytes(key)", instrPos(in), 1, strings.Join(a, ", "))
		}
		// the value decoded from the snapshot is the content of the RLP string (the form updateTrie caches)
		n := 0
		for _, in := range findInstrs(fn, CallTo(`^\(\*lib/common\.Hash\)\.SetBytes$`, "")) {
			a := argPaths(callCommon(in))
			if len(a) == 2 && (strings.HasPrefix(a[1], "call:lib/rlp.Split(call:iface:(kai/state/snapshot.Snapshot).Storage(") && strings.HasSuffix(a[1], "#1") || strings.HasPrefix(a[1], "call:iface:(kai/state.Trie).GetStorage(") && strings.HasSuffix(a[1], "#0")) {
				n++
			}
		}
		c.Check("F", fnName(fn)+"/the value is the content of the snapshot's RLP string, or what the trie returned", n == 2, fn.Pos(), n, "")
		// the cache is only filled with what was read, never on the error exits
		c.Guarded(fn, "cache the value as committed", func(in ssa.Instruction) bool {
			mu, ok := in.(*ssa.MapUpdate)
			return ok && pathOf(mu.Map) == "s.originStorage"
		}, G("trie opened (when it was needed)", IsNil(`getTrie\(s, db\)#1$`), NotNil(`^s\.db\.snap$`)), G("trie read succeeded (when it was needed)", IsNil(`GetStorage\(.*#1$`), NotNil(`^s\.db\.snap$`)))
	}
	snapshotFallbackRules(c)
	if fn := c.Fn("kai/state", "StateDB", "getDeletedStateObject"); fn != nil {
		live := `^s\.stateObjects\[addr\]$`
		snapRead := CallTo(`^iface:\(kai/state/snapshot\.Snapshot\)\.Account$`, "")
		trieRead := CallTo(`^iface:\(kai/state\.Trie\)\.GetAccount$`, "")
		c.Guarded(fn, "load from snapshot or trie", Or(snapRead, trieRead), G("no live object (live objects carry uncommitted changes)", IsNil(live)))
		c.Guarded(fn, "read the trie", trieRead, G("nothing usable came from the snapshot", IsNil(`^phi\(&alloc:complit:types\.StateAccount\|nil\)$`)))
		for _, in := range findInstrs(fn, snapRead) {
			a := argPaths(callCommon(in))
			c.Check("F", fnName(fn)+"/the snapshot is asked for the hash of the address", len(a) == 2 && a[1] == "call:lib/crypto.HashData(s.hasher, call:(lib/common.Address).Bytes(addr))", instrPos(in), 1, strings.Join(a, ", "))
		}
		acc := `call:iface:(kai/state/snapshot.Snapshot).Account(s.snap, call:lib/crypto.HashData(s.hasher, call:(lib/common.Address).Bytes(addr)))#0`
		ok := 0
		for _, in := range findInstrs(fn, StoreTo(`^&alloc:complit:types\.StateAccount\.(Nonce|Balance|CodeHash|Root)$`)) {
			st := in.(*ssa.Store)
			f := pathOf(st.Addr)
			f = f[strings.LastIndex(f, ".")+1:]
			v := pathOf(st.Val)
			if v == acc+"."+f || (f == "Root" && v == "call:lib/common.BytesToHash("+acc+".Root)") {
				ok++
			}
		}
		c.Check("F", fnName(fn)+"/the four account fields are taken from the like-named fields of the snapshot account", ok == 4, fn.Pos(), ok, "")
		c.Guarded(fn, "use the empty code hash", func(in ssa.Instruction) bool {
			st, ok := in.(*ssa.Store)
			return ok && strings.HasSuffix(pathOf(st.Addr), "StateAccount.CodeHash") && strings.Contains(pathOf(st.Val), "EmptyCodeHash")
		}, G("the slim account has no code hash", Cmp(`^call:len\(alloc:complit:types\.StateAccount\.CodeHash\)$`, "==", `^const:0$`)))
		c.Guarded(fn, "use the empty root", func(in ssa.Instruction) bool {
			st, ok := in.(*ssa.Store)
			return ok && strings.HasSuffix(pathOf(st.Addr), "StateAccount.Root") && strings.Contains(pathOf(st.Val), "EmptyRootHash")
		}, G("the slim account has no root", IsNil(`^alloc:complit:types\.StateAccount\.Root$`), Cmp(`StateAccount\.Root$`, "==", `.`)))
		c.Guarded(fn, "report the account as absent from the snapshot", func(in ssa.Instruction) bool {
			r, ok := in.(*ssa.Return)
			if !ok || pathOf(r.Results[0]) != "nil" {
				return false
			}
			return hasCond(domConds(in), `Snapshot\)\.Account\(.*#0 == nil\)=T$`)
		}, G("the snapshot read succeeded", IsNil(`Snapshot\)\.Account\(.*#1$`)))
	}
}
