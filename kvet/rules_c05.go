package main

// C05 — crash recovery: write-ahead + fsync before acting, save → end marker → apply, atomic batches, publish-last.

import (
	"fmt"
	"go/token"
	"sort"
	"strings"

	"golang.org/x/tools/go/callgraph"
	"golang.org/x/tools/go/ssa"
)

func init() {
	register("C05", []string{"consensus/state.go", "consensus/replay.go", "consensus/wal.go", "lib/autofile/group.go", "kai/state/cstate/execution.go",
		"kai/state/cstate/store.go", "mainchain/blockchain/blockchain.go", "mainchain/blockchain/block_operations.go", "kai/rawdb/accessors.go", "mainchain/backend.go"}, runC05)
}

// reachers: all functions from which target is reachable in the VTA call graph.
func (c *Ctx) reachers(target *ssa.Function) map[*ssa.Function]bool {
	cg := c.P.CallGraph()
	out := map[*ssa.Function]bool{}
	n := cg.Nodes[target]
	if n == nil {
		return out
	}
	var q []*callgraph.Node
	q = append(q, n)
	out[target] = true
	for len(q) > 0 {
		x := q[0]
		q = q[1:]
		for _, e := range x.In {
			f := e.Caller.Func
			if !out[f] {
				out[f] = true
				q = append(q, e.Caller)
			}
		}
	}
	return out
}

// siteCallees: module callees of a call instruction according to the call graph.
func (c *Ctx) siteCallees(in ssa.Instruction) []*ssa.Function {
	cs, ok := in.(ssa.CallInstruction)
	if !ok {
		return nil
	}
	if f := cs.Common().StaticCallee(); f != nil {
		return []*ssa.Function{f}
	}
	cg := c.P.CallGraph()
	n := cg.Nodes[in.Parent()]
	if n == nil {
		return nil
	}
	var out []*ssa.Function
	for _, e := range n.Out {
		if e.Site == cs {
			out = append(out, e.Callee.Func)
		}
	}
	return out
}

// orderedWrites: in fn's call tree, every call that reaches `second` is preceded on every path by a call that
// reaches `first` (recursing into calls that reach both). Returns the offending site description, "" if ordered.
func (c *Ctx) orderedWrites(fn *ssa.Function, first, second map[*ssa.Function]bool, depth int, seen map[*ssa.Function]bool) (string, int) {
	if fn == nil || seen[fn] || depth < 0 {
		return "", 0
	}
	seen[fn] = true
	reach := func(in ssa.Instruction, set map[*ssa.Function]bool) bool {
		if _, ok := in.(ssa.CallInstruction); !ok {
			return false
		}
		if _, isGo := in.(*ssa.Go); isGo {
			return false
		}
		for _, cal := range c.siteCallees(in) {
			if set[cal] {
				return true
			}
		}
		return false
	}
	n := 0
	isFirst := func(in ssa.Instruction) bool { return reach(in, first) && !reach(in, second) }
	var both []ssa.Instruction
	for _, b := range fn.Blocks {
		for _, in := range b.Instrs {
			if reach(in, first) && reach(in, second) {
				both = append(both, in)
			}
			if reach(in, first) || reach(in, second) {
				n++
			}
		}
	}
	// calls reaching both: ordered inside iff the callee orders them; then they count as `first` for what follows
	okBoth := map[ssa.Instruction]bool{}
	for _, in := range both {
		ordered := true
		for _, cal := range c.siteCallees(in) {
			if first[cal] && second[cal] {
				if why, k := c.orderedWrites(cal, first, second, depth-1, seen); why != "" {
					return why, n + k
				} else {
					n += k
				}
			} else if second[cal] {
				ordered = false
			}
		}
		okBoth[in] = ordered
	}
	w := &Walker{P: c.P, Stop: func(in ssa.Instruction) bool { return isFirst(in) || okBoth[in] }}
	hit, found := w.Reach(fn, fn.Blocks[0], 0, func(in ssa.Instruction) bool {
		return reach(in, second) && !okBoth[in] && !isFirst(in)
	})
	if found {
		return fmt.Sprintf("in %s, %s at %s is reached before any write of the record; path %s", fnName(fn), describeInstr(hit.Instr), c.P.Pos(instrPos(hit.Instr)), c.P.pathStr(hit.Path)), n
	}
	return "", n
}

// headStateRules: a block header carries the application root of the PREVIOUS height; the root of the state after block H
// is the one recorded under H (rawdb app-hash index). Every "is the state of this block on disk" question in the block
// chain asks for the recorded root of that block's height, or start-up skips the rewind it needs after a crash between
// the head marker and the state flush.
func headStateRules(c *Ctx) {
	n := 0
	per := map[string]int{}
	for _, s := range c.CallSites(`^\(\*mainchain/blockchain\.BlockChain\)\.HasState$`) {
		caller := fnName(rootFn(s.Caller))
		if !strings.Contains(caller, "mainchain/blockchain") {
			continue
		}
		cc := callCommon(s.Instr)
		if cc == nil || len(cc.Args) != 2 {
			continue
		}
		n++
		per[caller]++
		arg := pathOf(cc.Args[1])
		ok := re(`^call:kai/rawdb\.ReadAppHash\([^,]+, call:\(\*types\.Block\)\.Height\(`).MatchString(arg)
		c.Check("F", fmt.Sprintf("%s/HasState (call %d of this function) asks for the root recorded for the block's height", caller, per[caller]), ok, instrPos(s.Instr), 1, clip(arg, 160))
	}
	c.Check("F", "mainchain/blockchain/HasState call sites enumerated", n >= 3, token.NoPos, n, "")
}

// tickerBeforeReplay: scheduling a timeout is a send on the ticker's bounded request channel, drained only by the ticker's
// routine; whatever can schedule timeouts (the WAL replay, the first round) runs after the ticker was started. Shared by
// C05 (restart) and C04 (the tabled "buffered send under the state lock" exception rests on the routine running).
func tickerBeforeReplay(c *Ctx) {
	if fn := c.Fn("consensus", "ConsensusState", "OnStart"); fn != nil {
		start := CallTo(`^iface:\(consensus\.TimeoutTicker\)\.Start$`, "")
		c.Precedes(fn, "start the timeout ticker", start, "replay the WAL (replayed steps schedule timeouts)", CallTo(`^\(\*consensus\.ConsensusState\)\.catchupReplay$`, ""))
		c.Precedes(fn, "start the timeout ticker", start, "schedule the first round", CallTo(`^\(\*consensus\.ConsensusState\)\.scheduleRound0$`, ""))
	}
}

// endHeightWindow: finalizeCommit makes the end-height marker of H durable before block H is applied and the state of H is
// saved. A crash in between leaves state H-1 with the marker of H in the log; the restarted node is at height H again and
// must learn what it signed there: either the replay of height H is not refused because of the marker, or a start-up path
// applies the stored block (a handshake) so that the node resumes at H+1. With neither, it starts H afresh and signs again.
func endHeightWindow(c *Ctx) {
	fn := c.Fn("consensus", "ConsensusState", "catchupReplay")
	if fn == nil {
		return
	}
	// (a) is the replay loop reachable when the marker of the current height was found?
	refuses := false
	sites := c.P.guardEdges(fn, G("no end-height marker of the current height", False(`^call:iface:\(consensus\.WAL\)\.SearchForEndHeight\(cs\.wal, csHeight, .*\)#1$`)))
	if len(sites) > 0 {
		rm := map[edge]bool{}
		for _, s := range sites {
			rm[s.Pass] = true
		}
		w := &Walker{P: c.P, Removed: rm}
		_, found := w.Reach(fn, fn.Blocks[0], 0, CallTo(`^\(\*consensus\.ConsensusState\)\.readReplayMessage$`, ""))
		refuses = !found
	}
	// (b) does anything but consensus' own commit and block sync apply a block?
	handshake := false
	for _, s := range c.CallSites(`^\(\*kai/state/cstate\.BlockExecutor\)\.ApplyBlock$`) {
		caller := fnName(rootFn(s.Caller))
		if strings.HasSuffix(c.P.Pos(instrPos(s.Instr)), "_test.go") {
			continue
		}
		if !re(`^\(\*consensus\.ConsensusState\)\.finalizeCommit$|^\(\*?blockchain\.pContext\)\.applyBlock$`).MatchString(caller) {
			handshake = true
		}
	}
	c.Check("O", fnName(fn)+"/a crash between the end-height marker and the state save is recovered (the height is replayed despite the marker, or a start-up path applies the stored block)",
		!refuses || handshake, fn.Pos(), len(sites)+1, "catchupReplay returns an error when the WAL holds #ENDHEIGHT of the height the state is at, OnStart then starts that height without replaying anything, and nothing applies the stored block at start-up: the node has forgotten its own votes of that height and signs again")
}

func runC05(c *Ctx) {
	c.Decided = []string{
		"own (internal-queue) messages are handled only after WriteSync succeeded; peer messages and timeouts are written to the WAL before they are handled; handleMsg is entered only from the receive routine and WAL replay",
		"WriteSync reaches Flush and the file's fsync on every success path of the call chain BaseWAL.WriteSync → Group.FlushAndSync → AutoFile.Sync → os.File.Sync",
		"finalizeCommit orders save block ≺ fsynced #ENDHEIGHT ≺ apply ≺ new-height state, and applies only after the end marker is durable",
		"block, head-marker and consensus-state writers put every record through one batch and flush it once",
		"publish-last: every record that recovery dereferences from the head height is written before the head marker is published (open finding: the consensus-state record is not)",
		"catch-up replay runs only when the WAL has no end marker for the current height and has one for the previous height, and the receive routine starts only after the catch-up loop",
	}
	c.NotDec = []string{"consistency of the three persisted heights after a crash at each point (crash-point quantified)", "head repair / rewind correctness", "that the node never signs a conflicting vote after restart (no last-signed state is persisted; needs executions)", "behaviour when the catch-up replay fails with a non-corruption error (OnStart proceeds; no witness built)"}
	c.Floors["G"] = 8
	c.Floors["O"] = 12
	// restart: the last commit is rebuilt against the last validators; the head state looked for is the one recorded for
	// the head height
	validatorSetRoles(c)
	headStateRules(c)
	tickerBeforeReplay(c)
	walFieldRules(c)
	endHeightWindow(c)

	walAheadRules(c)
	walDecodeRules(c)

	// ---- finalizeCommit ordering ------------------------------------------------------------------------
	if fn := c.Fn("consensus", "ConsensusState", "finalizeCommit"); fn != nil {
		save := CallTo(`BaseBlockOperations\)\.SaveBlock$`, "")
		end := CallTo(`\(consensus\.WAL\)\.WriteSync$`, "")
		apply := CallTo(blockExT+`\.ApplyBlock$`, "")
		upd := CallTo(csT+`\.updateToState$`, "")
		c.Precedes(fn, "WriteSync(#ENDHEIGHT)", end, "ApplyBlock", apply)
		c.Precedes(fn, "ApplyBlock", apply, "updateToState", upd)
		c.Guarded(fn, "ApplyBlock", apply, G("WriteSync(#ENDHEIGHT) == nil", IsNil(`^call:iface:\(consensus\.WAL\)\.WriteSync\(cs\.wal, endMsg\)$`)))
		// SaveBlock precedes the end marker unless the store already has the block
		already := G("", Cmp(`^call:iface:\(consensus\.BaseBlockOperations\)\.Height\(cs\.blockOperations\)$`, ">=", `^call:\(\*types\.Block\)\.Height\(cs\.RoundState\.ProposalBlock\)$`))
		sites := c.P.guardEdges(fn, already)
		rm := map[edge]bool{}
		for _, s := range sites {
			rm[s.Pass] = true
		}
		key := fnName(fn) + "/SaveBlock precedes WriteSync(#ENDHEIGHT) unless the block store already holds the block"
		if len(sites) != 1 {
			c.Bad("O", key, fn.Pos(), len(sites), "expected exactly one test blockOperations.Height() < block.Height() around SaveBlock")
		} else {
			w := &Walker{P: c.P, Removed: rm, Stop: func(in ssa.Instruction) bool { _, isCall := in.(*ssa.Call); return isCall && save(in) }}
			hit, found := w.Reach(fn, fn.Blocks[0], 0, func(in ssa.Instruction) bool { return end(in) })
			if found {
				c.Bad("O", key, instrPos(hit.Instr), 2, "the end-height marker can be written although the block was neither saved now nor present in the store; path "+c.P.pathStr(hit.Path))
			} else {
				c.OK("O", key, fn.Pos(), 2, "")
			}
		}
		for _, in := range findInstrs(fn, StoreTo(`^&endMsg\.Height$`)) {
			c.Check("F", fnName(fn)+"/end marker is for this height", pathOf(in.(*ssa.Store).Val) == "height", instrPos(in), 1, describeInstr(in))
		}
	}

	// ---- atomic batches ----------------------------------------------------------------------------------
	c.atomicBatch([]batchFn{
		{"kai/rawdb", "", "WriteBlock"},
		{"kai/state/cstate", "", "saveState"},
		{"mainchain/blockchain", "BlockChain", "writeHeadBlock"},
	})

	// ---- publish-last ---------------------------------------------------------------------------------------
	c.publishLast()

	// ---- catch-up replay ---------------------------------------------------------------------------------------
	if fn := c.Fn("consensus", "ConsensusState", "catchupReplay"); fn != nil {
		s1 := `call:iface:\(consensus\.WAL\)\.SearchForEndHeight\(cs\.wal, csHeight, `
		dec := CallTo(`^\(\*consensus\.WALDecoder\)\.Decode$`, "")
		searches := findInstrs(fn, CallTo(`\(consensus\.WAL\)\.SearchForEndHeight$`, ""))
		// (the sanity check "no marker of the current height" is NOT demanded: it is what turns a crash after the marker
		// into a restart without replay, see endHeightWindow; a replay that tolerates the marker must pass here)
		_ = s1
		c.Check("O", fnName(fn)+"/the end-height marker of the previous height is searched", len(searches) >= 1, fn.Pos(), len(searches), "")
		c.Guarded(fn, "replay loop (Decode)", dec,
			G("csHeight >= InitialHeight", Cmp(`^csHeight$`, ">=", `^cs\.state\.InitialHeight$`)),
			G("#ENDHEIGHT for the previous height found", True(`^call:iface:\(consensus\.WAL\)\.SearchForEndHeight\(cs\.wal, phi\(.*\), .*\)#1$`)))
		var prevSearch ssa.Instruction
		for _, sr := range searches {
			if a := argPaths(callCommon(sr)); len(a) >= 2 && strings.HasPrefix(a[1], "phi(") {
				prevSearch = sr
			}
		}
		if prevSearch != nil {
			searches = []ssa.Instruction{nil, prevSearch}
		}
		if len(searches) == 2 && searches[1] != nil {
			a := argPaths(callCommon(searches[1]))
			ok := len(a) >= 2 && (a[1] == "phi((csHeight - const:1)|const:0)" || a[1] == "phi(const:0|(csHeight - const:1))")
			c.Check("F", fnName(fn)+"/previous end height is csHeight-1, or 0 at the initial height", ok, instrPos(searches[1]), 1, "second search height: "+a[1])
			c.Guarded(fn, "endHeight = 0 alternative", func(in ssa.Instruction) bool {
				// the block that jumps to the phi with const 0: detect via If
				iff, ok := in.(*ssa.If)
				if !ok {
					return false
				}
				m, _ := matchCond(Cmp(`^csHeight$`, "==", `^cs\.state\.InitialHeight$`), iff.Cond)
				return m
			}, G("present", True(`^$`), Cmp(`^csHeight$`, ">=", `^cs\.state\.InitialHeight$`)))
		}
		c.Guarded(fn, "readReplayMessage", CallTo(csT+`\.readReplayMessage$`, ""), G("Decode error == nil", IsNil(`^call:\(\*consensus\.WALDecoder\)\.Decode\(.*\)#1$`), Cmp(`^call:\(\*consensus\.WALDecoder\)\.Decode\(.*\)#1$`, "!=", `^global:io\.EOF$`)))
	}
	if fn := c.Fn("consensus", "ConsensusState", "OnStart"); fn != nil {
		goRecv := func(in ssa.Instruction) bool {
			g, ok := in.(*ssa.Go)
			return ok && strings.HasSuffix(calleeNameNoPath(&g.Call), ".receiveRoutine")
		}
		c.Precedes(fn, "catchupReplay or doWALCatchup == false", Or(CallTo(csT+`\.catchupReplay$`, ""), func(in ssa.Instruction) bool {
			iff, ok := in.(*ssa.If)
			return ok && pathOf(iff.Cond) == "cs.doWALCatchup"
		}), "go receiveRoutine", goRecv)
		c.AtMostOncePerPath(fn, "go receiveRoutine", goRecv)
	}
	// imported from C15: the end-height search and the replay/repair path decide whether the unfinished height is replayed
	searchRules(c)
	replayRules(c)
	c.advisoryDroppedErrors()
}

// publishLast: records that Store.Load dereferences from the head height must be durable before the head marker.
func (c *Ctx) publishLast() {
	load := c.Fn("kai/state/cstate", "", "loadStateAtHeight")
	apply := c.Fn("kai/state/cstate", "BlockExecutor", "ApplyBlock")
	headW := c.Fn("kai/rawdb", "", "WriteHeadBlockHash")
	dbLoad := c.Fn("kai/state/cstate", "dbStore", "Load")
	if load == nil || apply == nil || headW == nil || dbLoad == nil {
		return
	}
	// reader side: Load starts from the head marker
	nHead := len(findInstrs(dbLoad, CallTo(`^kai/rawdb\.ReadHeadBlock$`, "")))
	c.Check("S", fnName(dbLoad)+"/recovery starts from the head marker", nHead == 1, dbLoad.Pos(), nHead, "")
	var kinds []string
	for _, in := range findInstrs(load, CallTo(`^kai/rawdb\.Read`, "")) {
		a := argPaths(callCommon(in))
		if len(a) == 2 && a[1] == "height" {
			kinds = append(kinds, strings.TrimPrefix(calleeNameNoPath(callCommon(in)), "kai/rawdb.Read"))
		}
	}
	sort.Strings(kinds)
	if len(kinds) < 2 {
		c.Unres("O", "records dereferenced from the head height", fmt.Sprintf("found %v, expected at least ConsensusStateHeight and BlockMeta", kinds))
		return
	}
	writerOf := map[string]string{"BlockMeta": "WriteBlock"} // the block meta is written by WriteBlock (SaveBlock, before ApplyBlock)
	second := c.reachers(headW)
	c.Check("S", fnName(apply)+"/publishes the head marker", second[apply], apply.Pos(), 1, "ApplyBlock must reach rawdb.WriteHeadBlockHash through the block store")
	for _, k := range kinds {
		wn := "Write" + k
		if w, ok := writerOf[k]; ok {
			wn = w
		}
		wf := c.P.Func("kai/rawdb", "", wn)
		key := fnName(apply) + "/record " + k + " (dereferenced by Store.Load from the head height) is written before the head marker"
		if wf == nil {
			c.Unres("O", key, "writer kai/rawdb."+wn+" not found")
			continue
		}
		first := c.reachers(wf)
		if !first[apply] {
			// written outside ApplyBlock: must be the finalizeCommit / block-sync SaveBlock that precedes ApplyBlock (C01/C05 ordering)
			c.OK("O", key, apply.Pos(), 1, "written outside ApplyBlock by "+wn+" (SaveBlock precedes ApplyBlock, checked separately)")
			continue
		}
		why, n := c.orderedWrites(apply, first, second, 6, map[*ssa.Function]bool{})
		c.Check("O", key, why == "", apply.Pos(), n,
			"Store.Load reads the head marker and then this record for the head height; a nil record makes Load return the empty state and the node falls back to the genesis state on a chain whose head is H. "+why)
	}
}

// advisoryDroppedErrors: durable-write errors dropped on the commit path (not gating: an I/O error is not a crash point).
func (c *Ctx) advisoryDroppedErrors() {
	for _, f := range []struct{ pkg, recv, name, callee string }{
		{"kai/state/cstate", "", "saveState", `\)\.Write$`},
		{"mainchain/blockchain", "BlockOperations", "CommitAndValidateBlockTxs", `WriteBlockAndSetHead$`},
	} {
		fn := c.P.Func(f.pkg, f.recv, f.name)
		if fn == nil {
			continue
		}
		for _, in := range findInstrs(fn, CallTo(f.callee, "")) {
			call, ok := in.(*ssa.Call)
			if !ok {
				continue
			}
			used := call.Referrers() != nil && len(*call.Referrers()) > 0
			o := c.add("R", fnName(fn)+"/error of "+calleeNameNoPath(&call.Call)+" is used", map[bool]Verdict{true: Discharged, false: Violated}[used], call.Pos(), 1,
				"the error result of a durable write is dropped (advisory: an I/O error is not a crash point, so this does not gate C05)")
			o.Advisory = true
		}
	}
}

type batchFn struct{ pkg, recv, name string }

// atomicBatch: the function opens exactly one batch, every record it writes goes through that batch, the batch is
// flushed exactly once on every path to a return, and nothing is added after the flush.
func (c *Ctx) atomicBatch(which []batchFn) {
	for _, f := range which {
		fn := c.Fn(f.pkg, f.recv, f.name)
		if fn == nil {
			continue
		}
		nb := findInstrs(fn, CallTo(`\)\.NewBatch$`, ""))
		c.Check("O", fnName(fn)+"/exactly one batch", len(nb) == 1, fn.Pos(), len(nb), fmt.Sprintf("%d NewBatch calls", len(nb)))
		if len(nb) != 1 {
			continue
		}
		batch := pathOf(nb[0].(*ssa.Call))
		writeish := func(in ssa.Instruction) (bool, []string) {
			cc := callCommon(in)
			if cc == nil {
				return false, nil
			}
			n := calleeNameNoPath(cc)
			if !re(`(\)\.Put$|\)\.Delete$|^kai/rawdb\.(Write|Delete|write)|^kai/state/cstate\.save)`).MatchString(n) {
				return false, nil
			}
			return true, argPaths(cc)
		}
		bad := ""
		nw := 0
		for _, b := range fn.Blocks {
			for _, in := range b.Instrs {
				if is, a := writeish(in); is {
					nw++
					if len(a) == 0 || a[0] != batch {
						bad = describeInstr(in) + " at " + c.P.Pos(instrPos(in))
					}
				}
			}
		}
		c.Check("W", fnName(fn)+"/every record goes through the batch", bad == "" && nw >= 2, fn.Pos(), nw, "a write bypasses the batch (not atomic with the rest): "+bad)
		flush := func(in ssa.Instruction) bool {
			cc := callCommon(in)
			return cc != nil && re(`\)\.Write$`).MatchString(calleeNameNoPath(cc)) && len(argPaths(cc)) == 1 && argPaths(cc)[0] == batch
		}
		c.FollowedBy(fn, "NewBatch", func(in ssa.Instruction) bool { return in == nb[0] }, "batch.Write()", flush, "return", AnyReturn())
		c.AtMostOncePerPath(fn, "batch.Write()", flush)
		// nothing is put into the batch after it was flushed
		for _, fl := range findInstrs(fn, flush) {
			w := &Walker{P: c.P}
			hit, found := w.Reach(fn, fl.Block(), instrIndex(fl)+1, func(in ssa.Instruction) bool { is, _ := writeish(in); return is })
			c.Check("O", fnName(fn)+"/no record is added after the flush", !found, instrPos(fl), 1, func() string {
				if found {
					return describeInstr(hit.Instr) + " follows batch.Write()"
				}
				return ""
			}())
		}
	}
}

// walAheadRules: own messages are fsynced to the WAL before they are handled (and so before an own vote or proposal
// can reach a peer), and WriteSync really reaches the disk. Shared by C05 (crash recovery) and C03 (no equivocation
// across a restart: the WAL is the only record of what was signed).
func walAheadRules(c *Ctx) {
	walWrite := CallTo(`^iface:\(consensus\.WAL\)\.(Write|WriteSync)$`, "")
	// ---- receiveRoutine -----------------------------------------------------------------------------
	if fn := c.Fn("consensus", "ConsensusState", "receiveRoutine"); fn != nil {
		handle := CallTo(csT+`\.(handleMsg|handleTimeout)$`, "")
		c.Precedes(fn, "wal.Write/WriteSync", walWrite, "handleMsg/handleTimeout", handle)
		// select cases: 0 = peer queue, 1 = internal queue
		sel := ""
		allInstrs(fn, false, func(_ *ssa.Function, in ssa.Instruction) {
			if s, ok := in.(*ssa.Select); ok {
				sel = pathOf(s)
			}
		})
		okSel := strings.HasPrefix(sel, "select[recv:cs.peerMsgQueue, recv:cs.internalMsgQueue, ")
		c.Check("T", fnName(fn)+"/select cases are (peer queue, internal queue, timeout, quit)", okSel, fn.Pos(), 1, sel)
		c.Guarded(fn, "handleMsg", CallTo(csT+`\.handleMsg$`, ""),
			G("message is from the peer queue, or WriteSync(mi) == nil", IsNil(`^call:iface:\(consensus\.WAL\)\.WriteSync\(cs\.wal, (mi|select\[.*\]#3)\)$`), Cmp(`^select\[.*\]#0$`, "==", `^const:0$`)))
		// what is written is what is handled
		for _, in := range findInstrs(fn, walWrite) {
			a := argPaths(callCommon(in))
			c.Check("F", fnName(fn)+"/WAL record is the received message", len(a) == 2 && (a[1] == "mi" || strings.HasPrefix(a[1], "select[")), instrPos(in), 1, describeInstr(in))
		}
	}
	c.OnlyCalledFrom("handleMsg only from receiveRoutine and WAL replay", `^`+csT+`\.handleMsg$`, 2, `^`+csT+`\.(receiveRoutine|readReplayMessage)$`)
	c.OnlyCalledFrom("handleTimeout only from receiveRoutine and WAL replay", `^`+csT+`\.handleTimeout$`, 2, `^`+csT+`\.(receiveRoutine|readReplayMessage)$`)

	// ---- fsync reach -----------------------------------------------------------------------------------
	if fn := c.Fn("consensus", "BaseWAL", "WriteSync"); fn != nil {
		c.Guarded(fn, "return nil (non-nil wal)", func(in ssa.Instruction) bool {
			return SuccessReturn(0, "")(in) && in.Block() != fn.Blocks[0].Succs[0]
		},
			G("wal.Write(msg) == nil", IsNil(`^call:\(\*consensus\.BaseWAL\)\.Write\(wal, msg\)$`)),
			G("wal.FlushAndSync() == nil", IsNil(`^call:\(\*consensus\.BaseWAL\)\.FlushAndSync\(wal\)$`)))
		c.Precedes(fn, "wal.Write", CallTo(`^\(\*consensus\.BaseWAL\)\.Write$`, ""), "FlushAndSync", CallTo(`^\(\*consensus\.BaseWAL\)\.FlushAndSync$`, ""))
	}
	if fn := c.Fn("consensus", "BaseWAL", "FlushAndSync"); fn != nil {
		ok := false
		for _, in := range findInstrs(fn, AnyReturn()) {
			ok = pathOf(in.(*ssa.Return).Results[0]) == "call:(*lib/autofile.Group).FlushAndSync(wal.group)"
		}
		c.Check("O", fnName(fn)+"/is group.FlushAndSync()", ok, fn.Pos(), 1, "")
	}
	if fn := c.Fn("consensus", "BaseWAL", "Write"); fn != nil {
		c.Guarded(fn, "return nil (non-nil wal)", func(in ssa.Instruction) bool {
			return SuccessReturn(0, "")(in) && in.Block() != fn.Blocks[0].Succs[0]
		}, G("enc.Encode(&TimedWALMessage{now, msg}) == nil", IsNil(`^call:\(\*consensus\.WALEncoder\)\.Encode\(wal\.enc, `)))
	}
	if fn := c.Fn("lib/autofile", "Group", "FlushAndSync"); fn != nil {
		flush := CallTo(`^\(\*bufio\.Writer\)\.Flush$`, `Flush\(g\.headBuf\)`)
		sync := CallTo(`^\(\*lib/autofile\.AutoFile\)\.Sync$`, `Sync\(g\.Head\)`)
		c.OnEveryPath(fn, "headBuf.Flush()", flush, "return", AnyReturn())
		c.Precedes(fn, "headBuf.Flush()", flush, "Head.Sync()", sync)
		// a nil error is returned only after Sync
		c.Guarded(fn, "Head.Sync()", sync, G("Flush error == nil", IsNil(`^call:\(\*bufio\.Writer\)\.Flush\(g\.headBuf\)$`)))
		n := len(findInstrs(fn, sync))
		c.Check("O", fnName(fn)+"/calls Head.Sync()", n == 1, fn.Pos(), n, "FlushAndSync must fsync the head file")
		okRet := false
		for _, in := range findInstrs(fn, AnyReturn()) {
			p := pathOf(in.(*ssa.Return).Results[0])
			okRet = strings.Contains(p, "call:(*lib/autofile.AutoFile).Sync(g.Head)") || strings.Contains(p, "alloc")
		}
		c.Check("O", fnName(fn)+"/returns Sync's error when Flush succeeded", okRet, fn.Pos(), 1, "")
	}
	if fn := c.Fn("lib/autofile", "AutoFile", "Sync"); fn != nil {
		n := len(findInstrs(fn, CallTo(`^\(\*os\.File\)\.Sync$`, `Sync\(af\.file\)`)))
		c.Check("O", fnName(fn)+"/calls file.Sync()", n == 1, fn.Pos(), n, "")
		c.Guarded(fn, "file.Sync()", CallTo(`^\(\*os\.File\)\.Sync$`, ""), G("file is open (or openFile succeeded)", NotNil(`^af\.file$`), IsNil(`^call:\(\*lib/autofile\.AutoFile\)\.openFile\(af\)$`)))
	}
}
