package main

// C11 — signatures bind signer and full content of votes, proposals and transactions.

import (
	"fmt"
	"sort"
	"strings"

	"golang.org/x/tools/go/ssa"
)

func init() {
	register("C11", []string{"types/canonical_types.go", "types/vote.go", "types/proposal.go", "types/priv_validator.go", "types/signable.go",
		"types/transaction_signing.go", "types/transaction.go", "lib/crypto/crypto.go", "lib/crypto/signature.go"}, runC11)
}

// canonicalFlows: every field of the canonical (signed) message is filled from the like field of the message / the chain id.
func (c *Ctx) canonicalFlows(fn *ssa.Function, canon string, want map[string]string) {
	if fn == nil {
		return
	}
	got := map[string]string{}
	for _, in := range findInstrs(fn, StoreTo(`^&alloc:complit:`+strings.ReplaceAll(canon, ".", `\.`)+`\.`)) {
		st := in.(*ssa.Store)
		f := pathOf(st.Addr)
		f = f[strings.LastIndex(f, ".")+1:]
		got[f] = pathOf(st.Val)
	}
	fields := c.namedFields(canon)
	if fields == nil {
		c.Unres("F", fnName(fn)+"/canonical type "+canon, "type not found")
		return
	}
	for _, f := range fields {
		w, ok := want[f]
		if !ok {
			c.Bad("F", fnName(fn)+"/"+canon+"."+f+" has a tabled source", fn.Pos(), 1, "field "+f+" of the signed message has no entry in the checker's source table (new field?)")
			continue
		}
		c.Check("F", fnName(fn)+"/signed field "+f+" comes from "+w, re(w).MatchString(got[f]), fn.Pos(), 1,
			fmt.Sprintf("the signed bytes' field %s is filled from '%s', not from the message field it must bind: a signature stays valid when that part of the message is changed", f, got[f]))
	}
}

// voteSignBytesRules: what a vote signature binds. Shared by C11 (signatures bind the message) and C02 (a tally for a block
// id, height, round and type counts only signatures made for exactly that): every field of the canonical vote is filled
// from the vote, the canonical block id carries the hash and the whole part-set header, and VoteSignBytes encodes that
// canonical vote.
func voteSignBytesRules(c *Ctx) {
	c.canonicalFlows(c.Fn("types", "", "CreateCanonicalVote"), "proto/kardiachain/types.CanonicalVote", map[string]string{
		"Type": `^vote\.Type$`, "Height": `^vote\.Height$`, "Round": `^vote\.Round$`, "BlockID": `^call:types\.CanonicalizeBlockID\(vote\.BlockID\)$`,
		"Timestamp": `^vote\.Timestamp$`, "ChainID": `^chainID$`})
	if fn := c.Fn("types", "", "CanonicalizeBlockID"); fn != nil {
		got := map[string]string{}
		for _, in := range findInstrs(fn, StoreTo(`^&alloc:complit:proto/kardiachain/types\.CanonicalBlockID\.`)) {
			st := in.(*ssa.Store)
			f := pathOf(st.Addr)
			got[f[strings.LastIndex(f, ".")+1:]] = pathOf(st.Val)
		}
		c.Check("F", fnName(fn)+"/Hash from bid.Hash", got["Hash"] == "bid.Hash", fn.Pos(), 1, got["Hash"])
		c.Check("F", fnName(fn)+"/PartSetHeader from bid.PartSetHeader", got["PartSetHeader"] == "call:types.CanonicalizePartSetHeader(bid.PartSetHeader)", fn.Pos(), 1, got["PartSetHeader"])
	}
	if fn := c.Fn("types", "", "CanonicalizePartSetHeader"); fn != nil {
		// either the whole-struct conversion or a literal filling every field from the like-named field
		ok := false
		for _, in := range findInstrs(fn, AnyReturn()) {
			ok = pathOf(in.(*ssa.Return).Results[0]) == "psh"
		}
		if !ok {
			got := map[string]string{}
			for _, in := range findInstrs(fn, func(in ssa.Instruction) bool { _, is := in.(*ssa.Store); return is }) {
				st := in.(*ssa.Store)
				if fa, is := st.Addr.(*ssa.FieldAddr); is && strings.HasSuffix(fa.X.Type().String(), "proto/kardiachain/types.CanonicalPartSetHeader") {
					f := pathOf(st.Addr)
					got[f[strings.LastIndex(f, ".")+1:]] = pathOf(st.Val)
				}
			}
			ok = len(got) > 0
			for _, f := range c.namedFields("proto/kardiachain/types.CanonicalPartSetHeader") {
				ok = ok && got[f] == "psh."+f
			}
		}
		c.Check("F", fnName(fn)+"/carries every field of the part-set header", ok, fn.Pos(), 1, "")
		// the two struct types have the same field lists
		a, b := c.namedFields("proto/kardiachain/types.PartSetHeader"), c.namedFields("proto/kardiachain/types.CanonicalPartSetHeader")
		c.Check("F", fnName(fn)+"/canonical header has Total and Hash", strings.Join(a, ",") == strings.Join(b, ",") && len(a) >= 2, fn.Pos(), 2, strings.Join(a, ",")+" vs "+strings.Join(b, ","))
	}
	signBytesFn(c, "VoteSignBytes", "CreateCanonicalVote(chainID, vote)")
}

func signBytesFn(c *Ctx, name, canon string) {
	if fn := c.Fn("types", "", name); fn != nil {
		n := len(findInstrs(fn, CallTo(`^types\.CreateCanonical`, "types."+strings.ReplaceAll(strings.ReplaceAll(canon, "(", `\(`), ")", `\)`))))
		c.Check("F", fnName(fn)+"/encodes "+canon, n == 1, fn.Pos(), n, "")
		m := findInstrs(fn, CallTo(`^lib/protoio\.MarshalDelimited$`, ""))
		ok := len(m) == 1
		for _, in := range findInstrs(fn, AnyReturn()) {
			if !strings.HasPrefix(pathOf(in.(*ssa.Return).Results[0]), "call:lib/protoio.MarshalDelimited(") {
				ok = false
			}
		}
		c.Check("F", fnName(fn)+"/returns the marshalled canonical message", ok, fn.Pos(), len(m), "")
	}
}

// commitVoteRules: a commit is the precommits of its round with the per-vote fields factored out, and the vote rebuilt
// from it must be the vote that was signed — for a precommit for the block as well as for a precommit for nil. Shared
// by C11 (the verified bytes are the signed bytes), C02 (VerifyCommit counts signatures over these bytes) and C04 (the
// commit of height H, which may contain a correct validator's nil precommit, must verify in every block of H+1).
func commitVoteRules(c *Ctx) {
	pc := c.P.Const("proto/kardiachain/types", "PrecommitType")
	flagCommit, flagNil, flagAbsent := c.P.Const("types", "BlockIDFlagCommit"), c.P.Const("types", "BlockIDFlagNil"), c.P.Const("types", "BlockIDFlagAbsent")
	if fn := c.Fn("types", "Commit", "GetVote"); fn != nil {
		want := map[string]string{"Type": `^const:` + pc + `$`, "Height": `^commit\.Height$`, "Round": `^commit\.Round$`,
			"BlockID": `^call:\(types\.CommitSig\)\.BlockID\(commit\.Signatures\[valIdx\], commit\.BlockID\)$`, "Timestamp": `^commit\.Signatures\[valIdx\]\.Timestamp$`,
			"Signature": `^commit\.Signatures\[valIdx\]\.Signature$`, "ValidatorAddress": `^commit\.Signatures\[valIdx\]\.ValidatorAddress$`, "ValidatorIndex": `^valIdx$`}
		got := map[string]string{}
		for _, in := range findInstrs(fn, StoreTo(`^&alloc:complit:types\.Vote\.`)) {
			st := in.(*ssa.Store)
			f := pathOf(st.Addr)
			got[f[strings.LastIndex(f, ".")+1:]] = pathOf(st.Val)
		}
		var fs []string
		for f := range want {
			fs = append(fs, f)
		}
		sort.Strings(fs)
		for _, f := range fs {
			c.Check("F", fnName(fn)+"/reconstructed precommit field "+f, re(want[f]).MatchString(got[f]), fn.Pos(), 1, "filled from "+got[f])
		}
	}
	// flag -> block id of the rebuilt vote: the commit's id only for the commit flag, the zero id for nil and absent
	if fn := c.Fn("types", "CommitSig", "BlockID"); fn != nil {
		okC, okZ, n := false, 0, 0
		for _, in := range findInstrs(fn, AnyReturn()) {
			for _, pcase := range phiCases(in.(*ssa.Return).Results[0]) {
				n++
				v := pathOf(pcase.Val)
				// a case that returns directly has its conditions on the return itself
				conds := append(append([]string{}, pcase.Conds...), domConds(in)...)
				switch {
				case v == "commitBlockID" && hasCond(conds, `^\(cs\.BlockIDFlag == const:`+flagCommit+`\)=T$`):
					okC = true
				case v == "nil" && (hasCond(conds, `^\(cs\.BlockIDFlag == const:`+flagNil+`\)=T$`) || hasCond(conds, `^\(cs\.BlockIDFlag == const:`+flagAbsent+`\)=T$`)):
					okZ++
				default:
					c.Bad("T", fnName(fn)+"/block id per flag: commit flag gives the commit's id, nil and absent give the zero id", instrPos(in), n, "value "+v+" under "+strings.Join(pcase.Conds, " & "))
					return
				}
			}
		}
		c.Check("T", fnName(fn)+"/block id per flag: commit flag gives the commit's id, nil and absent give the zero id", okC && okZ == 2 && n == 3, fn.Pos(), n, "")
	}
	// vote -> flag: a complete id gives the commit flag, the zero id the nil flag
	if fn := c.Fn("types", "Vote", "CommitSig"); fn != nil {
		okC, okN, n := false, false, 0
		var fields = map[string]string{}
		for _, in := range findInstrs(fn, StoreTo(`^&alloc:complit:types\.CommitSig\.`)) {
			st := in.(*ssa.Store)
			f := pathOf(st.Addr)
			f = f[strings.LastIndex(f, ".")+1:]
			fields[f] = pathOf(st.Val)
			if f != "BlockIDFlag" {
				continue
			}
			for _, pcase := range phiCases(st.Val) {
				n++
				v := pathOf(pcase.Val)
				switch {
				case v == "const:"+flagCommit && hasCond(pcase.Conds, `^call:\(types\.BlockID\)\.IsComplete\(vote\.BlockID\)=T$`):
					okC = true
				case v == "const:"+flagNil && hasCond(pcase.Conds, `^call:\(\*types\.BlockID\)\.IsZero\(&vote\.BlockID\)=T$`):
					okN = true
				}
			}
		}
		c.Check("T", fnName(fn)+"/flag per vote: complete id gives the commit flag, zero id the nil flag", okC && okN && n == 2, fn.Pos(), n, "")
		for _, f := range []string{"ValidatorAddress", "Timestamp", "Signature"} {
			c.Check("F", fnName(fn)+"/commit signature field "+f+" from the vote", fields[f] == "vote."+f, fn.Pos(), 1, fields[f])
		}
	}
}

func runC11(c *Ctx) {
	c.Decided = []string{
		"every field of the canonical vote/proposal (chain id, type, height, round, POL round, block id, timestamp) is filled from the corresponding field of the message being signed or verified; proposal type constant differs from the vote types",
		"signing and every verification site hash Keccak256(VoteSignBytes|ProposalSignBytes(chainID, msg)) through the same canonicaliser; the commit's reconstructed vote carries type/height/round/block id/timestamp",
		"VerifySignature returns true only when the address recovered from the signature equals the expected address; Vote.Verify additionally requires the vote's own address to be that address",
		"transaction signing hashes cover every transaction field (plus the chain id for the chain-id signer); chain-id mismatch and malformed / high-s signature values are rejected before recovery; the sender cache is used only for an equal signer",
	}
	c.NotDec = []string{"unforgeability of secp256k1/Keccak (trusted)", "exhaustive single-bit mutation behaviour of the encoders (generated protobuf / rlp reflection code is trusted)"}
	c.Floors["F"] = 25
	c.Floors["G"] = 12

	// ---- canonical vote / proposal ----------------------------------------------------------------
	voteSignBytesRules(c)
	propT := c.P.Const("proto/kardiachain/types", "ProposalType")
	c.canonicalFlows(c.Fn("types", "", "CreateCanonicalProposal"), "proto/kardiachain/types.CanonicalProposal", map[string]string{
		"Type": `^const:` + propT + `$`, "Height": `^proposal\.Height$`, "Round": `^proposal\.Round$`, "POLRound": `^proposal\.PolRound$`,
		"BlockID": `^call:types\.CanonicalizeBlockID\(proposal\.BlockID\)$`, "Timestamp": `^proposal\.Timestamp$`, "ChainID": `^chainID$`})
	pv, pc := c.P.Const("proto/kardiachain/types", "PrevoteType"), c.P.Const("proto/kardiachain/types", "PrecommitType")
	c.Check("T", "ProposalType differs from PrevoteType and PrecommitType (domain separation)", propT != "" && propT != pv && propT != pc && pv != pc && pv != "", c.fnPos("types.CreateCanonicalProposal"), 3,
		fmt.Sprintf("ProposalType=%s PrevoteType=%s PrecommitType=%s", propT, pv, pc))
	signBytesFn(c, "ProposalSignBytes", "CreateCanonicalProposal(chainID, p)")

	// ---- sign = verify ------------------------------------------------------------------------------
	signRe := func(bytesFn, chain, msg string) string {
		return `call:lib/crypto\.Keccak256\(varargs\[call:types\.` + bytesFn + `\(` + chain + `, ` + msg + `\)\]\)`
	}
	if fn := c.Fn("types", "DefaultPrivValidator", "SignVote"); fn != nil {
		n := len(findInstrs(fn, CallTo(`^lib/crypto\.Sign$`, `^lib/crypto\.Sign\(`+signRe("VoteSignBytes", "chainID", "vote")+`, privVal\.privKey\)$`)))
		c.Check("S", fnName(fn)+"/signs Keccak256(VoteSignBytes(chainID, vote))", n == 1, fn.Pos(), n, "")
		c.Guarded(fn, "store vote.Signature", StoreTo(`^&vote\.Signature$`), G("crypto.Sign error == nil", IsNil(`^call:lib/crypto\.Sign\(.*\)#1$`)))
	}
	if fn := c.Fn("types", "DefaultPrivValidator", "SignProposal"); fn != nil {
		n := len(findInstrs(fn, CallTo(`^lib/crypto\.Sign$`, `^lib/crypto\.Sign\(`+signRe("ProposalSignBytes", "chainID", "proposal")+`, privVal\.privKey\)$`)))
		c.Check("S", fnName(fn)+"/signs Keccak256(ProposalSignBytes(chainID, proposal))", n == 1, fn.Pos(), n, "")
	}
	if fn := c.Fn("types", "Vote", "Verify"); fn != nil {
		c.Guarded(fn, "return nil", SuccessReturn(0, ""),
			G("vote.ValidatorAddress.Equal(address)", True(`^call:\(lib/common\.Address\)\.Equal\(vote\.ValidatorAddress, address\)$`)),
			G("VerifySignature(address, Keccak256(VoteSignBytes(chainID, vote.ToProto())), vote.Signature)",
				True(`^call:types\.VerifySignature\(address, `+signRe("VoteSignBytes", "chainID", `call:\(\*types\.Vote\)\.ToProto\(vote\)`)+`, vote\.Signature\)$`)))
	}
	if fn := c.Fn("types", "Commit", "VoteSignBytes"); fn != nil {
		n := len(findInstrs(fn, CallTo(`^types\.VoteSignBytes$`, `^types\.VoteSignBytes\(chainID, call:\(\*types\.Vote\)\.ToProto\(call:\(\*types\.Commit\)\.GetVote\(commit, valIdx\)\)\)$`)))
		c.Check("S", fnName(fn)+"/is VoteSignBytes(chainID, commit.GetVote(valIdx).ToProto())", n == 1, fn.Pos(), n, "")
	}
	commitVoteRules(c)
	if fn := c.Fn("consensus", "ConsensusState", "setProposal"); fn != nil {
		c.Guarded(fn, "cs.Proposal = proposal", StoreTo(`^&cs\.RoundState\.Proposal$`),
			G("VerifySignature(proposer address, Keccak256(ProposalSignBytes(chainID, proposal.ToProto())), proposal.Signature)",
				True(`^call:types\.VerifySignature\(call:\(\*types\.ValidatorSet\)\.GetProposer\(cs\.RoundState\.Validators\)\.Address, `+signRe("ProposalSignBytes", `cs\.state\.ChainID`, `call:\(\*types\.Proposal\)\.ToProto\(proposal\)`)+`, proposal\.Signature\)$`)),
			G("proposal.Height == cs.Height", Cmp(`^proposal\.Height$`, "==", reH)),
			G("proposal.Round == cs.Round", Cmp(`^proposal\.Round$`, "==", reR)),
			G("cs.Proposal == nil", IsNil(`^cs\.RoundState\.Proposal$`)))
		for _, in := range findInstrs(fn, StoreTo(`^&cs\.RoundState\.Proposal$`)) {
			c.Check("F", fnName(fn)+"/stores the verified proposal", pathOf(in.(*ssa.Store).Val) == "proposal", instrPos(in), 1, describeInstr(in))
		}
	}
	// every VerifySignature call in consensus-critical packages hashes sign bytes of the canonicaliser
	nVS := 0
	for _, s := range c.CallSites(`^types\.VerifySignature$`) {
		caller := fnName(rootFn(s.Caller))
		if strings.HasPrefix(caller, "cmd/") || strings.HasPrefix(caller, "tests/") {
			continue
		}
		a := argPaths(callCommon(s.Instr))
		nVS++
		ok := len(a) == 3 && re(`^call:lib/crypto\.Keccak256\(varargs\[call:(types\.(VoteSignBytes|ProposalSignBytes)\(|\(\*types\.Commit\)\.VoteSignBytes\()`).MatchString(a[1])
		c.Check("S", caller+"/VerifySignature hashes canonical sign bytes", ok, instrPos(s.Instr), 1, "hash argument: "+clip(a[1], 200))
	}
	if nVS < 4 {
		c.Unres("S", "VerifySignature call sites", fmt.Sprintf("only %d call sites found, expected at least 4", nVS))
	}

	// commit signatures are verified per validator index against that validator's address (imported from C02)
	verifyCommitRules(c)
	// malformed (wrong-length) signatures are rejected before any byte of them is read
	c.ConstIndexGuarded([]string{"lib/crypto"}, `.`, map[string]string{})

	// ---- signer binding -----------------------------------------------------------------------------
	if fn := c.Fn("types", "", "VerifySignature"); fn != nil {
		c.GuardedReturnVal(fn, "return true", 0, `^const:true$`,
			G("SigToPub returned a key", NotNil(`^call:lib/crypto\.SigToPub\(hash, signature\)#0$`)),
			G("SigToPub returned no error", IsNil(`^call:lib/crypto\.SigToPub\(hash, signature\)#1$`)))
		ok := false
		for _, in := range findInstrs(fn, AnyReturn()) {
			if anySpelling(in.(*ssa.Return).Results[0], func(p string) bool {
				return p == "call:(lib/common.Address).Equal(addr, call:lib/crypto.PubkeyToAddress(*call:lib/crypto.SigToPub(hash, signature)#0))"
			}) {
				ok = true
			}
		}
		c.Check("F", fnName(fn)+"/verdict is addr.Equal(PubkeyToAddress(recovered key))", ok, fn.Pos(), 1, "")
		for _, in := range findInstrs(fn, AnyReturn()) {
			v := pathOf(in.(*ssa.Return).Results[0])
			c.Check("F", fnName(fn)+"/no unconditional true", v != "const:true", instrPos(in), 1, "return "+v)
		}
	}

	// ---- transactions ---------------------------------------------------------------------------------
	txFields := []string{"AccountNonce", "Price", "GasLimit", "Recipient", "Amount", "Payload"}
	for _, s := range []struct{ recv, chain string }{{"FrontierSigner", ""}, {"ChainIDSigner", "s.chainId"}} {
		fn := c.Fn("types", s.recv, "Hash")
		if fn == nil {
			continue
		}
		calls := findInstrs(fn, CallTo(`^types\.rlpHash$`, ""))
		if len(calls) != 1 {
			c.Bad("F", fnName(fn)+"/one rlpHash", fn.Pos(), len(calls), "expected exactly one rlpHash call")
			continue
		}
		got := map[string]bool{}
		sliceFields(callCommon(calls[0]).Args[0], "types.txdata", got)
		for _, f := range txFields {
			c.Check("F", fnName(fn)+"/signing hash covers txdata."+f, got[f], fn.Pos(), 1, "field "+f+" does not flow into the signing hash: it can be changed without invalidating the signature")
		}
		if s.chain != "" {
			c.Check("F", fnName(fn)+"/signing hash covers the signer's chain id", strings.Contains(callPath(callCommon(calls[0])), "s.chainId"), fn.Pos(), 1, clip(callPath(callCommon(calls[0])), 200))
		}
		for _, in := range findInstrs(fn, AnyReturn()) {
			c.Check("F", fnName(fn)+"/returns the rlpHash", strings.HasPrefix(pathOf(in.(*ssa.Return).Results[0]), "call:types.rlpHash("), instrPos(in), 1, "")
		}
	}
	// new txdata fields must be classified
	all := c.namedFields("types.txdata")
	known := map[string]bool{"V": true, "R": true, "S": true, "Hash": true}
	for _, f := range txFields {
		known[f] = true
	}
	for _, f := range all {
		c.Check("F", "types.txdata."+f+" is classified (signed content or signature value)", known[f], c.fnPos("(types.ChainIDSigner).Hash"), 1, "unclassified transaction field: decide whether the signing hash must cover it")
	}
	if fn := c.Fn("types", "ChainIDSigner", "Sender"); fn != nil {
		c.Guarded(fn, "recoverPlain for a protected tx", CallTo(`^types\.recoverPlain$`, ""),
			G("tx.ChainId() == s.chainId", Cmp(`^call:\(\*math/big\.Int\)\.Cmp\(call:\(\*types\.Transaction\)\.ChainId\(tx\), s\.chainId\)$`, "==", `^const:0$`)),
			G("tx.Protected()", True(`^call:\(\*types\.Transaction\)\.Protected\(tx\)$`)))
		for _, in := range findInstrs(fn, CallTo(`^types\.recoverPlain$`, "")) {
			a := argPaths(callCommon(in))
			c.Check("F", fnName(fn)+"/recovers over s.Hash(tx) with homestead rules", len(a) == 5 && a[0] == "call:(types.ChainIDSigner).Hash(s, tx)" && a[4] == "const:true", instrPos(in), 1, describeInstr(in))
		}
	}
	for _, s := range c.CallSites(`^types\.recoverPlain$`) {
		a := argPaths(callCommon(s.Instr))
		c.Check("F", fnName(rootFn(s.Caller))+"/recoverPlain(..., homestead=true)", len(a) == 5 && a[4] == "const:true", instrPos(s.Instr), 1, "homestead argument is "+a[len(a)-1]+": with false, malleable high-s signatures are accepted")
	}
	if fn := c.Fn("types", "", "recoverPlain"); fn != nil {
		c.Guarded(fn, "Ecrecover", CallTo(`^lib/crypto\.Ecrecover$`, ""),
			G("Vb.BitLen() <= 8", Cmp(`^call:\(\*math/big\.Int\)\.BitLen\(Vb\)$`, "<=", `^const:8$`)),
			G("ValidateSignatureValues(V, R, S, homestead)", True(`^call:lib/crypto\.ValidateSignatureValues\(\(call:\(\*math/big\.Int\)\.Uint64\(Vb\) - const:27\), R, S, homestead\)$`)))
		c.Guarded(fn, "return addr, nil", SuccessReturn(1, ""),
			G("Ecrecover error == nil", IsNil(`^call:lib/crypto\.Ecrecover\(.*\)#1$`)),
			G("public key is uncompressed (len != 0, prefix 4)", Cmp(`^call:lib/crypto\.Ecrecover\(.*\)#0\[const:0\]$`, "==", `^const:4$`)))
		for _, in := range findInstrs(fn, CallTo(`^lib/crypto\.Ecrecover$`, "")) {
			a := argPaths(callCommon(in))
			c.Check("F", fnName(fn)+"/recovers over the signing hash", len(a) == 2 && strings.HasPrefix(a[0], "(sighash)[") || strings.HasPrefix(a[0], "sighash["), instrPos(in), 1, describeInstr(in))
		}
	}
	if fn := c.Fn("lib/crypto", "", "ValidateSignatureValues"); fn != nil {
		cmp := func(x, n string) string { return `^call:\(\*math/big\.Int\)\.Cmp\(` + x + `, global:` + n + `\)$` }
		c.GuardedReturnVal(fn, "return true", 0, `^const:true$`,
			G("r >= 1", Cmp(cmp("r", `lib/common\.Big1`), ">=", `^const:0$`)),
			G("s >= 1", Cmp(cmp("s", `lib/common\.Big1`), ">=", `^const:0$`)),
			G("!homestead || s <= halfN", False(`^homestead$`), Cmp(cmp("s", `lib/crypto\.secp256k1halfN`), "<=", `^const:0$`)),
			G("r < N", Cmp(cmp("r", `lib/crypto\.secp256k1N`), "<", `^const:0$`)),
			G("s < N", Cmp(cmp("s", `lib/crypto\.secp256k1N`), "<", `^const:0$`)),
			G("v == 0 || v == 1", Cmp(`^v$`, "==", `^const:0$`), Cmp(`^v$`, "==", `^const:1$`)))
	}
	if fn := c.Fn("types", "", "Sender"); fn != nil {
		c.Guarded(fn, "return the cached sender", ReturnWith(0, `sigCache\)\.from$`),
			G("cached signer equals the requested signer", True(`^call:iface:\(types\.Signer\)\.Equal\(call:\(\*sync/atomic\.Value\)\.Load\(&tx\.from\)\.\(types\.sigCache\)\.signer, signer\)$`)))
		c.Guarded(fn, "store the sender cache", CallTo(`^\(\*sync/atomic\.Value\)\.Store$`, ""), G("signer.Sender(tx) error == nil", IsNil(`^call:iface:\(types\.Signer\)\.Sender\(signer, tx\)#1$`)))
		var cs, cf string
		for _, in := range findInstrs(fn, StoreTo(`^&alloc:complit:types\.sigCache\.`)) {
			st := in.(*ssa.Store)
			if strings.HasSuffix(pathOf(st.Addr), ".signer") {
				cs = pathOf(st.Val)
			} else {
				cf = pathOf(st.Val)
			}
		}
		c.Check("F", fnName(fn)+"/cache entry is {signer, signer.Sender(tx)}", cs == "signer" && cf == "call:iface:(types.Signer).Sender(signer, tx)#0", fn.Pos(), 2, cs+" / "+cf)
	}
	if fn := c.Fn("types", "ChainIDSigner", "Equal"); fn != nil {
		n := len(findInstrs(fn, CallTo(`^\(\*math/big\.Int\)\.Cmp$`, `chainId`)))
		c.Check("F", fnName(fn)+"/compares chain ids", n == 1, fn.Pos(), n, "two chain-id signers are equal only for the same chain id (sender cache key)")
	}
	// "nil" is decided on the whole block id: a vote for {zero hash, some parts header} must not canonicalise (and so
	// sign and verify) like a nil vote
	if fn := c.Fn("types", "BlockID", "IsZero"); fn != nil {
		ok := false
		for _, in := range findInstrs(fn, AnyReturn()) {
			cases := phiCases(in.(*ssa.Return).Results[0])
			sawParts, sawFalse := false, false
			for _, pc := range cases {
				v := pathOf(pc.Val)
				if strings.Contains(v, "IsZero(") && strings.Contains(v, "PartsHeader") && hasCond(pc.Conds, `Hash\)=T$|\.Hash.*IsZero.*=T$`) {
					sawParts = true
				}
				if v == "const:false" && hasCond(pc.Conds, `=F$`) {
					sawFalse = true
				}
			}
			ok = sawParts && sawFalse && len(cases) == 2
		}
		c.Check("F", fnName(fn)+"/a block id is nil only if both the hash and the parts header are zero", ok, fn.Pos(), 2, "")
	}
	if fn := c.Fn("types", "PartSetHeader", "IsZero"); fn != nil {
		ok := false
		for _, in := range findInstrs(fn, AnyReturn()) {
			s := ""
			for _, pc := range phiCases(in.(*ssa.Return).Results[0]) {
				s += pathOf(pc.Val) + " [" + strings.Join(pc.Conds, ";") + "] "
			}
			ok = strings.Contains(s, ".Total == const:0") && strings.Contains(s, "IsZero(") && strings.Contains(s, "const:false")
		}
		c.Check("F", fnName(fn)+"/a parts header is zero only if both the total and the hash are zero", ok, fn.Pos(), 2, "")
	}

	// signing uses the digest the verifying side will recompute: the hash defined by the very signer whose
	// chain-id convention is stamped into V by WithSignature
	if fn := c.Fn("types", "", "SignTx"); fn != nil {
		n := 0
		for _, in := range findInstrs(fn, CallTo(`^lib/crypto\.Sign$`, "")) {
			a := argPaths(callCommon(in))
			n++
			c.Check("F", fnName(fn)+"/the digest signed is signer.Hash(tx) of the signer passed to WithSignature", len(a) == 2 && strings.Contains(a[0], "call:iface:(types.Signer).Hash(signer, tx)"), instrPos(in), 1,
				"signs "+clip(a[0], 120)+": Sender() recomputes signer.Hash(tx); with a chain-id signer that differs from the chain-less hash, so sign-then-recover returns another address")
		}
		c.Check("F", fnName(fn)+"/one signing site", n == 1, fn.Pos(), n, "")
		w := 0
		for _, in := range findInstrs(fn, CallTo(`^\(\*types\.Transaction\)\.WithSignature$`, "")) {
			a := argPaths(callCommon(in))
			if len(a) == 3 && a[0] == "tx" && a[1] == "signer" {
				w++
			}
		}
		c.Check("F", fnName(fn)+"/the signature is attached to the same transaction under the same signer", w == 1, fn.Pos(), w, "")
	}

}
