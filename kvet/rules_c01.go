package main

// C01 — agreement: the single-node commit path and the block-sync adoption path obey their guards.

import (
	"strings"

	"golang.org/x/tools/go/ssa"
)

const (
	precMaj  = `call:\(\*types\.VoteSet\)\.TwoThirdsMajority\(call:\(\*consensus/types\.HeightVoteSet\)\.Precommits\(cs\.RoundState\.Votes, cs\.RoundState\.CommitRound\)\)`
	blockExT = `\(\*kai/state/cstate\.BlockExecutor\)`
)

func init() {
	register("C01", []string{"consensus/state.go", "consensus/types/height_vote_set.go", "types/vote_set.go", "types/validator_set.go",
		"kai/state/cstate/execution.go", "kai/state/cstate/validation.go", "blockchain/processor.go", "blockchain/processor_context.go"}, runC01)
}

// blockSyncRules: a block received by block sync is saved and applied only when the NEXT block's last commit verifies for
// the id computed from the received block itself. Shared by C01 and C02 (a +2/3 commit for one id justifies nothing else).
func blockSyncRules(c *Ctx) {
	// ---- block sync -----------------------------------------------------------------------------
	if fn := c.Fn("blockchain", "pcState", "handle"); fn != nil {
		first := `call:\(\*blockchain\.pcState\)\.nextTwo\(state\)#0\.block`
		second := `call:\(\*blockchain\.pcState\)\.nextTwo\(state\)#1\.block`
		ver := `^call:iface:\(blockchain\.processorContext\)\.verifyCommit\(state\.context, call:iface:\(blockchain\.processorContext\)\.kaiState\(state\.context\)\.ChainID, firstID, call:\(\*types\.Block\)\.Height\(` + first + `\), call:\(\*types\.Block\)\.LastCommit\(` + second + `\)\)$`
		sinks := CallTo(`^iface:\(blockchain\.processorContext\)\.(saveBlock|applyBlock)$`, "")
		c.Guarded(fn, "saveBlock/applyBlock", sinks,
			G("verifyCommit(chainID, firstID, first.Height(), second.LastCommit()) == nil", IsNil(ver)),
			G("nextTwo() found both blocks", IsNil(`^call:\(\*blockchain\.pcState\)\.nextTwo\(state\)#2$`)))
		c.Guarded(fn, "queue advance (delete first / blocksSynced++)", Or(CallTo(`^delete$`, `delete\(state\.queue, call:\(\*types\.Block\)\.Height\(`+first), StoreTo(`^&state\.blocksSynced$`)),
			G("applyBlock(firstID, first) == nil", IsNil(`^call:iface:\(blockchain\.processorContext\)\.applyBlock\(state\.context, firstID, `+first+`\)$`)))
		// the id that is verified is the id of the block applied
		var idHash, idParts string
		for _, in := range findInstrs(fn, StoreTo(`^&firstID\.`)) {
			st := in.(*ssa.Store)
			if strings.HasSuffix(pathOf(st.Addr), ".Hash") {
				idHash = pathOf(st.Val)
			} else {
				idParts = pathOf(st.Val)
			}
		}
		c.Check("F", fnName(fn)+"/firstID.Hash is first.Hash()", re(`^call:\(\*types\.Block\)\.Hash\(`+first+`\)$`).MatchString(idHash), fn.Pos(), 1, "firstID.Hash = "+idHash)
		c.Check("F", fnName(fn)+"/firstID.PartsHeader is first.MakePartSet().Header()", re(`^call:\(\*types\.PartSet\)\.Header\(call:\(\*types\.Block\)\.MakePartSet\(`+first+`, const:\d+\)\)$`).MatchString(idParts), fn.Pos(), 1, "firstID.PartsHeader = "+idParts)
		for _, in := range findInstrs(fn, CallTo(`processorContext\)\.applyBlock$`, "")) {
			a := argPaths(callCommon(in))
			c.Check("F", fnName(fn)+"/applyBlock(firstID, first)", len(a) == 3 && a[1] == "firstID" && re(`^`+first+`$`).MatchString(a[2]), instrPos(in), 1, describeInstr(in))
		}
		for _, in := range findInstrs(fn, CallTo(`processorContext\)\.saveBlock$`, "")) {
			a := argPaths(callCommon(in))
			c.Check("F", fnName(fn)+"/saveBlock(first, firstParts, second.LastCommit())", len(a) == 4 && re(`^`+first+`$`).MatchString(a[1]) && re(`^call:\(\*types\.Block\)\.LastCommit\(`+second+`\)$`).MatchString(a[3]), instrPos(in), 1, describeInstr(in))
		}
	}
	if fn := c.Fn("blockchain", "pcState", "nextTwo"); fn != nil {
		// the two blocks are those queued at height+1 and height+2 of the applied state
		n1 := len(findInstrs(fn, func(in ssa.Instruction) bool {
			l, ok := in.(*ssa.Lookup)
			return ok && re(`^state\.queue\[\(call:\(\*blockchain\.pcState\)\.height\(state\) \+ const:1\)\]$`).MatchString(pathOf(l))
		}))
		n2 := len(findInstrs(fn, func(in ssa.Instruction) bool {
			l, ok := in.(*ssa.Lookup)
			return ok && re(`^state\.queue\[\(call:\(\*blockchain\.pcState\)\.height\(state\) \+ const:2\)\]$`).MatchString(pathOf(l))
		}))
		c.Check("F", fnName(fn)+"/returns queue[height+1], queue[height+2]", n1 == 1 && n2 == 1, fn.Pos(), n1+n2, "lookups of queue[height()+1] and queue[height()+2]")
	}
	if fn := c.Fn("blockchain", "pContext", "verifyCommit"); fn != nil {
		calls := findInstrs(fn, CallTo(`^\(\*types\.ValidatorSet\)\.VerifyCommit$`, ""))
		ok := len(calls) == 1
		if ok {
			a := argPaths(callCommon(calls[0]))
			ok = len(a) == 5 && a[0] == "pc.state.Validators" && a[1] == "chainID" && a[2] == "blockID" && a[3] == "height" && a[4] == "commit"
		}
		c.Check("F", fnName(fn)+"/is state.Validators.VerifyCommit(chainID, blockID, height, commit)", ok, fn.Pos(), len(calls), "verifyCommit must verify against the current validator set of the applied state with all four arguments passed through")
		rets := findInstrs(fn, AnyReturn())
		ok = len(rets) == 1 && len(calls) == 1 && strings.HasPrefix(pathOf(rets[0].(*ssa.Return).Results[0]), "call:(*types.ValidatorSet).VerifyCommit(")
		c.Check("F", fnName(fn)+"/returns VerifyCommit's verdict", ok, fn.Pos(), len(rets), "the error of VerifyCommit must be what verifyCommit returns")
	}
	if fn := c.Fn("blockchain", "pContext", "applyBlock"); fn != nil {
		calls := findInstrs(fn, CallTo(`blockApplier\)\.ApplyBlock$`, ""))
		ok := len(calls) == 1
		if ok {
			a := argPaths(callCommon(calls[0]))
			ok = len(a) == 4 && a[1] == "pc.state" && a[2] == "blockID" && a[3] == "block"
		}
		c.Check("F", fnName(fn)+"/applies to pc.state and returns the error", ok, fn.Pos(), len(calls), "applyBlock must apply (blockID, block) to the context state")
		rets := findInstrs(fn, AnyReturn())
		ok = len(rets) >= 1
		for _, r := range rets {
			if !strings.HasSuffix(pathOf(r.(*ssa.Return).Results[0]), "#2") {
				ok = false
			}
		}
		c.Check("F", fnName(fn)+"/returns ApplyBlock's error", ok, fn.Pos(), len(rets), "")
	}

}

func runC01(c *Ctx) {
	c.Decided = []string{
		"finalizeCommit saves/end-marks/applies a block only behind +2/3 precommits of CommitRound for a block id whose hash and parts header match the block in hand, and behind ValidateBlock",
		"tryFinalizeCommit/enterCommit are entered only behind a non-nil +2/3 precommit majority; enterCommit is called only from addVote inside that branch",
		"the seen commit saved with the block is built from the same precommit set whose majority was tested",
		"block sync saves and applies block H only behind verifyCommit(chainID, id(H), H, LastCommit(H+1)) == nil against the current validator set, and the id verified is the id applied",
		"ApplyBlock / SaveBlock are reachable only from the consensus commit path and the block-sync processor",
		"validateBlock is a complete checklist; BlockExecutor.ValidateBlock returns nil only from validateBlock or its cache",
	}
	c.NotDec = []string{"agreement across nodes under arbitrary interleavings and adversaries (history-quantified)", "validator-set changes across heights", "the quorum arithmetic itself (C02) and locking rules (C03), imported by reference"}
	c.Floors["G"] = 25
	c.Floors["W"] = 3

	c01CommitPath(c)
	validateBlockChecklist(c)
	// imported: a correct node keeps its lock (C03) and a commit certificate is a verified +2/3 for one block id (C02)
	lockRules(c)
	verifyCommitRules(c)
	voteAdmissionRules(c)
	tallyRules(c)
	validatorSetRoles(c)
	// a vote counts for exactly the height, round, type and block its signature covers (C11): with a field left out of
	// the signed bytes, votes of different rounds add up to a quorum no round ever had
	voteSignBytesRules(c)

	blockSyncRules(c)
	// ---- W: who may apply / save -------------------------------------------------------------------
	c.OnlyCalledFrom("ApplyBlock only from finalizeCommit and block sync", `BlockExecutor\)\.ApplyBlock$|blockApplier\)\.ApplyBlock$`, 2,
		`^`+csT+`\.finalizeCommit$`, `^\(\*blockchain\.pContext\)\.applyBlock$`)
	c.OnlyCalledFrom("SaveBlock only from finalizeCommit and block sync", `\)\.SaveBlock$`, 2,
		`^`+csT+`\.finalizeCommit$`, `^\(\*blockchain\.pContext\)\.saveBlock$`, `^\(\*(mainchain/blockchain|dualchain/blockchain)\.(BlockOperations|DualBlockOperations)\)\.SaveBlock$`)
	c.OnlyCalledFrom("finalizeCommit only from tryFinalizeCommit", `^`+csT+`\.finalizeCommit$`, 1, `^`+csT+`\.tryFinalizeCommit$`)
	c.OnlyCalledFrom("enterCommit only from addVote", `^`+csT+`\.enterCommit$`, 1, `^`+csT+`\.addVote$`)
}

// c01CommitPath: obligations on enterCommit / tryFinalizeCommit / finalizeCommit / addVote→enterCommit (shared by C01 and C03).
func c01CommitPath(c *Ctx) {
	stCommit := c.P.Const("consensus/types", "RoundStepCommit")
	tPrecommit := c.P.Const("proto/kardiachain/types", "PrecommitType")
	if fn := c.Fn("consensus", "ConsensusState", "finalizeCommit"); fn != nil {
		sinks := Or(CallTo(`BaseBlockOperations\)\.SaveBlock$`, ""), CallTo(`\(consensus\.WAL\)\.WriteSync$`, ""), CallTo(blockExT+`\.ApplyBlock$`, ""), CallTo(csT+`\.updateToState$`, ""))
		c.Guarded(fn, "SaveBlock/WriteSync(EndHeight)/ApplyBlock/updateToState", sinks,
			G("cs.Height == height", Cmp(reH, "==", `^height$`)),
			G("cs.Step == Commit", Cmp(reStep, "==", `^const:`+stCommit+`$`)),
			G("Precommits(CommitRound).TwoThirdsMajority() ok", True(`^`+precMaj+`#1$`)),
			G("ProposalBlockParts.HasHeader(blockID.PartsHeader)", True(`^call:\(\*types\.PartSet\)\.HasHeader\(cs\.RoundState\.ProposalBlockParts, `+precMaj+`#0\.PartsHeader\)$`)),
			G("ProposalBlock.HashesTo(blockID.Hash)", True(`^call:\(\*types\.Block\)\.HashesTo\(cs\.RoundState\.ProposalBlock, `+precMaj+`#0\.Hash\)$`)),
			G("blockExec.ValidateBlock(cs.state, block) == nil", IsNil(`^call:`+blockExT+`\.ValidateBlock\(cs\.blockExec, cs\.state, cs\.RoundState\.ProposalBlock\)$`)))
		c.Guarded(fn, "updateToState/scheduleRound0", CallTo(csT+`\.(updateToState|scheduleRound0)$`, ""),
			G("ApplyBlock error == nil", IsNil(`^call:`+blockExT+`\.ApplyBlock\(.*\)#2$`)))
		for _, in := range findInstrs(fn, CallTo(`BaseBlockOperations\)\.SaveBlock$`, "")) {
			a := argPaths(callCommon(in))
			ok := len(a) == 4 && a[1] == "cs.RoundState.ProposalBlock" && a[2] == "cs.RoundState.ProposalBlockParts" &&
				a[3] == "call:(*types.VoteSet).MakeCommit(call:(*consensus/types.HeightVoteSet).Precommits(cs.RoundState.Votes, cs.RoundState.CommitRound))"
			c.Check("F", fnName(fn)+"/SaveBlock(block, parts, Precommits(CommitRound).MakeCommit())", ok, instrPos(in), 1, describeInstr(in))
		}
		for _, in := range findInstrs(fn, CallTo(blockExT+`\.ApplyBlock$`, "")) {
			a := argPaths(callCommon(in))
			ok := len(a) == 4 && a[1] == "call:(kai/state/cstate.LatestBlockState).Copy(cs.state)" && a[3] == "cs.RoundState.ProposalBlock"
			c.Check("F", fnName(fn)+"/ApplyBlock(cs.state.Copy(), id, block)", ok, instrPos(in), 1, describeInstr(in))
		}
		var idh, idp string
		for _, in := range findInstrs(fn, StoreTo(`^&alloc:complit:types\.BlockID\.`)) {
			st := in.(*ssa.Store)
			if strings.HasSuffix(pathOf(st.Addr), ".Hash") {
				idh = pathOf(st.Val)
			} else {
				idp = pathOf(st.Val)
			}
		}
		c.Check("F", fnName(fn)+"/applied id is {block.Hash(), blockParts.Header()}", idh == "call:(*types.Block).Hash(cs.RoundState.ProposalBlock)" && idp == "call:(*types.PartSet).Header(cs.RoundState.ProposalBlockParts)", fn.Pos(), 2, idh+" / "+idp)
		for _, in := range findInstrs(fn, CallTo(csT+`\.updateToState$`, "")) {
			a := argPaths(callCommon(in))
			c.Check("F", fnName(fn)+"/updateToState(result of ApplyBlock)", len(a) == 2 && re(`^call:`+blockExT+`\.ApplyBlock\(.*\)#0$`).MatchString(a[1]), instrPos(in), 1, describeInstr(in))
		}
	}
	if fn := c.Fn("consensus", "ConsensusState", "tryFinalizeCommit"); fn != nil {
		c.Guarded(fn, "finalizeCommit", CallTo(csT+`\.finalizeCommit$`, ""),
			G("cs.Height == height", Cmp(reH, "==", `^height$`)),
			G("Precommits(CommitRound).TwoThirdsMajority() ok", True(`^`+precMaj+`#1$`)),
			G("!blockID.IsZero()", False(`^call:\(\*types\.BlockID\)\.IsZero\(&\(?`+precMaj+`#0\)?\)$`)),
			G("ProposalBlock.HashesTo(blockID.Hash)", True(`^call:\(\*types\.Block\)\.HashesTo\(cs\.RoundState\.ProposalBlock, `+precMaj+`#0\.Hash\)$`)))
	}
	if fn := c.Fn("consensus", "ConsensusState", "enterCommit"); fn != nil {
		cm := `call:\(\*types\.VoteSet\)\.TwoThirdsMajority\(call:\(\*consensus/types\.HeightVoteSet\)\.Precommits\(cs\.RoundState\.Votes, commitRound\)\)`
		c.Guarded(fn, "proposal-block stores / normal return", Or(StoreTo(`^&cs\.RoundState\.(ProposalBlock|ProposalBlockParts)$`), AnyReturn()),
			G("not a stale call, or Precommits(commitRound).TwoThirdsMajority() ok", True(`^`+cm+`#1$`), Cmp(reH, "!=", `^height$`), Cmp(reStep, ">=", `^const:`+stCommit+`$`)))
		// deferred closure stores CommitRound = commitRound and calls tryFinalizeCommit(height)
		okStore, okTry := false, false
		for _, a := range fn.AnonFuncs {
			for _, in := range findInstrs(a, StoreTo(`^&cs\.RoundState\.CommitRound$`)) {
				okStore = pathOf(in.(*ssa.Store).Val) == "commitRound"
			}
			for _, in := range findInstrs(a, CallTo(csT+`\.tryFinalizeCommit$`, "")) {
				ap := argPaths(callCommon(in))
				okTry = len(ap) == 2 && ap[1] == "height"
			}
		}
		c.Check("F", fnName(fn)+"/deferred CommitRound = commitRound", okStore, fn.Pos(), 1, "the round whose +2/3 precommits were seen must be the recorded commit round")
		c.Check("F", fnName(fn)+"/deferred tryFinalizeCommit(height)", okTry, fn.Pos(), 1, "")
		c.OnlyWrittenIn("consensus/types", "RoundState", "CommitRound", 1, `^`+csT+`\.(enterCommit|updateToState)$`)
	}
	if fn := c.Fn("consensus", "ConsensusState", "addVote"); fn != nil {
		pm := `call:\(\*types\.VoteSet\)\.TwoThirdsMajority\(call:\(\*consensus/types\.HeightVoteSet\)\.Precommits\(cs\.RoundState\.Votes, vote\.Round\)\)`
		c.Guarded(fn, "enterCommit", CallTo(csT+`\.enterCommit$`, ""),
			G("vote.Type == Precommit", Cmp(`^vote\.Type$`, "==", `^const:`+tPrecommit+`$`)),
			G("vote.Height == cs.Height", Cmp(`^vote\.Height$`, "==", reH)),
			G("HeightVoteSet.AddVote accepted the vote", True(`^call:\(\*consensus/types\.HeightVoteSet\)\.AddVote\(cs\.RoundState\.Votes, vote, peerID\)#0$`)),
			G("Precommits(vote.Round).TwoThirdsMajority() ok", True(`^`+pm+`#1$`)),
			G("!blockID.Hash.IsZero()", False(`^call:\(\*lib/common\.Hash\)\.IsZero\(&`+pm+`#0\.Hash\)$`)))
		for _, in := range findInstrs(fn, CallTo(csT+`\.enterCommit$`, "")) {
			a := argPaths(callCommon(in))
			c.Check("F", fnName(fn)+"/enterCommit(cs.Height, vote.Round)", len(a) == 3 && a[1] == "cs.RoundState.Height" && a[2] == "vote.Round", instrPos(in), 1, describeInstr(in))
		}
	}
	// BlockExecutor.ValidateBlock: nil only from validateBlock == nil or a cache hit under the block hash
	if fn := c.Fn("kai/state/cstate", "BlockExecutor", "ValidateBlock"); fn != nil {
		c.Guarded(fn, "return nil / cache insert", Or(ReturnWith(0, `^nil$`), func(in ssa.Instruction) bool { _, ok := in.(*ssa.MapUpdate); return ok }),
			G("cache hit or validateBlock(evpool, store, state, block) == nil",
				True(`^blockExec\.cache\[.*\]#1$`),
				IsNil(`^call:kai/state/cstate\.validateBlock\(blockExec\.evpool, blockExec\.store, state, block\)$`)))
	}
	if fn := c.Fn("kai/state/cstate", "BlockExecutor", "ApplyBlock"); fn != nil {
		c.Guarded(fn, "CommitAndValidateBlockTxs/Save", Or(CallTo(`BlockStore\)\.CommitAndValidateBlockTxs$`, ""), CallTo(`cstate\.Store\)\.Save$`, "")),
			G("blockExec.ValidateBlock(state, block) == nil", IsNil(`^call:`+blockExT+`\.ValidateBlock\(blockExec, state, block\)$`)))
	}
}

// validateBlockChecklist: kai/state/cstate.validateBlock accepts only when every item holds (shared by C01, C03, C13).
func validateBlockChecklist(c *Ctx) {
	fn := c.Fn("kai/state/cstate", "", "validateBlock")
	if fn == nil {
		return
	}
	H := `call:\(\*types\.Block\)\.Height\(block\)`
	T := `call:\(\*types\.Block\)\.Time\(block\)`
	hdr := `call:\(\*types\.Block\)\.Header\(block\)`
	lc := `call:\(\*types\.Block\)\.LastCommit\(block\)`
	verify := `^call:\(\*types\.ValidatorSet\)\.VerifyCommit\(state\.LastValidators, state\.ChainID, state\.LastBlockID, \(` + H + ` - const:1\), ` + lc + `\)$`
	emptySigs := Cmp(`^call:len\(`+lc+`\.Signatures\)$`, "==", `^const:0$`)
	genesisTime := True(`^call:\(time\.Time\)\.Equal\(` + T + `, state\.LastBlockTime\)$`)
	accept := Or(CallTo(`EvidencePool\)\.CheckEvidence$`, ""), ReturnWith(0, `^nil$`))
	c.Guarded(fn, "accept (CheckEvidence verdict / return nil)", accept,
		G("block.ValidateBasic(stack trie) == nil", IsNil(`^call:\(\*types\.Block\)\.ValidateBasic\(block, call:trie\.NewStackTrie\(nil\)\)$`)),
		G("block.Height() == state.LastBlockHeight+1", Cmp(`^`+H+`$`, "==", `^\(state\.LastBlockHeight \+ const:1\)$`)),
		G("header.LastBlockID.Equal(state.LastBlockID)", True(`^call:\(\*types\.BlockID\)\.Equal\(&`+hdr+`\.LastBlockID, state\.LastBlockID\)$`)),
		G("block.AppHash().Equal(state.AppHash)", True(`^call:\(lib/common\.Hash\)\.Equal\(call:\(\*types\.Block\)\.AppHash\(block\), state\.AppHash\)$`)),
		G("header.ValidatorsHash.Equal(state.Validators.Hash())", True(`^call:\(lib/common\.Hash\)\.Equal\(`+hdr+`\.ValidatorsHash, call:\(\*types\.ValidatorSet\)\.Hash\(state\.Validators\)\)$`)),
		G("header.NextValidatorsHash.Equal(state.NextValidators.Hash())", True(`^call:\(lib/common\.Hash\)\.Equal\(`+hdr+`\.NextValidatorsHash, call:\(\*types\.ValidatorSet\)\.Hash\(state\.NextValidators\)\)$`)),
		G("LastValidators.VerifyCommit(chainID, LastBlockID, height-1, LastCommit) == nil, or empty commit at the initial height", IsNil(verify), emptySigs),
		G("block time after last block time, or equal to genesis time at the initial height", True(`^call:\(time\.Time\)\.After\(`+T+`, state\.LastBlockTime\)$`), genesisTime),
		G("block time equals MedianTime(LastCommit, LastValidators), or genesis time at the initial height", True(`^call:\(time\.Time\)\.Equal\(`+T+`, call:kai/state/cstate\.MedianTime\(`+lc+`, state\.LastValidators\)\)$`), genesisTime),
		G("evidence count <= MaxEvidencePerBlock", Cmp(`^call:len\(call:\(\*types\.Block\)\.Evidence\(block\)\.Evidence\)$`, "<=", `^call:types\.MaxEvidencePerBlock\(state\.ConsensusParams\.Block\.MaxBytes\)#0$`)),
		G("state.Validators.HasAddress(block.ProposerAddress())", True(`^call:\(\*types\.ValidatorSet\)\.HasAddress\(state\.Validators, call:\(\*types\.Block\)\.ProposerAddress\(block\)\)$`)),
	)
	// the verdict cache holds only verdicts reached under the state being applied: it is emptied after the block it was
	// filled for is applied, not before that block's own validation puts its key back
	if ap := c.Fn("kai/state/cstate", "BlockExecutor", "ApplyBlock"); ap != nil {
		vb := CallTo(`^`+blockExT+`\.ValidateBlock$`, "")
		clear := StoreTo(`^&blockExec\.cache$`)
		c.Precedes(ap, "ValidateBlock", vb, "empty the verdict cache", clear)
		c.FollowedBy(ap, "save the new state", CallTo(`cstate\.Store\)\.Save$`, ""), "empty the verdict cache", clear, "return", AnyReturn())
	}
	// the block time is the median weighted by the power that signed: the half-way mark is half of the power present in
	// the commit, not of the whole set (absent signatures would let under a third of the power dictate the time)
	if mt := c.Fn("kai/state/cstate", "", "MedianTime"); mt != nil {
		n, ok := 0, true
		for _, in := range findInstrs(mt, CallTo(`^types/time\.WeightedMedian$`, "")) {
			n++
			cc := callCommon(in)
			a := ""
			if len(cc.Args) == 2 {
				a = pathOf(cc.Args[1])
			}
			ok = ok && strings.Contains(a, "phi") && re(`GetByAddress\(validators, .*\.ValidatorAddress\)#1\.VotingPower`).MatchString(a) && !strings.Contains(a, "TotalVotingPower")
		}
		c.Check("F", fnName(mt)+"/the median's total weight is the sum of the powers of the signatures present", n == 1 && ok, mt.Pos(), n, "")
	}
	// the initial-height alternatives are only available at the initial height
	ifOn := func(cond Cond) SinkSel {
		return func(in ssa.Instruction) bool {
			iff, ok := in.(*ssa.If)
			if !ok {
				return false
			}
			m, _ := matchCond(cond, iff.Cond)
			return m
		}
	}
	c.Guarded(fn, "empty-commit alternative", ifOn(emptySigs), G("block.Height() == state.InitialHeight", Cmp(`^`+H+`$`, "==", `^state\.InitialHeight$`)))
	c.Guarded(fn, "genesis-time alternative", ifOn(genesisTime), G("block.Height() == state.InitialHeight", Cmp(`^`+H+`$`, "==", `^state\.InitialHeight$`)))
	// the verdict of CheckEvidence is returned
	ok := false
	for _, in := range findInstrs(fn, AnyReturn()) {
		if strings.HasPrefix(pathOf(in.(*ssa.Return).Results[0]), "call:iface:(kai/state/cstate.EvidencePool).CheckEvidence(evidencePool, call:(*types.Block).Evidence(block).Evidence)") {
			ok = true
		}
	}
	c.Check("F", fnName(fn)+"/returns CheckEvidence(block.Evidence().Evidence)", ok, fn.Pos(), 1, "the evidence verdict must be the function result")
}
