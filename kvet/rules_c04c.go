package main

import (
	"fmt"
	"strings"

	"golang.org/x/tools/go/ssa"
)

// c04Gossip: "correct and connected" nodes make progress only if each tells its peers what they lack. The peer record
// says which votes and parts a peer has per (height, round, type); the send routines pick from what we have and the
// record says the peer has not. Structural necessary conditions of that bookkeeping.
func c04Gossip(c *Ctx) {
	// ---- (height, round, step) order: the peer record moves forward exactly when the announced triple is later --------------
	if fn := c.Fn("consensus", "", "CompareHRS"); fn != nil {
		pairs := map[string]int{}
		allInstrs(fn, false, func(_ *ssa.Function, in ssa.Instruction) {
			if b, ok := in.(*ssa.BinOp); ok && isCmp(b.Op) {
				x, y := pathOf(b.X), pathOf(b.Y)
				if x > y {
					x, y = y, x
				}
				pairs[x+"/"+y]++
			}
		})
		ok := pairs["h1/h2"] == 2 && pairs["r1/r2"] == 2 && pairs["s1/s2"] == 2 && len(pairs) == 3
		c.Check("T", fnName(fn)+"/compares heights, then rounds, then steps (each pair both ways)", ok, fn.Pos(), len(pairs), fmt.Sprint(pairs))
		c.Guarded(fn, "decide by the rounds", IfOn(`^\(r1 [<>] r2\)$|^\(r2 [<>] r1\)$`), G("heights are equal", Cmp(`^h1$`, ">=", `^h2$`)), G("heights are equal", Cmp(`^h1$`, "<=", `^h2$`)))
		c.Guarded(fn, "decide by the steps", IfOn(`^\(s1 [<>] s2\)$|^\(s2 [<>] s1\)$`), G("rounds are equal", Cmp(`^r1$`, ">=", `^r2$`)), G("rounds are equal", Cmp(`^r1$`, "<=", `^r2$`)))
	}
	pv, pc := c.P.Const("proto/kardiachain/types", "PrevoteType"), c.P.Const("proto/kardiachain/types", "PrecommitType")
	// ---- which record stands for (height, round, type) -------------------------------------------------------------------
	if fn := c.Fn("consensus", "PeerState", "getVoteBitArray"); fn != nil {
		sameH, nextH := `^\(ps\.PRS\.Height == height\)=T$`, `^\(ps\.PRS\.Height == \(height \+ const:1\)\)=T$`
		want := map[string][]string{
			"ps.PRS.Prevotes":      {sameH, `^\(ps\.PRS\.Round == round\)=T$`, `^\(signedMsgType == const:` + pv + `\)=T$`},
			"ps.PRS.Precommits":    {sameH, `^\(ps\.PRS\.Round == round\)=T$`, `^\(signedMsgType == const:` + pc + `\)=T$`},
			"ps.PRS.CatchupCommit": {sameH, `^\(ps\.PRS\.CatchupCommitRound == round\)=T$`, `^\(signedMsgType == const:` + pc + `\)=T$`},
			"ps.PRS.ProposalPOL":   {sameH, `^\(ps\.PRS\.ProposalPOLRound == round\)=T$`, `^\(signedMsgType == const:` + pv + `\)=T$`},
			"ps.PRS.LastCommit":    {nextH, `^\(ps\.PRS\.LastCommitRound == round\)=T$`, `^\(signedMsgType == const:` + pc + `\)=T$`},
		}
		seen := map[string]bool{}
		for _, in := range findInstrs(fn, AnyReturn()) {
			v := pathOf(in.(*ssa.Return).Results[0])
			if v == "nil" {
				continue
			}
			conds, known := want[v]
			ok := known && !seen[v]
			seen[v] = true
			dc := domConds(in)
			for _, cnd := range conds {
				ok = ok && hasCond(dc, cnd)
			}
			c.Check("T", fnName(fn)+"/the record "+strings.TrimPrefix(v, "ps.PRS.")+" stands for its (height, round, type)", ok, instrPos(in), len(conds), strings.Join(dc, " ; "))
		}
		// the decided commit's precommits are looked up before the POL record: a peer whose POL round equals the commit
		// round must still be offered the commit, or it never leaves the height (the first matching round test answers)
		var cu, pol *ssa.BasicBlock
		for _, in := range findInstrs(fn, IfOn(`^\(ps\.PRS\.(CatchupCommitRound|ProposalPOLRound) == round\)$`)) {
			if strings.Contains(pathOf(in.(*ssa.If).Cond), "CatchupCommitRound") {
				cu = in.Block()
			} else {
				pol = in.Block()
			}
		}
		c.Check("T", fnName(fn)+"/the catch-up commit round is tested before the POL round", cu != nil && pol != nil && cu != pol && cu.Dominates(pol), fn.Pos(), 2, "")
		c.Check("T", fnName(fn)+"/five records (prevotes, precommits, catch-up commit, POL prevotes, last commit)", len(seen) == 5, fn.Pos(), len(seen), "")
	}
	// ---- marking -----------------------------------------------------------------------------------------------------------
	if fn := c.Fn("consensus", "PeerState", "setHasVote"); fn != nil {
		n := 0
		for _, in := range findInstrs(fn, CallTo(`^\(\*lib/common\.BitArray\)\.SetIndex$`, "")) {
			a := argPaths(callCommon(in))
			if len(a) == 3 && a[0] == "call:(*consensus.PeerState).getVoteBitArray(ps, height, round, signedMsgType)" && a[1] == "index" && a[2] == "const:true" {
				n++
			}
		}
		c.Check("F", fnName(fn)+"/sets bit `index` of the record for (height, round, type)", n == 1, fn.Pos(), n, "")
	}
	if fn := c.Fn("consensus", "PeerState", "SetHasVote"); fn != nil {
		n := 0
		for _, in := range findInstrs(fn, CallTo(`^\(\*consensus\.PeerState\)\.setHasVote$`, "")) {
			a := argPaths(callCommon(in))
			if len(a) == 5 && a[1] == "vote.Height" && a[2] == "vote.Round" && a[3] == "vote.Type" && a[4] == "vote.ValidatorIndex" {
				n++
			}
		}
		c.Check("F", fnName(fn)+"/marks the vote's own height, round, type and validator index", n == 1, fn.Pos(), n, "")
	}
	// ---- picking: something we have and the record says the peer lacks ---------------------------------------------------------
	if fn := c.Fn("consensus", "PeerState", "PickVoteToSend"); fn != nil {
		rec := `call:(*consensus.PeerState).getVoteBitArray(ps, call:iface:(types.VoteSetReader).GetHeight(votes), call:iface:(types.VoteSetReader).GetRound(votes), call:iface:(types.VoteSetReader).Type(votes))`
		sub := `call:(*lib/common.BitArray).Sub(call:iface:(types.VoteSetReader).BitArray(votes), ` + rec + `)`
		n := 0
		for _, in := range findInstrs(fn, CallTo(`^\(\*lib/common\.BitArray\)\.PickRandom$`, "")) {
			if a := argPaths(callCommon(in)); len(a) == 1 && a[0] == sub {
				n++
			}
		}
		c.Check("F", fnName(fn)+"/picks among the votes we have minus the record for the set's (height, round, type)", n == 1, fn.Pos(), n, "")
		okRet := 0
		for _, in := range findInstrs(fn, ReturnWith(1, `^const:true$`)) {
			if pathOf(in.(*ssa.Return).Results[0]) == "call:iface:(types.VoteSetReader).GetByIndex(votes, call:(*lib/common.BitArray).PickRandom("+sub+")#0)" {
				okRet++
			}
		}
		c.Check("F", fnName(fn)+"/hands out the vote at the picked index", okRet == 1, fn.Pos(), okRet, "")
		c.Guarded(fn, "hand out a vote", ReturnWith(1, `^const:true$`), G("an index was picked", True(`^call:\(\*lib/common\.BitArray\)\.PickRandom\(.*#1$`)), G("there is a record for that (height, round, type)", NotNil(`^call:\(\*consensus\.PeerState\)\.getVoteBitArray\(`)))
		c.Precedes(fn, "size the records for this height", CallTo(`^\(\*consensus\.PeerState\)\.ensureVoteBitArrays$`, ""), "look the record up", CallTo(`^\(\*consensus\.PeerState\)\.getVoteBitArray$`, ""))
	}
	if fn := c.Fn("consensus", "PeerState", "PickSendVote"); fn != nil {
		send := CallTo(`^iface:\(lib/p2p\.Peer\)\.Send$`, "")
		n := 0
		vch := c.P.Const("consensus", "VoteChannel")
		for _, in := range findInstrs(fn, send) {
			a := argPaths(callCommon(in))
			if len(a) == 3 && a[1] == "const:"+vch && a[2] == "call:consensus.MustEncode(&alloc:complit:consensus.VoteMessage)" {
				n++
			}
		}
		msgVote := 0
		for _, in := range findInstrs(fn, StoreTo(`^&alloc:complit:consensus\.VoteMessage\.Vote$`)) {
			if pathOf(in.(*ssa.Store).Val) == "call:(*consensus.PeerState).PickVoteToSend(ps, votes)#0" {
				msgVote++
			}
		}
		c.Check("F", fnName(fn)+"/sends the picked vote as a vote message on the vote channel", n == 1 && msgVote == 1, fn.Pos(), n+msgVote, "")
		c.Guarded(fn, "report a vote as sent", ReturnWith(0, `^const:true$`), G("a vote was picked", True(`PickVoteToSend\(ps, votes\)#1$`)), G("the send was accepted", True(`^call:iface:\(lib/p2p\.Peer\)\.Send\(`)))
	}
	// ---- which sets are offered to a peer at our height ------------------------------------------------------------------------
	if fn := c.Fn("consensus", "ConsensusManager", "gossipVotesForHeight"); fn != nil {
		offered := map[string]int{}
		for _, in := range findInstrs(fn, CallTo(`^\(\*consensus\.PeerState\)\.PickSendVote$`, "")) {
			a := argPaths(callCommon(in))
			if len(a) == 2 {
				offered[a[1]]++
			}
		}
		for _, w := range []struct{ desc, arg string }{
			{"the last commit (peer still in the new-height step)", "rs.LastCommit"},
			{"prevotes of the peer's round", "call:(*consensus/types.HeightVoteSet).Prevotes(rs.Votes, prs.Round)"},
			{"precommits of the peer's round", "call:(*consensus/types.HeightVoteSet).Precommits(rs.Votes, prs.Round)"},
			{"prevotes of the peer's proposal POL round", "call:(*consensus/types.HeightVoteSet).Prevotes(rs.Votes, prs.ProposalPOLRound)"},
		} {
			c.Check("S", fnName(fn)+"/offers "+w.desc, offered[w.arg] >= 1, fn.Pos(), offered[w.arg], "")
		}
		c.Guarded(fn, "offer the last commit", CallTo(`^\(\*consensus\.PeerState\)\.PickSendVote$`, `PickSendVote\(ps, rs\.LastCommit\)$`), G("the peer is in the new-height step", Cmp(`^prs\.Step$`, "==", `^const:1$`)))
	}
	if fn := c.Fn("consensus", "ConsensusManager", "gossipVotesRoutine"); fn != nil {
		c.Guarded(fn, "gossip the votes of our height", CallTo(`^\(\*consensus\.ConsensusManager\)\.gossipVotesForHeight$`, ""), G("the peer is at our height", Cmp(`\.Height$`, "==", `\.Height$`)))
		n := len(findInstrs(fn, CallTo(`^\(\*consensus\.ConsensusManager\)\.gossipVotesForHeight$`, "")))
		c.Check("S", fnName(fn)+"/one same-height site", n == 1, fn.Pos(), n, "")
		// a peer one height behind gets our last commit, a peer further behind the stored commit of its height
		lc, stored := 0, 0
		for _, in := range findInstrs(fn, CallTo(`^\(\*consensus\.PeerState\)\.PickSendVote$`, "")) {
			a := argPaths(callCommon(in))
			if len(a) != 2 {
				continue
			}
			if strings.HasSuffix(a[1], ".LastCommit") {
				lc++
			}
			if strings.Contains(a[1], "LoadBlockCommit(") && strings.Contains(a[1], ".Height)") {
				stored++
			}
		}
		c.Check("S", fnName(fn)+"/a peer one height behind is offered our last commit", lc == 1, fn.Pos(), lc, "")
		c.Check("S", fnName(fn)+"/a peer further behind is offered the stored commit of its height", stored == 1, fn.Pos(), stored, "")
	}
	// ---- block parts -------------------------------------------------------------------------------------------------------------
	if fn := c.Fn("consensus", "ConsensusManager", "gossipDataRoutine"); fn != nil {
		n := 0
		for _, in := range findInstrs(fn, CallTo(`^\(\*lib/common\.BitArray\)\.PickRandom$`, "")) {
			a := argPaths(callCommon(in))
			if len(a) == 1 && strings.HasPrefix(a[0], "call:(*lib/common.BitArray).Sub(call:(*types.PartSet).BitArray(") && strings.Contains(a[0], ".ProposalBlockParts), call:(*lib/common.BitArray).Copy(") && strings.Contains(a[0], ".ProposalBlockParts))") {
				n++
			}
		}
		c.Check("F", fnName(fn)+"/picks a part among those we have minus those the peer has", n == 1, fn.Pos(), n, "")
		c.Guarded(fn, "pick a part of our proposal block", CallTo(`^\(\*lib/common\.BitArray\)\.PickRandom$`, ""), G("the peer works on the same part set", True(`^call:\(\*types\.PartSet\)\.HasHeader\(.*\.ProposalBlockParts, .*\.ProposalBlockPartsHeader\)$`)))
		cu := len(findInstrs(fn, CallTo(`^\(\*consensus\.ConsensusManager\)\.gossipDataForCatchup$`, "")))
		c.Check("S", fnName(fn)+"/a peer at a lower height is served from the block store", cu == 1, fn.Pos(), cu, "")
	}
	if fn := c.Fn("consensus", "PeerState", "SetHasProposalBlockPart"); fn != nil {
		c.Guarded(fn, "mark the part", CallTo(`^\(\*lib/common\.BitArray\)\.SetIndex$`, ""), G("same height", Cmp(`^ps\.PRS\.Height$`, "==", `^height$`)), G("same round", Cmp(`^ps\.PRS\.Round$`, "==", `^round$`)))
		n := 0
		for _, in := range findInstrs(fn, CallTo(`^\(\*lib/common\.BitArray\)\.SetIndex$`, "")) {
			a := argPaths(callCommon(in))
			if len(a) == 3 && a[0] == "ps.PRS.ProposalBlockParts" && a[1] == "index" && a[2] == "const:true" {
				n++
			}
		}
		c.Check("F", fnName(fn)+"/sets bit `index` of the peer's part record", n == 1, fn.Pos(), n, "")
	}
}
