package main

// Guards: matching of branch conditions against (lhs op rhs) patterns over access paths, with polarity.

import (
	"fmt"
	"go/constant"
	"go/token"
	"go/types"
	"regexp"
	"strings"

	"golang.org/x/tools/go/ssa"
)

// Cond is one atomic passing condition "L Op R".
// Op: "==", "!=", "<", "<=", ">", ">=" on two operands, or "T"/"F" for a boolean value L being true/false.
// L and R are regular expressions over access paths (R is ignored for T/F).
type Cond struct {
	L  string
	Op string
	R  string
}

// Guard passes when any of its alternatives holds.
type Guard struct {
	Desc string
	Alts []Cond
}

func G(desc string, alts ...Cond) Guard { return Guard{desc, alts} }
func IsNil(l string) Cond               { return Cond{l, "==", "^nil$"} }
func NotNil(l string) Cond              { return Cond{l, "!=", "^nil$"} }
func True(l string) Cond                { return Cond{l, "T", ""} }
func False(l string) Cond               { return Cond{l, "F", ""} }
func Cmp(l, op, r string) Cond          { return Cond{l, op, r} }

var reCache = map[string]*regexp.Regexp{}

func re(s string) *regexp.Regexp {
	if r, ok := reCache[s]; ok {
		return r
	}
	r := regexp.MustCompile(s)
	reCache[s] = r
	return r
}

var flipOp = map[string]string{"==": "==", "!=": "!=", "<": ">", "<=": ">=", ">": "<", ">=": "<="}
var negOp = map[string]string{"==": "!=", "!=": "==", "<": ">=", "<=": ">", ">": "<=", ">=": "<"}

// matchCond decides whether cond (an If condition) tests c, and on which edge c holds.
// anySpelling: the predicate holds for the path of v as printed, with accessors expanded, or — for a symmetric test
// `a.Equal(b)` — with the operands exchanged.
func anySpelling(v ssa.Value, pred func(string) bool) bool {
	if pred(pathOf(v)) || pred(pathOfX(v)) {
		return true
	}
	if c, ok := v.(*ssa.Call); ok && c.Call.StaticCallee() != nil && len(c.Call.Args) == 2 {
		if n := c.Call.StaticCallee().Name(); n == "Equal" || n == "Equals" {
			if types.Identical(deptr(c.Call.Args[0].Type()), deptr(c.Call.Args[1].Type())) {
				return pred("call:" + calleeName(&c.Call) + "(" + pathOf(c.Call.Args[1]) + ", " + pathOf(c.Call.Args[0]) + ")")
			}
		}
	}
	return false
}

// equivCmps lists comparisons equivalent to b as (left, op, right) path triples.
func equivCmps(b *ssa.BinOp) [][3]string {
	var out [][3]string
	nonneg := func(v ssa.Value) bool {
		if c, ok := v.(*ssa.Call); ok {
			if bi, ok := c.Call.Value.(*ssa.Builtin); ok && (bi.Name() == "len" || bi.Name() == "cap") {
				return true
			}
		}
		if bt, ok := v.Type().Underlying().(*types.Basic); ok && bt.Info()&types.IsUnsigned != 0 {
			return true
		}
		return false
	}
	constInt := func(v ssa.Value) (int64, bool) {
		k, ok := v.(*ssa.Const)
		if !ok || k.Value == nil || k.Value.Kind() != constant.Int {
			return 0, false
		}
		return k.Int64(), true
	}
	// normalise to "X op K" with the constant on the right
	X, Y, op := b.X, b.Y, b.Op.String()
	if _, ok := constInt(X); ok {
		X, Y, op = Y, X, flipOp[op]
	}
	if k, ok := constInt(Y); ok && nonneg(X) {
		x := pathOf(X)
		if k == 1 {
			switch op {
			case ">=":
				op, k = ">", 0
			case "<":
				op, k = "==", 0
			}
		}
		if k == 0 {
			switch op {
			case ">", "!=":
				out = append(out, [3]string{x, ">", "const:0"}, [3]string{x, "!=", "const:0"}, [3]string{x, ">=", "const:1"})
			case "<=", "==":
				out = append(out, [3]string{x, "==", "const:0"}, [3]string{x, "<=", "const:0"}, [3]string{x, "<", "const:1"})
			}
		}
	}
	if k, ok := constInt(Y); ok && k == 0 {
		if c, ok := X.(*ssa.Call); ok && c.Call.StaticCallee() != nil {
			name := c.Call.StaticCallee().Name()
			if (name == "Cmp" || name == "Compare") && len(c.Call.Args) == 2 {
				sw := "call:" + calleeName(&c.Call) + "(" + pathOf(c.Call.Args[1]) + ", " + pathOf(c.Call.Args[0]) + ")"
				out = append(out, [3]string{sw, flipOp[op], "const:0"})
			}
		}
	}
	return out
}

func matchCond(c Cond, cond ssa.Value) (matched, passOnTrue bool) {
	// short-circuit lowering: cond = phi(X | false...) means cond ⇒ X; cond = phi(X | true...) means !cond ⇒ !X
	if phi, ok := cond.(*ssa.Phi); ok && !((c.Op == "T" || c.Op == "F") && re(c.L).MatchString(pathOf(cond))) {
		var x ssa.Value
		nT, nF, nX := 0, 0, 0
		for _, e := range phi.Edges {
			if k, ok := e.(*ssa.Const); ok && k.Value != nil && k.Value.Kind() == constant.Bool {
				if constant.BoolVal(k.Value) {
					nT++
				} else {
					nF++
				}
			} else {
				nX++
				x = e
			}
		}
		if nX == 1 && (nT == 0) != (nF == 0) {
			m, pt := matchCond(c, x)
			if m && pt && nF > 0 {
				return true, true
			}
			if m && !pt && nT > 0 {
				return true, false
			}
			return false, false
		}
	}
	neg := false
	for {
		if u, ok := cond.(*ssa.UnOp); ok && u.Op == token.NOT {
			cond = u.X
			neg = !neg
			continue
		}
		break
	}
	if c.Op == "T" || c.Op == "F" {
		if b, ok := cond.(*ssa.BinOp); ok && isCmp(b.Op) {
			// comparing a boolean against a constant true/false
			_ = b
		}
		if anySpelling(cond, func(p string) bool { return re(c.L).MatchString(p) }) {
			pass := c.Op == "T"
			if neg {
				pass = !pass
			}
			return true, pass
		}
		return false, false
	}
	b, ok := cond.(*ssa.BinOp)
	if !ok || !isCmp(b.Op) {
		return false, false
	}
	op := b.Op.String()
	x, y := pathOf(b.X), pathOf(b.Y)
	try := func(l, r, op string) (bool, bool) {
		if !re(c.L).MatchString(l) || !re(c.R).MatchString(r) {
			return false, false
		}
		if op == c.Op {
			return true, !neg
		}
		if negOp[op] == c.Op {
			return true, neg
		}
		return false, false
	}
	if m, p := try(x, y, op); m {
		return m, p
	}
	if m, p := try(y, x, flipOp[op]); m {
		return m, p
	}
	// equivalent comparisons: a count or unsigned value against 0 or 1 (`len(s) > 0`, `!= 0`, `>= 1`), and a three-way
	// comparison with its operands exchanged (`a.Cmp(b) < 0`, `b.Cmp(a) > 0`)
	for _, alt := range equivCmps(b) {
		if m, p := try(alt[0], alt[2], alt[1]); m {
			return m, p
		}
		if m, p := try(alt[2], alt[0], flipOp[alt[1]]); m {
			return m, p
		}
	}
	// second spelling: fields read through trivial accessors
	if x2, y2 := pathOfX(b.X), pathOfX(b.Y); x2 != x || y2 != y {
		if m, p := try(x2, y2, op); m {
			return m, p
		}
		return try(y2, x2, flipOp[op])
	}
	return false, false
}

func isCmp(op token.Token) bool {
	switch op {
	case token.EQL, token.NEQ, token.LSS, token.LEQ, token.GTR, token.GEQ:
		return true
	}
	return false
}

type guardSite struct {
	If   *ssa.If
	Pass edge
	Desc string
}

// guardEdges finds every If in fn testing one of the guard's alternatives; returns the passing edges.
func (p *Program) guardEdges(fn *ssa.Function, g Guard) []guardSite {
	var out []guardSite
	for _, b := range fn.Blocks {
		if len(b.Instrs) == 0 {
			continue
		}
		iff, ok := b.Instrs[len(b.Instrs)-1].(*ssa.If)
		if !ok {
			continue
		}
		found := false
		for _, c := range g.Alts {
			if m, pt := matchCond(c, iff.Cond); m {
				e := edge{b, b.Succs[1]}
				if pt {
					e = edge{b, b.Succs[0]}
				}
				out = append(out, guardSite{iff, e, fmt.Sprintf("%s if %s [pass on %v]", p.Pos(instrPos(iff)), clip(pathOf(iff.Cond), 160), pt)})
				found = true
				break
			}
		}
		if found {
			continue
		}
		// The value of `a1 && … && ak` (a switch case, an assigned condition) being false means one operand is false; that
		// establishes the guard when the negation of every operand is one of its alternatives. Dually for || being true.
		if ops, isAnd, ok := chainOperands(iff.Cond); ok {
			all := true
			for _, op := range ops {
				one := false
				for _, c := range g.Alts {
					if m, pt := matchCond(c, op); m && pt == !isAnd {
						one = true
						break
					}
				}
				all = all && one
			}
			if all && len(ops) > 1 {
				e := edge{b, b.Succs[1]}
				if !isAnd {
					e = edge{b, b.Succs[0]}
				}
				out = append(out, guardSite{iff, e, fmt.Sprintf("%s if %s [every operand's %v outcome is an alternative]", p.Pos(instrPos(iff)), clip(pathOf(iff.Cond), 160), !isAnd)})
			}
		}
	}
	return out
}

// chainOperands: cond is the value of a1 && … && ak (a phi of the constant false and the last operand) or of an ||
// chain (constant true); returns the operands.
func chainOperands(cond ssa.Value) (ops []ssa.Value, isAnd, ok bool) {
	phi, isPhi := cond.(*ssa.Phi)
	if !isPhi {
		return nil, false, false
	}
	nT, nF := 0, 0
	var last ssa.Value
	for i, e := range phi.Edges {
		if k, isK := e.(*ssa.Const); isK && k.Value != nil && k.Value.Kind() == constant.Bool {
			if i >= len(phi.Block().Preds) {
				return nil, false, false
			}
			pred := phi.Block().Preds[i]
			pif, isIf := pred.Instrs[len(pred.Instrs)-1].(*ssa.If)
			if !isIf || len(pred.Succs) != 2 {
				return nil, false, false
			}
			// the constant is the outcome of the operand tested in pred: false from its false edge (&&), true from its true edge (||)
			if constant.BoolVal(k.Value) {
				nT++
				if pred.Succs[0] != phi.Block() {
					return nil, false, false
				}
			} else {
				nF++
				if pred.Succs[1] != phi.Block() {
					return nil, false, false
				}
			}
			if sub, subAnd, isChain := chainOperands(pif.Cond); isChain && subAnd == !constant.BoolVal(k.Value) {
				ops = append(ops, sub...)
			} else {
				ops = append(ops, pif.Cond)
			}
			continue
		}
		if last != nil {
			return nil, false, false
		}
		last = e
	}
	if last == nil || (nT == 0) == (nF == 0) {
		return nil, false, false
	}
	return append(ops, last), nF > 0, true
}

func clip(s string, n int) string {
	if len(s) > n {
		return s[:n] + "…"
	}
	return s
}

// Sink selectors ---------------------------------------------------------------------------

type SinkSel func(in ssa.Instruction) bool

// CallTo selects call/defer/go instructions whose resolved callee matches calleeRe and whose
// rendered call (callee + argument paths) matches argRe (may be "").
func CallTo(calleeRe, argRe string) SinkSel {
	return func(in ssa.Instruction) bool {
		cc := callCommon(in)
		if cc == nil {
			return false
		}
		if !re(calleeRe).MatchString(calleeNameNoPath(cc)) {
			return false
		}
		if argRe == "" {
			return true
		}
		return re(argRe).MatchString(callPath(cc))
	}
}

// StoreTo selects stores whose address path matches.
func StoreTo(addrRe string) SinkSel {
	return func(in ssa.Instruction) bool {
		switch st := in.(type) {
		case *ssa.Store:
			return re(addrRe).MatchString(pathOf(st.Addr))
		case *ssa.MapUpdate:
			return re(addrRe).MatchString("&" + pathOf(st.Map) + "[" + pathOf(st.Key) + "]")
		}
		return false
	}
}

// ReturnWith selects return instructions whose i-th result path matches (e.g. "^nil$" for a nil error).
func ReturnWith(i int, valRe string) SinkSel {
	return func(in ssa.Instruction) bool {
		r, ok := in.(*ssa.Return)
		if !ok || i >= len(r.Results) {
			return false
		}
		return re(valRe).MatchString(pathOf(r.Results[i]))
	}
}

func AnyReturn() SinkSel {
	return func(in ssa.Instruction) bool { _, ok := in.(*ssa.Return); return ok }
}

func Or(sels ...SinkSel) SinkSel {
	return func(in ssa.Instruction) bool {
		for _, s := range sels {
			if s(in) {
				return true
			}
		}
		return false
	}
}

func findInstrs(fn *ssa.Function, sel SinkSel) []ssa.Instruction {
	var out []ssa.Instruction
	if fn == nil {
		return nil
	}
	for _, b := range fn.Blocks {
		for _, in := range b.Instrs {
			if sel(in) {
				out = append(out, in)
			}
		}
	}
	return out
}

func describeInstr(in ssa.Instruction) string {
	if cc := callCommon(in); cc != nil {
		pre := ""
		switch in.(type) {
		case *ssa.Defer:
			pre = "defer "
		case *ssa.Go:
			pre = "go "
		}
		return pre + clip(callPath(cc), 140)
	}
	switch x := in.(type) {
	case *ssa.Store:
		return "store " + clip(pathOf(x.Addr), 80) + " = " + clip(pathOf(x.Val), 80)
	case *ssa.MapUpdate:
		return "mapupdate " + clip(pathOf(x.Map), 80) + "[" + clip(pathOf(x.Key), 40) + "]"
	case *ssa.Return:
		var rs []string
		for _, r := range x.Results {
			rs = append(rs, clip(pathOf(r), 60))
		}
		return "return " + strings.Join(rs, ", ")
	}
	return clip(in.String(), 100)
}

// SuccessReturn selects the points where a function commits to returning the value matching valRe (default nil)
// as its i-th result: a return with that literal result, or — in functions whose results are spilled to a cell
// because of defer/recover — the store of that value into the result cell.
func SuccessReturn(i int, valRe string) SinkSel {
	if valRe == "" {
		valRe = `^nil$`
	}
	return func(in ssa.Instruction) bool {
		switch x := in.(type) {
		case *ssa.Return:
			if i < len(x.Results) {
				if _, spilled := resultCell(x.Results[i]); !spilled {
					return re(valRe).MatchString(pathOf(x.Results[i]))
				}
			}
		case *ssa.Store:
			a, ok := x.Addr.(*ssa.Alloc)
			if !ok || !re(valRe).MatchString(pathOf(x.Val)) {
				return false
			}
			fn := in.Parent()
			for _, b := range fn.Blocks {
				if len(b.Instrs) == 0 {
					continue
				}
				if r, ok := b.Instrs[len(b.Instrs)-1].(*ssa.Return); ok && i < len(r.Results) {
					if cell, spilled := resultCell(r.Results[i]); spilled && cell == a {
						return true
					}
				}
			}
		}
		return false
	}
}

func resultCell(v ssa.Value) (*ssa.Alloc, bool) {
	if u, ok := v.(*ssa.UnOp); ok && u.Op == token.MUL {
		if a, ok := u.X.(*ssa.Alloc); ok {
			return a, true
		}
	}
	return nil, false
}
