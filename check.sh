#!/bin/sh
# usage: check.sh <property id> <quick|thorough>
# Rebuilds kvet if its sources are newer than the binary, then decides the property on /repo's current tree.
cd /verif || exit 2
export GOPROXY=off GOSUMDB=off GOTOOLCHAIN=local GOWORK=off
if [ ! -x bin/kvet ] || [ -n "$(find kvet \( -name '*.go' -o -name names.json \) -newer bin/kvet -not -path 'kvet/vendor/*' 2>/dev/null | head -1)" ]; then
  mkdir -p bin
  (cd kvet && GOFLAGS=-mod=vendor go build -o ../bin/kvet.$$ . && mv ../bin/kvet.$$ ../bin/kvet) || { echo "kvet: build failed" >&2; exit 2; }
fi
exec bin/kvet check -prop "$1" -tier "${2:-quick}"
