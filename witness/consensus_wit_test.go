package consensus

import (
	"testing"
	"time"

	cstypes "github.com/kardiachain/go-kardia/consensus/types"
	"github.com/kardiachain/go-kardia/lib/common"
	"github.com/kardiachain/go-kardia/lib/log"
	kcons "github.com/kardiachain/go-kardia/proto/kardiachain/consensus"
	kproto "github.com/kardiachain/go-kardia/proto/kardiachain/types"
	"github.com/kardiachain/go-kardia/types"
	"github.com/gogo/protobuf/proto"
)

// W7: a peer precommit for height 0 while we wait at the initial height panics the state machine.
func TestWitnessNilLastCommit(t *testing.T) {
	vote := &types.Vote{
		ValidatorAddress: common.BytesToAddress([]byte{9}),
		Height:           0, Round: 1, Type: kproto.PrecommitType,
		Timestamp: time.Unix(1, 0).UTC(),
		Signature: []byte{1},
	}
	// the vote passes wire decoding + ValidateBasic exactly as Receive does it
	bz := MustEncode(&VoteMessage{vote})
	msg, err := decodeMsg(bz)
	if err != nil {
		t.Fatalf("decode: %v", err)
	}
	if err := msg.ValidateBasic(); err != nil {
		t.Fatalf("validate: %v", err)
	}
	cs := &ConsensusState{}
	cs.BaseService.Logger = log.New()
	cs.Height = 1
	cs.Step = cstypes.RoundStepNewHeight
	cs.LastCommit = (*types.VoteSet)(nil) // what updateToState stores when LastBlockHeight == 0
	defer func() {
		if r := recover(); r != nil {
			t.Logf("W7 CONFIRMED: addVote panicked: %v", r)
		}
	}()
	_, err = cs.addVote(msg.(*VoteMessage).Vote, "peer1")
	t.Logf("W7 no panic, err=%v", err)
}

// W8: a proposal whose part-set total is absurd passes decoding and validation.
func TestWitnessProposalTotalUnbounded(t *testing.T) {
	p := &types.Proposal{Height: 3, Round: 1, POLRound: 7, Timestamp: time.Unix(1, 0).UTC(),
		POLBlockID: types.BlockID{Hash: common.BytesToHash([]byte{1}), PartsHeader: types.PartSetHeader{Total: 1 << 31, Hash: common.BytesToHash([]byte{2})}},
		Signature:  []byte{1}}
	pb, err := MsgToProto(&ProposalMessage{p})
	if err != nil {
		t.Fatal(err)
	}
	bz, _ := proto.Marshal(pb)
	var back kcons.Message
	_ = proto.Unmarshal(bz, &back)
	msg, err := MsgFromProto(&back)
	t.Logf("WITNESS W8: decode err=%v validate err=%v total=%d polRound=%d round=%d", err, msg.ValidateBasic(), msg.(*ProposalMessage).Proposal.POLBlockID.PartsHeader.Total,
		msg.(*ProposalMessage).Proposal.POLRound, msg.(*ProposalMessage).Proposal.Round)
	ps := NewPeerState(nil)
	ps.PRS.Height, ps.PRS.Round = 3, 1
	ps.SetHasProposal(msg.(*ProposalMessage).Proposal)
	t.Logf("WITNESS W8: peer-state bit array allocated with %d bits (%d MiB) before any signature check", ps.PRS.ProposalBlockParts.Size(), len(ps.PRS.ProposalBlockParts.Elems)*8>>20)
}
