package common

import (
	"testing"

	kprotobits "github.com/kardiachain/go-kardia/proto/kardiachain/libs/bits"
)

// W5: a wire BitArray with Bits set and no Elems panics on ordinary use.
func TestWitnessBitArrayFromProto(t *testing.T) {
	bad := new(BitArray)
	bad.FromProto(&kprotobits.BitArray{Bits: 128})
	t.Logf("WITNESS W5: decoded Size=%d len(Elems)=%d", bad.Size(), len(bad.Elems))
	ours := NewBitArray(128)
	ours.SetIndex(3, true)
	try := func(name string, f func()) {
		defer func() {
			if r := recover(); r != nil {
				t.Logf("W5 CONFIRMED %s panics: %v", name, r)
			}
		}()
		f()
		t.Logf("W5 %s: no panic", name)
	}
	try("ours.Sub(bad.Copy())", func() { ours.Sub(bad.Copy()) })
	try("bad.SetIndex(5,true)", func() { bad.SetIndex(5, true) })
	try("bad.PickRandom()", func() { bad.PickRandom() })
	try("ours.Or(bad)", func() { ours.Or(bad) })
}
