package consensus

// Witness for property C05 (open finding): finalizeCommit writes the WAL marker #ENDHEIGHT H (fsync) and only then
// applies block H and saves the consensus state. If the process dies in between, the restarted node loads the state of
// H-1, so it is at height H again; catchupReplay(H) finds the marker of H, refuses ("wal should not contain #ENDHEIGHT"),
// OnStart carries on without replaying anything, and no start-up step re-applies the stored block (there is no handshake).
// The node has forgotten what it signed at height H and signs again: a second, conflicting prevote at (H, round 1).
//
// Real ConsensusState, real on-disk WAL, real vote sets and block executor validation; the block store accepts SaveBlock and
// the process "dies" where ApplyBlock would execute the block (the executor has no chain behind it, the panic ends the
// receive routine exactly as a crash at that point would; the marker is already on disk).
//
// run (uses the helpers of consensus_replay_ticker_wit_test.go):
//   cd /repo && go test -vet=off -count=1 -overlay /verif/witness/overlay.json -run TestWitRestartAfterEndHeightMarker ./consensus/

import (
	"io"
	"os"
	"testing"
	"time"

	"github.com/kardiachain/go-kardia/configs"
	"github.com/kardiachain/go-kardia/kai/state/cstate"
	"github.com/kardiachain/go-kardia/lib/common"
	"github.com/kardiachain/go-kardia/lib/p2p"
	kproto "github.com/kardiachain/go-kardia/proto/kardiachain/types"
	"github.com/kardiachain/go-kardia/trie"
	"github.com/kardiachain/go-kardia/types"
)

type witEHBlockOps struct{ witRTBlockOps }

func (witEHBlockOps) SaveBlock(*types.Block, *types.PartSet, *types.Commit) {} // the block store takes the block

func witEHNode(t *testing.T, rootDir string, state cstate.LatestBlockState, pv types.PrivValidator, timeoutPropose time.Duration) *ConsensusState {
	cfg := configs.TestConsensusConfig()
	cfg.RootDir = rootDir
	cfg.TimeoutPropose = timeoutPropose
	logger := witRTLogger()
	blockExec := cstate.NewBlockExecutor(nil, logger, cstate.EmptyEvidencePool{}, nil)
	cs := NewConsensusState(logger, cfg, state, witEHBlockOps{}, blockExec, cstate.EmptyEvidencePool{})
	cs.SetPrivValidator(pv)
	eventBus := types.NewEventBus()
	eventBus.SetLogger(witRTLogger())
	if err := eventBus.Start(); err != nil {
		t.Fatal(err)
	}
	cs.SetEventBus(eventBus)
	return cs
}

func witEHOwnVotes(t *testing.T, walFile string, addr common.Address) []*types.Vote {
	f, err := os.Open(walFile)
	if err != nil {
		t.Fatal(err)
	}
	defer f.Close()
	var votes []*types.Vote
	dec := NewWALDecoder(f)
	for {
		msg, err := dec.Decode()
		if err == io.EOF {
			break
		}
		if err != nil {
			t.Fatalf("reading WAL: %v", err)
		}
		if mi, ok := msg.Msg.(msgInfo); ok {
			if vm, ok := mi.Msg.(*VoteMessage); ok && vm.Vote.ValidatorAddress.Equal(addr) {
				votes = append(votes, vm.Vote)
			}
		}
	}
	return votes
}

func TestWitRestartAfterEndHeightMarker(t *testing.T) {
	rootDir, err := os.MkdirTemp("", "wit-endheight-")
	if err != nil {
		t.Fatal(err)
	}
	defer os.RemoveAll(rootDir)

	valSet, privVals := types.RandValidatorSet(4, 10)
	state := cstate.LatestBlockState{
		ChainID: witRTChainID, InitialHeight: 1, LastBlockHeight: 0, LastBlockTime: time.Unix(1600000000, 0).UTC(),
		Validators: valSet.Copy(), NextValidators: valSet.CopyIncrementProposerPriority(1), LastValidators: types.NewValidatorSet(nil),
		LastHeightValidatorsChanged: 1, ConsensusParams: *configs.DefaultConsensusParams(),
	}
	proposer1 := state.Validators.Copy().GetProposer().Address
	var us, proposerPV types.PrivValidator
	var others []types.PrivValidator
	for _, pv := range privVals {
		switch {
		case pv.GetAddress().Equal(proposer1):
			proposerPV = pv
			others = append(others, pv)
		case us == nil:
			us = pv
		default:
			others = append(others, pv)
		}
	}
	ourAddr := us.GetAddress()

	// block B of height 1, proposed in round 1
	header := &types.Header{Height: 1, Time: state.LastBlockTime, ProposerAddress: proposer1, GasLimit: 1000000,
		ValidatorsHash: state.Validators.Hash(), NextValidatorsHash: state.NextValidators.Hash(), AppHash: state.AppHash}
	blockB := types.NewBlock(header, nil, types.NewCommit(0, 0, types.BlockID{}, nil), nil, trie.NewStackTrie(nil))
	partsB := blockB.MakePartSet(types.BlockPartSizeBytes)
	idB := types.BlockID{Hash: blockB.Hash(), PartsHeader: partsB.Header()}
	proposal := types.NewProposal(1, 1, 0, idB)
	pp := proposal.ToProto()
	if err := proposerPV.SignProposal(witRTChainID, pp); err != nil {
		t.Fatal(err)
	}
	proposal.Signature = pp.Signature
	vote := func(pv types.PrivValidator, typ kproto.SignedMsgType) *types.Vote {
		idx, _ := valSet.GetByAddress(pv.GetAddress())
		v := &types.Vote{ValidatorAddress: pv.GetAddress(), ValidatorIndex: uint32(idx), Height: 1, Round: 1, Timestamp: time.Now().UTC(), Type: typ, BlockID: idB}
		p := v.ToProto()
		if err := pv.SignVote(witRTChainID, p); err != nil {
			t.Fatal(err)
		}
		v.Signature = p.Signature
		return v
	}

	// ------------------------------------------------------------------ live run up to the crash point
	cs1 := witEHNode(t, rootDir, state, us, time.Hour)
	walFile := cs1.config.WalFile()
	if err := cs1.Start(); err != nil {
		t.Fatal(err)
	}
	cs1.peerMsgQueue <- msgInfo{&ProposalMessage{proposal}, "peerB"}
	for i := 0; i < int(partsB.Total()); i++ {
		cs1.peerMsgQueue <- msgInfo{&BlockPartMessage{1, 1, partsB.GetPart(i)}, "peerB"}
	}
	peers := []p2p.ID{"peerB", "peerC", "peerD"}
	for i, pv := range others {
		cs1.peerMsgQueue <- msgInfo{&VoteMessage{vote(pv, kproto.PrevoteType)}, peers[i]}
	}
	for i, pv := range others {
		cs1.peerMsgQueue <- msgInfo{&VoteMessage{vote(pv, kproto.PrecommitType)}, peers[i]}
	}
	// the node commits block B: SaveBlock, #ENDHEIGHT 1 (fsync), then the process dies where the block would be executed
	deadline := time.Now().Add(10 * time.Second)
	marker := false
	for !marker && time.Now().Before(deadline) {
		time.Sleep(20 * time.Millisecond)
		if gr, found, _ := cs1.wal.SearchForEndHeight(1, &WALSearchOptions{IgnoreDataCorruptionErrors: true}); found {
			marker = true
			gr.Close()
		}
	}
	if !marker {
		t.Fatal("setup: the live node did not reach the end-height marker of height 1")
	}
	time.Sleep(200 * time.Millisecond)
	cs1.wal.Stop() // nothing more reaches the files
	before := witEHOwnVotes(t, walFile, ourAddr)
	if len(before) == 0 {
		t.Fatal("setup: the node published no vote before the crash")
	}

	// ------------------------------------------------------------------ restart: the state store still holds height 0
	cs2 := witEHNode(t, rootDir, state, us, 100*time.Millisecond)
	if err := cs2.Start(); err != nil {
		t.Fatalf("the restarted node does not start: %v", err)
	}
	time.Sleep(1500 * time.Millisecond) // propose timeout of round 1 passes, nobody proposes height 1 any more
	cs2.Stop()
	after := witEHOwnVotes(t, walFile, ourAddr)
	seen := map[string]*types.Vote{}
	for _, v := range after {
		k := v.Type.String() + "/" + string(rune('0'+v.Round))
		if prev, ok := seen[k]; ok && !prev.BlockID.Equal(v.BlockID) {
			t.Fatalf("VIOLATION: after a crash between the #ENDHEIGHT marker and the state save the restarted node signed again at height 1 round %d (%v): before %v, after %v", v.Round, v.Type, prev.BlockID, v.BlockID)
		}
		seen[k] = v
	}
	t.Logf("own votes before the crash: %d, after the restart: %d, no conflict", len(before), len(after))
}
