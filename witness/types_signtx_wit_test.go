package types

import (
	"math/big"
	"testing"

	"github.com/kardiachain/go-kardia/lib/common"
	"github.com/kardiachain/go-kardia/lib/crypto"
)

// Witness: SignTx hashes the transaction with the chain-less (Frontier) hash whatever signer it is given, but puts
// the signer's chain id into V. Recovering the sender with the same chain-id signer then hashes with the chain id and
// returns some other address: "signing then recovering returns the signer's address" fails for ChainIDSigner.
func TestWitnessSignThenRecoverWithChainIDSigner(t *testing.T) {
	key, _ := crypto.GenerateKey()
	addr := crypto.PubkeyToAddress(key.PublicKey)
	to := common.HexToAddress("0x1234")
	tx := NewTransaction(7, to, big.NewInt(1), 21000, big.NewInt(1), nil)
	for _, s := range []Signer{HomesteadSigner{}, NewChainIDSigner(big.NewInt(24))} {
		signed, err := SignTx(s, tx, key)
		if err != nil {
			t.Fatal(err)
		}
		from, err := Sender(s, signed)
		if err != nil {
			t.Errorf("%T: recover failed: %v", s, err)
			continue
		}
		if from != addr {
			t.Errorf("%T: signed by %x, recovered %x", s, addr, from)
		}
	}
}
