package cstate

import (
	"testing"
	"time"

	"github.com/kardiachain/go-kardia/configs"
	"github.com/kardiachain/go-kardia/kai/kaidb/memorydb"
	"github.com/kardiachain/go-kardia/kai/rawdb"
	"github.com/kardiachain/go-kardia/lib/common"
	"github.com/kardiachain/go-kardia/mainchain/genesis"
	"github.com/kardiachain/go-kardia/trie"
	"github.com/kardiachain/go-kardia/types"
)

// Witness: the genesis consensus state does not survive a save/load round trip. MakeGenesisState leaves LastBlockID
// and AppHash zero; the loader re-derives both from the block store, where a genesis block with a real id and a real
// application root is stored at height 0. A node that is restarted before the first block therefore holds a state that
// differs from the state of the nodes that were not restarted (and rejects their block 1: wrong LastBlockID/AppHash).
func TestWitnessGenesisStateRoundTrip(t *testing.T) {
	db := memorydb.New()
	// what Genesis.Commit writes for the genesis block
	gb := types.NewBlock(&types.Header{Height: 0, Time: time.Unix(1000, 0).UTC(), AppHash: common.BytesToHash([]byte{0xaa})}, nil, &types.Commit{}, nil, trie.NewStackTrie(nil))
	ps := gb.MakePartSet(types.BlockPartSizeBytes)
	rawdb.WriteBlock(db, gb, ps, &types.Commit{})
	rawdb.WriteCanonicalHash(db, gb.Hash(), 0)
	rawdb.WriteHeadBlockHash(db, gb.Hash())
	rawdb.WriteAppHash(db, 0, gb.AppHash())

	gen := &genesis.Genesis{ChainID: "c", Timestamp: gb.Time(), ConsensusParams: configs.DefaultConsensusParams(),
		Validators: []*genesis.GenesisValidator{{Name: "v", Address: "0x0000000000000000000000000000000000000001", SelfDelegate: "15000000000000000000000000", StartWithGenesis: true}}}
	store := NewStore(db)
	first, err := store.LoadStateFromDBOrGenesisDoc(gen) // fresh start: made and saved
	if err != nil {
		t.Fatal(err)
	}
	second, err := store.LoadStateFromDBOrGenesisDoc(gen) // restart before the first block: loaded
	if err != nil {
		t.Fatal(err)
	}
	if !first.LastBlockID.Equal(second.LastBlockID) {
		t.Errorf("LastBlockID changed across save/load: saved %v, loaded %v", first.LastBlockID, second.LastBlockID)
	}
	if first.AppHash != second.AppHash {
		t.Errorf("AppHash changed across save/load: saved %x, loaded %x", first.AppHash, second.AppHash)
	}
}
