package types

import (
	"testing"

	"github.com/kardiachain/go-kardia/lib/common"
)

func TestWitnessShortSignature(t *testing.T) {
	defer func() {
		if r := recover(); r != nil {
			t.Fatalf("PANIC: %v", r)
		}
	}()
	ok := VerifySignature(common.Address{}, make([]byte, 32), []byte{1, 2, 3})
	t.Logf("verdict=%v", ok)
}
