package cstate

import (
	"testing"
	"time"

	"github.com/kardiachain/go-kardia/configs"
	"github.com/kardiachain/go-kardia/kai/kaidb/memorydb"
	"github.com/kardiachain/go-kardia/kai/rawdb"
	"github.com/kardiachain/go-kardia/lib/common"
	"github.com/kardiachain/go-kardia/trie"
	"github.com/kardiachain/go-kardia/types"
)

// W4: Validators and NextValidators with the same membership share one record;
// the loaded state does not equal the saved one.
func TestWitnessValidatorInfoKeyCollision(t *testing.T) {
	db := memorydb.New()
	v1 := types.NewValidator(common.BytesToAddress([]byte{1}), 10)
	v2 := types.NewValidator(common.BytesToAddress([]byte{2}), 20)
	v3 := types.NewValidator(common.BytesToAddress([]byte{3}), 30)
	cur := types.NewValidatorSet([]*types.Validator{v1, v2, v3})
	last := cur.Copy()
	next := cur.CopyIncrementProposerPriority(1)
	cparams := configs.DefaultConsensusParams()

	header := &types.Header{Height: 1, Time: time.Unix(1000, 0).UTC()}
	block := types.NewBlock(header, nil, &types.Commit{}, nil, trie.NewStackTrie(nil))
	parts := block.MakePartSet(types.BlockPartSizeBytes)
	rawdb.WriteBlock(db, block, parts, &types.Commit{})
	rawdb.WriteAppHash(db, 1, common.Hash{})

	saved := LatestBlockState{
		ChainID: "c", InitialHeight: 1,
		LastBlockHeight:             1,
		LastBlockID:                 types.BlockID{Hash: block.Hash(), PartsHeader: parts.Header()},
		LastBlockTime:               header.Time,
		LastValidators:              last,
		Validators:                  cur,
		NextValidators:              next,
		LastHeightValidatorsChanged: 1,
		ConsensusParams:             *cparams,
	}
	// height-0 record first (as LoadStateFromDBOrGenesisDoc does), then height 1
	gen := saved
	gen.LastBlockHeight = 0
	gen.LastValidators = nil
	gen.Validators = last
	gen.NextValidators = cur
	saveState(db, gen)
	saveState(db, saved)

	loaded := loadStateAtHeight(db, 1)
	pr := func(vs *types.ValidatorSet) []int64 {
		out := []int64{}
		for _, v := range vs.Validators {
			out = append(out, v.ProposerPriority)
		}
		return out
	}
	t.Logf("WITNESS W4 saved  Validators prio=%v proposer=%X", pr(saved.Validators), saved.Validators.GetProposer().Address[18:])
	t.Logf("WITNESS W4 loaded Validators prio=%v proposer=%X", pr(loaded.Validators), loaded.Validators.GetProposer().Address[18:])
	t.Logf("WITNESS W4 saved  Next       prio=%v", pr(saved.NextValidators))
	t.Logf("WITNESS W4 loaded Last       prio=%v (saved %v)", pr(loaded.LastValidators), pr(saved.LastValidators))
	same := true
	for i := range saved.Validators.Validators {
		if saved.Validators.Validators[i].ProposerPriority != loaded.Validators.Validators[i].ProposerPriority {
			same = false
		}
	}
	if !same {
		t.Log("W4 CONFIRMED: loaded.Validators != saved.Validators")
	}
}
