package consensus

import "testing"

// Witness: NewTimeoutTicker calls stopTimer() on a ticker whose Logger is still nil; when the zero-duration timer
// has already fired and its channel is empty, stopTimer logs through the nil Logger and panics.
func TestWitnessTickerConstructionNeverPanics(t *testing.T) {
	for i := 0; i < 20000; i++ {
		func() {
			defer func() {
				if r := recover(); r != nil {
					t.Fatalf("NewTimeoutTicker panicked at construction #%d: %v", i, r)
				}
			}()
			_ = NewTimeoutTicker()
		}()
	}
}
