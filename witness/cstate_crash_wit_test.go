package cstate

import (
	"testing"
	"time"

	"github.com/kardiachain/go-kardia/configs"
	"github.com/kardiachain/go-kardia/kai/kaidb/memorydb"
	"github.com/kardiachain/go-kardia/kai/rawdb"
	"github.com/kardiachain/go-kardia/lib/common"
	"github.com/kardiachain/go-kardia/trie"
	"github.com/kardiachain/go-kardia/types"
)

// W14: ApplyBlock publishes the head-block marker (inside CommitAndValidateBlockTxs -> writeHeadBlock)
// BEFORE it saves the consensus-state record (store.Save). Store.Load starts from the head marker.
// A crash between the two durable writes leaves head=H with no state record for H; Load then returns the
// empty state and LoadStateFromDBOrGenesisDoc silently restarts consensus from the genesis state.
func TestWitnessHeadPublishedBeforeState(t *testing.T) {
	db := memorydb.New()
	vals := types.NewValidatorSet([]*types.Validator{types.NewValidator(common.BytesToAddress([]byte{1}), 10)})
	mk := func(h uint64) (*types.Block, *types.PartSet) {
		b := types.NewBlock(&types.Header{Height: h, Time: time.Unix(int64(1000*h), 0).UTC()}, nil, &types.Commit{}, nil, trie.NewStackTrie(nil))
		return b, b.MakePartSet(types.BlockPartSizeBytes)
	}
	st := func(h uint64, b *types.Block, ps *types.PartSet) LatestBlockState {
		return LatestBlockState{ChainID: "c", InitialHeight: 1, LastBlockHeight: h,
			LastBlockID: types.BlockID{Hash: b.Hash(), PartsHeader: ps.Header()}, LastBlockTime: b.Time(),
			LastValidators: vals.Copy(), Validators: vals.Copy(), NextValidators: vals.Copy(),
			LastHeightValidatorsChanged: 1, ConsensusParams: *configs.DefaultConsensusParams()}
	}
	// height 1: everything reached disk
	b1, p1 := mk(1)
	rawdb.WriteBlock(db, b1, p1, &types.Commit{})
	rawdb.WriteAppHash(db, 1, common.Hash{})
	rawdb.WriteHeadBlockHash(db, b1.Hash())
	saveState(db, st(1, b1, p1))
	s := NewStore(db)
	t.Logf("WITNESS W14: before the crash window Load() -> LastBlockHeight=%d empty=%v", s.Load().LastBlockHeight, s.Load().IsEmpty())

	// height 2: SaveBlock, block batch and HEAD MARKER written ... process dies before store.Save(state)
	b2, p2 := mk(2)
	rawdb.WriteBlock(db, b2, p2, &types.Commit{})
	rawdb.WriteAppHash(db, 2, common.Hash{})
	rawdb.WriteHeadBlockHash(db, b2.Hash())
	// (no saveState for height 2)

	got := NewStore(db).Load()
	t.Logf("WITNESS W14: after a crash between writeHeadBlock and store.Save: head=%d, Load() -> LastBlockHeight=%d empty=%v",
		rawdb.ReadHeadBlock(db).Height(), got.LastBlockHeight, got.IsEmpty())
	if got.IsEmpty() {
		t.Log("W14 CONFIRMED: LoadStateFromDBOrGenesisDoc would now MakeGenesisState and Save it (consensus restarts from height 1 on a chain whose head is 2)")
	}
}
