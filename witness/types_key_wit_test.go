package types

import (
	"testing"
	"time"

	"github.com/kardiachain/go-kardia/lib/common"
	kproto "github.com/kardiachain/go-kardia/proto/kardiachain/types"
)

// W11: BlockID.Key() omits PartsHeader.Total, so votes for two different block ids are tallied
// together and the quorum is reported for an id only one validator signed.
func TestWitnessBlockIDKeyOmitsTotal(t *testing.T) {
	valSet, pvs := RandValidatorSet(4, 1)
	vs := NewVoteSet("c", 1, 1, kproto.PrevoteType, valSet)
	h, ph := common.BytesToHash([]byte{1}), common.BytesToHash([]byte{2})
	idA := BlockID{Hash: h, PartsHeader: PartSetHeader{Total: 1, Hash: ph}}
	idB := BlockID{Hash: h, PartsHeader: PartSetHeader{Total: 2, Hash: ph}}
	t.Logf("WITNESS W11: idA.Equal(idB)=%v  idA.Key()==idB.Key()=%v", idA.Equal(idB), idA.Key() == idB.Key())
	cast := func(i int, id BlockID) {
		addr := pvs[i].GetAddress()
		idx, _ := valSet.GetByAddress(addr)
		v := &Vote{ValidatorAddress: addr, ValidatorIndex: uint32(idx), Height: 1, Round: 1, Timestamp: time.Unix(10, 0).UTC(), Type: kproto.PrevoteType, BlockID: id}
		p := v.ToProto()
		if err := pvs[i].SignVote("c", p); err != nil {
			t.Fatal(err)
		}
		v.Signature = p.Signature
		added, err := vs.AddVote(v)
		t.Logf("  validator %d votes total=%d: added=%v err=%v", i, id.PartsHeader.Total, added, err)
	}
	cast(0, idA)
	cast(1, idA)
	cast(2, idB) // a single (possibly Byzantine) validator, different id
	maj, ok := vs.TwoThirdsMajority()
	t.Logf("WITNESS W11: quorum reported=%v for total=%d (2 of 4 signed total=1, 1 of 4 signed total=2; quorum is 3)", ok, maj.PartsHeader.Total)
	if ok {
		t.Log("W11 CONFIRMED")
	}
}
