package types

import (
	"testing"
	"time"

	"github.com/kardiachain/go-kardia/lib/common"
	kproto "github.com/kardiachain/go-kardia/proto/kardiachain/types"
)

// W1: a prevote signature verifies as a precommit.
func TestWitnessVoteTypeNotSigned(t *testing.T) {
	pv := NewMockPV()
	bid := BlockID{Hash: common.BytesToHash([]byte{1}), PartsHeader: PartSetHeader{Total: 1, Hash: common.BytesToHash([]byte{2})}}
	v := &Vote{ValidatorAddress: pv.GetAddress(), ValidatorIndex: 0, Height: 5, Round: 2, Timestamp: time.Unix(100, 0).UTC(), Type: kproto.PrevoteType, BlockID: bid}
	p := v.ToProto()
	if err := pv.SignVote("chain", p); err != nil {
		t.Fatal(err)
	}
	v.Signature = p.Signature
	if err := v.Verify("chain", pv.GetAddress()); err != nil {
		t.Fatal("prevote should verify", err)
	}
	forged := v.Copy()
	forged.Type = kproto.PrecommitType
	err := forged.Verify("chain", pv.GetAddress())
	t.Logf("WITNESS W1: precommit forged from prevote signature verifies: err=%v", err)
	if err == nil {
		t.Log("W1 CONFIRMED")
	}
}

// W2: computeMaxMinPriorityDiff returns 1 whatever the spread.
func TestWitnessMaxMinDiff(t *testing.T) {
	vals := []*Validator{
		{Address: common.BytesToAddress([]byte{1}), VotingPower: 10, ProposerPriority: -1000000},
		{Address: common.BytesToAddress([]byte{2}), VotingPower: 10, ProposerPriority: 1000000},
	}
	vs := &ValidatorSet{Validators: vals}
	d := computeMaxMinPriorityDiff(vs)
	t.Logf("WITNESS W2: diff=%d (true spread 2000000)", d)
	vs.RescalePriorities(2 * vs.TotalVotingPower())
	t.Logf("WITNESS W2: after rescale to window %d priorities=%d,%d", 2*vs.TotalVotingPower(), vals[0].ProposerPriority, vals[1].ProposerPriority)
	if d == 1 && vals[1].ProposerPriority == 1000000 {
		t.Log("W2 CONFIRMED")
	}
}

// W3: a genuine leaf of another index is accepted into slot 0 and blocks the genuine part 0.
func TestWitnessPartIndexNotBound(t *testing.T) {
	data := make([]byte, 4*1024)
	for i := range data {
		data[i] = byte(i / 1024)
	}
	full := NewPartSetFromData(data, 1024)
	ps := NewPartSetFromHeader(full.Header())
	p3 := full.GetPart(3)
	bogus := &Part{Index: 0, Bytes: p3.Bytes, Proof: p3.Proof}
	added, err := ps.AddPart(bogus)
	t.Logf("WITNESS W3: bogus part (leaf 3 offered as index 0) added=%v err=%v", added, err)
	added2, err2 := ps.AddPart(full.GetPart(0))
	t.Logf("WITNESS W3: genuine part 0 afterwards added=%v err=%v", added2, err2)
	if added && !added2 {
		t.Log("W3 CONFIRMED")
	}
}
