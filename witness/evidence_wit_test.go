package evidence

import (
	"testing"
	"time"

	"github.com/kardiachain/go-kardia/configs"
	"github.com/kardiachain/go-kardia/kai/kaidb/memorydb"
	"github.com/kardiachain/go-kardia/lib/clist"
	"github.com/kardiachain/go-kardia/lib/log"
	"github.com/kardiachain/go-kardia/types"
)

// W12: the proposer asks the pool for evidence with a *count* where the pool expects a *byte* budget,
// so with the default parameters no pending evidence is ever returned for inclusion in a block.
func TestWitnessPendingEvidenceUnits(t *testing.T) {
	evpool := &Pool{evidenceDB: memorydb.New(), logger: log.New(), evidenceList: clist.New()}
	ev := types.NewMockDuplicateVoteEvidence(3, time.Unix(100, 0).UTC(), "chain")
	if err := evpool.addPendingEvidence(ev); err != nil {
		t.Fatal(err)
	}
	params := configs.DefaultConsensusParams()
	// exactly what BlockOperations.CreateProposalBlock does:
	maxNumEvidence, maxBytes := types.MaxEvidencePerBlock(params.Evidence.MaxBytes)
	got, _ := evpool.PendingEvidence(maxNumEvidence)
	want, _ := evpool.PendingEvidence(maxBytes)
	t.Logf("WITNESS W12: pool size=%d evidence bytes=%d; MaxEvidencePerBlock -> num=%d bytes=%d", evpool.Size(), len(ev.Bytes()), maxNumEvidence, maxBytes)
	t.Logf("WITNESS W12: PendingEvidence(maxNumEvidence=%d) returns %d item(s); PendingEvidence(maxBytes=%d) returns %d", maxNumEvidence, len(got), maxBytes, len(want))
	if len(got) == 0 && len(want) == 1 {
		t.Log("W12 CONFIRMED: pending evidence is never offered to the proposer")
	}
}
