package sample_kvm

// Witness for property C10: the return data of a CALL to the identity precompile (address 4) aliases the caller's
// memory, so writing the call's output over a region that overlaps its input corrupts the return-data buffer that
// RETURNDATACOPY reads afterwards (the defect repaired in go-ethereum v1.10.8).
//
// run: cd /repo && go test -vet=off -count=1 -overlay /verif/witness/overlay.json -run TestWitReturnDataAliasesMemory ./kvm/sample_kvm/

import (
	"bytes"
	"testing"
)

func TestWitReturnDataAliasesMemory(t *testing.T) {
	word := make([]byte, 32)
	for i := range word {
		word[i] = byte(i + 1)
	}
	code := []byte{0x7f} // PUSH32 word
	code = append(code, word...)
	code = append(code,
		0x60, 0x00, 0x52, // MSTORE at 0: memory[0:32] = word
		// CALL(gas, 4, 0, in=0, insize=32, out=16, outsize=16)
		0x60, 0x10, // retSize 16
		0x60, 0x10, // retOffset 16
		0x60, 0x20, // inSize 32
		0x60, 0x00, // inOffset 0
		0x60, 0x00, // value 0
		0x60, 0x04, // address 4 (identity)
		0x5a, // GAS
		0xf1, // CALL
		0x50, // POP
		// RETURNDATACOPY(dest=64, offset=0, size=32); RETURN(64, 32)
		0x60, 0x20, 0x60, 0x00, 0x60, 0x40, 0x3e,
		0x60, 0x20, 0x60, 0x40, 0xf3,
	)
	ret, _, err := Execute(code, nil, nil)
	if err != nil {
		t.Fatalf("execution failed: %v", err)
	}
	// The identity precompile returned its 32-byte input; that is the return data whatever the caller does to its memory.
	if !bytes.Equal(ret, word) {
		t.Fatalf("VIOLATION: return data of the identity call was\n  %x\nwant (the precompile's output, as in the reference EVM)\n  %x", ret, word)
	}
}
