package consensus

// Witness for properties C05/C04: OnStart replays the WAL (catchupReplay -> handleMsg -> enterNewRound/enterPropose ->
// scheduleTimeout) BEFORE it starts the timeout ticker. Every scheduleTimeout is a send on the ticker's channel of 10
// slots that only the ticker's routine drains. A node whose WAL holds a height with eleven or more timeout-scheduling
// steps therefore hangs in OnStart for ever when it is restarted.
//
// The test runs a real ConsensusState with a real on-disk WAL: a live run in which +2/3 nil prevotes of rounds 2..14
// arrive (the node skips from round to round, one propose timeout each; nothing is committed), a clean stop, and a restart
// of a second ConsensusState on the surviving WAL. Only the block store is a stub (it is never asked for anything).
//
// run: cd /repo && go test -vet=off -count=1 -overlay /verif/witness/overlay.json -run TestWitRestartWithManyRoundsInWAL ./consensus/

import (
	"fmt"
	"os"
	"testing"
	"time"

	"github.com/kardiachain/go-kardia/configs"
	"github.com/kardiachain/go-kardia/kai/state/cstate"
	"github.com/kardiachain/go-kardia/lib/common"
	"github.com/kardiachain/go-kardia/lib/log"
	"github.com/kardiachain/go-kardia/lib/p2p"
	stypes "github.com/kardiachain/go-kardia/mainchain/staking/types"
	kproto "github.com/kardiachain/go-kardia/proto/kardiachain/types"
	"github.com/kardiachain/go-kardia/types"
)

const witRTChainID = "wit-replay-ticker"

type witRTBlockOps struct{}

func (witRTBlockOps) Base() uint64                          { return 0 }
func (witRTBlockOps) Height() uint64                        { return 0 }
func (witRTBlockOps) LoadBlock(uint64) *types.Block         { return nil }
func (witRTBlockOps) LoadBlockCommit(uint64) *types.Commit  { return nil }
func (witRTBlockOps) LoadSeenCommit(uint64) *types.Commit   { return nil }
func (witRTBlockOps) LoadBlockPart(uint64, int) *types.Part { return nil }
func (witRTBlockOps) LoadBlockMeta(uint64) *types.BlockMeta { return nil }
func (witRTBlockOps) SaveBlock(*types.Block, *types.PartSet, *types.Commit) {
	panic("nothing is committed in this scenario")
}
func (witRTBlockOps) CreateProposalBlock(uint64, cstate.LatestBlockState, common.Address, *types.Commit) (*types.Block, *types.PartSet) {
	panic("this node never proposes in this scenario")
}
func (witRTBlockOps) CommitAndValidateBlockTxs(*types.Block, stypes.LastCommitInfo, []stypes.Evidence) ([]*types.Validator, common.Hash, error) {
	panic("nothing is committed in this scenario")
}

func witRTLogger() log.Logger {
	l := log.New()
	l.SetHandler(log.DiscardHandler())
	return l
}

func witRTNode(t *testing.T, rootDir string, state cstate.LatestBlockState, pv types.PrivValidator) *ConsensusState {
	cfg := configs.TestConsensusConfig()
	cfg.RootDir = rootDir
	cfg.TimeoutPropose = time.Hour // the node sits in the propose step of each round
	logger := witRTLogger()
	blockExec := cstate.NewBlockExecutor(nil, logger, cstate.EmptyEvidencePool{}, nil)
	cs := NewConsensusState(logger, cfg, state, witRTBlockOps{}, blockExec, cstate.EmptyEvidencePool{})
	cs.SetPrivValidator(pv)
	eventBus := types.NewEventBus()
	eventBus.SetLogger(witRTLogger())
	if err := eventBus.Start(); err != nil {
		t.Fatal(err)
	}
	cs.SetEventBus(eventBus)
	return cs
}

func TestWitRestartWithManyRoundsInWAL(t *testing.T) {
	rootDir, err := os.MkdirTemp("", "wit-replay-ticker-")
	if err != nil {
		t.Fatal(err)
	}
	defer os.RemoveAll(rootDir)

	// "us" has almost no power, so it is not the proposer of any of the first rounds
	var vals []*types.Validator
	var pvs []types.PrivValidator
	for i := 0; i < 4; i++ {
		power := int64(1000)
		if i == 0 {
			power = 1
		}
		v, pv := types.RandValidator(false, power)
		vals, pvs = append(vals, v), append(pvs, pv)
	}
	valSet := types.NewValidatorSet(vals)
	us, others := pvs[0], pvs[1:]
	state := cstate.LatestBlockState{
		ChainID: witRTChainID, InitialHeight: 1, LastBlockHeight: 0, LastBlockTime: time.Unix(1600000000, 0).UTC(),
		Validators: valSet.Copy(), NextValidators: valSet.CopyIncrementProposerPriority(1), LastValidators: types.NewValidatorSet(nil),
		LastHeightValidatorsChanged: 1, ConsensusParams: *configs.DefaultConsensusParams(),
	}
	vote := func(pv types.PrivValidator, round uint32) *types.Vote {
		idx, _ := valSet.GetByAddress(pv.GetAddress())
		v := &types.Vote{ValidatorAddress: pv.GetAddress(), ValidatorIndex: uint32(idx), Height: 1, Round: round, Timestamp: time.Now().UTC(), Type: kproto.PrevoteType}
		p := v.ToProto()
		if err := pv.SignVote(witRTChainID, p); err != nil {
			t.Fatal(err)
		}
		v.Signature = p.Signature
		return v
	}

	// ------------------------------------------------------------------ live run: rounds 2..14 by +2/3 nil prevotes
	const lastRound = 14
	cs1 := witRTNode(t, rootDir, state, us)
	if err := cs1.Start(); err != nil {
		t.Fatal(err)
	}
	for r := uint32(2); r <= lastRound; r++ {
		for i, pv := range others {
			cs1.peerMsgQueue <- msgInfo{&VoteMessage{vote(pv, r)}, p2p.ID(fmt.Sprintf("peer-%d-%d", r, i))}
		}
		deadline := time.Now().Add(5 * time.Second)
		for cs1.GetRoundState().Round != r {
			if time.Now().After(deadline) {
				t.Fatalf("setup: the live node did not skip to round %d (it is in %d)", r, cs1.GetRoundState().Round)
			}
			time.Sleep(2 * time.Millisecond)
		}
	}
	if err := cs1.Stop(); err != nil {
		t.Fatal(err)
	}
	select {
	case <-cs1.done:
	case <-time.After(5 * time.Second):
		t.Fatal("setup: the live node did not shut down")
	}

	// ------------------------------------------------------------------ restart on the surviving WAL
	cs2 := witRTNode(t, rootDir, state, us)
	started := make(chan error, 1)
	go func() { started <- cs2.Start() }()
	select {
	case err := <-started:
		if err != nil {
			t.Fatalf("the restarted node does not start: %v", err)
		}
		if got := cs2.GetRoundState().Round; got != lastRound {
			t.Fatalf("the restarted node is in round %d, the WAL had brought it to round %d", got, lastRound)
		}
		cs2.Stop()
	case <-time.After(10 * time.Second):
		t.Fatalf("VIOLATION: the restarted node hangs in OnStart: the WAL of height 1 holds %d round changes, each replayed step schedules a timeout, and the ticker that drains the 10-slot request channel is started only after the replay", lastRound-1)
	}
}
