package blockchain

import (
	"math/big"
	"testing"

	"github.com/kardiachain/go-kardia/configs"
	"github.com/kardiachain/go-kardia/kai/kaidb/memorydb"
	"github.com/kardiachain/go-kardia/kai/state"
	"github.com/kardiachain/go-kardia/kvm"
	"github.com/kardiachain/go-kardia/lib/common"
	vm "github.com/kardiachain/go-kardia/mainchain/kvm"
	"github.com/kardiachain/go-kardia/types"
)

// W9: a transaction rejected after buyGas (intrinsic gas too low) keeps its gas limit out of the block gas pool.
func TestWitnessGasPoolLeak(t *testing.T) {
	sdb, err := state.New(common.Hash{}, state.NewDatabase(memorydb.New()), nil)
	if err != nil {
		t.Fatal(err)
	}
	from := common.BytesToAddress([]byte{0xaa})
	to := common.BytesToAddress([]byte{0xbb})
	sdb.AddBalance(from, big.NewInt(1_000_000_000))
	sdb.Finalise(true)
	balBefore := new(big.Int).Set(sdb.GetBalance(from))

	ctx := kvm.BlockContext{CanTransfer: vm.CanTransfer, Transfer: vm.Transfer, GetHash: func(uint64) common.Hash { return common.Hash{} },
		BlockHeight: big.NewInt(1), Time: big.NewInt(1), GasLimit: 1_000_000}
	msg := types.NewMessage(from, &to, 0, big.NewInt(1), 20_000 /* < intrinsic */, big.NewInt(1), nil, true)
	env := kvm.NewKVM(ctx, NewKVMTxContext(msg), sdb, configs.TestChainConfig, kvm.Config{})
	gp := new(types.GasPool).AddGas(1_000_000)
	snap := sdb.Snapshot()
	res, err := ApplyMessage(env, msg, gp)
	t.Logf("WITNESS W9: ApplyMessage res=%v err=%v", res, err)
	sdb.RevertToSnapshot(snap) // what commitBlock does for a failed tx
	t.Logf("WITNESS W9: sender balance before=%v after revert=%v; gas pool before=1000000 after=%d", balBefore, sdb.GetBalance(from), gp.Gas())
	if err != nil && gp.Gas() != 1_000_000 {
		t.Logf("W9 CONFIRMED: %d gas missing from the pool for a transaction that used none", 1_000_000-gp.Gas())
	}
}
