package cstate

import (
	"testing"
	"time"

	"github.com/kardiachain/go-kardia/configs"
	"github.com/kardiachain/go-kardia/lib/common"
	"github.com/kardiachain/go-kardia/lib/log"
	kproto "github.com/kardiachain/go-kardia/proto/kardiachain/types"
	"github.com/kardiachain/go-kardia/trie"
	"github.com/kardiachain/go-kardia/types"
)

// W13: ValidateBlock memoises its verdict by block hash (= header hash). The header commits to the
// last commit only through the hash of its signatures, so a block whose LastCommit round (or height /
// block id) was altered has the same hash and is accepted from the cache although validateBlock rejects it.
func TestWitnessValidateBlockCacheKey(t *testing.T) {
	valSet, pvs := types.RandValidatorSet(1, 10)
	chainID := "c"
	lastID := types.BlockID{Hash: common.BytesToHash([]byte{7}), PartsHeader: types.PartSetHeader{Total: 1, Hash: common.BytesToHash([]byte{8})}}
	t1 := time.Unix(1000, 0).UTC()
	t2 := time.Unix(2000, 0).UTC()
	vs := types.NewVoteSet(chainID, 1, 1, kproto.PrecommitType, valSet)
	commit, err := types.MakeCommit(lastID, 1, 1, vs, pvs, t2)
	if err != nil {
		t.Fatal(err)
	}
	state := LatestBlockState{
		ChainID: chainID, InitialHeight: 1, LastBlockHeight: 1, LastBlockID: lastID, LastBlockTime: t1,
		LastValidators: valSet.Copy(), Validators: valSet.Copy(), NextValidators: valSet.Copy(),
		ConsensusParams: *configs.DefaultConsensusParams(),
	}
	header := &types.Header{Height: 2, Time: MedianTime(commit, valSet), LastBlockID: lastID,
		ProposerAddress: pvs[0].GetAddress(), ValidatorsHash: valSet.Hash(), NextValidatorsHash: valSet.Hash()}
	good := types.NewBlock(header, nil, commit, nil, trie.NewStackTrie(nil))

	tampered := *commit
	tampered.Round = 9 // not what the validators signed
	bad := types.NewBlock(header, nil, &tampered, nil, trie.NewStackTrie(nil))
	t.Logf("WITNESS W13: same hash=%v; part-set hashes differ=%v", good.Hash() == bad.Hash(),
		good.MakePartSet(types.BlockPartSizeBytes).Header().Hash != bad.MakePartSet(types.BlockPartSizeBytes).Header().Hash)

	direct := validateBlock(EmptyEvidencePool{}, nil, state, bad)
	t.Logf("WITNESS W13: validateBlock(tampered) = %v", direct)

	be := NewBlockExecutor(nil, log.New(), EmptyEvidencePool{}, nil)
	t.Logf("WITNESS W13: ValidateBlock(good)     = %v", be.ValidateBlock(state, good))
	cached := be.ValidateBlock(state, bad)
	t.Logf("WITNESS W13: ValidateBlock(tampered) = %v (after the genuine block was validated at the same height)", cached)
	if direct != nil && cached == nil && good.Hash() == bad.Hash() {
		t.Log("W13 CONFIRMED")
	}
}
