#!/usr/bin/env python3
"""Rewrites the two generated tables of DESIGN.md §8 (status per property, seeded changes vs checks) from
/verif/evidence/*.json, /verif/controls/*.json and /verif/seeded/*/meta.json."""
import json, os, re
V = '/verif'
rows = []
for p in ['C%02d' % i for i in range(1, 21)]:
    e = json.load(open(f'{V}/evidence/{p}.json')); c = e['coverage']
    ctl = json.load(open(f'{V}/controls/{p}.json')) if os.path.exists(f'{V}/controls/{p}.json') else []
    nf = sum(1 for x in ctl if not x.get('silent')); ns = sum(1 for x in ctl if x.get('silent'))
    seeds = len([s for s in os.listdir(f'{V}/seeded') if s.startswith(p + '-')])
    fa = c['functions_analysed']; fa = fa if isinstance(fa, int) else len(fa)
    sw = c.get('guard_flip_sweep')
    sws = '%d/%d' % (sw['detected'], sw['comparisons_flipped']) if sw else '—'
    rows.append('| %s | %d | %s | %d | %d firing + %d silent | %s | %d |' % (p, c['obligations'], ', '.join('%s %d' % kv for kv in sorted(c['obligations_per_rule'].items())), fa, nf, ns, sws, seeds))
prop = '| property | obligations | per rule family | anchor functions | controls | guard flips reported (thorough) | stored seeded changes |\n|---|---|---|---|---|---|---|\n' + '\n'.join(rows)
srows = []
for sid in sorted(os.listdir(f'{V}/seeded')):
    m = json.load(open(f'{V}/seeded/{sid}/meta.json'))
    own = m['caught_by_checks'].get(m['property'], [])
    others = [p for p in sorted(m['caught_by_checks']) if p != m['property']]
    key = own[0] if own else '— (not reported)'
    rule = key.split('/')[1] if own else ''
    key = key.split('/', 2)[2] if key.count('/') >= 2 else key
    srows.append('| %s | `%s` | %s | %s | %s |' % (sid, ', '.join(m['files_touched']), rule, key.replace('|', '\\|')[:170], ', '.join(others) or '—'))
seed = "| seed | file changed | rule | first obligation of the property's own check that reports it | also reported by |\n|---|---|---|---|---|\n" + '\n'.join(srows)
s = open(f'{V}/DESIGN.md').read()
def put(s, tag, body):
    a, b = f'<!-- {tag}_BEGIN -->', f'<!-- {tag}_END -->'
    assert a in s and b in s, tag
    return s[:s.index(a) + len(a)] + '\n' + body + '\n' + s[s.index(b):]
s = put(s, 'PROP_TABLE', prop); s = put(s, 'SEED_TABLE', seed)
open(f'{V}/DESIGN.md', 'w').write(s)
print(len(rows), 'properties,', len(srows), 'seeds')
