#!/usr/bin/env python3
"""refresh_seeds.py [ids...] — re-runs every registered quick check against each stored seeded change (applied to /repo,
undone straight afterwards) and rewrites caught_by_checks / caught_by_own_property_check in its meta.json."""
import sys, os, json, re, subprocess, concurrent.futures as cf
ids = sys.argv[1:] or sorted(os.listdir('/verif/seeded'))
props = subprocess.run(['/verif/bin/kvet', 'list'], capture_output=True, text=True).stdout.split()
def run(p):
    r = subprocess.run(['/verif/bin/kvet', 'check', '-prop', p, '-no-evidence'], capture_output=True, text=True, cwd='/verif')
    keys = re.findall(r'^  (?:violated|unresolved) \[[^\]]+\] (\S.*?) at \S+$', r.stdout, re.M)
    return p, r.returncode, keys[:6]
for sid in ids:
    d = f'/verif/seeded/{sid}'
    if not os.path.exists(f'{d}/patch.diff'):
        continue
    assert subprocess.run(['git', '-C', '/repo', 'diff', '--quiet']).returncode == 0, "/repo not clean"
    subprocess.run(['git', '-C', '/repo', 'apply', f'{d}/patch.diff'], check=True)
    try:
        with cf.ThreadPoolExecutor(max_workers=10) as ex:
            res = list(ex.map(run, props))
    finally:
        subprocess.run(['git', '-C', '/repo', 'checkout', '--', '.'], check=True)
    caught = {p: k for p, rc, k in res if rc != 0}
    meta = json.load(open(f'{d}/meta.json'))
    meta['caught_by_checks'] = caught
    meta['caught_by_own_property_check'] = meta['property'] in caught
    json.dump(meta, open(f'{d}/meta.json', 'w'), indent=1)
    print(sid, 'caught by', sorted(caught), 'own:', meta['property'] in caught, flush=True)
