#!/bin/sh
# Runs the pinned baseline suite of /repo (or $1) and reports baseline tests that no longer pass.
# Used after every fix: commit in /repo; not part of any registered check.
R=${1:-/repo}
OUT=$(mktemp /tmp/baseline.XXXXXX.json)
(cd "$R" && GOFLAGS=-mod=mod GOPROXY=off GOSUMDB=off go test -mod=mod -json -vet=off -count=1 -timeout 25m ./... > "$OUT" 2>/dev/null)
R="$R" python3 - "$OUT" <<'PY'
import json,sys
base=set(json.load(open('/root/.vp/BASELINE.json'))['stable_pass'])
passed=set()
for l in open(sys.argv[1]):
    try: e=json.loads(l)
    except: continue
    if e.get('Action')=='pass' and e.get('Test'):
        passed.add(e['Package']+'::'+e['Test'])
missing=sorted(base-passed)
# retry once, test by test (a few network-timing tests are flaky under load)
import subprocess,os,re
still=[]
for m in missing:
    pkg,t=m.split('::',1)
    top=t.split('/')[0]
    r=subprocess.run(['go','test','-mod=mod','-vet=off','-count=1','-json','-run','^'+re.escape(top)+'$',pkg],cwd=os.environ.get('R','/repo'),capture_output=True,text=True,env=dict(os.environ,GOFLAGS='-mod=mod',GOPROXY='off',GOSUMDB='off'))
    ok=False
    for l in r.stdout.splitlines():
        try: e=json.loads(l)
        except: continue
        if e.get('Action')=='pass' and e.get('Test')==t: ok=True
    if not ok: still.append(m)
    else: print("  (passed on retry)",m)
missing=still
print("baseline tests:",len(base),"passing now:",len(base&passed),"missing:",len(missing))
for m in missing[:40]: print("  MISSING",m)
sys.exit(1 if missing else 0)
PY
rc=$?
rm -f "$OUT"
exit $rc
