#!/usr/bin/env python3
"""store_seed.py <id> <srcdir> <demo file> <dest in repo> <pkg> <run regex> <confirm-log-line>
Copies a confirmed seeded change into /verif/seeded/<id>/ and records which registered checks flag it
(applies the patch to /repo, runs every quick check, undoes it)."""
import sys, os, shutil, subprocess, json, re
sid, src, demo, dest, pkg, run, confirm = sys.argv[1:8]
prop = sid.split('-')[0]
out = f'/verif/seeded/{sid}'
os.makedirs(out, exist_ok=True)
shutil.copy(f'{src}/patch.diff', f'{out}/patch.diff')
shutil.copy(f'{src}/{demo}', f'{out}/demo_test.go')
if os.path.exists(f'{src}/notes.md'):
    shutil.copy(f'{src}/notes.md', f'{out}/notes.md')
assert subprocess.run(['git', '-C', '/repo', 'diff', '--quiet']).returncode == 0, "/repo not clean"
subprocess.run(['git', '-C', '/repo', 'apply', f'{out}/patch.diff'], check=True)
caught = {}
try:
    props = subprocess.run(['/verif/bin/kvet', 'list'], capture_output=True, text=True).stdout.split()
    from concurrent.futures import ThreadPoolExecutor
    def one(p):
        return p, subprocess.run(['/verif/bin/kvet', 'check', '-prop', p, '-no-evidence'], capture_output=True, text=True, cwd='/verif')
    with ThreadPoolExecutor(max_workers=8) as ex:
        for p, r in ex.map(one, props):
            if r.returncode != 0:
                keys = re.findall(r'^  (?:violated|unresolved) \[[^\]]+\] (\S.*?) at \S+$', r.stdout, re.M)
                caught[p] = keys[:6]
finally:
    subprocess.run(['git', '-C', '/repo', 'checkout', '--', '.'], check=True)
notes = open(f'{out}/notes.md').read() if os.path.exists(f'{out}/notes.md') else ''
meta = {
    "id": sid, "property": prop,
    "files_touched": sorted(set(re.findall(r'^\+\+\+ b/(\S+)', open(f'{out}/patch.diff').read(), re.M))),
    "needs_to_manifest": "see notes.md (written by the sub-agent that produced the change, given only the property text)",
    "demonstration": {"file": "demo_test.go", "copy_to": dest, "command": f"go test -vet=off -count=1 -run '{run}' {pkg}"},
    "confirmed_by_me": confirm,
    "how_confirmed": "tools/confirm_seed.sh in a scratch worktree of /repo HEAD: demo passes without the change, fails with it, pinned baseline suite (1299 tests) unchanged with it",
    "caught_by_checks": caught,
    "caught_by_own_property_check": prop in caught,
}
json.dump(meta, open(f'{out}/meta.json', 'w'), indent=1)
print(sid, "caught by", sorted(caught), "own:", prop in caught)
