#!/bin/sh
# usage: overlay_checks_on_patch.sh <patch.diff> [props...] — triage without touching /repo: the patch is applied in a scratch
# worktree, the changed files are handed to kvet as an in-memory overlay of /repo. (The stored detection record of a seeded
# change is always produced by applying the patch to /repo itself: tools/store_seed.py, tools/refresh_seeds.py.)
PATCH=$1; shift
PROPS=${*:-$(cd /verif && ${KVET_BIN:-bin/kvet} list)}
WT=$(mktemp -d /tmp/ovl-wt-XXXXXX); rmdir $WT
git -C /repo worktree add -q --detach $WT HEAD || exit 2
trap 'git -C /repo worktree remove --force $WT >/dev/null 2>&1; rm -f $OV' EXIT
git -C $WT apply "$PATCH" || { echo "patch does not apply"; exit 2; }
OV=$(mktemp /tmp/ovl-XXXXXX.json)
python3 - "$WT" "$OV" <<'PY'
import sys, json, subprocess
wt, ov = sys.argv[1:3]
files = subprocess.run(['git','-C',wt,'diff','--name-only','HEAD'],capture_output=True,text=True).stdout.split()
files += subprocess.run(['git','-C',wt,'ls-files','--others','--exclude-standard'],capture_output=True,text=True).stdout.split()
import os
rep = {}
for f in sorted(set(files)):
    if not f.endswith('.go'): continue
    rep["/repo/"+f] = (wt+"/"+f) if os.path.exists(wt+"/"+f) else ""
json.dump({"Replace": rep}, open(ov,'w'))
PY
run1() {
  p=$1
  out=$(cd /verif && ${KVET_BIN:-bin/kvet} check -prop $p -no-evidence -overlay $OV 2>&1); rc=$?
  if [ $rc -ne 0 ]; then echo "== $p rc=$rc"; echo "$out" | grep -E "^  (violated|unresolved)|load failed|^inline:|left alone|not expanded|at the call site|means another" | cut -c1-260; fi
}
TMPD=$(mktemp -d /tmp/ovl-out-XXXXXX)
n=0
for p in $PROPS; do
  run1 $p > $TMPD/$p.txt 2>&1 &
  n=$((n+1))
  if [ $((n % 10)) -eq 0 ]; then wait; fi
done
wait
for p in $PROPS; do cat $TMPD/$p.txt; done
rm -rf $TMPD
