#!/bin/sh
# usage: run_checks_on_patch.sh <patch.diff> [props...]  — applies the patch to /repo, runs the quick checks, undoes it.
PATCH=$1; shift
PROPS=${*:-$(cd /verif && bin/kvet list)}
cd /repo && git diff --quiet || { echo "/repo not clean"; exit 2; }
git -C /repo apply "$PATCH" || { echo "patch does not apply"; exit 2; }
for p in $PROPS; do
  out=$(cd /verif && bin/kvet check -prop $p -no-evidence 2>&1); rc=$?
  if [ $rc -ne 0 ]; then echo "== $p rc=$rc"; echo "$out" | grep -E "^  (violated|unresolved)|load failed" | cut -c1-260; fi
done
git -C /repo checkout -- . && echo "(repo restored)"
