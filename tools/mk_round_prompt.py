#!/usr/bin/env python3
# usage: mk_round_prompt.py <prop>... — writes /tmp/agent4-<prop>.txt: the seeding prompt of a later round, which lists the
# functions touched by the changes already stored for the property (from seeded/*/patch.diff) and asks for changes elsewhere.
import json,re,sys,glob,os,subprocess
props={}
for l in open('/verif/properties.jsonl'):
    d=json.loads(l); props[d['id']]=d
def funcs_for(patch):
    out=set(); cur=None
    lines=open(patch).read().split('\n')
    i=0
    while i<len(lines):
        l=lines[i]
        if l.startswith('--- a/'): cur=l[6:].strip()
        m=re.match(r'^@@ -(\d+)',l)
        if m and cur and cur.endswith('.go'):
            # file at fix-parent may differ; use git show HEAD:file
            try: src=subprocess.check_output(['git','-C','/repo','show','HEAD:'+cur],text=True).split('\n')
            except Exception: i+=1; continue
            ln=int(m.group(1)); j=i+1
            while j<len(lines) and not lines[j].startswith(('@@','diff --git')):
                h=lines[j]
                if h.startswith('-') or h.startswith('+'):
                    k=min(ln-1,len(src)-1)
                    while k>=0 and not src[k].startswith('func '): k-=1
                    if k>=0:
                        mm=re.match(r'func\s*(\([^)]*\))?\s*([A-Za-z0-9_]+)',src[k])
                        if mm: out.add((cur,mm.group(2)))
                if not h.startswith('+'): ln+=1
                j+=1
        i+=1
    return out
for p in sys.argv[1:]:
    fs=set()
    for d in glob.glob(f'/verif/seeded/{p}-*'):
        fs|=funcs_for(d+'/patch.diff')
    t=open('/verif/tools/agent_prompt2.tmpl').read()
    d=props[p]
    text=d.get('title','')+'\n\n'+d.get('statement',d.get('description',''))
    guid='Additional guidance for this round: three earlier rounds of this exercise already seeded defects in the following files/functions. Do NOT put a change in any of these functions; find the property\'s OTHER dependencies — secondary files, helper types, encoders/decoders, constructors, caches, peer bookkeeping, storage keys, configuration defaults, copy/clone methods, comparison/ordering helpers, iterators, error paths, callers that pass the arguments — and break the property there:\n'+''.join(f'  - {f}: {n}\n' for f,n in sorted(fs))+'The three changes must be in three different functions, none of them listed above.'
    t=re.sub(r'Additional guidance for this round:.*?three different functions\.',lambda m:guid,t,flags=re.S)
    t=t.replace('__WT__',f'/tmp/wt4-{p}').replace('__PROP__',text)
    open(f'/tmp/agent4-{p}.txt','w').write(t)
    print(p,len(fs))
