#!/bin/sh
# usage: confirm_store.sh <wtprefix> <prop> <idx> <newid> <dest> <pkg> <run> [demofile]
WT=$1; P=$2; I=$3; ID=$4; DEST=$5; PKG=$6; RUN=$7; DEMO=${8:-demo_test.go}
cd /verif
out=$(tools/confirm_seed.sh /tmp/$WT-$P/_out/$I/patch.diff /tmp/$WT-$P/_out/$I/$DEMO $DEST $PKG "$RUN" 2>&1)
echo "### $ID"; echo "$out"; echo "$out" > /tmp/confirm-$ID.txt
