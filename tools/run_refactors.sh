#!/bin/sh
# usage: run_refactors.sh [dirs...] — every stored behaviour-preserving refactoring (refactors/*/patch.diff, written by
# sub-agents that saw only a property's text) is checked, as an in-memory overlay of /repo, against ALL registered checks;
# any violation is a false alarm of the machinery. Prints one line per refactoring; exit 1 if any check reported anything.
cd /verif
rc=0
for d in ${*:-refactors/*/}; do
  out=$(tools/overlay_checks_on_patch.sh /verif/$d/patch.diff 2>&1)
  if [ -n "$out" ]; then echo "FALSE-ALARM $d"; echo "$out" | cut -c1-240; rc=1; else echo "silent $d"; fi
done
exit $rc
