#!/bin/sh
# usage: confirm_seed.sh <patch.diff> <demo_test.go> <dest path relative to repo> <go package path (./x/y)> <run regex>
# Confirms a seeded change in a scratch worktree: demo passes without it, fails with it, baseline suite unchanged.
set -u
PATCH=$1; DEMO=$2; DEST=$3; PKG=$4; RUN=$5
WT=/tmp/confirm-wt-$$
export GOFLAGS=-mod=mod GOPROXY=off GOSUMDB=off GOTOOLCHAIN=local
git -C /repo worktree add -q --detach $WT HEAD || exit 2
trap 'git -C /repo worktree remove --force $WT >/dev/null 2>&1' EXIT
cp "$DEMO" $WT/$DEST
(cd $WT && go test -vet=off -count=1 -run "$RUN" $PKG >/tmp/confirm-clean.$$ 2>&1); RC_CLEAN=$?
git -C $WT apply "$PATCH" || { echo "PATCH DOES NOT APPLY"; exit 2; }
(cd $WT && go test -vet=off -count=1 -run "$RUN" $PKG >/tmp/confirm-seeded.$$ 2>&1); RC_SEED=$?
rm -f $WT/$DEST
/verif/tools/baseline.sh $WT > /tmp/confirm-base.$$ 2>&1; RC_BASE=$?
echo "demo without change: rc=$RC_CLEAN ($(tail -1 /tmp/confirm-clean.$$))"
echo "demo with change:    rc=$RC_SEED ($(grep -m1 -E -- '--- FAIL|panic:|FAIL' /tmp/confirm-seeded.$$))"
echo "baseline with change: rc=$RC_BASE ($(head -1 /tmp/confirm-base.$$))"
rm -f /tmp/confirm-clean.$$ /tmp/confirm-seeded.$$ /tmp/confirm-base.$$
[ $RC_CLEAN -eq 0 ] && [ $RC_SEED -ne 0 ] && [ $RC_BASE -eq 0 ] && echo CONFIRMED || echo NOT-CONFIRMED
