#!/usr/bin/env python3
"""Regenerates /verif/MANIFEST.json from the table below (run after adding a property's rule file)."""
import json, os, subprocess

NOTE = ("Static analysis only: the deciding step loads /repo's current working tree with go/packages, builds go/ssa and "
        "decides structural necessary conditions of the property (guard dominance, ordering, who-may-call/write, field "
        "coverage, table agreement). It does not run the code. Trusted: go/types, go/ssa, VTA call graph, kvet and its anchor tables. "
        "Value/history-level clauses listed in evidence coverage.explanation under NOT DECIDED are not claimed.")

# property -> (technique, level text, design ref)
CLAIMED = {
 "C01": ("guard-dominance (edge-removal reachability on SSA CFG) + who-may-call over the resolved program",
         "Decides that on every path of the commit functions and of the block-sync processor a block is saved/applied only behind the +2/3-precommit, hash/parts match, validation and verifyCommit guards, and that nothing else can reach ApplyBlock/SaveBlock; universal over executions of those functions, but says nothing about cross-node histories.",
         "DESIGN.md §4 C01"),
 "C02": ("algebraic normal form of every comparison against TotalVotingPower() + guard-dominance on tally/majority stores + key-covers-equality field sets",
         "Decides that every quorum comparison in the module has the strict >2/3 form, that power is tallied once per validator and only after verification, that maj23 is set only on the crossing, that VerifyCommit/MakeCommit obey their guards, and that the tally map key covers block-id equality; universal over executions of these functions, not a proof about vote histories.",
         "DESIGN.md §4 C02"),
 "C05": ("must-precede / must-follow ordering on SSA CFGs, guard-dominance, fsync must-pass-through over the resolved call chain, single-batch writer discipline, publish-last ordering over the VTA call tree (writer order vs the recovery reader's dereference chain)",
         "Decides the write-ahead, fsync-before-act, save→end-marker→apply and atomic-batch shapes on every path, the catch-up replay guards, and whether every record recovery dereferences from the head height is written before the head marker (flags the consensus-state record as an open finding). Does not decide post-crash store consistency or double-sign freedom over crash points.",
         "DESIGN.md §4 C05"),
 "C04": ("exhaustiveness of the timeout table (scheduled step constants against handleTimeout's cases), must-pass-through of scheduleTimeout behind each step's entry guard, guard/operand checks of round skipping, rotation amount, committed-block fetching and next-height scheduling, staleness filters of handler and ticker in normal form, inventory of blocking channel operations reachable under the consensus state lock, lock pairing",
         "Decides structural necessary conditions of progress only: every wait the state machine enters has a scheduled wake-up that handleTimeout handles and that moves to the next step or round; stale-timeout filters drop only strictly older requests; +2/3 of a later round makes the node skip to it with the proposer rotated by the rounds skipped; a commit for an unknown block installs the part set to fetch it and completing it finalises; a committed height schedules the next; nothing reachable from handleMsg/handleTimeout blocks on a channel while the state lock is held (one tabled buffered send); every lock is released on every path. Does not decide termination within a bounded number of rounds, a fresh network's first block, absence of livelock, or timing — those are quantified over schedules and are out of reach of a static argument.",
         "DESIGN.md §4 C04"),
 "C06": ("effect/determinism lint over the call tree of block execution (VTA call graph, ~960 functions): map-iteration loops classified by their order-sensitive sinks (accumulating appends without a later sort, hash/buffer/stream writes, log records, sends) against a frozen reason table; forward def-use tracking of wall-clock/random/environment values to metrics/log/tracer sinks; goroutine-start inventory; ordering and operand rules for sequential transaction application; sort-before-scan and total-order comparator checks for validator updates; who-may-read of the HTTP-fetched blacklist",
         "Decides structural necessary conditions of deterministic execution: no map iteration order, clock, random or environment value reachable from CommitAndValidateBlockTxs/updateState can reach results (only metrics, logs, tracer callbacks, GC timing), goroutines on the path are joined or result-neutral (tabled), transactions are applied one by one in block order with their index and failed ones reverted, block info is built from receipts in that order, validator changes are copied and sorted before use and the resulting set sorted by a total order, and the application's validator list reaches consensus only through that path. Does not decide result equality across cache/snapshot/prefetcher configurations and runs, the staking contract's bytecode, or data races.",
         "DESIGN.md §4 C06"),
 "C07": ("ownership (copy-on-write) classification of every store into a trie node, ordering copy-then-fresh-flags, guard-dominance of the node constructions of insert/delete (shape rules), sibling agreement of node encoder/decoder/hasher/stack trie and compact-key tables, value-identity checks of proof construction and verification",
         "Decides structural necessary conditions of a canonical authenticated map: no shared node or key is modified in place, every node created or copied by insert/delete is dirty without a cached hash, unchanged subtrees are returned as they were, delete never leaves a short node above a short node or a one-child branch, empty values delete, the root changes only after success, the 17/2-item codec with compact keys and the 32-byte embedding rule agree across encoder, decoder, hasher and stack trie, Prove stores every element under the hash of its encoding and VerifyProof follows exactly the wanted hash. Does not decide get-after-update, order independence, equality with a reference or the stack trie, reopen equality, or rejection of tampered proofs by VerifyProof itself (it trusts a hash-keyed proof store).",
         "DESIGN.md §4 C07"),
 "C08": ("effect analysis (field mutation sets through callees and map/slice parameters) comparing what each journalling operation changes with what the appended entry's revert writes; def-before-mutation ordering of recorded previous values; who-may-write classification of every writer of journalled fields; operand tables of the revert methods; guard/ordering rules of the undo loop and revision stack; alias check of Copy/deepCopy",
         "Decides the structural necessary conditions of exact revert: every change made by a journalling operation is in the write set of the entry it appends, previous values are captured before being overwritten and handed to the matching setter, journalled fields have no writer outside reverts, journalling operations, their setters and a frozen lifecycle table, the undo loop runs newest-first down to and including the snapshot index with symmetric dirty counting, the revision stack is truncated, and copies share no mutable container. Does not decide equality of reverted observables over all histories, root equality with a fresh replay, or trie/snapshot read-back.",
         "DESIGN.md §4 C08"),
 "C09": ("guard-dominance on pre-checks, acquire/release pairing of the block gas pool over all exits, once-per-path nonce increment, snapshot/revert pairing in call frames, operand-shape checks of refund/fee/transfer arithmetic",
         "Decides that gas is bought only behind nonce/balance/pool checks for gas*price, that every exit after the purchase returns the remainder to the pool (three early error returns are open findings), one nonce bump per executed path, the min(gasUsed/2, refund) shape, fee after refund on gasUsed*price, snapshot-before-mutation and revert-on-error in all five frame functions, and revert-and-skip of failing transactions in block commit. Does not decide the balance-sum equation over arbitrary bytecode.",
         "DESIGN.md §4 C09"),
 "C10": ("table cross-check: jump-table literals (AST, helper calls constant-folded) vs a Yellow-Paper arity/flag table shipped with the checker vs an abstract interpretation of every instruction implementation over the stack-depth domain (closures with bound constants, loops unrolled by constant propagation); guard-dominance in the interpreter loop and frame functions",
         "Decides for all 140 opcodes that declared stack bounds equal the specification, that each implementation touches at most `pops` items and changes the height by pushes-pops on every success exit, that memory/gas helpers look no deeper, that memory use implies a size function and state mutation implies the writes flag, and that the interpreter executes only behind opcode/stack/read-only/gas/memory guards with depth-limited, read-only-propagating frames and validated jumps. Does not decide equivalence with a reference EVM or absence of all implicit panics.",
         "DESIGN.md §4 C10"),
 "C11": ("field-flow coverage of the canonical sign-bytes builders and signing hashes + sign/verify sibling agreement (same canonicaliser callee) + guard-dominance on recovery and signature-value checks",
         "Decides that every field of the signed canonical vote/proposal comes from the message (flags the hard-coded vote type as an open finding), that all sign and verify sites hash the same canonical bytes, that VerifySignature/Vote.Verify bind the signer, and that transaction signing hashes cover all fields with chain-id and high-s rejection before recovery. Cryptographic strength is trusted, not decided.",
         "DESIGN.md §4 C11"),
 "C12": ("sparse conditional constant propagation (int64 wrap-around + type-extreme facts) for dead numeric guards, operand-shape checks of the rotation arithmetic, verify-before-mutate ordering and guard-dominance in the update pipeline",
         "Decides that no guard in the rotation/update arithmetic is constant (flags the dead max/min scan of the priority window as an open finding), that the increment/rescale/centre/newcomer formulas have the specified operands and constants, that the update pipeline checks everything before its first mutation, and that consensus state advances the next set by one increment per block. Does not decide equality with the specification over histories or fairness.",
         "DESIGN.md §4 C12"),
 "C19": ("guard-dominance checklists on evidence verification and pool admission, who-may-call of the unverifying writer, sibling agreement of the ordering key, unit (bytes vs count) agreement of the evidence budget over all call sites, ordering on the commit path",
         "Decides that duplicate-vote evidence is accepted only behind the ten verification guards, against the block time and validator set of its height, only if neither pending nor committed; that consensus builds evidence only from a conflicting-votes error; that construction and validation order votes by the same key; that the pool is asked for a byte budget (fixed finding); and that committed evidence is marked after the state save. Does not decide cross-node acceptance (timestamps) or expiry over histories.",
         "DESIGN.md §4 C19"),
 "C13": ("guard-dominance on part/proof/body checks + encoder/decoder sibling field-flow agreement + memo-key effect-set coverage + constant-table check of Merkle prefixes",
         "Decides that parts enter a part set only behind index, slot, proof and index-binding guards; that proof verification, Block.ValidateBasic and the proposal-block adoption path are complete checklists; that the header encoder covers every field and all hand-written codecs agree field by field; and that the validation memo key covers what the block hash does not. Does not decide byte-identical reassembly for arbitrary arrival orders.",
         "DESIGN.md §4 C13"),
 "C14": ("save/load field-coverage and name-agreement of the consensus-state records, encoder/decoder sibling agreement of the validator-set codecs, content-address key covers stored fields (effect sets), one key function per record kind",
         "Decides that the loader assigns every state field from the record the saver writes under the like-named hash, that validator-set/validator codecs carry priorities, proposer and power both ways, that a content-addressed record's key covers what it stores (flags the validators-info record keyed by a membership hash as an open finding), and that each record kind has one key function with distinct prefixes. Does not decide pruning safety or value equality over histories.",
         "DESIGN.md §4 C14"),
 "C15": ("guard-dominance in the frame decoder (size before allocation, CRC before unmarshal), encoder/decoder framing agreement (offsets, byte order, table, limit), kind and field coverage of the WAL/message codecs, structural guards of the end-height search and of replay/repair, ordering in rotation, lock pairing",
         "Decides that decoding allocates only within the size limit and unmarshals only behind a matching CRC with every non-EOF failure reported as corruption; that encoder and decoder frame identically; that both codecs handle the same kinds and all fields; that the end-height search reports only exact matches and takes its shortcut only for a positive lower height; that replay ends normally only on EOF and repair stops at the first error; and rotation order. Does not decide CRC detection strength or reader positions.",
         "DESIGN.md §4 C15"),
 "C16": ("table cross-check of the header grammar (stream decoder, slice decoder, encoders against the RLP specification constants), guard-dominance of every accepting exit behind the canonical-form tests, guarded counter decrements and Kind-checked allocation sizes, big-endian ladder tables, sibling agreement of stream encoders with the struct their decoder reads and field-flow of wrapper codecs",
         "Decides the structural necessary conditions of canonical RLP: tag classes, offsets and the 56 threshold agree across decoder, raw splitter and encoders; integers, strings, byte arrays, big integers, bools and sizes are accepted only behind the leading-zero, wrapped-single-byte, long-form-for-short and overflow tests; sizes are compared with list and input limits before any size-dependent allocation and before counters are decreased; DecodeBytes/ListEnd/struct/array decoders reject trailing, unread or missing elements; generated and hand-written encoders match their struct; wrapper codecs and hashes carry the same fields. Does not decide round-trip equality or rejection over all values/strings, equality with the reference implementation, or implicit panics.",
         "DESIGN.md §4 C16"),
 "C17": ("guard-dominance checklists (validation, admission, replacement), ordering of promotion/demotion filters, guarded-by lockset with caller-propagated lock summaries for the pool mutex, lock pairing",
         "Decides that validateTx is a complete checklist against the pool's state view, that add mutates the pool only for unknown validated transactions and replaces only with the price bump, that promotion/demotion apply forward/filter/ready (and the gap rule) before moving transactions, that truncation exempts locals, and that guarded pool state is only touched with the pool mutex held from every entry point. Does not decide the pool invariant over operation sequences.",
         "DESIGN.md §4 C17"),
 "C18": ("guard-dominance (decode/validate before use, bounds checklists), failure-side ordering (peer stopped before return), nil-tolerance of callees on possibly-nil receivers, lock pairing over all paths, who-may-write of the bit-array representation",
         "Decides the structural defences against hostile peer input: recover-based containment in the receive routine, decode-then-validate dominance in all five reactors, complete per-message bound checklists (including the bit-array representation invariant and the proposal part count), capacity-guarded reassembly and framing, nil-safe use of the initial height's nil last commit, and release of every lock on every path in 17 packages. Does not decide absence of every implicit run-time panic.",
         "DESIGN.md §4 C18"),
 "C03": ("guard-dominance + typestate constants + once-per-path ordering + who-may-sign call-site sets",
         "Decides, for every path through the consensus step functions, that signing happens only from the state machine, at most once per step, behind the step guards, the polka guard and the lock guard, and that validateBlock is a complete checklist; does not decide what the vote sets contain at run time.",
         "DESIGN.md §4 C03"),
 "C20": ("guard-dominance on handshake acceptance and frame release, seal/increment/write ordering and once-per-path, operand-shape checks of transcript, key direction and packetisation, critical-section and ownership (who-may-write/call) rules",
         "Decides that the handshake records and returns only a key whose signature over the transcript challenge verified (with the transcript absorbing both ephemeral keys and the DH secret first), that every seal is followed by a nonce increment before the write, that received plaintext and the receive nonce move only behind successful authentication and the size bound, that both directions run under their mutex, and that packetisation/reassembly carry exactly the bytes, mark EOF exactly when the remainder fits, respect capacity, start fresh buffers and are owned by their routines. Does not decide delivery semantics under interleavings or cipher security.",
         "DESIGN.md §4 C20"),
}

PENDING = {}
for i in range(1, 21):
    pid = "C%02d" % i
    if pid not in CLAIMED:
        PENDING[pid] = "rule file for this property is not built yet in this tree (work in progress; see DESIGN.md §4 for the planned structural clauses)"

# genuinely not applicable entries override PENDING texts here
NOT_APPLICABLE = {}

def main():
    checks = []
    for pid in sorted(CLAIMED):
        tech, text, ref = CLAIMED[pid]
        checks.append({
            "property_id": pid,
            "quick_cmd": "./check.sh %s quick" % pid,
            "thorough_cmd": "./check.sh %s thorough" % pid,
            "evidence_file": "/verif/evidence/%s.json" % pid,
            "replay_cmd_template": "bin/kvet explain {path}",
            "engine": "kvet",
            "level_claimed": {"category": "other", "text": text, "design_ref": ref},
            "level_note": NOTE,
            "technique": "static analysis: " + tech,
        })
    na = []
    for pid in sorted(set(PENDING) | set(NOT_APPLICABLE)):
        if pid in CLAIMED:
            continue
        na.append({"property_id": pid, "reason": NOT_APPLICABLE.get(pid, PENDING.get(pid))})
    m = {
        "version": 1,
        "setup_cmd": "cd /verif/kvet && GOFLAGS=-mod=vendor GOPROXY=off GOSUMDB=off GOTOOLCHAIN=local GOWORK=off go build -o ../bin/kvet .",
        "hooks": {
            "guard": "verif",
            "enable": "no hooks: the analysis reads the product source as it is; nothing in /repo is instrumented",
            "baseline_off_cmd": "cd /repo && GOFLAGS=-mod=mod GOPROXY=off GOSUMDB=off go test -vet=off -count=1 -timeout 25m ./...",
            "source_commits": [],
            "add_only": True,
        },
        "engines": [{"name": "kvet", "path": "/verif/kvet", "serves_properties": sorted(CLAIMED),
                     "kind_free_text": "repository-specific static checker over go/packages + go/ssa + VTA call graph (golang.org/x/tools v0.29.0, vendored)"}],
        "checks": checks,
        "notes": "All claims are at level 'other': structural necessary conditions decided from source. thorough = quick + rule re-run under -tags deadlock and -tags gofuzz + seeded-mutant controls (/verif/controls) applied as in-memory overlays. Known genuine defects: /verif/known_findings.json.",
        "not_applicable": na,
    }
    json.dump(m, open("/verif/MANIFEST.json", "w"), indent=1)
    print("claimed:", len(checks), "not_applicable:", len(na))

if __name__ == "__main__":
    main()
